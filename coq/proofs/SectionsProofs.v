(* Lemmas about load_section_plugins / load_configuration (model/Sections.v). *)
From Coq Require Import List Arith Bool Permutation Lia Relations.
From Cobald Require Import model.Toposort model.Sections proofs.ToposortProofs.
Import ListNotations.

(* ---------- readings ---------- *)
Definition unique_sections (es : list plugin) : Prop := NoDup (map section es).
Definition no_extras (es : list plugin) : Prop := forall p, In p es -> extras p = false.

(* `a` must be digested before `b` according to some installed plugin's constraints
   (self constraints are dropped by toposort) *)
Definition edge (es : list plugin) (a b : name) : Prop :=
  a <> b /\ exists p, In p es /\
    ((section p = b /\ In a (after p)) \/ (section p = a /\ In b (before p))).

(* the constraint graph over ALL names mentioned, installed or not, has no cycle *)
Definition acyclic (es : list plugin) : Prop := forall x, ~ clos_trans name (edge es) x x.

(* q must run before p, both installed *)
Definition must_precede (q p : plugin) : Prop :=
  section q <> section p /\ (In (section q) (after p) \/ In (section p) (before q)).

(* ---------- the plugin dict ---------- *)
Lemma pd_set_fresh : forall d k v, ~ In k (map fst d) -> pd_set d k v = d ++ [(k, v)].
Proof.
  induction d as [|[k' v'] r IH]; intros k v H; cbn [pd_set app]; [reflexivity|].
  destruct (Nat.eqb k k') eqn:E.
  - apply Nat.eqb_eq in E. subst. exfalso. apply H. left. reflexivity.
  - rewrite IH; [reflexivity|]. intros Hin. apply H. right. exact Hin.
Qed.

Lemma mk_plugins_acc : forall es acc,
  NoDup (map fst acc ++ map section es) ->
  fold_left (fun d p => pd_set d (section p) p) es acc = acc ++ map (fun p => (section p, p)) es.
Proof.
  induction es as [|p r IH]; intros acc H; cbn [fold_left map]; [rewrite app_nil_r; reflexivity|].
  cbn [map] in H. rewrite pd_set_fresh.
  - rewrite IH.
    + rewrite <- app_assoc. reflexivity.
    + rewrite map_app. cbn [map fst]. rewrite <- app_assoc. exact H.
  - apply NoDup_remove_2 in H. intros Hin. apply H. apply in_or_app. left. exact Hin.
Qed.

Lemma mk_plugins_unique : forall es, unique_sections es ->
  mk_plugins es = map (fun p => (section p, p)) es.
Proof. intros es H. unfold mk_plugins. rewrite mk_plugins_acc; [reflexivity|exact H]. Qed.

Lemma pd_get_map_In : forall es p, NoDup (map section es) -> In p es ->
  pd_get (map (fun p => (section p, p)) es) (section p) = Some p.
Proof.
  induction es as [|q r IH]; intros p Hnd Hin; [destruct Hin|].
  cbn [map pd_get]. cbn [map] in Hnd. inversion Hnd as [|? ? Hq Hr]; subst.
  destruct Hin as [->|Hin]; [rewrite Nat.eqb_refl; reflexivity|].
  destruct (Nat.eqb (section p) (section q)) eqn:E.
  - apply Nat.eqb_eq in E. exfalso. apply Hq. rewrite <- E. apply in_map. exact Hin.
  - apply IH; assumption.
Qed.

Lemma pd_get_map_nIn : forall es n, ~ In n (map section es) ->
  pd_get (map (fun p => (section p, p)) es) n = None.
Proof.
  induction es as [|q r IH]; intros n H; cbn [map pd_get]; [reflexivity|].
  destruct (Nat.eqb n (section q)) eqn:E.
  - apply Nat.eqb_eq in E. exfalso. apply H. left. symmetry. exact E.
  - apply IH. intros Hin. apply H. right. exact Hin.
Qed.

(* ---------- the dependency map ---------- *)
Lemma has_add_dep : forall d k v k' e,
  has (add_dep d k v) k' e <-> has d k' e \/ (k' = k /\ e = v).
Proof.
  induction d as [|[k0 s] r IH]; intros k v k' e; cbn [add_dep].
  - unfold has. split.
    + intros [dep [[E|[]] He]]. inversion E; subst. destruct He as [<-|[]]. right. split; reflexivity.
    + intros [[dep [[] _]]|[-> ->]]. exists [v]. split; left; reflexivity.
  - destruct (Nat.eqb k k0) eqn:E.
    + apply Nat.eqb_eq in E. subst k0. unfold has. split.
      * intros [dep [[E|Hin] He]].
        -- inversion E; subst. destruct He as [<-|He]; [right; split; reflexivity|].
           left. exists s. split; [left; reflexivity|exact He].
        -- left. exists dep. split; [right; exact Hin|exact He].
      * intros [[dep [[E|Hin] He]]|[-> ->]].
        -- inversion E; subst. exists (v :: dep). split; [left; reflexivity|right; exact He].
        -- exists dep. split; [right; exact Hin|exact He].
        -- exists (v :: s). split; left; reflexivity.
    + split.
      * intros [dep [[E'|Hin] He]].
        -- inversion E'; subst. left. exists dep. split; [left; reflexivity|exact He].
        -- assert (Hh : has (add_dep r k v) k' e) by (exists dep; split; assumption).
           apply IH in Hh. destruct Hh as [[dep' [Hin' He']]|Hh]; [|right; exact Hh].
           left. exists dep'. split; [right; exact Hin'|exact He'].
      * intros [[dep [[E'|Hin] He]]|Hh].
        -- inversion E'; subst. exists dep. split; [left; reflexivity|exact He].
        -- assert (Hh : has (add_dep r k v) k' e) by (apply IH; left; exists dep; split; assumption).
           destruct Hh as [dep' [Hin' He']]. exists dep'. split; [right; exact Hin'|exact He'].
        -- assert (Hh' : has (add_dep r k v) k' e) by (apply IH; right; exact Hh).
           destruct Hh' as [dep' [Hin' He']]. exists dep'. split; [right; exact Hin'|exact He'].
Qed.

Lemma keys_add_dep : forall d k v,
  keys (add_dep d k v) = if mem k (keys d) then keys d else keys d ++ [k].
Proof.
  induction d as [|[k0 s] r IH]; intros k v; cbn [add_dep]; [reflexivity|].
  unfold keys, mem in *. cbn [map fst existsb]. destruct (Nat.eqb k k0) eqn:E; cbn [orb map fst].
  - reflexivity.
  - rewrite IH. destruct (existsb (Nat.eqb k) (map fst r)); reflexivity.
Qed.

Lemma NoDup_keys_add_dep : forall d k v, NoDup (keys d) -> NoDup (keys (add_dep d k v)).
Proof.
  intros d k v H. rewrite keys_add_dep. destruct (mem k (keys d)) eqn:E; [exact H|].
  apply mem_nIn in E. apply NoDup_app_intro; [exact H|repeat constructor; intros []|].
  intros x Hx [<-|[]]. contradiction.
Qed.

Lemma keys_add_dep_incl : forall d k v, incl (keys d) (keys (add_dep d k v)).
Proof.
  intros d k v x Hx. rewrite keys_add_dep. destruct (mem k (keys d)); [exact Hx|].
  apply in_or_app. left. exact Hx.
Qed.

Definition add_all (d : dict) (l : list (name * name)) : dict :=
  fold_left (fun d kv => add_dep d (fst kv) (snd kv)) l d.

Lemma add_all_cons : forall d kv r, add_all d (kv :: r) = add_all (add_dep d (fst kv) (snd kv)) r.
Proof. reflexivity. Qed.

Lemma has_add_all : forall l d k e, has (add_all d l) k e <-> has d k e \/ In (k, e) l.
Proof.
  induction l as [|[k0 v0] r IH]; intros d k e.
  - cbn. split; [intros H; left; exact H|intros [H|[]]; exact H].
  - rewrite add_all_cons, IH, has_add_dep. cbn [fst snd]. split.
    + intros [[H|[-> ->]]|H]; [left; exact H|right; left; reflexivity|right; right; exact H].
    + intros [H|[E|H]]; [left; left; exact H|inversion E; left; right; split; reflexivity|right; exact H].
Qed.

Lemma NoDup_keys_add_all : forall l d, NoDup (keys d) -> NoDup (keys (add_all d l)).
Proof.
  induction l as [|[k0 v0] r IH]; intros d H; [exact H|].
  rewrite add_all_cons. apply IH. apply NoDup_keys_add_dep. exact H.
Qed.

Lemma keys_add_all_incl : forall l d, incl (keys d) (keys (add_all d l)).
Proof.
  induction l as [|[k0 v0] r IH]; intros d; [apply incl_refl|].
  rewrite add_all_cons. eapply incl_tran; [apply keys_add_dep_incl|apply IH].
Qed.

Definition before_pairs (ps : list plugin) : list (name * name) :=
  flat_map (fun p => map (fun b => (b, section p)) (before p)) ps.

Lemma dependencies_add_all : forall ps,
  dependencies ps = add_all (map (fun p => (section p, after p)) ps) (before_pairs ps).
Proof.
  intros ps. unfold dependencies, add_all, before_pairs.
  generalize (map (fun p => (section p, after p)) ps) as d.
  induction ps as [|p r IH]; intros d; cbn [fold_left flat_map]; [reflexivity|].
  rewrite fold_left_app, IH. f_equal.
  generalize d as d0. induction (before p) as [|b bs IHb]; intros d0; cbn [fold_left map fst snd]; [reflexivity|].
  apply IHb.
Qed.

Lemma has_deps0 : forall ps k e,
  has (map (fun p => (section p, after p)) ps) k e <->
  exists p, In p ps /\ section p = k /\ In e (after p).
Proof.
  intros ps k e. unfold has. split.
  - intros [dep [Hin He]]. apply in_map_iff in Hin. destruct Hin as [p [E Hp]]. inversion E; subst.
    exists p. split; [exact Hp|split; [reflexivity|exact He]].
  - intros [p [Hp [<- He]]]. exists (after p). split; [|exact He].
    apply in_map_iff. exists p. split; [reflexivity|exact Hp].
Qed.

Lemma In_before_pairs : forall ps k e,
  In (k, e) (before_pairs ps) <-> exists p, In p ps /\ section p = e /\ In k (before p).
Proof.
  intros ps k e. unfold before_pairs. rewrite in_flat_map. split.
  - intros [p [Hp Hin]]. apply in_map_iff in Hin. destruct Hin as [b [E Hb]]. inversion E; subst.
    exists p. split; [exact Hp|split; [reflexivity|exact Hb]].
  - intros [p [Hp [<- Hb]]]. exists p. split; [exact Hp|]. apply in_map_iff. exists k. split; [reflexivity|exact Hb].
Qed.

(* core/config.py:63-68, characterised *)
Lemma has_dependencies : forall ps k e,
  has (dependencies ps) k e <->
  (exists p, In p ps /\ section p = k /\ In e (after p)) \/
  (exists p, In p ps /\ section p = e /\ In k (before p)).
Proof.
  intros ps k e. rewrite dependencies_add_all, has_add_all, has_deps0, In_before_pairs. reflexivity.
Qed.

Lemma keys_deps0 : forall ps, keys (map (fun p => (section p, after p)) ps) = map section ps.
Proof. intros ps. unfold keys. rewrite map_map. reflexivity. Qed.

Lemma NoDup_keys_dependencies : forall ps, unique_sections ps -> NoDup (keys (dependencies ps)).
Proof.
  intros ps H. rewrite dependencies_add_all. apply NoDup_keys_add_all. rewrite keys_deps0. exact H.
Qed.

Lemma sections_in_dependencies : forall ps, incl (map section ps) (keys (dependencies ps)).
Proof.
  intros ps. rewrite dependencies_add_all, <- keys_deps0. apply keys_add_all_incl.
Qed.

Lemma dependencies_sound : forall ps k e, has (dependencies ps) k e -> e <> k -> edge ps e k.
Proof.
  intros ps k e Hh Hne. split; [exact Hne|]. apply has_dependencies in Hh.
  destruct Hh as [[p [Hp [Hs He]]]|[p [Hp [Hs Hk]]]]; exists p; split; try exact Hp; [left|right]; tauto.
Qed.

(* ---------- picking the installed plugins ---------- *)
Lemma flat_map_pick_sections : forall es l, NoDup (map section es) -> incl l es ->
  flat_map (pick (map (fun p => (section p, p)) es)) (map section l) = l.
Proof.
  intros es l Hnd. induction l as [|p r IH]; intros Hincl; cbn [map flat_map]; [reflexivity|].
  unfold pick at 1. rewrite pd_get_map_In; [|exact Hnd|apply Hincl; left; reflexivity].
  cbn [app]. rewrite IH; [reflexivity|]. intros x Hx. apply Hincl. right. exact Hx.
Qed.

Lemma flat_map_pick_absent : forall es l, (forall n, In n l -> ~ In n (map section es)) ->
  flat_map (pick (map (fun p => (section p, p)) es)) l = [].
Proof.
  intros es. induction l as [|n r IH]; intros H; cbn [flat_map]; [reflexivity|].
  unfold pick at 1. rewrite pd_get_map_nIn; [|apply H; left; reflexivity].
  cbn [app]. apply IH. intros m Hm. apply H. right. exact Hm.
Qed.

Lemma pick_all : forall es K, NoDup (map section es) -> NoDup K -> incl (map section es) K ->
  Permutation (flat_map (pick (map (fun p => (section p, p)) es)) K) es.
Proof.
  intros es K Hnd HK Hincl.
  pose proof (partition_perm K (map section es) HK Hnd Hincl) as Hp.
  rewrite (Permutation_flat_map _ Hp). rewrite flat_map_app.
  rewrite flat_map_pick_sections; [|exact Hnd|apply incl_refl].
  rewrite flat_map_pick_absent; [rewrite app_nil_r; apply Permutation_refl|].
  intros n Hn Hin. apply filter_In in Hn. destruct Hn as [_ Hn].
  apply negb_true_iff in Hn. apply mem_nIn in Hn. contradiction.
Qed.

Lemma existsb_extras_false : forall es, no_extras es -> existsb extras es = false.
Proof.
  intros es H. destruct (existsb extras es) eqn:E; [|reflexivity].
  apply existsb_exists in E. destruct E as [p [Hp Ep]]. rewrite (H p Hp) in Ep. discriminate.
Qed.

(* ---------- load_section_plugins ---------- *)
Lemma load_never_out_of_fuel : forall perm es, load_section_plugins perm es <> Err EOutOfFuel.
Proof.
  intros perm es. unfold load_section_plugins. destruct (existsb extras es); [discriminate|].
  unfold toposort_flatten.
  pose proof (toposort_never_out_of_fuel (dependencies (map snd (mk_plugins es)))) as H.
  destruct (toposort (dependencies (map snd (mk_plugins es)))) as [ls|[|]]; try discriminate.
  exfalso. apply H. reflexivity.
Qed.

Lemma map_snd_plugins : forall es, map snd (map (fun p => (section p, p)) es) = es.
Proof. intros es. rewrite map_map. cbn [snd]. apply map_id. Qed.

Lemma order_respects_constraints : forall perm es,
  layer_perms perm -> no_extras es -> unique_sections es -> acyclic es ->
  exists order, load_section_plugins perm es = Ok order
    /\ Permutation order es
    /\ forall p q, In p es -> In q es -> must_precede q p -> before_in q p order.
Proof.
  intros perm es Hperm Hne Hu Hac. unfold load_section_plugins.
  rewrite (existsb_extras_false es Hne), (mk_plugins_unique es Hu), map_snd_plugins.
  destruct (toposort_flatten_spec (edge es) perm (dependencies es) Hac
              (dependencies_sound es) Hperm (NoDup_keys_dependencies es Hu))
    as [names [Hn [Hp Hord]]].
  rewrite Hn. eexists. split; [reflexivity|]. split.
  - rewrite (Permutation_flat_map _ Hp).
    apply pick_all; [exact Hu|apply NoDup_keys_prep; apply NoDup_keys_dependencies; exact Hu|].
    rewrite keys_prep. apply incl_appl. apply sections_in_dependencies.
  - intros p q Hpi Hqi [Hne' Hc].
    apply (before_in_flat_map _ (section q) (section p)).
    + apply Hord; [|exact Hne']. apply has_dependencies.
      destruct Hc as [Hc|Hc]; [left; exists p|right; exists q]; tauto.
    + unfold pick. rewrite pd_get_map_In; [reflexivity|exact Hu|exact Hqi].
    + unfold pick. rewrite pd_get_map_In; [reflexivity|exact Hu|exact Hpi].
Qed.

(* whatever the graph: a successful load is a permutation of the entry points in an order that
   respects every constraint between installed plugins (so cyclic graphs cannot load) *)
Lemma load_ok_sound : forall perm es order,
  layer_perms perm -> unique_sections es ->
  load_section_plugins perm es = Ok order ->
  Permutation order es
  /\ forall p q, In p es -> In q es -> must_precede q p -> before_in q p order.
Proof.
  intros perm es order Hperm Hu. unfold load_section_plugins.
  destruct (existsb extras es); [discriminate|].
  rewrite (mk_plugins_unique es Hu), map_snd_plugins.
  destruct (toposort_flatten perm (dependencies es)) as [names|[|]] eqn:Hn; try discriminate.
  intros E. inversion E; subst order.
  destruct (toposort_flatten_sound perm (dependencies es) names Hperm (NoDup_keys_dependencies es Hu) Hn)
    as [Hp Hord].
  split.
  - rewrite (Permutation_flat_map _ Hp).
    apply pick_all; [exact Hu|apply NoDup_keys_prep; apply NoDup_keys_dependencies; exact Hu|].
    rewrite keys_prep. apply incl_appl. apply sections_in_dependencies.
  - intros p q Hpi Hqi [Hne' Hc].
    apply (before_in_flat_map _ (section q) (section p)).
    + apply Hord; [|exact Hne']. apply has_dependencies.
      destruct Hc as [Hc|Hc]; [left; exists p|right; exists q]; tauto.
    + unfold pick. rewrite pd_get_map_In; [reflexivity|exact Hu|exact Hqi].
    + unfold pick. rewrite pd_get_map_In; [reflexivity|exact Hu|exact Hpi].
Qed.

Lemma before_in_irrefl : forall {A} (a : A) l, NoDup l -> ~ before_in a a l.
Proof.
  intros A a l Hnd [l1 [l2 [l3 ->]]]. apply NoDup_remove_2 in Hnd. apply Hnd.
  apply in_or_app. right. apply in_or_app. right. left. reflexivity.
Qed.

(* ---------- constraints naming plugins that are not installed ---------- *)
Definition installed (es : list plugin) (n : name) : bool := mem n (map section es).

(* the same entry points with every constraint on a name that is not installed removed *)
Definition strip_absent (es : list plugin) : list plugin :=
  map (fun p => mkPlugin (pid p) (section p) (extras p) (required p)
                         (filter (installed es) (before p)) (filter (installed es) (after p)) (ret p)) es.

Lemma sections_strip_absent : forall es, map section (strip_absent es) = map section es.
Proof. intros es. unfold strip_absent. rewrite map_map. reflexivity. Qed.

Lemma pids_strip_absent : forall es, map pid (strip_absent es) = map pid es.
Proof. intros es. unfold strip_absent. rewrite map_map. reflexivity. Qed.

Lemma edge_strip_absent : forall es a b, edge (strip_absent es) a b -> edge es a b.
Proof.
  intros es a b [Hne [p' [Hp' Hc]]]. split; [exact Hne|].
  unfold strip_absent in Hp'. apply in_map_iff in Hp'. destruct Hp' as [p [<- Hp]].
  cbn [section after before] in Hc. exists p. split; [exact Hp|].
  destruct Hc as [[Hs Ha]|[Hs Hb]]; [left|right]; (split; [exact Hs|]).
  - apply filter_In in Ha. tauto.
  - apply filter_In in Hb. tauto.
Qed.

Lemma clos_trans_mono : forall (R S : name -> name -> Prop), (forall a b, R a b -> S a b) ->
  forall a b, clos_trans name R a b -> clos_trans name S a b.
Proof.
  intros R S H a b HR. induction HR as [a b Hab|a b c _ IH1 _ IH2];
    [apply t_step; apply H; exact Hab|eapply t_trans; eassumption].
Qed.

Lemma acyclic_strip_absent : forall es, acyclic es -> acyclic (strip_absent es).
Proof.
  intros es H x Hx. apply (H x). eapply clos_trans_mono; [apply edge_strip_absent|exact Hx].
Qed.

Lemma no_extras_strip_absent : forall es, no_extras es -> no_extras (strip_absent es).
Proof.
  intros es H p' Hp'. unfold strip_absent in Hp'. apply in_map_iff in Hp'. destruct Hp' as [p [<- Hp]].
  cbn [extras]. apply H. exact Hp.
Qed.

Lemma absent_constraints_ignored : forall perm perm' es,
  layer_perms perm -> layer_perms perm' -> no_extras es -> unique_sections es -> acyclic es ->
  exists order order',
    load_section_plugins perm es = Ok order
    /\ load_section_plugins perm' (strip_absent es) = Ok order'
    (* the same plugins are loaded with and without the constraints on absent names *)
    /\ Permutation (map pid order) (map pid order')
    /\ Permutation order es
    (* and only constraints between installed plugins are reflected: the order obtained WITH the
       absent names is an order for the constraints WITHOUT them *)
    /\ forall p q, In p (strip_absent es) -> In q (strip_absent es) -> must_precede q p ->
         before_in (section q) (section p) (map section order).
Proof.
  intros perm perm' es Hp Hp' Hne Hu Hac.
  destruct (order_respects_constraints perm es Hp Hne Hu Hac) as [order [Ho [Hperm Hord]]].
  assert (Hu' : unique_sections (strip_absent es)).
  { unfold unique_sections. rewrite sections_strip_absent. exact Hu. }
  destruct (order_respects_constraints perm' (strip_absent es) Hp' (no_extras_strip_absent es Hne) Hu'
              (acyclic_strip_absent es Hac)) as [order' [Ho' [Hperm' _]]].
  exists order, order'. split; [exact Ho|]. split; [exact Ho'|]. split; [|split; [exact Hperm|]].
  - rewrite (Permutation_map pid Hperm), (Permutation_map pid Hperm'), pids_strip_absent. apply Permutation_refl.
  - intros p' q' Hpi Hqi [Hne' Hc].
    unfold strip_absent in Hpi, Hqi. apply in_map_iff in Hpi, Hqi.
    destruct Hpi as [p [<- Hpi]]. destruct Hqi as [q [<- Hqi]]. cbn [section after before] in *.
    apply (before_in_map section). apply Hord; [exact Hpi|exact Hqi|]. split; [exact Hne'|].
    destruct Hc as [Hc|Hc]; apply filter_In in Hc; tauto.
Qed.

(* ---------- load_configuration ---------- *)
Definition is_configuration_error (o : outcome) : Prop :=
  match o with Err _ => True | Ok _ => False end.

Definition claimed (ps : list plugin) (k : name) : Prop := In k (map section ps).

Lemma cfg_get_In : forall c k v, cfg_get c k = Some v -> In (k, v) c.
Proof.
  induction c as [|[k0 v0] r IH]; intros k v H; cbn [cfg_get] in H; [discriminate|].
  destruct (Nat.eqb k k0) eqn:E.
  - apply Nat.eqb_eq in E. inversion H; subst. left. reflexivity.
  - right. apply IH. exact H.
Qed.

Lemma cfg_get_None : forall c k, cfg_get c k = None <-> ~ In k (map fst c).
Proof.
  induction c as [|[k0 v0] r IH]; intros k; cbn [cfg_get map fst]; [tauto|].
  destruct (Nat.eqb k k0) eqn:E.
  - apply Nat.eqb_eq in E. subst. split; [discriminate|intros H; exfalso; apply H; left; reflexivity].
  - apply Nat.eqb_neq in E. rewrite IH. split; intros H.
    + intros [E'|Hin]; [congruence|contradiction].
    + intros Hin. apply H. right. exact Hin.
Qed.

(* the configuration after `config_data.pop("logging")` *)
Definition sections_of (cfg : config) : config :=
  match cfg_get cfg logging_name with Some _ => cfg_pop logging_name cfg | None => cfg end.

Definition logging_events (cfg : config) : list event :=
  match cfg_get cfg logging_name with Some m => [EvLogging m] | None => [] end.

Lemma load_configuration_unfold : forall cfg ps,
  load_configuration cfg ps =
  match unmatched (sections_of cfg) ps with
  | (_ :: _) as ks => (Err (UnknownSections ks), logging_events cfg)
  | [] => let '(out, log) := digest_loop (sections_of cfg) ps in (out, logging_events cfg ++ log)
  end.
Proof.
  intros cfg ps. unfold load_configuration, sections_of, logging_events.
  destruct (cfg_get cfg logging_name); reflexivity.
Qed.

Lemma sections_of_keys : forall cfg k,
  In k (map fst (sections_of cfg)) <-> In k (map fst cfg) /\ k <> logging_name.
Proof.
  intros cfg k. unfold sections_of. destruct (cfg_get cfg logging_name) eqn:E.
  - unfold cfg_pop. rewrite !in_map_iff. split.
    + intros [[k0 v] [Ek Hin]]. cbn [fst] in Ek. subst k0. apply filter_In in Hin. destruct Hin as [Hin Hn].
      cbn [fst] in Hn. apply negb_true_iff in Hn. apply Nat.eqb_neq in Hn.
      split; [exists (k, v); split; [reflexivity|exact Hin]|exact Hn].
    + intros [[[k0 v] [Ek Hin]] Hn]. cbn [fst] in Ek. subst k0. exists (k, v). split; [reflexivity|].
      apply filter_In. split; [exact Hin|]. cbn [fst]. apply negb_true_iff. apply Nat.eqb_neq. exact Hn.
  - apply cfg_get_None in E. split; [|tauto]. intros H. split; [exact H|]. intros ->. contradiction.
Qed.

Lemma unmatched_nonempty : forall cfg ps k,
  In k (map fst cfg) -> ~ claimed ps k -> unmatched cfg ps <> [].
Proof.
  intros cfg ps k Hk Hc E.
  assert (Hin : In k (unmatched cfg ps)).
  { unfold unmatched. apply filter_In. split; [exact Hk|]. apply negb_true_iff. apply mem_nIn. exact Hc. }
  rewrite E in Hin. destruct Hin.
Qed.

Lemma unmatched_empty : forall cfg ps,
  unmatched cfg ps = [] -> forall k, In k (map fst cfg) -> claimed ps k.
Proof.
  intros cfg ps E k Hk. unfold claimed.
  destruct (in_dec Nat.eq_dec k (map section ps)) as [H|H]; [exact H|].
  exfalso. apply (unmatched_nonempty cfg ps k Hk H E).
Qed.

(* an unknown section (other than logging): ConfigurationError before any plugin has run *)
Lemma validate_then_digest : forall cfg ps k,
  In k (map fst cfg) -> k <> logging_name -> ~ claimed ps k ->
  is_configuration_error (fst (load_configuration cfg ps))
  /\ digests (snd (load_configuration cfg ps)) = [].
Proof.
  intros cfg ps k Hk Hl Hc. rewrite load_configuration_unfold.
  assert (Hu : unmatched (sections_of cfg) ps <> []).
  { apply (unmatched_nonempty _ ps k); [apply sections_of_keys; tauto|exact Hc]. }
  destruct (unmatched (sections_of cfg) ps) as [|k0 r]; [congruence|].
  cbn [fst snd]. split; [exact I|]. unfold logging_events.
  destruct (cfg_get cfg logging_name); reflexivity.
Qed.

Lemma digest_loop_required_missing : forall cfg ps p,
  In p ps -> required p = true -> cfg_get cfg (section p) = None ->
  is_configuration_error (fst (digest_loop cfg ps)).
Proof.
  induction ps as [|q r IH]; intros p Hin Hr Hm; [destruct Hin|].
  cbn [digest_loop]. destruct Hin as [->|Hin].
  - rewrite Hm, Hr. exact I.
  - destruct (cfg_get cfg (section q)) as [data|].
    + specialize (IH p Hin Hr Hm). destruct (digest_loop cfg r) as [out log]. cbn [fst] in *.
      destruct out; [destruct IH|exact I].
    + destruct (required q); [exact I|]. apply (IH p Hin Hr Hm).
Qed.

(* a required plugin whose section is missing: ConfigurationError (whatever else is wrong) *)
Lemma required_missing : forall cfg ps p,
  In p ps -> required p = true ->
  (~ In (section p) (map fst cfg) \/ section p = logging_name) ->
  is_configuration_error (fst (load_configuration cfg ps)).
Proof.
  intros cfg ps p Hin Hr Hm. rewrite load_configuration_unfold.
  destruct (unmatched (sections_of cfg) ps) as [|k0 r]; [|exact I].
  assert (Hg : cfg_get (sections_of cfg) (section p) = None).
  { apply cfg_get_None. intros H. apply sections_of_keys in H. tauto. }
  pose proof (digest_loop_required_missing (sections_of cfg) ps p Hin Hr Hg) as H.
  destruct (digest_loop (sections_of cfg) ps) as [out log]. exact H.
Qed.

(* the calls and results a valid configuration must produce, in plugin order *)
Definition expected_calls (cfg : config) (ps : list plugin) : list (nat * nat) :=
  flat_map (fun p => match cfg_get cfg (section p) with Some data => [(pid p, data)] | None => [] end) ps.

Definition expected_content (cfg : config) (ps : list plugin) : list (nat * nat) :=
  flat_map (fun p => match cfg_get cfg (section p), ret p with
                     | Some _, Some v => [(pid p, v)]
                     | _, _ => []
                     end) ps.

Definition all_required_present (cfg : config) (ps : list plugin) : Prop :=
  forall p, In p ps -> required p = true -> cfg_get cfg (section p) <> None.

Lemma digest_loop_ok : forall cfg ps, all_required_present cfg ps ->
  fst (digest_loop cfg ps) = Ok (expected_content cfg ps)
  /\ digests (snd (digest_loop cfg ps)) = expected_calls cfg ps.
Proof.
  induction ps as [|p r IH]; intros Hreq; cbn [digest_loop expected_content expected_calls flat_map];
    [split; reflexivity|].
  assert (Hreq' : all_required_present cfg r).
  { intros q Hq. apply Hreq. right. exact Hq. }
  specialize (IH Hreq'). destruct IH as [IH1 IH2].
  destruct (cfg_get cfg (section p)) as [data|] eqn:G.
  - destruct (digest_loop cfg r) as [out log]. cbn [fst snd] in *. subst out.
    split; [destruct (ret p); reflexivity|]. cbn [digests flat_map app]. f_equal. exact IH2.
  - destruct (required p) eqn:Hr.
    + exfalso. apply (Hreq p); [left; reflexivity|exact Hr|exact G].
    + cbn [app]. split; assumption.
Qed.

Lemma digests_app : forall a b, digests (a ++ b) = digests a ++ digests b.
Proof. intros. unfold digests. apply flat_map_app. Qed.

(* otherwise: every plugin whose section is present is called exactly once with exactly that
   section's content, in plugin order; the others are not called; non-None results are kept;
   logging (if any) is configured first and exactly once *)
Lemma once_each_in_order : forall cfg ps,
  (forall k, In k (map fst cfg) -> k <> logging_name -> claimed ps k) ->
  all_required_present (sections_of cfg) ps ->
  fst (load_configuration cfg ps) = Ok (expected_content (sections_of cfg) ps)
  /\ snd (load_configuration cfg ps)
     = logging_events cfg ++ map (fun c => EvDigest (fst c) (snd c)) (expected_calls (sections_of cfg) ps).
Proof.
  intros cfg ps Hk Hreq. rewrite load_configuration_unfold.
  destruct (unmatched (sections_of cfg) ps) as [|k0 r] eqn:U.
  - pose proof (digest_loop_ok (sections_of cfg) ps Hreq) as [H1 H2].
    assert (Hlog : forall cfg' ps', snd (digest_loop cfg' ps')
                   = map (fun c => EvDigest (fst c) (snd c)) (digests (snd (digest_loop cfg' ps')))).
    { intros cfg'. induction ps' as [|p' r' IH']; cbn [digest_loop]; [reflexivity|].
      destruct (cfg_get cfg' (section p')) as [data|].
      - destruct (digest_loop cfg' r') as [out' log']. cbn [snd digests flat_map app map fst] in *.
        f_equal. exact IH'.
      - destruct (required p'); [reflexivity|exact IH']. }
    specialize (Hlog (sections_of cfg) ps).
    destruct (digest_loop (sections_of cfg) ps) as [out log]. cbn [fst snd] in *.
    split; [exact H1|]. rewrite Hlog, H2. reflexivity.
  - exfalso. assert (Hin : In k0 (unmatched (sections_of cfg) ps)) by (rewrite U; left; reflexivity).
    unfold unmatched in Hin. apply filter_In in Hin. destruct Hin as [Hin Hn].
    apply negb_true_iff in Hn. apply mem_nIn in Hn. apply Hn.
    apply sections_of_keys in Hin. apply Hk; tauto.
Qed.

(* ---------- end to end: the calls are made in constraint order ---------- *)
Lemma expected_calls_before : forall cfg ps p q dp dq,
  before_in q p ps -> cfg_get cfg (section q) = Some dq -> cfg_get cfg (section p) = Some dp ->
  before_in (pid q, dq) (pid p, dp) (expected_calls cfg ps).
Proof.
  intros cfg ps p q dp dq Hb Hq Hp. unfold expected_calls.
  apply (before_in_flat_map _ q p); [exact Hb|rewrite Hq; reflexivity|rewrite Hp; reflexivity].
Qed.

Lemma calls_in_constraint_order : forall perm es cfg,
  layer_perms perm -> no_extras es -> unique_sections es -> acyclic es ->
  (forall k, In k (map fst cfg) -> k <> logging_name -> claimed es k) ->
  all_required_present (sections_of cfg) es ->
  exists order content log,
    load_all perm es cfg = Ok (Ok content, log)
    /\ Permutation order es
    /\ content = expected_content (sections_of cfg) order
    /\ digests log = expected_calls (sections_of cfg) order
    /\ forall p q dp dq, In p es -> In q es -> must_precede q p ->
         cfg_get (sections_of cfg) (section q) = Some dq ->
         cfg_get (sections_of cfg) (section p) = Some dp ->
         before_in (pid q, dq) (pid p, dp) (digests log).
Proof.
  intros perm es cfg Hperm Hne Hu Hac Hk Hreq.
  destruct (order_respects_constraints perm es Hperm Hne Hu Hac) as [order [Ho [Hp Hord]]].
  assert (Hk' : forall k, In k (map fst cfg) -> k <> logging_name -> claimed order k).
  { intros k H1 H2. unfold claimed. apply (Permutation_in _ (Permutation_sym (Permutation_map section Hp))).
    apply Hk; assumption. }
  assert (Hreq' : all_required_present (sections_of cfg) order).
  { intros p Hin. apply Hreq. apply (Permutation_in _ Hp). exact Hin. }
  destruct (once_each_in_order cfg order Hk' Hreq') as [H1 H2].
  unfold load_all. rewrite Ho.
  destruct (load_configuration cfg order) as [out log] eqn:L. cbn [fst snd] in *. subst out.
  exists order, (expected_content (sections_of cfg) order), log.
  assert (Hd : digests log = expected_calls (sections_of cfg) order).
  { rewrite H2, digests_app. unfold logging_events.
    assert (Hm : forall l, digests (map (fun c => EvDigest (fst c) (snd c)) l) = l).
    { induction l as [|[a b] r IH]; cbn [map digests flat_map app fst snd]; [reflexivity|].
      f_equal. exact IH. }
    rewrite Hm. destruct (cfg_get cfg logging_name); reflexivity. }
  split; [reflexivity|]. split; [exact Hp|]. split; [reflexivity|]. split; [exact Hd|].
  intros p q dp dq Hpi Hqi Hm Hgq Hgp. rewrite Hd.
  apply expected_calls_before; [apply Hord; assumption|exact Hgq|exact Hgp].
Qed.

(* ---------- cyclic graphs cannot load ---------- *)
Lemma edge_has : forall es a b, edge es a b -> has (dependencies es) b a /\ a <> b.
Proof.
  intros es a b [Hne [p [Hp Hc]]]. split; [|exact Hne]. apply has_dependencies.
  destruct Hc as [[Hs Ha]|[Hs Hb]]; [left|right]; exists p; tauto.
Qed.

Lemma cyclic_rejected : forall perm es x,
  layer_perms perm -> unique_sections es -> clos_trans name (edge es) x x ->
  forall order, load_section_plugins perm es <> Ok order.
Proof.
  intros perm es x Hperm Hu Hcyc order. unfold load_section_plugins.
  destruct (existsb extras es); [discriminate|].
  rewrite (mk_plugins_unique es Hu), map_snd_plugins.
  destruct (toposort_flatten perm (dependencies es)) as [names|[|]] eqn:Hn; try discriminate.
  intros _.
  destruct (toposort_flatten_sound perm (dependencies es) names Hperm (NoDup_keys_dependencies es Hu) Hn)
    as [Hp Hord].
  assert (Hnd : NoDup names).
  { apply (Permutation_NoDup (Permutation_sym Hp)). apply NoDup_keys_prep.
    apply NoDup_keys_dependencies. exact Hu. }
  assert (Hlt : forall a b, clos_trans name (edge es) a b -> pos a names < pos b names).
  { intros a b H. induction H as [a b Hab|a b c _ IH1 _ IH2]; [|lia].
    apply before_in_pos; [exact Hnd|]. apply edge_has in Hab. apply Hord; tauto. }
  specialize (Hlt x x Hcyc). lia.
Qed.

(* ---------- the order checker used by the correspondence ---------- *)
Lemma nodupb_NoDup : forall l, nodupb l = true -> NoDup l.
Proof.
  induction l as [|x r IH]; intros H; [constructor|]. cbn [nodupb] in H.
  apply andb_true_iff in H. destruct H as [H1 H2]. apply negb_true_iff in H1. apply mem_nIn in H1.
  constructor; [exact H1|apply IH; exact H2].
Qed.

Lemma list_eqb_eq : forall a b, list_eqb a b = true -> a = b.
Proof.
  induction a as [|x r IH]; intros [|y s] H; cbn [list_eqb] in H; try discriminate; [reflexivity|].
  apply andb_true_iff in H. destruct H as [H1 H2]. apply Nat.eqb_eq in H1. subst. f_equal. apply IH. exact H2.
Qed.

Lemma perm_from_layer_perms : forall order, NoDup order -> layer_perms (perm_from order).
Proof.
  intros order Hnd l Hl. unfold perm_from. apply NoDup_Permutation.
  - apply NoDup_app_intro; [apply NoDup_filter'; exact Hnd|apply NoDup_filter'; exact Hl|].
    intros x Hx Hin. apply filter_In in Hx. apply filter_In in Hin.
    destruct Hx as [Hx _]. destruct Hin as [_ Hn]. apply negb_true_iff in Hn. apply mem_nIn in Hn. contradiction.
  - exact Hl.
  - intros x. rewrite in_app_iff, !filter_In. split.
    + intros [[_ H]|[H _]]; [apply mem_In; exact H|exact H].
    + intros H. destruct (mem x order) eqn:E.
      * left. split; [apply mem_In; exact E|apply mem_In; exact H].
      * right. split; [exact H|reflexivity].
Qed.

(* an order accepted by the checker is an output of the model for some iteration order of the layers *)
Lemma admissible_sound : forall es order, admissible_order es order = true ->
  exists perm ps, layer_perms perm /\ load_section_plugins perm es = Ok ps /\ map pid ps = order.
Proof.
  intros es order H. unfold admissible_order in H.
  destruct (load_section_plugins (fun l => l) es) as [ps0|e]; [|discriminate].
  apply andb_true_iff in H. destruct H as [Hnd H].
  set (names := flat_map (fun i => map section (filter (fun p => Nat.eqb (pid p) i) ps0)) order) in *.
  destruct (load_section_plugins (perm_from names) es) as [ps|e] eqn:L; [|discriminate].
  exists (perm_from names), ps. split; [apply perm_from_layer_perms; apply nodupb_NoDup; exact Hnd|].
  split; [exact L|apply list_eqb_eq; exact H].
Qed.

Lemma acyclic_of_load : forall perm es order,
  layer_perms perm -> unique_sections es -> load_section_plugins perm es = Ok order -> acyclic es.
Proof.
  intros perm es order Hp Hu Ho x Hx. apply (cyclic_rejected perm es x Hp Hu Hx order Ho).
Qed.

Lemma id_layer_perms : layer_perms (fun l => l).
Proof. intros l _. apply Permutation_refl. Qed.
