(* Properties of the controller model (C08): model/Controllers.v *)
From Coq Require Import ZArith QArith Qabs List Bool Arith Lia Lqa Permutation Sorted SetoidList SetoidPermutation.
From Cobald Require Import kit.QKit model.Controllers.
Import ListNotations.
Open Scope Q_scope.

(* ---------------------------------------------------------------- small reflection helpers *)
Lemma Qle_bool_false : forall a b, Qle_bool a b = false <-> b < a.
Proof.
  intros a b. split; intros H.
  - destruct (Qlt_le_dec b a) as [L|L]; [exact L|]. apply Qle_bool_iff in L. congruence.
  - destruct (Qle_bool a b) eqn:E; [|reflexivity]. apply Qle_bool_iff in E. lra.
Qed.

Ltac qcases :=
  repeat match goal with
  | H : Qltb _ _ = true |- _ => apply Qltb_lt in H
  | H : Qltb _ _ = false |- _ => apply Qltb_ge in H
  | H : Qle_bool _ _ = true |- _ => apply Qle_bool_iff in H
  | H : Qle_bool _ _ = false |- _ => apply Qle_bool_false in H
  | H : Qeqb _ _ = true |- _ => apply Qeqb_eq in H
  | H : Qeqb _ _ = false |- _ => apply Qeqb_neq in H
  end.

(* ---------------------------------------------------------------- LinearController *)
Lemma linear_init_ok : forall low high rate itv c,
  linear_init low high rate itv = Ok c <->
  (0 < rate /\ low <= high /\ c = mkLinear low high rate itv).
Proof.
  intros low high rate itv c. unfold linear_init.
  destruct (Qltb 0 rate) eqn:E1; destruct (Qle_bool low high) eqn:E2; cbn [andb]; qcases;
    split; intros H; try discriminate.
  - injection H as <-. auto.
  - destruct H as (_ & _ & ->). reflexivity.
  - destruct H as (_ & H & _). lra.
  - destruct H as (H & _). lra.
  - destruct H as (H & _). lra.
Qed.

Lemma linear_init_rejects : forall low high rate itv,
  linear_init low high rate itv = Err ERejected <-> (rate <= 0 \/ high < low).
Proof.
  intros low high rate itv. unfold linear_init.
  destruct (Qltb 0 rate) eqn:E1; destruct (Qle_bool low high) eqn:E2; cbn [andb]; qcases;
    split; intros H; try discriminate; try reflexivity; auto.
  destruct H as [H|H]; lra.
Qed.

(* the full statement about one LinearController step *)
Definition linear_step_spec (c : linear) (p : pool) (itv : Q) (p' : pool) (ef : list effect) : Prop :=
  let d := p_demand p in let d' := p_demand p' in
  Qabs (d' - d) <= l_rate c * itv
  /\ (d' < d -> p_util p < l_low c)
  /\ (d < d' -> l_high c < p_alloc p)
  /\ (p_util p < l_low c -> d' == d - l_rate c * itv /\ ef = [EWrite (p_demand p')])
  /\ (~ p_util p < l_low c -> l_high c < p_alloc p -> d' == d + l_rate c * itv /\ ef = [EWrite (p_demand p')])
  /\ (~ p_util p < l_low c -> ~ l_high c < p_alloc p -> p' = p /\ ef = [])
  /\ p_supply p' = p_supply p /\ p_util p' = p_util p /\ p_alloc p' = p_alloc p.

Lemma linear_step : forall sem low high rate itv0 c p itv,
  linear_init low high rate itv0 = Ok c -> 0 <= itv ->
  exists p' ef, regulate sem (CLinear c) p itv = Ok (p', ef) /\ linear_step_spec c p itv p' ef.
Proof.
  intros sem low high rate itv0 c p itv Hinit Hitv.
  apply linear_init_ok in Hinit. destruct Hinit as (Hrate & Hlh & ->).
  cbn [regulate]. unfold linear_write. cbn [l_low l_high l_rate].
  assert (Hnn : 0 <= rate * itv) by (apply Qmult_le_0_compat; lra).
  destruct (Qltb (p_util p) low) eqn:E1; [|destruct (Qltb high (p_alloc p)) eqn:E2];
    cbn [apply_write]; eexists; eexists; (split; [reflexivity|]); unfold linear_step_spec;
    cbn [set_demand p_demand p_supply p_util p_alloc l_low l_high l_rate]; qcases.
  all: repeat match goal with |- _ /\ _ => split end;
    try (apply Qabs_case; intros; lra);
    try (intros; repeat match goal with |- _ /\ _ => split end; try reflexivity; try lra; try contradiction).
Qed.

(* ---------------------------------------------------------------- RelativeSupplyController *)
Lemma relative_init_ok : forall low high ls hs itv c,
  relative_init low high ls hs itv = Ok c <->
  (low <= high /\ ls < 1 /\ 1 < hs /\ c = mkRelative low high ls hs itv).
Proof.
  intros low high ls hs itv c. unfold relative_init.
  destruct (Qle_bool low high) eqn:E1; destruct (Qltb ls 1) eqn:E2; destruct (Qltb 1 hs) eqn:E3;
    cbn [andb]; qcases; split; intros H; try discriminate;
    try (destruct H as (H1 & H2 & H3 & H4); lra).
  - injection H as <-. auto.
  - destruct H as (_ & _ & _ & ->). reflexivity.
Qed.

Lemma relative_init_rejects : forall low high ls hs itv,
  relative_init low high ls hs itv = Err ERejected <-> (high < low \/ 1 <= ls \/ hs <= 1).
Proof.
  intros low high ls hs itv. unfold relative_init.
  destruct (Qle_bool low high) eqn:E1; destruct (Qltb ls 1) eqn:E2; destruct (Qltb 1 hs) eqn:E3;
    cbn [andb]; qcases; split; intros H; try discriminate; try reflexivity; auto.
  destruct H as [H|[H|H]]; lra.
Qed.

Definition relative_step_spec (c : relative) (p : pool) (p' : pool) (ef : list effect) : Prop :=
  ef = [EWrite (p_demand p')]
  /\ (p_util p < r_low c -> p_demand p' == p_supply p * r_low_scale c)
  /\ (~ p_util p < r_low c -> r_high c < p_alloc p -> p_demand p' == p_supply p * r_high_scale c)
  /\ (~ p_util p < r_low c -> ~ r_high c < p_alloc p -> p_demand p' == p_supply p)
  /\ p_supply p' = p_supply p /\ p_util p' = p_util p /\ p_alloc p' = p_alloc p.

Lemma relative_step : forall sem c p itv,
  exists p' ef, regulate sem (CRelative c) p itv = Ok (p', ef) /\ relative_step_spec c p p' ef.
Proof.
  intros sem c p itv. cbn [regulate]. unfold relative_write, relative_scale. cbn [apply_write].
  eexists; eexists; (split; [reflexivity|]). unfold relative_step_spec.
  cbn [set_demand p_demand p_supply p_util p_alloc].
  destruct (Qltb (p_util p) (r_low c)) eqn:E1; [|destruct (Qltb (r_high c) (p_alloc p)) eqn:E2]; qcases;
    repeat split; intros; try lra.
Qed.

(* direction of a relative step on a pool with non-negative supply *)
Lemma relative_direction : forall low high ls hs itv c sem p i p' ef,
  relative_init low high ls hs itv = Ok c -> 0 <= p_supply p ->
  regulate sem (CRelative c) p i = Ok (p', ef) ->
  (p_util p < r_low c -> p_demand p' <= p_supply p)
  /\ (~ p_util p < r_low c -> p_supply p <= p_demand p').
Proof.
  intros low high ls hs itv c sem p i p' ef Hinit Hs Hreg.
  apply relative_init_ok in Hinit. destruct Hinit as (Hlh & Hls & Hhs & ->).
  destruct (relative_step sem (mkRelative low high ls hs itv) p i) as (p2 & ef2 & Hreg2 & Hspec).
  rewrite Hreg in Hreg2. injection Hreg2 as <- <-.
  destruct Hspec as (_ & H1 & H2 & H3 & _). cbn [r_low r_high r_low_scale r_high_scale] in *.
  split; intros H.
  - rewrite (H1 H). nra.
  - destruct (Qlt_le_dec high (p_alloc p)) as [L|L].
    + rewrite (H2 H L). nra.
    + rewrite (H3 H); [lra|]. lra.
Qed.

(* ---------------------------------------------------------------- selection: the independent spec *)
(* r is attached to a greatest threshold that is not above s *)
Definition is_greatest_le (l : list entry) (s : Q) (r : nat) : Prop :=
  exists t, In (t, r) l /\ t <= s /\ forall t' r', In (t', r') l -> t' <= s -> t' <= t.

Definition none_le (l : list entry) (s : Q) : Prop := forall t r, In (t, r) l -> s < t.

(* equal thresholds carry the same object *)
Definition consistent (l : list entry) : Prop :=
  forall t r t' r', In (t, r) l -> In (t', r') l -> t == t' -> r = r'.

(* arg-max over the thresholds not above s, in declaration order (first maximum wins) *)
Fixpoint best_le (l : list entry) (s : Q) : option entry :=
  match l with
  | [] => None
  | (t, r) :: l' =>
      if Qle_bool t s then
        match best_le l' s with
        | Some (t', r') => if Qltb t t' then Some (t', r') else Some (t, r)
        | None => Some (t, r)
        end
      else best_le l' s
  end.

Definition greatest_le (l : list entry) (s : Q) : option nat := option_map snd (best_le l s).

Lemma best_le_sound : forall l s t r, best_le l s = Some (t, r) ->
  In (t, r) l /\ t <= s /\ forall t' r', In (t', r') l -> t' <= s -> t' <= t.
Proof.
  induction l as [|[t0 r0] l IH]; intros s t r H; cbn [best_le] in H; [discriminate|].
  destruct (Qle_bool t0 s) eqn:E0.
  - destruct (best_le l s) as [[t1 r1]|] eqn:E1.
    + destruct (IH s t1 r1 E1) as (Hin & Hle & Hmax).
      destruct (Qltb t0 t1) eqn:E2; injection H as <- <-; qcases.
      * split; [right; exact Hin|]. split; [exact Hle|].
        intros t' r' [Heq|Hin'] Hle'; [injection Heq as <- <-; lra|]. eapply Hmax; eauto.
      * split; [left; reflexivity|]. split; [exact E0|].
        intros t' r' [Heq|Hin'] Hle'; [injection Heq as <- <-; lra|].
        specialize (Hmax t' r' Hin' Hle'). lra.
    + injection H as <- <-. qcases. split; [left; reflexivity|]. split; [exact E0|].
      intros t' r' [Heq|Hin'] Hle'; [injection Heq as <- <-; lra|].
      exfalso. clear IH. revert t' r' Hin' Hle'. induction l as [|[t2 r2] l IHl]; intros t' r' Hin' Hle'; [destruct Hin'|].
      cbn [best_le] in E1. destruct (Qle_bool t2 s) eqn:E3.
      * destruct (best_le l s) as [[t3 r3]|]; [destruct (Qltb t2 t3)|]; discriminate.
      * destruct Hin' as [Heq|Hin']; [injection Heq as <- <-; qcases; lra|]. eapply IHl; eauto.
  - destruct (IH s t r H) as (Hin & Hle & Hmax). split; [right; exact Hin|]. split; [exact Hle|].
    intros t' r' [Heq|Hin'] Hle'; [injection Heq as <- <-; qcases; lra|]. eapply Hmax; eauto.
Qed.

Lemma best_le_none : forall l s, best_le l s = None <-> none_le l s.
Proof.
  induction l as [|[t0 r0] l IH]; intros s; cbn [best_le].
  - split; [intros _ t r []|reflexivity].
  - destruct (Qle_bool t0 s) eqn:E0; qcases.
    + split; intros H.
      * destruct (best_le l s) as [[t1 r1]|]; [destruct (Qltb t0 t1)|]; discriminate.
      * specialize (H t0 r0 (or_introl eq_refl)). lra.
    + rewrite IH. split; intros H t r Hin.
      * destruct Hin as [Heq|Hin]; [injection Heq as <- <-; exact E0|]. eapply H; eauto.
      * eapply H. right. exact Hin.
Qed.

Lemma greatest_le_some : forall l s r, greatest_le l s = Some r -> is_greatest_le l s r.
Proof.
  intros l s r H. unfold greatest_le in H. destruct (best_le l s) as [[t r']|] eqn:E; [|discriminate].
  cbn in H. injection H as <-. exists t. apply best_le_sound. exact E.
Qed.

Lemma greatest_le_none : forall l s, greatest_le l s = None <-> none_le l s.
Proof.
  intros l s. rewrite <- best_le_none. unfold greatest_le.
  destruct (best_le l s) as [[t r]|]; cbn; split; intros H; congruence.
Qed.

Lemma is_greatest_le_unique : forall l s r r',
  consistent l -> is_greatest_le l s r -> is_greatest_le l s r' -> r = r'.
Proof.
  intros l s r r' Hc (t & Hin & Hle & Hmax) (t' & Hin' & Hle' & Hmax').
  apply (Hc t r t' r' Hin Hin').
  specialize (Hmax t' r' Hin' Hle'). specialize (Hmax' t r Hin Hle). lra.
Qed.

Lemma is_greatest_le_not_none : forall l s r, is_greatest_le l s r -> none_le l s -> False.
Proof. intros l s r (t & Hin & Hle & _) Hn. specialize (Hn t r Hin). lra. Qed.

(* the functional spec is characterised by the declarative one *)
Lemma greatest_le_iff : forall l s r, consistent l ->
  (greatest_le l s = Some r <-> is_greatest_le l s r).
Proof.
  intros l s r Hc. split; [apply greatest_le_some|]. intros H.
  destruct (greatest_le l s) as [r'|] eqn:E.
  - f_equal. eapply is_greatest_le_unique; eauto. apply greatest_le_some. exact E.
  - exfalso. apply greatest_le_none in E. eapply is_greatest_le_not_none; eauto.
Qed.

Lemma is_greatest_le_perm : forall l l' s r, Permutation l l' -> is_greatest_le l s r -> is_greatest_le l' s r.
Proof.
  intros l l' s r P (t & Hin & Hle & Hmax). exists t. split; [eapply Permutation_in; eauto|].
  split; [exact Hle|]. intros t' r' Hin'. apply (Hmax t' r'). eapply Permutation_in; [apply Permutation_sym; exact P|exact Hin'].
Qed.

Lemma none_le_perm : forall l l' s, Permutation l l' -> none_le l s -> none_le l' s.
Proof.
  intros l l' s P H t r Hin. apply (H t r). eapply Permutation_in; [apply Permutation_sym; exact P|exact Hin].
Qed.

Lemma consistent_perm : forall l l', Permutation l l' -> consistent l -> consistent l'.
Proof.
  intros l l' P H t r t' r' H1 H2. apply H; eapply Permutation_in; try (apply Permutation_sym; exact P); assumption.
Qed.

(* the selection does not depend on the declaration order *)
Lemma greatest_le_perm : forall l l' s, consistent l -> Permutation l l' -> greatest_le l s = greatest_le l' s.
Proof.
  intros l l' s Hc P. destruct (greatest_le l s) as [r|] eqn:E.
  - symmetry. apply greatest_le_iff; [eapply consistent_perm; eauto|].
    eapply is_greatest_le_perm; eauto. apply greatest_le_some. exact E.
  - symmetry. apply greatest_le_none. eapply none_le_perm; eauto. apply greatest_le_none. exact E.
Qed.

(* ---------------------------------------------------------------- sorted(...) *)
Definition le_entry (a b : entry) : Prop := fst a <= fst b.

Lemma insert_by_perm : forall x l, Permutation (x :: l) (insert_by x l).
Proof.
  intros x l. induction l as [|y r IH]; cbn [insert_by]; [apply Permutation_refl|].
  destruct (Qle_bool (fst x) (fst y)); [apply Permutation_refl|].
  eapply perm_trans; [apply perm_swap|]. apply perm_skip. exact IH.
Qed.

Lemma isort_perm : forall l, Permutation l (isort l).
Proof.
  induction l as [|x r IH]; cbn [isort fold_right]; [apply perm_nil|].
  eapply perm_trans; [apply perm_skip; exact IH|]. apply insert_by_perm.
Qed.

Lemma insert_by_sorted : forall x l, StronglySorted le_entry l -> StronglySorted le_entry (insert_by x l).
Proof.
  intros x l H. induction H as [|y r Hs IH Hall]; cbn [insert_by].
  - constructor; constructor.
  - destruct (Qle_bool (fst x) (fst y)) eqn:E; qcases.
    + constructor; [constructor; assumption|]. constructor; [exact E|].
      rewrite Forall_forall in *. intros z Hz. specialize (Hall z Hz). unfold le_entry in *. lra.
    + constructor; [exact IH|]. rewrite Forall_forall in *. intros z Hz.
      apply (Permutation_in _ (Permutation_sym (insert_by_perm x r))) in Hz.
      destruct Hz as [<-|Hz]; [unfold le_entry; lra|]. apply Hall. exact Hz.
Qed.

Lemma isort_sorted : forall l, StronglySorted le_entry (isort l).
Proof.
  induction l as [|x r IH]; cbn [isort fold_right]; [constructor|]. apply insert_by_sorted. exact IH.
Qed.

Lemma conflicts_with_false : forall x l, conflicts_with x l = false ->
  forall y, In y l -> fst x == fst y -> snd x = snd y.
Proof.
  intros x l H y Hin Heq. unfold conflicts_with in H.
  destruct (Nat.eq_dec (snd x) (snd y)) as [E|E]; [exact E|]. exfalso.
  assert (existsb (fun y => Qeqb (fst x) (fst y) && negb (snd x =? snd y)%nat) l = true) as H'.
  { apply existsb_exists. exists y. split; [exact Hin|]. apply andb_true_intro. split.
    - apply Qeqb_eq. exact Heq.
    - apply negb_true_iff. apply Nat.eqb_neq. exact E. }
  congruence.
Qed.

Lemma conflicts_with_true : forall x l, conflicts_with x l = true ->
  exists y, In y l /\ fst x == fst y /\ snd x <> snd y.
Proof.
  intros x l H. unfold conflicts_with in H. apply existsb_exists in H. destruct H as (y & Hin & H).
  apply andb_prop in H. destruct H as [H1 H2]. exists y. split; [exact Hin|]. split.
  - apply Qeqb_eq. exact H1.
  - apply negb_true_iff in H2. apply Nat.eqb_neq. exact H2.
Qed.

Lemma has_conflict_iff : forall l, has_conflict l = false <-> consistent l.
Proof.
  induction l as [|x l IH]; cbn [has_conflict].
  - split; [intros _ t r t' r' []|reflexivity].
  - rewrite orb_false_iff, IH. split.
    + intros [H1 H2] t r t' r' [Ha|Ha] [Hb|Hb] Heq.
      * congruence.
      * subst x. apply (conflicts_with_false _ _ H1 (t', r') Hb Heq).
      * subst x. symmetry. apply (conflicts_with_false _ _ H1 (t, r) Ha). cbn. symmetry. exact Heq.
      * eapply H2; eauto.
    + intros H. split.
      * destruct (conflicts_with x l) eqn:E; [|reflexivity]. exfalso.
        apply conflicts_with_true in E. destruct E as (y & Hin & Heq & Hne).
        apply Hne. destruct x as [t r], y as [t' r']. apply (H t r t' r'); [left; reflexivity|right; exact Hin|exact Heq].
      * intros t r t' r' Ha Hb. apply H; right; assumption.
Qed.

Lemma py_sorted_ok : forall l srt, py_sorted l = Ok srt <->
  (consistent l /\ srt = isort l).
Proof.
  intros l srt. unfold py_sorted. destruct (has_conflict l) eqn:E.
  - split; [discriminate|]. intros [H _]. apply has_conflict_iff in H. congruence.
  - apply has_conflict_iff in E. split; [intros H; injection H as <-; auto|]. intros [_ ->]. reflexivity.
Qed.

(* ---------------------------------------------------------------- "last match over sorted pairs" *)
Fixpoint last_le (l : list entry) (s : Q) : option nat :=
  match l with
  | [] => None
  | e :: l' =>
      match last_le l' s with
      | Some r => Some r
      | None => if Qle_bool (fst e) s then Some (snd e) else None
      end
  end.

Lemma choose_last_le : forall l default d,
  choose default l d = match last_le l d with Some r => r | None => default end.
Proof.
  unfold choose. induction l as [|e l IH]; intros default d; cbn [fold_left last_le]; [reflexivity|].
  rewrite IH. destruct (last_le l d); [reflexivity|]. destruct (Qle_bool (fst e) d); reflexivity.
Qed.

Lemma last_le_none_sorted : forall l s, last_le l s = None -> none_le l s.
Proof.
  induction l as [|e l IH]; intros s H t r Hin; [destruct Hin|]. cbn [last_le] in H.
  destruct (last_le l s) eqn:E; [discriminate|]. destruct (Qle_bool (fst e) s) eqn:E1; [discriminate|]. qcases.
  destruct Hin as [Heq|Hin]; [subst e; cbn [fst] in E1; exact E1|]. eapply IH; eauto.
Qed.

Lemma last_le_sorted : forall l s r, StronglySorted le_entry l -> last_le l s = Some r -> is_greatest_le l s r.
Proof.
  induction l as [|e l IH]; intros s r Hs H; [discriminate|]. cbn [last_le] in H.
  apply StronglySorted_inv in Hs. destruct Hs as [Hs Hall]. rewrite Forall_forall in Hall.
  destruct (last_le l s) as [r1|] eqn:E.
  - injection H as <-. destruct (IH s r1 Hs E) as (t & Hin & Hle & Hmax).
    exists t. split; [right; exact Hin|]. split; [exact Hle|].
    intros t' r' [Heq|Hin'] Hle'; [subst e; apply (Hall (t, r1) Hin)|]. eapply Hmax; eauto.
  - destruct (Qle_bool (fst e) s) eqn:E1; [|discriminate]. injection H as <-. qcases.
    exists (fst e). split; [left; destruct e; reflexivity|]. split; [exact E1|].
    intros t' r' [Heq|Hin'] Hle'; [subst e; cbn [fst]; lra|]. pose proof (last_le_none_sorted l s E t' r' Hin'). lra.
Qed.

(* last match over python-sorted pairs = greatest threshold not above the value, for any
   declaration order *)
Lemma last_le_sorted_greatest : forall l srt s,
  py_sorted l = Ok srt -> last_le srt s = greatest_le l s.
Proof.
  intros l srt s H. apply py_sorted_ok in H. destruct H as [Hc ->].
  destruct (last_le (isort l) s) as [r|] eqn:E.
  - symmetry. apply greatest_le_iff; [exact Hc|].
    eapply is_greatest_le_perm; [apply Permutation_sym; apply isort_perm|].
    apply last_le_sorted; [apply isort_sorted|exact E].
  - symmetry. apply greatest_le_none. eapply none_le_perm; [apply Permutation_sym; apply isort_perm|].
    apply last_le_none_sorted. exact E.
Qed.

(* ---------------------------------------------------------------- RangeSelector *)
Lemma get_rule_build : forall l lo r s, StronglySorted le_entry l ->
  get_rule (build lo r l) s =
  match last_le l s with Some x => Some x | None => if Qle_bool lo s then Some r else None end.
Proof.
  induction l as [|[t r'] l IH]; intros lo r s Hs; cbn [build get_rule last_le in_range snd fst].
  - destruct (Qle_bool lo s); reflexivity.
  - apply StronglySorted_inv in Hs. destruct Hs as [Hs Hall]. rewrite Forall_forall in Hall.
    assert (Hnone : s < t -> last_le l s = None).
    { intros Hlt. destruct (last_le l s) as [x|] eqn:E; [|reflexivity]. exfalso.
      destruct (last_le_sorted l s x Hs E) as (t1 & Hin & Hle & _).
      specialize (Hall (t1, x) Hin). unfold le_entry in Hall. cbn in Hall. lra. }
    destruct (Qle_bool lo s) eqn:E1; destruct (Qltb s t) eqn:E2; cbn [andb]; qcases.
    + rewrite (Hnone E2). destruct (Qle_bool t s) eqn:E3; qcases; [lra|reflexivity].
    + rewrite (IH t r' s Hs). destruct (last_le l s); [reflexivity|].
      destruct (Qle_bool t s) eqn:E3; qcases; [reflexivity|lra].
    + rewrite (IH t r' s Hs). rewrite (Hnone E2). destruct (Qle_bool t s) eqn:E3; qcases; [lra|reflexivity].
    + rewrite (IH t r' s Hs). destruct (last_le l s); [reflexivity|].
      destruct (Qle_bool t s) eqn:E3; qcases; [reflexivity|lra].
Qed.

Lemma compile_lookup_ok : forall base rules lk, compile_lookup base rules = Ok lk ->
  consistent rules /\ lk = build 0 base (isort rules) /\ existsb degenerate lk = false.
Proof.
  intros base rules lk H. unfold compile_lookup in H. destruct rules as [|e rules].
  - injection H as <-. split; [intros t r t' r' []|]. split; reflexivity.
  - destruct (py_sorted (e :: rules)) as [srt|] eqn:E; [|discriminate].
    apply py_sorted_ok in E. destruct E as [Hc ->].
    destruct (existsb degenerate (build 0 base (isort (e :: rules)))) eqn:E2; [discriminate|].
    injection H as <-. auto.
Qed.

(* get_rule on the compiled lookup, for every finite supply (also negative ones) *)
Lemma get_rule_compiled : forall base rules lk s, compile_lookup base rules = Ok lk ->
  get_rule lk s =
  match greatest_le rules s with Some r => Some r | None => if Qle_bool 0 s then Some base else None end.
Proof.
  intros base rules lk s H. apply compile_lookup_ok in H. destruct H as (Hc & -> & _).
  rewrite get_rule_build by apply isort_sorted.
  rewrite (last_le_sorted_greatest rules (isort rules) s); [reflexivity|].
  apply py_sorted_ok. auto.
Qed.

Lemma stepwise_selects : forall base rules lk s, compile_lookup base rules = Ok lk -> 0 <= s ->
  get_rule lk s = Some (match greatest_le rules s with Some r => r | None => base end).
Proof.
  intros base rules lk s H Hs. rewrite (get_rule_compiled base rules lk s H).
  destruct (greatest_le rules s); [reflexivity|]. apply Qle_bool_iff in Hs. rewrite Hs. reflexivity.
Qed.

(* ---- which rule tables the constructor accepts ---- *)
Definition eqk (a b : entry) : Prop := fst a == fst b.
Definition distinct_thresholds (l : list entry) : Prop := NoDupA eqk l.

Global Instance eqk_equiv : Equivalence eqk.
Proof.
  split; unfold eqk.
  - intros x. reflexivity.
  - intros x y H. symmetry. exact H.
  - intros x y z H1 H2. rewrite H1. exact H2.
Qed.

Definition lt_entry (a b : entry) : Prop := fst a < fst b.

Lemma sorted_nodup_strict : forall l, StronglySorted le_entry l -> NoDupA eqk l -> StronglySorted lt_entry l.
Proof.
  intros l Hs. induction Hs as [|x l Hs IH Hall]; intros Hnd; [constructor|].
  inversion Hnd as [|? ? Hnin Hnd']; subst. constructor; [apply IH; exact Hnd'|].
  rewrite Forall_forall in *. intros y Hy. specialize (Hall y Hy). unfold le_entry, lt_entry in *.
  destruct (Qlt_le_dec (fst x) (fst y)) as [L|L]; [exact L|]. exfalso. apply Hnin.
  apply InA_alt. exists y. split; [unfold eqk; lra|exact Hy].
Qed.

Lemma strict_sorted_nodup : forall l, StronglySorted lt_entry l -> NoDupA eqk l.
Proof.
  intros l Hs. induction Hs as [|x l Hs IH Hall]; [constructor|]. constructor; [|exact IH].
  intros Hin. apply InA_alt in Hin. destruct Hin as (y & Heq & Hy). rewrite Forall_forall in Hall.
  specialize (Hall y Hy). unfold lt_entry, eqk in *. lra.
Qed.

Lemma build_no_degenerate : forall l lo r, StronglySorted lt_entry l ->
  (forall e, In e l -> lo < fst e) -> existsb degenerate (build lo r l) = false.
Proof.
  induction l as [|[t r'] l IH]; intros lo r Hs Hlo; cbn [build existsb degenerate]; [reflexivity|].
  apply StronglySorted_inv in Hs. destruct Hs as [Hs Hall]. rewrite Forall_forall in Hall.
  assert (lo < t) as Hlt by (apply (Hlo (t, r')); left; reflexivity).
  destruct (Qeqb lo t) eqn:E; qcases; [lra|]. cbn [orb]. apply IH; [exact Hs|].
  intros e He. apply (Hall e He).
Qed.

Lemma build_strict_above : forall l lo r, StronglySorted le_entry l ->
  (forall e, In e l -> lo <= fst e) -> existsb degenerate (build lo r l) = false ->
  (forall e, In e l -> lo < fst e) /\ StronglySorted lt_entry l.
Proof.
  induction l as [|[t r'] l IH]; intros lo r Hs Hlo H.
  - split; [intros e []|constructor].
  - cbn [build existsb degenerate] in H. apply orb_false_iff in H. destruct H as [H1 H2]. qcases.
    apply StronglySorted_inv in Hs. destruct Hs as [Hs Hall]. rewrite Forall_forall in Hall.
    assert (lo <= t) as Hle by (apply (Hlo (t, r')); left; reflexivity).
    destruct (IH t r' Hs) as [Hab Hst]; [intros e He; apply (Hall e He)|exact H2|].
    split.
    + intros e [<-|He]; [cbn; lra|]. specialize (Hab e He). cbn in Hab. lra.
    + constructor; [exact Hst|]. rewrite Forall_forall. intros e He. apply (Hab e He).
Qed.

Lemma build_degenerate_strict : forall l lo r, StronglySorted le_entry l ->
  existsb degenerate (build lo r l) = false -> StronglySorted lt_entry l.
Proof.
  intros [|[t r'] l] lo r Hs H; [constructor|].
  cbn [build existsb degenerate] in H. apply orb_false_iff in H. destruct H as [_ H].
  apply StronglySorted_inv in Hs. destruct Hs as [Hs Hall]. rewrite Forall_forall in Hall.
  destruct (build_strict_above l t r' Hs) as [Hab Hst]; [intros e He; apply (Hall e He)|exact H|].
  constructor; [exact Hst|]. rewrite Forall_forall. intros e He. apply (Hab e He).
Qed.

Lemma nodup_consistent : forall l, distinct_thresholds l -> consistent l.
Proof.
  intros l H. induction H as [|x l Hnin Hnd IH]; [intros t r t' r' []|].
  intros t r t' r' [Ha|Ha] [Hb|Hb] Heq.
  - congruence.
  - exfalso. apply Hnin. apply InA_alt. exists (t', r'). subst x. split; [exact Heq|exact Hb].
  - exfalso. apply Hnin. apply InA_alt. exists (t, r). subst x. split; [unfold eqk; cbn; symmetry; exact Heq|exact Ha].
  - eapply IH; eauto.
Qed.

Lemma distinct_perm : forall l l', Permutation l l' -> distinct_thresholds l -> distinct_thresholds l'.
Proof.
  intros l l' P H. unfold distinct_thresholds in *.
  eapply PermutationA_preserves_NoDupA; [apply eqk_equiv| |exact H].
  apply Permutation_PermutationA; [apply eqk_equiv|exact P].
Qed.

(* the constructor accepts every table of positive, pairwise different thresholds ... *)
Lemma compile_accepts : forall base rules,
  (forall e, In e rules -> 0 < fst e) -> distinct_thresholds rules ->
  exists lk, compile_lookup base rules = Ok lk.
Proof.
  intros base rules Hpos Hd. unfold compile_lookup. destruct rules as [|e rules]; [eexists; reflexivity|].
  assert (py_sorted (e :: rules) = Ok (isort (e :: rules))) as ->.
  { apply py_sorted_ok. split; [apply nodup_consistent; exact Hd|reflexivity]. }
  rewrite build_no_degenerate; [eexists; reflexivity| |].
  - apply sorted_nodup_strict; [apply isort_sorted|]. eapply distinct_perm; [apply isort_perm|exact Hd].
  - intros x Hx. apply Hpos. eapply Permutation_in; [apply Permutation_sym; apply isort_perm|exact Hx].
Qed.

(* ... and no table with a repeated threshold *)
Lemma compile_rejects_duplicates : forall base rules lk,
  compile_lookup base rules = Ok lk -> distinct_thresholds rules.
Proof.
  intros base rules lk H. apply compile_lookup_ok in H. destruct H as (_ & -> & H).
  eapply distinct_perm; [apply Permutation_sym; apply isort_perm|].
  apply strict_sorted_nodup. eapply build_degenerate_strict; [apply isort_sorted|exact H].
Qed.

(* ---------------------------------------------------------------- Stepwise: one loop body *)
Lemma stepwise_init_ok : forall base rules itv c, stepwise_init base rules itv = Ok c ->
  compile_lookup base rules = Ok (sw_lookup c) /\ sw_interval c = itv.
Proof.
  intros base rules itv c H. unfold stepwise_init in H.
  destruct (compile_lookup base rules) as [lk|]; [|discriminate]. injection H as <-. auto.
Qed.

(* what one step may do to the pool and which effects it has, given the decision of the callee *)
Definition outcome (p : pool) (w : option Q) : pool := match w with Some d => set_demand p d | None => p end.
Definition writes_of (w : option Q) : list effect := match w with Some d => [EWrite d] | None => [] end.

Lemma apply_write_eq : forall p w, apply_write p w = (outcome p w, writes_of w).
Proof. intros p [d|]; reflexivity. Qed.

Lemma stepwise_body_spec : forall sem base rules itv c p,
  stepwise_init base rules itv = Ok c -> 0 <= p_supply p ->
  let sel := match greatest_le rules (p_supply p) with Some r => r | None => base end in
  stepwise_body sem c p =
    Ok (outcome p (sem sel p itv), ECallRule sel true itv :: writes_of (sem sel p itv)).
Proof.
  intros sem base rules itv c p Hinit Hs sel. apply stepwise_init_ok in Hinit. destruct Hinit as [Hlk Hitv].
  unfold stepwise_body. rewrite (stepwise_selects base rules _ _ Hlk Hs). fold sel.
  rewrite Hitv, apply_write_eq. reflexivity.
Qed.

(* outside the domain: a negative supply below every threshold finds no range; the body raises *)
Lemma stepwise_body_no_rule : forall sem base rules itv c p,
  stepwise_init base rules itv = Ok c -> p_supply p < 0 -> none_le rules (p_supply p) ->
  stepwise_body sem c p = Err ENoRule.
Proof.
  intros sem base rules itv c p Hinit Hs Hn. apply stepwise_init_ok in Hinit. destruct Hinit as [Hlk _].
  unfold stepwise_body. rewrite (get_rule_compiled base rules _ _ Hlk).
  apply greatest_le_none in Hn. rewrite Hn.
  destruct (Qle_bool 0 (p_supply p)) eqn:E; qcases; [lra|reflexivity].
Qed.

(* ---------------------------------------------------------------- DemandSwitch *)
(* the (threshold, controller) table as declared *)
Definition slave_table (items : list sitem) : option (list entry) :=
  match pairwise items with Some ps => typed_pairs ps | None => None end.

Lemma tag_in_range : forall tags i, tag_of tags i <> TOther -> (i < length tags)%nat.
Proof.
  intros tags i H. destruct (Nat.lt_ge_cases i (length tags)) as [L|L]; [exact L|].
  exfalso. apply H. unfold tag_of. apply nth_overflow. exact L.
Qed.

Lemma set_tag_length : forall tags i, length (set_tag tags i) = length tags.
Proof. induction tags as [|t r IH]; intros [|j]; cbn [set_tag length]; auto. Qed.

Lemma set_tag_same : forall tags i, (i < length tags)%nat -> tag_of (set_tag tags i) i = TSame.
Proof.
  unfold tag_of. induction tags as [|t r IH]; intros [|j] H; cbn [set_tag length nth] in *; try lia; [reflexivity|].
  apply IH. lia.
Qed.

Lemma set_tag_other : forall tags i j, i <> j -> tag_of (set_tag tags i) j = tag_of tags j.
Proof.
  unfold tag_of. induction tags as [|t r IH]; intros [|i] [|j] H; cbn [set_tag nth]; try reflexivity; try congruence.
  apply IH. congruence.
Qed.

Lemma set_tag_keeps_same : forall tags i c, tag_of tags c = TSame -> tag_of (set_tag tags i) c = TSame.
Proof.
  intros tags i c H. destruct (Nat.eq_dec i c) as [->|Hne].
  - apply set_tag_same. apply tag_in_range. rewrite H. discriminate.
  - rewrite set_tag_other by exact Hne. exact H.
Qed.

Lemma fold_set_tag_keeps : forall ids tags c, tag_of tags c = TSame -> tag_of (fold_left set_tag ids tags) c = TSame.
Proof.
  induction ids as [|i ids IH]; intros tags c H; cbn [fold_left]; [exact H|].
  apply IH. apply set_tag_keeps_same. exact H.
Qed.

Lemma fold_set_tag_in : forall ids tags c, In c ids -> (c < length tags)%nat ->
  tag_of (fold_left set_tag ids tags) c = TSame.
Proof.
  induction ids as [|i ids IH]; intros tags c Hin Hlen; [destruct Hin|]. cbn [fold_left].
  destruct (Nat.eq_dec i c) as [->|Hne].
  - apply fold_set_tag_keeps. apply set_tag_same. exact Hlen.
  - destruct Hin as [Heq|Hin]; [congruence|]. apply IH; [exact Hin|]. rewrite set_tag_length. exact Hlen.
Qed.

Lemma fold_set_tag_notin : forall ids tags c, ~ In c ids -> tag_of (fold_left set_tag ids tags) c = tag_of tags c.
Proof.
  induction ids as [|i ids IH]; intros tags c Hnin; cbn [fold_left]; [reflexivity|].
  rewrite IH by (intros H; apply Hnin; right; exact H).
  apply set_tag_other. intros ->. apply Hnin. left. reflexivity.
Qed.

Lemma target_ok_iff : forall tags c, target_ok tags c = true <-> tag_of tags c <> TOther.
Proof.
  intros tags c. unfold target_ok. destruct (tag_of tags c); cbn; split; intros H; congruence.
Qed.

(* everything the constructor establishes *)
Record switch_built (tags : list ttag) (default : nat) (es : list entry) (itv : Q) (sw : switch) : Prop := {
  sb_consistent : consistent es;
  sb_default : s_default sw = default;
  sb_slaves : s_slaves sw = isort es;
  sb_interval : s_interval sw = itv;
  sb_targets_ok : forall c, In c (default :: map snd es) -> tag_of tags c <> TOther;
  sb_retargeted : forall c, In c (default :: map snd es) -> tag_of (s_tags sw) c = TSame;
  sb_others_kept : forall c, ~ In c (default :: map snd es) -> tag_of (s_tags sw) c = tag_of tags c
}.

Lemma switch_init_ok : forall tags default items itv sw,
  switch_init tags default items itv = Ok sw ->
  exists es, slave_table items = Some es /\ switch_built tags default es itv sw.
Proof.
  intros tags default items itv sw H. unfold switch_init in H. unfold slave_table.
  destruct (pairwise items) as [ps|]; [|discriminate].
  destruct (typed_pairs ps) as [es|]; [|discriminate]. exists es. split; [reflexivity|].
  destruct (py_sorted es) as [srt|] eqn:E; [|discriminate]. apply py_sorted_ok in E. destruct E as [Hc ->].
  destruct (target_ok tags default) eqn:E1; [|discriminate]. cbn [andb] in H.
  destruct (forallb (fun e => target_ok tags (snd e)) (isort es)) eqn:E2; [|discriminate].
  injection H as <-. apply target_ok_iff in E1. rewrite forallb_forall in E2.
  assert (Hperm : Permutation (map snd es) (map snd (isort es))) by (apply Permutation_map; apply isort_perm).
  assert (Hok : forall c, In c (default :: map snd es) -> tag_of tags c <> TOther).
  { intros c [<-|Hin]; [exact E1|]. apply (Permutation_in _ Hperm) in Hin.
    apply in_map_iff in Hin. destruct Hin as (e & <- & He). apply target_ok_iff. apply E2. exact He. }
  constructor; cbn [s_default s_slaves s_interval s_tags]; try reflexivity; try assumption.
  - intros c Hin. pose proof (tag_in_range _ _ (Hok c Hin)) as Hlen. destruct Hin as [<-|Hin].
    + apply fold_set_tag_keeps. apply set_tag_same. exact Hlen.
    + apply fold_set_tag_in; [eapply Permutation_in; eauto|]. rewrite set_tag_length. exact Hlen.
  - intros c Hnin. rewrite fold_set_tag_notin.
    + apply set_tag_other. intros ->. apply Hnin. left. reflexivity.
    + intros Hin. apply Hnin. right. eapply Permutation_in; [apply Permutation_sym; exact Hperm|exact Hin].
Qed.

(* the constructor accepts exactly: an even number of items forming (number, controller) pairs,
   no threshold declared for two different controllers, no controller bound to another pool *)
Lemma switch_init_accepts : forall tags default items itv es,
  slave_table items = Some es -> consistent es ->
  (forall c, In c (default :: map snd es) -> tag_of tags c <> TOther) ->
  exists sw, switch_init tags default items itv = Ok sw.
Proof.
  intros tags default items itv es Ht Hc Hok. unfold switch_init. unfold slave_table in Ht.
  destruct (pairwise items) as [ps|]; [|discriminate]. rewrite Ht.
  assert (py_sorted es = Ok (isort es)) as -> by (apply py_sorted_ok; auto).
  assert (target_ok tags default = true) as -> by (apply target_ok_iff; apply Hok; left; reflexivity).
  assert (forallb (fun e => target_ok tags (snd e)) (isort es) = true) as ->.
  { apply forallb_forall. intros e He. apply target_ok_iff. apply Hok. right.
    apply in_map. eapply Permutation_in; [apply Permutation_sym; apply isort_perm|exact He]. }
  cbn [andb]. eexists. reflexivity.
Qed.

Lemma switch_init_rejects : forall tags default items itv,
  (slave_table items = None
   \/ (exists es, slave_table items = Some es /\
        (~ consistent es \/ exists c, In c (default :: map snd es) /\ tag_of tags c = TOther))) ->
  switch_init tags default items itv = Err ERejected.
Proof.
  intros tags default items itv H.
  destruct (switch_init tags default items itv) as [sw|[|]] eqn:E; [exfalso| reflexivity |exfalso].
  - destruct (switch_init_ok _ _ _ _ _ E) as (es & Ht & B). destruct H as [H|(es' & Ht' & H)]; [congruence|].
    assert (es' = es) as -> by congruence. destruct H as [H|(c & Hin & Htag)].
    + apply H. apply (sb_consistent _ _ _ _ _ B).
    + apply (sb_targets_ok _ _ _ _ _ B c Hin). exact Htag.
  - unfold switch_init in E. destruct (pairwise items); [|discriminate]. destruct (typed_pairs l); [|discriminate].
    unfold py_sorted in E. destruct (has_conflict l0); [discriminate|].
    destruct (target_ok tags default && forallb (fun e => target_ok tags (snd e)) (isort l0)); discriminate.
Qed.

Lemma greatest_le_in : forall es d c, greatest_le es d = Some c -> In c (map snd es).
Proof.
  intros es d c H. apply greatest_le_some in H. destruct H as (t & Hin & _).
  apply in_map_iff. exists (t, c). auto.
Qed.

(* one regulation step of the switch *)
Lemma switch_delegates : forall sem tags default es itv0 sw p itv,
  switch_built tags default es itv0 sw ->
  let sel := match greatest_le es (p_demand p) with Some c => c | None => default end in
  switch_regulate sem sw p itv =
    (outcome p (sem sel p itv), ECallReg sel true itv :: writes_of (sem sel p itv)).
Proof.
  intros sem tags default es itv0 sw p itv B sel. unfold switch_regulate.
  rewrite choose_last_le, (sb_slaves _ _ _ _ _ B), (sb_default _ _ _ _ _ B).
  rewrite (last_le_sorted_greatest es (isort es)) by (apply py_sorted_ok; split; [apply (sb_consistent _ _ _ _ _ B)|reflexivity]).
  fold sel. rewrite apply_write_eq.
  assert (In sel (default :: map snd es)) as Hin.
  { unfold sel. destruct (greatest_le es (p_demand p)) as [c|] eqn:E; [right; eapply greatest_le_in; eauto|left; reflexivity]. }
  rewrite (sb_retargeted _ _ _ _ _ B sel Hin). reflexivity.
Qed.

(* ---------------------------------------------------------------- sequences *)
Fixpoint sum_itv (ops : list op) : Q :=
  match ops with [] => 0 | OReg i :: r => i + sum_itv r | _ :: r => sum_itv r end.

Fixpoint count_regs (ops : list op) : nat :=
  match ops with [] => O | OReg _ :: r => S (count_regs r) | _ :: r => count_regs r end.

Definition no_outside_write (ops : list op) : Prop := forall d, ~ In (ODemand d) ops.
Definition nonneg_itvs (ops : list op) : Prop := forall i, In (OReg i) ops -> 0 <= i.

Lemma Qabs_le_iff : forall x y, Qabs x <= y <-> (- y <= x /\ x <= y).
Proof. intros. apply Qabs_Qle_condition. Qed.

Lemma linear_sequence : forall sem low high rate itv0 c ops p,
  linear_init low high rate itv0 = Ok c -> nonneg_itvs ops -> no_outside_write ops ->
  exists p' ef, run sem (CLinear c) p ops = Ok (p', ef)
    /\ Qabs (p_demand p' - p_demand p) <= l_rate c * sum_itv ops.
Proof.
  intros sem low high rate itv0 c ops. induction ops as [|o ops IH]; intros p Hinit Hnn Hno.
  - exists p, []. split; [reflexivity|]. cbn [sum_itv]. apply Qabs_le_iff. lra.
  - assert (Hnn' : nonneg_itvs ops) by (intros i Hi; apply Hnn; right; exact Hi).
    assert (Hno' : no_outside_write ops) by (intros d Hd; apply (Hno d); right; exact Hd).
    cbn [run]. destruct o as [i|s u a|d].
    + assert (0 <= i) as Hi by (apply Hnn; left; reflexivity).
      destruct (linear_step sem low high rate itv0 c p i Hinit Hi) as (p1 & ef1 & Hreg & Hspec).
      cbn [step]. rewrite Hreg. destruct (IH p1 Hinit Hnn' Hno') as (p2 & ef2 & Hrun & Hb). rewrite Hrun.
      eexists; eexists; split; [reflexivity|]. destruct Hspec as (Hb1 & _). cbn [sum_itv].
      apply Qabs_le_iff in Hb. apply Qabs_le_iff in Hb1. apply Qabs_le_iff. lra.
    + cbn [step]. destruct (IH (mkPool s (p_demand p) u a) Hinit Hnn' Hno') as (p2 & ef2 & Hrun & Hb). rewrite Hrun.
      eexists; eexists; split; [reflexivity|]. cbn [sum_itv]. exact Hb.
    + exfalso. apply (Hno d). left. reflexivity.
Qed.

(* in every history: calls and writes are counted by the regulation steps *)
Definition is_call (e : effect) : bool := match e with EWrite _ => false | _ => true end.
Definition is_write (e : effect) : bool := match e with EWrite _ => true | _ => false end.

Definition calls_per_step (c : ctrl) : nat :=
  match c with CLinear _ | CRelative _ => O | CStepwise _ | CSwitch _ => 1%nat end.

Lemma writes_of_counts : forall w, length (filter is_call (writes_of w)) = O /\ (length (filter is_write (writes_of w)) <= 1)%nat.
Proof. intros [d|]; cbn; auto. Qed.

Lemma regulate_counts : forall sem c p itv p' ef, regulate sem c p itv = Ok (p', ef) ->
  length (filter is_call ef) = calls_per_step c /\ (length (filter is_write ef) <= 1)%nat.
Proof.
  intros sem c p itv p' ef H. destruct c as [c|c|c|c]; cbn [regulate calls_per_step] in *.
  - rewrite apply_write_eq in H. injection H as <- <-. apply writes_of_counts.
  - unfold relative_write in H. cbn [apply_write] in H. injection H as <- <-. cbn. auto.
  - unfold stepwise_body in H. destruct (get_rule (sw_lookup c) (p_supply p)); [|discriminate].
    rewrite apply_write_eq in H. injection H as <- <-. cbn [filter is_call is_write length].
    destruct (writes_of_counts (sem n p (sw_interval c))) as [-> H2]. auto.
  - unfold switch_regulate in H. rewrite apply_write_eq in H. injection H as <- <-.
    cbn [filter is_call is_write length].
    destruct (writes_of_counts (sem (choose (s_default c) (s_slaves c) (p_demand p)) p itv)) as [-> H2]. auto.
Qed.

Lemma history_counts : forall sem c ops p p' ef, run sem c p ops = Ok (p', ef) ->
  length (filter is_call ef) = (calls_per_step c * count_regs ops)%nat
  /\ (length (filter is_write ef) <= count_regs ops)%nat.
Proof.
  intros sem c. induction ops as [|o ops IH]; intros p p' ef H; cbn [run] in H.
  - injection H as <- <-. cbn. split; lia.
  - destruct (step sem c p o) as [[p1 ef1]|] eqn:E1; [|discriminate].
    destruct (run sem c p1 ops) as [[p2 ef2]|] eqn:E2; [|discriminate]. injection H as <- <-.
    destruct (IH _ _ _ E2) as [Hc Hw]. rewrite !filter_app, !app_length, Hc.
    destruct o as [i|s u a|d]; cbn [step count_regs] in *.
    + destruct (regulate_counts _ _ _ _ _ _ E1) as [-> Hw1]. split; lia.
    + injection E1 as <- <-. cbn. split; lia.
    + injection E1 as <- <-. cbn. split; lia.
Qed.

(* nothing but a regulation step of the controller itself produces effects; the environment's
   operations leave the demand to what they say *)
Lemma env_steps_silent : forall sem c p o p' ef, (forall i, o <> OReg i) -> step sem c p o = Ok (p', ef) -> ef = [].
Proof.
  intros sem c p o p' ef Hno H. destruct o as [i|s u a|d]; [exfalso; apply (Hno i); reflexivity| |];
    cbn [step] in H; injection H as <- <-; reflexivity.
Qed.

(* ---------------------------------------------------------------- statements as used by props/C08.v *)
Lemma stepwise_step : forall sem base rules itv c p i,
  stepwise_init base rules itv = Ok c -> 0 <= p_supply p ->
  let sel := match greatest_le rules (p_supply p) with Some r => r | None => base end in
  regulate sem (CStepwise c) p i =
    Ok (outcome p (sem sel p itv), ECallRule sel true itv :: writes_of (sem sel p itv)).
Proof. intros sem base rules itv c p i. cbn [regulate]. apply stepwise_body_spec. Qed.

Lemma switch_step : forall sem tags default items itv0 sw,
  switch_init tags default items itv0 = Ok sw ->
  exists es, slave_table items = Some es
    /\ (forall c, In c (default :: map snd es) -> tag_of (s_tags sw) c = TSame)
    /\ (forall c, ~ In c (default :: map snd es) -> tag_of (s_tags sw) c = tag_of tags c)
    /\ forall p itv,
         let sel := match greatest_le es (p_demand p) with Some c => c | None => default end in
         regulate sem (CSwitch sw) p itv =
           Ok (outcome p (sem sel p itv), ECallReg sel true itv :: writes_of (sem sel p itv)).
Proof.
  intros sem tags default items itv0 sw H. destruct (switch_init_ok _ _ _ _ _ H) as (es & Ht & B).
  exists es. split; [exact Ht|]. split; [apply (sb_retargeted _ _ _ _ _ B)|].
  split; [apply (sb_others_kept _ _ _ _ _ B)|]. intros p itv sel. cbn [regulate].
  rewrite (switch_delegates sem tags default es itv0 sw p itv B). reflexivity.
Qed.

Lemma switch_constructor : forall tags default items itv,
  (exists sw, switch_init tags default items itv = Ok sw) <->
  (exists es, slave_table items = Some es /\ consistent es
     /\ forall c, In c (default :: map snd es) -> tag_of tags c <> TOther).
Proof.
  intros tags default items itv. split.
  - intros [sw H]. destruct (switch_init_ok _ _ _ _ _ H) as (es & Ht & B). exists es.
    split; [exact Ht|]. split; [apply (sb_consistent _ _ _ _ _ B)|apply (sb_targets_ok _ _ _ _ _ B)].
  - intros (es & Ht & Hc & Hok). eapply switch_init_accepts; eauto.
Qed.

Lemma switch_init_total : forall tags default items itv,
  (exists sw, switch_init tags default items itv = Ok sw) \/ switch_init tags default items itv = Err ERejected.
Proof.
  intros tags default items itv. unfold switch_init.
  destruct (pairwise items) as [ps|]; [|right; reflexivity].
  destruct (typed_pairs ps) as [es|]; [|right; reflexivity].
  unfold py_sorted. destruct (has_conflict es); [right; reflexivity|].
  destruct (target_ok tags default && forallb (fun e => target_ok tags (snd e)) (isort es));
    [left; eexists; reflexivity|right; reflexivity].
Qed.

Lemma compile_lookup_total : forall base rules,
  (exists lk, compile_lookup base rules = Ok lk) \/ compile_lookup base rules = Err ERejected.
Proof.
  intros base rules. unfold compile_lookup. destruct rules as [|e r]; [left; eexists; reflexivity|].
  unfold py_sorted. destruct (has_conflict (e :: r)); [right; reflexivity|].
  destruct (existsb degenerate (build 0 base (isort (e :: r)))); [right; reflexivity|left; eexists; reflexivity].
Qed.
