(* Proofs for C05 (model/Pipeline.v): for every pipeline length, the loaded section is the chain
   the document describes, equal to the python `>>` chain; constructor failures are total. *)
From Coq Require Import ZArith NArith List Bool Arith Lia.
From Cobald Require Import model.Mapping model.Pipeline proofs.MappingProofs.
Import ListNotations.

Local Arguments str_eqb : simpl never.

(* ------------------------------------------------------------------ induction principle *)
Section PvInd.
  Variable P : pvalue -> Prop.
  Hypothesis HS : forall s, P (PS s).
  Hypothesis HL : forall l, Forall P l -> P (PL l).
  Hypothesis HM : forall m, Forall (fun kv => P (snd kv)) m -> P (PM m).
  Hypothesis HT : forall k c a kw, P (PTag k c a kw).
  Hypothesis HR : forall i, P (PRef i).

  Fixpoint pvalue_ind2 (v : pvalue) : P v :=
    match v with
    | PS s => HS s
    | PL l =>
        HL l ((fix go (l : list pvalue) : Forall P l :=
                 match l with
                 | [] => Forall_nil _
                 | x :: r => Forall_cons x (pvalue_ind2 x) (go r)
                 end) l)
    | PM m =>
        HM m ((fix go (m : list (str * pvalue)) : Forall (fun kv => P (snd kv)) m :=
                 match m with
                 | [] => Forall_nil _
                 | kv :: r => Forall_cons kv (pvalue_ind2 (snd kv)) (go r)
                 end) m)
    | PTag k c a kw => HT k c a kw
    | PRef i => HR i
    end.
End PvInd.

(* ------------------------------------------------------------------ dictionaries *)
Section Dict2.
  Context {A : Type}.
  Implicit Types m r : list (str * A).

  Lemma has_key_cons : forall k kv m, has_key k (kv :: m) = str_eqb k (fst kv) || has_key k m.
  Proof. reflexivity. Qed.

  Lemma has_key_app : forall k m r, has_key k (m ++ r) = has_key k m || has_key k r.
  Proof. intros. unfold has_key. apply existsb_app. Qed.

  Lemma has_key_false_lookup : forall k m, has_key k m = false -> lookup k m = None.
  Proof.
    intros k m H. destruct (lookup k m) as [v|] eqn:E; [|reflexivity].
    assert (has_key k m = true) as H1 by (apply has_key_lookup; eauto). congruence.
  Qed.

  Lemma lookup_some_has_key : forall k m v, lookup k m = Some v -> has_key k m = true.
  Proof. intros k m v H. apply has_key_lookup. eauto. Qed.

  Lemma lookup_app_l : forall k m r v, lookup k m = Some v -> lookup k (m ++ r) = Some v.
  Proof.
    intros k m r v. induction m as [|[k0 v0] m IH]; cbn [lookup app]; [discriminate|].
    destruct (str_eqb k k0); [trivial|exact IH].
  Qed.

  Lemma lookup_app_absent : forall k m r, has_key k m = false -> lookup k (m ++ r) = lookup k r.
  Proof.
    intros k m r. induction m as [|[k0 v0] m IH]; cbn [lookup app]; [reflexivity|].
    rewrite has_key_cons. cbn [fst]. destruct (str_eqb k k0); cbn [orb]; [discriminate|exact IH].
  Qed.

  Lemma remove_app : forall k m r, remove k (m ++ r) = remove k m ++ remove k r.
  Proof. intros. unfold remove. apply filter_app. Qed.

  Lemma remove_absent : forall k m, has_key k m = false -> remove k m = m.
  Proof.
    intros k m. induction m as [|kv m IH]; [reflexivity|].
    rewrite has_key_cons. unfold remove in *. cbn [filter].
    destruct (str_eqb k (fst kv)); cbn [orb negb]; [discriminate|]. intros H. rewrite (IH H). reflexivity.
  Qed.

  Lemma has_key_remove_other : forall k k' m, str_eqb k' k = false ->
    has_key k (remove k' m) = has_key k m.
  Proof.
    intros k k' m H. induction m as [|kv m IH]; [reflexivity|].
    unfold remove in *. cbn [filter]. destruct (str_eqb k' (fst kv)) eqn:E; cbn [negb].
    - rewrite has_key_cons. apply str_eqb_eq in E. rewrite <- E.
      rewrite (str_eqb_sym k k'), H. cbn [orb]. exact IH.
    - rewrite !has_key_cons, IH. reflexivity.
  Qed.

  Lemma dict_set_absent : forall k (v : A) m, has_key k m = false -> dict_set k v m = m ++ [(k, v)].
  Proof.
    intros k v m. induction m as [|kv m IH]; [reflexivity|].
    rewrite has_key_cons. cbn [dict_set app].
    destruct (str_eqb k (fst kv)); cbn [orb]; [discriminate|]. intros H. rewrite (IH H). reflexivity.
  Qed.

  Lemma remove_single_same : forall k (v : A), remove k [(k, v)] = [].
  Proof. intros. unfold remove. cbn [filter fst]. rewrite str_eqb_refl. reflexivity. Qed.

  Lemma remove_single_other : forall k k' (v : A), str_eqb k' k = false -> remove k' [(k, v)] = [(k, v)].
  Proof. intros k k' v H. unfold remove. cbn [filter fst]. rewrite H. reflexivity. Qed.

  Lemma lookup_single : forall k (v : A), lookup k [(k, v)] = Some v.
  Proof. intros. cbn [lookup]. rewrite str_eqb_refl. reflexivity. Qed.
End Dict2.

Lemma pair_eta : forall {A B} (p : A * B), (fst p, snd p) = p.
Proof. intros A B [a b]. reflexivity. Qed.

(* ------------------------------------------------------------------ main development *)
Section Proofs.
  Variable resolve : str -> rres.
  Variable leaf : cls -> bool.
  Variable fails : cls -> bool.

  Notation ptr := (ptr resolve leaf fails).
  Notation new_obj := (new_obj leaf fails).
  Notation pconstruct := (pconstruct resolve leaf fails).
  Notation elem_spec := (elem_spec resolve).

  Lemma findp_none : forall A (h : pvalue -> A) m, has_key s_pipeline m = false -> findp h m = None.
  Proof.
    intros A h m. induction m as [|kv m IH]; [reflexivity|].
    rewrite has_key_cons. cbn [findp]. destruct (str_eqb s_pipeline (fst kv)); cbn [orb]; [discriminate|exact IH].
  Qed.

  (* ---------- values without reserved keys pass through the translator unchanged ---------- *)
  Lemma plain_unchanged : forall v, plain v = true ->
    forall w ckw st, ptr w ckw v st = (Ok v, st).
  Proof.
    induction v as [s|l IH|m IH|k c a kw|i] using pvalue_ind2; intros Hp w ckw st; try reflexivity.
    - cbn [Pipeline.ptr]. cbn [plain] in Hp.
      assert (forall i st, tr_comp (fun w1 c x => ptr w1 c x) w i l st = (Ok (rev l), st)) as Hc.
      { induction l as [|x l IHl]; intros i st1; cbn [tr_comp]; [reflexivity|].
        cbn [forallb] in Hp. apply andb_true_iff in Hp as [Hx Hl].
        inversion IH as [|? ? IHx IHr]; subst.
        unfold bindM. rewrite (IHl IHr Hl). rewrite (IHx Hx). reflexivity. }
      unfold wrapM, bindM. rewrite Hc. cbn [fst snd wrap retM]. rewrite rev_involutive. reflexivity.
    - cbn [Pipeline.ptr]. cbn [plain] in Hp.
      apply andb_true_iff in Hp as [Hp Hv]. apply andb_true_iff in Hp as [Hnp Hnt].
      apply negb_true_iff in Hnp. apply negb_true_iff in Hnt.
      rewrite (findp_none _ _ m Hnp).
      assert (forall st, tr_items (fun w1 c x => ptr w1 c x) w m st = (Ok m, st)) as Hi.
      { clear Hnp Hnt. induction m as [|kv m IHm]; intros st1; cbn [tr_items]; [reflexivity|].
        cbn [forallb] in Hv. apply andb_true_iff in Hv as [Hx Hl].
        inversion IH as [|? ? IHx IHr]; subst.
        unfold bindM. rewrite (IHx Hx). rewrite (IHm IHr Hl). unfold retM. rewrite pair_eta. reflexivity. }
      unfold wrapM, bindM. rewrite Hi. rewrite Hnt. reflexivity.
  Qed.

  Lemma tr_items_plain : forall m, forallb (fun kv => plain (snd kv)) m = true ->
    forall w st, tr_items (fun w1 c x => ptr w1 c x) w m st = (Ok m, st).
  Proof.
    induction m as [|kv m IHm]; intros Hv w st; cbn [tr_items]; [reflexivity|].
    cbn [forallb] in Hv. apply andb_true_iff in Hv as [Hx Hl].
    unfold bindM. rewrite (plain_unchanged _ Hx). rewrite (IHm Hl). unfold retM. rewrite pair_eta. reflexivity.
  Qed.

  (* ---------- calling a class ---------- *)
  Definition after (st : pstate) (c : cls) (t : option pvalue) (a : list pvalue)
             (k : list (str * pvalue)) : pstate :=
    mkSt (S (next st)) (plog st ++ [mkEv (next st) c t a k]).

  Definition made (st : pstate) (c : cls) (e : pyexc) (t : option pvalue) (a : list pvalue)
             (k : list (str * pvalue)) : res pvalue * pstate :=
    if fails c then (Err e, after st c t a k) else (Ok (PRef (next st)), after st c t a k).

  Lemma new_obj_owner_pos : forall c p args kw st, leaf c = false -> has_key s_target kw = false ->
    new_obj c (p :: args) kw st = made st c (PExc (ExUser c)) (Some p) args kw.
  Proof.
    intros c p args kw st Hl Hk. unfold Pipeline.new_obj, bind_sig, made, after.
    rewrite Hl, (has_key_false_lookup _ _ Hk). reflexivity.
  Qed.

  Lemma new_obj_owner_kw : forall c p kw st, leaf c = false -> has_key s_target kw = false ->
    new_obj c [] (kw ++ [(s_target, p)]) st = made st c (PExc (ExUser c)) (Some p) [] kw.
  Proof.
    intros c p kw st Hl Hk. unfold Pipeline.new_obj, bind_sig, made, after.
    rewrite Hl, (lookup_app_absent _ _ _ Hk), lookup_single.
    rewrite remove_app, (remove_absent _ _ Hk), remove_single_same, app_nil_r. reflexivity.
  Qed.

  Lemma new_obj_leaf : forall c args kw st, leaf c = true ->
    new_obj c args kw st = made st c (PExc (ExUser c)) None args kw.
  Proof.
    intros c args kw st Hl. unfold Pipeline.new_obj, bind_sig, made, after. rewrite Hl. reflexivity.
  Qed.

  (* ---------- what elem_spec says about an element ---------- *)
  Lemma elem_spec_tag_inv : forall g k c a kw s, elem_spec g (PTag k c a kw) = Some s ->
    k = KTemplate /\ has_key s_target kw = false /\ s = mkSpec c a kw.
  Proof.
    intros g k c a kw s H. cbn [Pipeline.elem_spec] in H. destruct k; [|discriminate].
    destruct (has_key s_target kw); [discriminate|]. injection H as <-. auto.
  Qed.

  Lemma elem_spec_type_inv : forall g m s, elem_spec g (PM m) = Some s ->
    exists name c, lookup s_type m = Some (PS (SStr name)) /\ resolve name = RCallable c
      /\ has_key s_args m = false /\ has_key s_target m = false /\ has_key s_pipeline m = false
      /\ forallb (fun kv => g (snd kv)) m = true /\ s = mkSpec c [] (remove s_type m).
  Proof.
    intros g m s H. cbn [Pipeline.elem_spec] in H.
    destruct (lookup s_type m) as [[sc| | | |]|]; try discriminate.
    destruct sc as [| | | |name]; try discriminate.
    destruct (resolve name) as [c| | |] eqn:Er; try discriminate.
    destruct (nodup_keys (keys m) && negb (has_key s_args m) && negb (has_key s_target m)
              && negb (has_key s_pipeline m) && forallb (fun kv => g (snd kv)) m) eqn:E; [|discriminate].
    injection H as <-.
    apply andb_true_iff in E as [E Hg]. apply andb_true_iff in E as [E Hp].
    apply andb_true_iff in E as [E Ht]. apply andb_true_iff in E as [_ Ha].
    apply negb_true_iff in Hp. apply negb_true_iff in Ht. apply negb_true_iff in Ha.
    exists name, c. auto 10.
  Qed.

  Lemma elem_spec_no_target : forall g x s, elem_spec g x = Some s -> has_key s_target (sp_kw s) = false.
  Proof.
    intros g x s H. destruct x as [sc|l|m|k c a kw|i]; try discriminate.
    - apply elem_spec_type_inv in H as (name & c & _ & _ & _ & Ht & _ & _ & ->). cbn [sp_kw].
      rewrite has_key_remove_other by reflexivity. exact Ht.
    - apply elem_spec_tag_inv in H as (_ & Ht & ->). exact Ht.
  Qed.

  (* ---------- a legacy __type__ element ---------- *)
  Lemma ptr_type_elem : forall m s, elem_spec plain (PM m) = Some s ->
    forall w ckw st, ptr w ckw (PM m) st = wrapM w (pconstruct m ckw) st.
  Proof.
    intros m s H w ckw st.
    apply elem_spec_type_inv in H as (name & c & Hl & _ & _ & _ & Hp & Hv & _).
    cbn [Pipeline.ptr]. rewrite (findp_none _ _ m Hp).
    unfold wrapM, bindM. rewrite (tr_items_plain m Hv).
    rewrite (lookup_some_has_key _ _ _ Hl). reflexivity.
  Qed.

  Lemma pconstruct_tail : forall m name c, lookup s_type m = Some (PS (SStr name)) ->
    resolve name = RCallable c -> has_key s_args m = false ->
    forall st, pconstruct m [] st = new_obj c [] (remove s_type m) st.
  Proof.
    intros m name c Hl Hr Ha st. unfold Pipeline.pconstruct.
    change (has_key s_type (@nil (str * pvalue)) || has_key s_args (@nil (str * pvalue))) with false.
    cbv iota. change (dict_update m []) with m. rewrite Hl. cbn [ptype_name]. rewrite Hr.
    rewrite lookup_remove_other by reflexivity. rewrite (has_key_false_lookup _ _ Ha).
    cbn [pstar_args]. rewrite remove_absent; [reflexivity|].
    rewrite has_key_remove_other by reflexivity. exact Ha.
  Qed.

  Lemma pconstruct_owner : forall m name c p, lookup s_type m = Some (PS (SStr name)) ->
    resolve name = RCallable c -> has_key s_args m = false -> has_key s_target m = false ->
    forall st, pconstruct m [(s_target, p)] st = new_obj c [] (remove s_type m ++ [(s_target, p)]) st.
  Proof.
    intros m name c p Hl Hr Ha Ht st. unfold Pipeline.pconstruct.
    change (has_key s_type [(s_target, p)] || has_key s_args [(s_target, p)]) with false.
    cbv iota. change (dict_update m [(s_target, p)]) with (dict_set s_target p m).
    rewrite (dict_set_absent _ _ _ Ht). rewrite (lookup_app_l _ _ _ _ Hl). cbn [ptype_name]. rewrite Hr.
    rewrite remove_app, (remove_single_other s_target s_type p eq_refl).
    assert (has_key s_args (remove s_type m) = false) as Ha'
      by (rewrite has_key_remove_other by reflexivity; exact Ha).
    rewrite (lookup_app_absent _ _ _ Ha').
    change (lookup s_args [(s_target, p)]) with (@None pvalue).
    cbn [pstar_args]. rewrite remove_app, (remove_absent _ _ Ha'), (remove_single_other s_target s_args p eq_refl).
    reflexivity.
  Qed.

  (* how the failure of an element's constructor surfaces, under `where` w *)
  Definition elem_err_w (w : str) (i : nat) (x : pvalue) (c : cls) : pyexc :=
    match x with
    | PTag _ _ _ _ => PExc (ExUser c)
    | _ => PConf (WExc (ExUser c)) (Some (where_idx w i))
    end.

  Lemma wrap_made : forall w st c t a k,
    (wrap w (fst (made st c (PExc (ExUser c)) t a k)), snd (made st c (PExc (ExUser c)) t a k))
    = made st c (PConf (WExc (ExUser c)) (Some w)) t a k.
  Proof. intros. unfold made. destruct (fails c); reflexivity. Qed.

  (* ---------- one step of the loop: an owner in front of an already built tail ---------- *)
  Lemma step_owner : forall x s w i p st,
    elem_spec plain x = Some s -> leaf (sp_cls s) = false -> is_template p = false ->
    (if has_rshift x then rshift leaf fails x p
     else ptr (where_idx w i) [(s_target, p)] x) st
    = made st (sp_cls s) (elem_err_w w i x (sp_cls s)) (Some p) (sp_args s) (sp_kw s).
  Proof.
    intros x s w i p st Hs Hl Hp. destruct x as [sc|l|m|k c a kw|j]; try discriminate.
    - (* __type__ mapping: core/config.py:150-152 *)
      change (has_rshift (PM m)) with false. cbv iota.
      rewrite (ptr_type_elem m s Hs).
      apply elem_spec_type_inv in Hs as (name & c & Hlk & Hr & Ha & Ht & _ & _ & ->).
      cbn [sp_cls sp_args sp_kw] in *. unfold wrapM.
      rewrite (pconstruct_owner m name c p Hlk Hr Ha Ht).
      rewrite new_obj_owner_kw; [|exact Hl|rewrite has_key_remove_other by reflexivity; exact Ht].
      apply wrap_made.
    - (* !Tag template: core/config.py:145-147 *)
      apply elem_spec_tag_inv in Hs as (-> & Ht & ->). cbn [sp_cls sp_args sp_kw] in *.
      change (has_rshift (PTag KTemplate c a kw)) with true. cbv iota.
      cbn [rshift]. rewrite Hp. unfold tpl_construct. cbn [app].
      apply new_obj_owner_pos; assumption.
  Qed.

  (* ---------- the first step of the loop: the last element of the pipeline ---------- *)
  Lemma step_tail : forall x s w i st,
    elem_spec plain x = Some s -> leaf (sp_cls s) = true ->
    bindM (ptr (where_idx w i) [] x)
          (fun y => match y with
                    | PTag KTemplate c a k => tpl_construct leaf fails c a k []
                    | _ => retM y
                    end) st
    = made st (sp_cls s) (elem_err_w w i x (sp_cls s)) None (sp_args s) (sp_kw s).
  Proof.
    intros x s w i st Hs Hl. destruct x as [sc|l|m|k c a kw|j]; try discriminate.
    - unfold bindM. rewrite (ptr_type_elem m s Hs).
      apply elem_spec_type_inv in Hs as (name & c & Hlk & Hr & Ha & Ht & _ & _ & ->).
      cbn [sp_cls sp_args sp_kw] in *. unfold wrapM.
      rewrite (pconstruct_tail m name c Hlk Hr Ha). rewrite (new_obj_leaf _ _ _ _ Hl).
      unfold made, after. destruct (fails c); reflexivity.
    - apply elem_spec_tag_inv in Hs as (-> & Ht & ->). cbn [sp_cls sp_args sp_kw] in *.
      unfold bindM. cbn [Pipeline.ptr retM]. unfold tpl_construct. cbn [app].
      apply new_obj_leaf. exact Hl.
  Qed.

  Notation chain_events := Pipeline.chain_events.
  Notation shape := (Pipeline.shape leaf).

  (* ---------- the expected log grows at the end ---------- *)
  Lemma chain_events_app : forall a b id prev,
    chain_events id prev (a ++ b)
    = chain_events id prev a
      ++ chain_events (id + length a)
           (match a with [] => prev | _ => Some (PRef (id + length a - 1)) end) b.
  Proof.
    induction a as [|x a IH]; intros b id prev.
    - cbn [app chain_events length]. rewrite Nat.add_0_r. reflexivity.
    - cbn [app chain_events length]. f_equal. rewrite IH. f_equal.
      replace (S id + length a) with (id + S (length a)) by lia. f_equal.
      destruct a as [|y a]; cbn [length]; f_equal; f_equal; lia.
  Qed.

  Lemma chain_events_snoc : forall rs s id prev, rs <> [] ->
    chain_events id prev (rs ++ [s])
    = chain_events id prev rs
      ++ [mkEv (id + length rs) (sp_cls s) (Some (PRef (id + length rs - 1))) (sp_args s) (sp_kw s)].
  Proof.
    intros rs s id prev Hne. rewrite chain_events_app. destruct rs as [|a rs]; [contradiction|].
    reflexivity.
  Qed.

  Lemma chain_events_length : forall rs id prev, length (chain_events id prev rs) = length rs.
  Proof. induction rs as [|a rs IH]; intros; cbn [chain_events length]; [reflexivity|]. rewrite IH. reflexivity. Qed.

  Lemma shape_cons2 : forall s s2 rs, shape (s :: s2 :: rs) = negb (leaf (sp_cls s)) && shape (s2 :: rs).
  Proof. reflexivity. Qed.

  (* ---------- the loop over a well-formed pipeline without failing constructors ---------- *)
  Lemma pipe_suffix : forall l specs w i st,
    map (elem_spec plain) l = map Some specs -> shape specs = true ->
    (forall s, In s specs -> fails (sp_cls s) = false) ->
    tr_pipe leaf fails (fun w1 c x => ptr w1 c x) w i l st
    = (Ok (PRef (next st + length l - 1), map PRef (seq (next st) (length l))),
       mkSt (next st + length l) (plog st ++ chain_events (next st) None (rev specs))).
  Proof.
    induction l as [|x l IH]; intros specs w i st Hm Hsh Hok.
    - destruct specs; [discriminate Hsh|discriminate Hm].
    - destruct specs as [|s specs]; [discriminate Hm|]. cbn [map] in Hm. injection Hm as Hx Hm.
      destruct l as [|x2 l].
      + (* the last element *)
        destruct specs; [|discriminate Hm]. cbn [Pipeline.shape] in Hsh.
        cbn [tr_pipe]. unfold bindM at 1. cbn [retM fst snd is_none negb].
        unfold bindM at 1. rewrite (step_tail x s w i st Hx Hsh).
        unfold made. rewrite (Hok s (or_introl eq_refl)).
        cbn [is_template retM app length seq map rev chain_events]. unfold after.
        replace (next st + 1 - 1) with (next st) by lia. replace (next st + 1) with (S (next st)) by lia.
        reflexivity.
      + (* an owner in front of a tail *)
        destruct specs as [|s2 specs]; [discriminate Hm|].
        rewrite shape_cons2 in Hsh. apply andb_true_iff in Hsh as [Hl Hsh]. apply negb_true_iff in Hl.
        assert (forall s', In s' (s2 :: specs) -> fails (sp_cls s') = false) as Hok'
          by (intros s' Hin; apply Hok; right; exact Hin).
        remember (x2 :: l) as tl eqn:Etl.
        cbn [tr_pipe]. unfold bindM at 1.
        rewrite (IH (s2 :: specs) w (S i) st Hm Hsh Hok').
        cbn [fst snd is_none negb].
        unfold bindM at 1.
        rewrite (step_owner x s w i (PRef (next st + length tl - 1)) _ Hx Hl eq_refl).
        unfold made. rewrite (Hok s (or_introl eq_refl)).
        cbn [is_template retM next plog]. unfold after. cbn [next plog length].
        assert (length (rev (s2 :: specs)) = length tl) as Hl2.
        { rewrite rev_length. apply (f_equal (@length _)) in Hm. rewrite !map_length in Hm. congruence. }
        unfold retM.
        change (rev (s :: s2 :: specs)) with (rev (s2 :: specs) ++ [s]).
        rewrite chain_events_snoc.
        2:{ cbn [rev]. intros E. apply app_eq_nil in E as [_ E]. discriminate. }
        rewrite Hl2. cbn [length]. rewrite seq_S, map_app. cbn [map].
        rewrite Nat.add_succ_r. rewrite app_assoc.
        replace (S (next st + length tl) - 1) with (next st + length tl) by lia.
        reflexivity.
  Qed.

  (* ---------- a failing constructor: nothing in front of it is touched ---------- *)
  Lemma pipe_fail_here : forall x s l specs w i st,
    elem_spec plain x = Some s -> fails (sp_cls s) = true ->
    map (elem_spec plain) l = map Some specs -> shape (s :: specs) = true ->
    (forall s', In s' specs -> fails (sp_cls s') = false) ->
    tr_pipe leaf fails (fun w1 c x => ptr w1 c x) w i (x :: l) st
    = (Err (elem_err_w w i x (sp_cls s)),
       mkSt (next st + S (length l)) (plog st ++ chain_events (next st) None (rev (s :: specs)))).
  Proof.
    intros x s l specs w i st Hx Hf Hm Hsh Hok.
    destruct l as [|x2 l].
    - destruct specs; [|discriminate Hm]. cbn [Pipeline.shape] in Hsh.
      cbn [tr_pipe]. unfold bindM at 1. cbn [retM fst snd is_none negb].
      unfold bindM at 1. rewrite (step_tail x s w i st Hx Hsh).
      unfold made. rewrite Hf. unfold after. cbn [length rev app chain_events].
      replace (next st + 1) with (S (next st)) by lia. reflexivity.
    - destruct specs as [|s2 specs]; [discriminate Hm|].
      rewrite shape_cons2 in Hsh. apply andb_true_iff in Hsh as [Hl Hsh]. apply negb_true_iff in Hl.
      remember (x2 :: l) as tl eqn:Etl.
      cbn [tr_pipe]. unfold bindM at 1.
      rewrite (pipe_suffix tl (s2 :: specs) w (S i) st Hm Hsh Hok).
      cbn [fst snd is_none negb].
      unfold bindM at 1.
      rewrite (step_owner x s w i (PRef (next st + length tl - 1)) _ Hx Hl eq_refl).
      unfold made. rewrite Hf. unfold after. cbn [next plog].
      f_equal. f_equal; [lia|].
      rewrite <- app_assoc. f_equal.
      change (rev (s :: s2 :: specs)) with (rev (s2 :: specs) ++ [s]).
      rewrite chain_events_snoc.
      2:{ cbn [rev]. intros E. apply app_eq_nil in E as [_ E]. discriminate. }
      assert (length (rev (s2 :: specs)) = length tl) as Hl2.
      { rewrite rev_length. apply (f_equal (@length _)) in Hm. rewrite !map_length in Hm. congruence. }
      rewrite Hl2. reflexivity.
  Qed.

  Lemma pipe_err_prefix : forall pre l w i st e st',
    tr_pipe leaf fails (fun w1 c x => ptr w1 c x) w (i + length pre) l st = (Err e, st') ->
    tr_pipe leaf fails (fun w1 c x => ptr w1 c x) w i (pre ++ l) st = (Err e, st').
  Proof.
    induction pre as [|y pre IH]; intros l w i st e st' H.
    - cbn [length app] in *. rewrite Nat.add_0_r in H. exact H.
    - cbn [app tr_pipe]. unfold bindM at 1. rewrite (IH l w (S i) st e st'); [reflexivity|].
      cbn [length] in H. replace (S i + length pre) with (i + S (length pre)) by lia. exact H.
  Qed.

  (* ---------- load_pipeline ---------- *)
  Lemma load_pipeline_unfold : forall items st,
    load_pipeline resolve leaf fails (PL items) st
    = bindM (tr_pipe leaf fails (fun w1 c x => ptr w1 c x) [] 0 items)
            (fun r => retM (PL (rev (snd r)))) st.
  Proof.
    intros items st. unfold load_pipeline. cbn [Pipeline.ptr findp fst snd].
    rewrite str_eqb_refl. reflexivity.
  Qed.

  Theorem builds_the_chain : forall items specs,
    map (elem_spec plain) items = map Some specs -> shape specs = true ->
    (forall s, In s specs -> fails (sp_cls s) = false) ->
    load_pipeline resolve leaf fails (PL items) st0
    = (Ok (PL (expected_refs (length items))), mkSt (length items) (expected_log specs)).
  Proof.
    intros items specs Hm Hsh Hok. rewrite load_pipeline_unfold. unfold bindM.
    rewrite (pipe_suffix items specs [] 0 st0 Hm Hsh Hok).
    cbn [snd retM next plog st0 app Nat.add]. unfold expected_refs, expected_log.
    rewrite map_rev. reflexivity.
  Qed.

  Theorem failure_is_total : forall pre x post s specs_post,
    elem_spec plain x = Some s -> fails (sp_cls s) = true ->
    map (elem_spec plain) post = map Some specs_post -> shape (s :: specs_post) = true ->
    (forall s', In s' specs_post -> fails (sp_cls s') = false) ->
    load_pipeline resolve leaf fails (PL (pre ++ x :: post)) st0
    = (Err (elem_err (length pre) x (sp_cls s)),
       mkSt (S (length post)) (chain_events 0 None (rev (s :: specs_post)))).
  Proof.
    intros pre x post s specs_post Hx Hf Hm Hsh Hok. rewrite load_pipeline_unfold. unfold bindM.
    rewrite (pipe_err_prefix pre (x :: post) [] 0 st0 _ _
               (pipe_fail_here x s post specs_post [] (0 + length pre) st0 Hx Hf Hm Hsh Hok)).
    reflexivity.
  Qed.

  (* ---------- what the log says about one element ---------- *)
  Lemma chain_events_nth : forall rs id prev j s, nth_error rs j = Some s ->
    nth_error (chain_events id prev rs) j
    = Some (mkEv (id + j) (sp_cls s) (match j with 0 => prev | S j' => Some (PRef (id + j')) end)
                 (sp_args s) (sp_kw s)).
  Proof.
    induction rs as [|a rs IH]; intros id prev j s H; [destruct j; discriminate|].
    destruct j as [|j]; cbn [nth_error chain_events] in *.
    - injection H as ->. rewrite Nat.add_0_r. reflexivity.
    - rewrite (IH (S id) (Some (PRef id)) j s H). f_equal. f_equal; [lia|].
      destruct j as [|j]; f_equal; f_equal; lia.
  Qed.

  (* element i of n is constructed as number n-1-i, gets that serial number, its configured
     arguments, and as target the object number n-2-i, i.e. element i+1 (none for the last) *)
  Theorem log_entry_of_element : forall specs i s, nth_error specs i = Some s ->
    let n := length specs in
    nth_error (expected_log specs) (n - 1 - i)
    = Some (mkEv (n - 1 - i) (sp_cls s)
                 (if Nat.eqb (S i) n then None else Some (PRef (n - 2 - i)))
                 (sp_args s) (sp_kw s))
    /\ nth_error (expected_refs n) i = Some (PRef (n - 1 - i))
    /\ (S i < n -> nth_error (expected_refs n) (S i) = Some (PRef (n - 2 - i))).
  Proof.
    intros specs i s H n.
    assert (i < n) as Hlt by (apply nth_error_Some; congruence).
    split; [|split].
    - unfold expected_log.
      assert (nth_error (rev specs) (n - 1 - i) = Some s) as Hr.
      { rewrite <- H. rewrite <- (rev_involutive specs) at 2.
        rewrite (nth_error_nth' (rev (rev specs)) s) by (rewrite !rev_length; exact Hlt).
        rewrite rev_nth by (rewrite rev_length; exact Hlt).
        rewrite rev_length. fold n. replace (n - S i) with (n - 1 - i) by lia.
        apply nth_error_nth'. rewrite rev_length. fold n. lia. }
      rewrite (chain_events_nth _ 0 None _ s Hr). f_equal. f_equal.
      destruct (Nat.eqb (S i) n) eqn:E.
      + apply Nat.eqb_eq in E. replace (n - 1 - i) with 0 by lia. reflexivity.
      + apply Nat.eqb_neq in E. destruct (n - 1 - i) as [|j] eqn:Ej; [lia|].
        f_equal. f_equal. lia.
    - unfold expected_refs. rewrite nth_error_map.
      rewrite (nth_error_nth' (rev (seq 0 n)) 0) by (rewrite rev_length, seq_length; exact Hlt).
      rewrite rev_nth by (rewrite seq_length; exact Hlt). rewrite seq_length, seq_nth by lia.
      cbn [option_map]. f_equal. f_equal. lia.
    - intros Hlt2. unfold expected_refs. rewrite nth_error_map.
      rewrite (nth_error_nth' (rev (seq 0 n)) 0) by (rewrite rev_length, seq_length; exact Hlt2).
      rewrite rev_nth by (rewrite seq_length; exact Hlt2). rewrite seq_length, seq_nth by lia.
      cbn [option_map]. f_equal. f_equal. lia.
  Qed.

  (* ---------- the python `>>` chain ---------- *)
  Notation t_construct := (Pipeline.t_construct leaf fails).
  Notation bind_owners := (Pipeline.bind_owners leaf fails).
  Notation chain_rshift := (Pipeline.chain_rshift leaf fails).
  Notation step := (fun (acc : M chain_val) b => bindM acc (fun a => chain_rshift a b)).

  Definition run_chain (t : tmpl) (ts : list tmpl) (p : tmpl) : M chain_val :=
    bindM (t_construct p []) (fun pool =>
    bindM (bind_owners (rev ts) pool) (fun pool' =>
    bindM (t_construct t [pool']) (fun o => retM (CObj o)))).

  Lemma fold_step_ext : forall l (acc1 acc2 : M chain_val), (forall st, acc1 st = acc2 st) ->
    forall st, fold_left step l acc1 st = fold_left step l acc2 st.
  Proof.
    induction l as [|b l IH]; intros acc1 acc2 H st; cbn [fold_left]; [apply H|].
    apply IH. intros st1. unfold bindM. rewrite H. reflexivity.
  Qed.

  Lemma fold_owners : forall os t ts p,
    (forall o, In o os -> leaf (sp_cls o) = false) -> leaf (sp_cls p) = true ->
    forall st, fold_left step (map tmpl_of os ++ [tmpl_of p]) (retM (CBind t ts)) st
               = run_chain t (ts ++ map tmpl_of os) (tmpl_of p) st.
  Proof.
    induction os as [|o os IH]; intros t ts p Hos Hp st.
    - cbn [map app fold_left]. rewrite app_nil_r. unfold bindM at 1. cbn [retM].
      cbn [Pipeline.chain_rshift tmpl_of t_cls]. rewrite Hp. reflexivity.
    - cbn [map app fold_left].
      rewrite (fold_step_ext _ _ (retM (CBind t (ts ++ [tmpl_of o])))).
      + rewrite IH; [|intros o' Ho'; apply Hos; right; exact Ho'|exact Hp].
        rewrite <- app_assoc. reflexivity.
      + intros st1. unfold bindM. cbn [retM Pipeline.chain_rshift tmpl_of t_cls].
        rewrite (Hos o (or_introl eq_refl)). reflexivity.
  Qed.

  Lemma bind_owners_ok : forall rs q st,
    (forall o, In o rs -> leaf (sp_cls o) = false /\ fails (sp_cls o) = false
                          /\ has_key s_target (sp_kw o) = false) ->
    bind_owners (map tmpl_of rs) (PRef q) st
    = (Ok (PRef (match rs with [] => q | _ => next st + length rs - 1 end)),
       mkSt (next st + length rs) (plog st ++ chain_events (next st) (Some (PRef q)) rs)).
  Proof.
    induction rs as [|o rs IH]; intros q st H.
    - cbn [map Pipeline.bind_owners retM length chain_events]. rewrite Nat.add_0_r, app_nil_r.
      destruct st; reflexivity.
    - destruct (H o (or_introl eq_refl)) as (Hl & Hf & Ht).
      cbn [map Pipeline.bind_owners]. unfold bindM. unfold Pipeline.t_construct. cbn [tmpl_of t_cls t_args t_kw app].
      rewrite (new_obj_owner_pos _ _ _ _ _ Hl Ht). unfold made. rewrite Hf.
      rewrite IH by (intros o' Ho'; apply H; right; exact Ho').
      unfold after. cbn [next plog length chain_events]. f_equal.
      + replace (match rs with [] => next st | _ :: _ => S (next st) + length rs - 1 end)
          with (next st + S (length rs) - 1) by (destruct rs; cbn [length]; lia).
        reflexivity.
      + rewrite <- app_assoc. cbn [app]. rewrite Nat.add_succ_r. reflexivity.
  Qed.

  Lemma shape_split : forall rest s, shape (s :: rest) = true -> rest <> [] ->
    exists os p, rest = os ++ [p] /\ leaf (sp_cls p) = true
                 /\ (forall o, In o (s :: os) -> leaf (sp_cls o) = false).
  Proof.
    induction rest as [|a rest IH]; intros s Hsh Hne; [contradiction|].
    rewrite shape_cons2 in Hsh. apply andb_true_iff in Hsh as [Hs Hsh]. apply negb_true_iff in Hs.
    destruct rest as [|b rest].
    - exists [], a. cbn [Pipeline.shape] in Hsh. split; [reflexivity|]. split; [exact Hsh|].
      intros o [<-|[]]. exact Hs.
    - destruct (IH a Hsh) as (os & p & E & Hp & Hos); [discriminate|].
      exists (a :: os), p. split; [cbn [app]; rewrite E; reflexivity|]. split; [exact Hp|].
      intros o [<-|Ho]; [exact Hs|apply Hos; exact Ho].
  Qed.

  Theorem chain_build_ok : forall specs, shape specs = true ->
    (forall s, In s specs -> fails (sp_cls s) = false /\ has_key s_target (sp_kw s) = false) ->
    chain_build leaf fails (map tmpl_of specs) st0
    = (Ok (PRef (length specs - 1)), mkSt (length specs) (expected_log specs)).
  Proof.
    intros specs Hsh Hok. destruct specs as [|s rest]; [discriminate Hsh|].
    destruct rest as [|a rest'].
    - (* a single pool *)
      cbn [Pipeline.shape] in Hsh. destruct (Hok s (or_introl eq_refl)) as (Hf & _).
      cbn [map Pipeline.chain_build fold_left]. unfold bindM. cbn [retM].
      unfold Pipeline.t_construct. cbn [tmpl_of t_cls t_args t_kw app].
      rewrite (new_obj_leaf _ _ _ _ Hsh). unfold made. rewrite Hf. reflexivity.
    - remember (a :: rest') as rest eqn:Er.
      destruct (shape_split rest s Hsh) as (os & p & E & Hp & Hos); [subst rest; discriminate|].
      clear Er. subst rest.
      assert (forall st, fold_left step (map tmpl_of (os ++ [p])) (retM (CTpl (tmpl_of s))) st
                         = run_chain (tmpl_of s) (map tmpl_of os) (tmpl_of p) st) as Hfold.
      { intros st. rewrite map_app. cbn [map]. destruct os as [|o os].
        - cbn [map app fold_left]. unfold bindM at 1. cbn [retM Pipeline.chain_rshift tmpl_of t_cls].
          rewrite Hp. reflexivity.
        - cbn [map app fold_left].
          rewrite (fold_step_ext _ _ (retM (CBind (tmpl_of s) [tmpl_of o]))).
          + rewrite fold_owners; [reflexivity| |exact Hp].
            intros o' Ho'. apply Hos. right. right. exact Ho'.
          + intros st1. unfold bindM. cbn [retM Pipeline.chain_rshift tmpl_of t_cls].
            rewrite (Hos o (or_intror (or_introl eq_refl))). reflexivity. }
      cbn [map Pipeline.chain_build]. unfold bindM at 1. rewrite Hfold. clear Hfold.
      (* evaluate run_chain *)
      unfold run_chain. unfold bindM at 1. unfold Pipeline.t_construct at 1.
      cbn [tmpl_of t_cls t_args t_kw app].
      rewrite (new_obj_leaf _ _ _ _ Hp). unfold made.
      assert (fails (sp_cls p) = false) as Hfp.
      { apply Hok. right. apply in_or_app. right. left. reflexivity. }
      rewrite Hfp. unfold after. cbn [st0 next plog app].
      unfold bindM at 1. rewrite <- map_rev.
      rewrite bind_owners_ok.
      2:{ intros o Ho. apply in_rev in Ho. split; [apply Hos; right; exact Ho|].
          apply Hok. right. apply in_or_app. left. exact Ho. }
      cbn [next plog]. unfold bindM at 1. unfold Pipeline.t_construct.
      cbn [tmpl_of t_cls t_args t_kw app].
      destruct (Hok s (or_introl eq_refl)) as (Hfs & Hts).
      rewrite (new_obj_owner_pos _ _ _ _ _ (Hos s (or_introl eq_refl)) Hts). unfold made. rewrite Hfs.
      unfold after. cbn [next plog retM]. rewrite rev_length.
      unfold expected_log. cbn [rev]. rewrite rev_app_distr. cbn [rev app chain_events].
      rewrite chain_events_app. rewrite rev_length. cbn [length]. rewrite app_length. cbn [length].
      unfold retM. cbn [chain_events].
      replace (S (length os + 1) - 1) with (1 + length os) by lia.
      replace (S (length os + 1)) with (S (1 + length os)) by lia.
      destruct (rev os); reflexivity.
  Qed.
End Proofs.

(* ------------------------------------------------------------------ document level *)
Section DocLevel.
  Variable reg : tag -> option (tagk * cls * bool).
  Variable resolve : str -> rres.
  Variable leaf : cls -> bool.
  Variable fails : cls -> bool.

  (* yaml_constructor: mapping node -> keyword arguments, sequence node -> positional arguments,
     bare scalar node -> no arguments; whether the tag is registered eagerly or lazily is immaterial *)
  Theorem tag_forms : forall t c eager args kw a k,
    reg t = Some (KTemplate, c, eager) ->
    yload_list (fun x => yload reg x) args = Ok a ->
    yload_items (fun x => yload reg x) kw = Ok k ->
    has_key s_target k = false ->
    yload reg (YT t FMap args kw) = Ok (PTag KTemplate c [] k)
    /\ yload reg (YT t FSeq args kw) = Ok (PTag KTemplate c a [])
    /\ yload reg (YT t FScalar args kw) = Ok (PTag KTemplate c [] []).
  Proof.
    intros t c eager args kw a k Hr Ha Hk Ht. cbn [yload]. rewrite Hr, Ha, Hk.
    unfold rbind, make_partial. cbn [fst snd]. rewrite Ht. auto.
  Qed.

  Lemma map_some_in : forall {A B} (f : A -> option B) l specs s,
    map f l = map Some specs -> In s specs -> exists x, In x l /\ f x = Some s.
  Proof.
    intros A B f l. induction l as [|x l IH]; intros specs s H Hin.
    - destruct specs; [contradiction|discriminate].
    - destruct specs as [|s0 specs]; [contradiction|]. cbn [map] in H. injection H as Hx Hl.
      destruct Hin as [<-|Hin].
      + exists x. split; [left; reflexivity|exact Hx].
      + destruct (IH specs s Hl Hin) as (y & Hy & Hfy). exists y. split; [right; exact Hy|exact Hfy].
  Qed.

  Theorem doc_builds_the_chain : forall content items specs,
    yload reg content = Ok (PL items) ->
    map (elem_spec resolve plain) items = map Some specs -> shape leaf specs = true ->
    (forall s, In s specs -> fails (sp_cls s) = false) ->
    let n := length items in
    load_doc reg resolve leaf fails content = (Ok (PL (expected_refs n)), mkSt n (expected_log specs))
    /\ chain_build leaf fails (map tmpl_of specs) st0 = (Ok (PRef (n - 1)), mkSt n (expected_log specs)).
  Proof.
    intros content items specs Hy Hm Hsh Hok n.
    assert (length specs = n) as Hlen.
    { apply (f_equal (@length _)) in Hm. rewrite !map_length in Hm. symmetry. exact Hm. }
    split.
    - unfold load_doc. rewrite Hy. apply builds_the_chain; assumption.
    - rewrite <- Hlen. apply chain_build_ok; [exact Hsh|].
      intros s Hs. split; [apply Hok; exact Hs|].
      destruct (map_some_in _ _ _ _ Hm Hs) as (x & _ & Hx).
      exact (elem_spec_no_target resolve _ _ _ Hx).
  Qed.

  Theorem doc_failure_is_total : forall content pre x post s specs_post,
    yload reg content = Ok (PL (pre ++ x :: post)) ->
    elem_spec resolve plain x = Some s -> fails (sp_cls s) = true ->
    map (elem_spec resolve plain) post = map Some specs_post -> shape leaf (s :: specs_post) = true ->
    (forall s', In s' specs_post -> fails (sp_cls s') = false) ->
    load_doc reg resolve leaf fails content
    = (Err (elem_err (length pre) x (sp_cls s)),
       mkSt (S (length post)) (chain_events 0 None (rev (s :: specs_post)))).
  Proof.
    intros content pre x post s specs_post Hy Hx Hf Hm Hsh Hok.
    unfold load_doc. rewrite Hy. apply failure_is_total; assumption.
  Qed.
End DocLevel.
