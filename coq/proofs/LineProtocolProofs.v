(* Lemmas behind props/C17.v: the escaping functions of format_line.py are one-pass character maps,
   the reference decoder's scanners invert them (induction on the code-point list with one
   character of look-ahead), numerals printed by python are read back, the sections of a line
   compose, dictionaries / sorting / the JSON merge behave as finite maps. *)
From Coq Require Import ZArith NArith QArith Qround List Bool String Ascii Decimal DecimalZ DecimalPos Lia Sorted Permutation.
From Cobald Require Import model.LineProtocol.
Import ListNotations.
Open Scope N_scope.

(* ---------------------------------------------------------------- basic text facts *)
Lemma str_eqb_eq : forall a b, str_eqb a b = true <-> a = b.
Proof.
  induction a as [|x a IH]; intros [|y b]; cbn [str_eqb]; split; intros H; try reflexivity; try discriminate.
  - apply andb_prop in H. destruct H as [H1 H2]. apply N.eqb_eq in H1. apply IH in H2. congruence.
  - injection H as -> ->. rewrite N.eqb_refl. cbn. apply IH. reflexivity.
Qed.

Lemma str_eqb_refl : forall a, str_eqb a a = true.
Proof. intros a. apply str_eqb_eq. reflexivity. Qed.

Lemma str_eqb_neq : forall a b, str_eqb a b = false <-> a <> b.
Proof.
  intros a b. split; intros H.
  - intros E. apply str_eqb_eq in E. congruence.
  - destruct (str_eqb a b) eqn:E; [|reflexivity]. apply str_eqb_eq in E. contradiction.
Qed.

Lemma mem_In : forall k l, mem k l = true <-> In k l.
Proof.
  intros k l. unfold mem. rewrite existsb_exists. split.
  - intros [x [Hin E]]. apply str_eqb_eq in E. subst. exact Hin.
  - intros Hin. exists k. split; [exact Hin|apply str_eqb_refl].
Qed.

Lemma nonempty_true : forall {A} (l : list A), nonempty l = true <-> l <> [].
Proof. intros A [|x l]; cbn; split; intros H; congruence. Qed.

(* ---------------------------------------------------------------- escaping = one pass *)
Definition esc (sp : N -> bool) (c : N) : str := if sp c then [92; c] else [c].
Definition encode (sp : N -> bool) (s : str) : str := flat_map (esc sp) s.
Definition sp_str (c : N) : bool := (c =? 92) || (c =? 34).

Lemma replace1_app : forall c rep a b, replace1 c rep (a ++ b) = replace1 c rep a ++ replace1 c rep b.
Proof. intros. unfold replace1. apply flat_map_app. Qed.

Lemma replace1_single : forall c rep x, replace1 c rep [x] = if x =? c then rep else [x].
Proof. intros. unfold replace1. cbn [flat_map]. apply app_nil_r. Qed.

Lemma replace1_cons : forall c rep x s,
  replace1 c rep (x :: s) = (if x =? c then rep else [x]) ++ replace1 c rep s.
Proof. intros. reflexivity. Qed.

Lemma escape_key_encode : forall s, escape_key s = encode sp_key s.
Proof.
  induction s as [|c s IH]; [reflexivity|].
  unfold escape_key in *. unfold encode in *. cbn [flat_map]. rewrite <- IH.
  rewrite (replace1_cons 44). rewrite !replace1_app. f_equal.
  unfold esc, sp_key.
  destruct (N.eqb_spec c 44) as [->|N1]; [reflexivity|].
  rewrite (replace1_single 61).
  destruct (N.eqb_spec c 61) as [->|N2]; [reflexivity|].
  rewrite (replace1_single 32).
  destruct (N.eqb_spec c 32) as [->|N3]; reflexivity.
Qed.

Lemma escape_name_encode : forall s, escape_name s = encode sp_name s.
Proof.
  induction s as [|c s IH]; [reflexivity|].
  unfold escape_name in *. unfold encode in *. cbn [flat_map]. rewrite <- IH.
  rewrite (replace1_cons 44). rewrite !replace1_app. f_equal.
  unfold esc, sp_name.
  destruct (N.eqb_spec c 44) as [->|N1]; [reflexivity|].
  rewrite (replace1_single 32).
  destruct (N.eqb_spec c 32) as [->|N3]; reflexivity.
Qed.

Lemma escape_string_inner : forall s,
  replace1 34 [92; 34] (replace1 92 [92; 92] s) = encode sp_str s.
Proof.
  induction s as [|c s IH]; [reflexivity|].
  unfold encode in *. cbn [flat_map]. rewrite <- IH.
  rewrite (replace1_cons 92). rewrite !replace1_app. f_equal.
  unfold esc, sp_str.
  destruct (N.eqb_spec c 92) as [->|N1]; [reflexivity|].
  rewrite (replace1_single 34).
  destruct (N.eqb_spec c 34) as [->|N2]; reflexivity.
Qed.

Lemma escape_string_encode : forall s, escape_string s = 34 :: encode sp_str s ++ [34].
Proof. intros s. unfold escape_string. rewrite escape_string_inner. reflexivity. Qed.

(* ---------------------------------------------------------------- scan inverts encode *)
(* the text that follows a token is empty or begins with an unescaped delimiter *)
Definition starts_stop (sp : N -> bool) (rest : str) : Prop :=
  match rest with [] => True | d :: _ => sp d = true \/ d = 10 end.

Lemma scan_stop : forall sp rest, sp 92 = false -> starts_stop sp rest -> scan sp rest = ([], rest).
Proof.
  intros sp [|d r] H92 H; [reflexivity|]. cbn [scan].
  destruct (N.eqb_spec d 92) as [->|N1].
  - destruct H as [H|H]; [congruence|discriminate].
  - destruct H as [H|H]; [rewrite H; reflexivity|]. subst d. rewrite orb_true_r. reflexivity.
Qed.

Lemma scan_literal_backslash : forall sp d X,
  sp d = false -> scan sp (92 :: d :: X) = let (a, b) := scan sp (d :: X) in (92 :: a, b).
Proof. intros sp d X H. cbn [scan]. rewrite N.eqb_refl. rewrite H. reflexivity. Qed.

Lemma no_newline_cons : forall c s, no_newline (c :: s) = true <-> c <> 10 /\ no_newline s = true.
Proof.
  intros c s. unfold no_newline. cbn [forallb]. rewrite andb_true_iff, negb_true_iff, N.eqb_neq. tauto.
Qed.

Lemma scan_encode : forall sp, sp 92 = false ->
  forall s rest, no_newline s = true -> (s <> [] -> last s 0 <> 92) -> starts_stop sp rest ->
  scan sp (encode sp s ++ rest) = (s, rest).
Proof.
  intros sp H92. induction s as [|c s IH]; intros rest Hnl Hlast Hrest.
  - cbn. apply scan_stop; assumption.
  - apply no_newline_cons in Hnl. destruct Hnl as [Hc Hnl].
    assert (IH' : (s <> [] -> last s 0 <> 92) -> scan sp (encode sp s ++ rest) = (s, rest)).
    { intros HL. apply IH; assumption. }
    unfold encode in *. cbn [flat_map]. unfold esc at 1.
    destruct (N.eqb_spec c 92) as [->|Nbs].
    + (* a literal backslash: look one character ahead *)
      rewrite H92. cbn [Datatypes.app].
      destruct s as [|c' s'].
      * exfalso. apply Hlast; [discriminate|reflexivity].
      * assert (HL : c' :: s' <> [] -> last (c' :: s') 0 <> 92).
        { intros _. apply Hlast. discriminate. }
        specialize (IH' HL).
        cbn [flat_map] in *. unfold esc at 1. unfold esc at 1 in IH'.
        destruct (sp c') eqn:Ec'.
        -- cbn [Datatypes.app] in *. rewrite scan_literal_backslash by exact H92.
           rewrite IH'. reflexivity.
        -- cbn [Datatypes.app] in *. rewrite scan_literal_backslash by exact Ec'.
           rewrite IH'. reflexivity.
    + assert (HL : s <> [] -> last s 0 <> 92).
      { intros Hs. specialize (Hlast ltac:(discriminate)). destruct s; [congruence|exact Hlast]. }
      specialize (IH' HL).
      destruct (sp c) eqn:Ec.
      * cbn [Datatypes.app scan]. rewrite N.eqb_refl, Ec. rewrite IH'. reflexivity.
      * cbn [Datatypes.app scan]. apply N.eqb_neq in Nbs. rewrite Nbs, Ec.
        apply N.eqb_neq in Hc. rewrite Hc. cbn [orb]. rewrite IH'. reflexivity.
Qed.

(* the inside of a quoted string: every backslash of the encoding belongs to an escape pair *)
Lemma scan_string_encode : forall s rest, no_newline s = true ->
  scan_string (encode sp_str s ++ 34 :: rest) = Some (s, rest).
Proof.
  induction s as [|c s IH]; intros rest Hnl.
  - cbn. reflexivity.
  - apply no_newline_cons in Hnl. destruct Hnl as [Hc Hnl].
    unfold encode in *. cbn [flat_map]. unfold esc at 1. unfold sp_str at 1.
    destruct (N.eqb_spec c 92) as [->|N1].
    + cbn [orb Datatypes.app scan_string]. rewrite N.eqb_refl. cbn [orb]. rewrite IH by exact Hnl. reflexivity.
    + destruct (N.eqb_spec c 34) as [->|N2].
      * cbn [orb Datatypes.app scan_string]. change (92 =? 92) with true. cbv iota.
        change ((34 =? 92) || (34 =? 34)) with true. cbv iota. rewrite IH by exact Hnl. reflexivity.
      * cbn [orb Datatypes.app scan_string]. apply N.eqb_neq in N1, N2, Hc. rewrite N1, N2, Hc.
        rewrite IH by exact Hnl. reflexivity.
Qed.
(* ---------------------------------------------------------------- numerals *)
Lemma span_all : forall p l rest, forallb p l = true ->
  match rest with [] => True | d :: _ => p d = false end ->
  span p (l ++ rest) = (l, rest).
Proof.
  intros p. induction l as [|c l IH]; intros rest Hall Hrest.
  - cbn [Datatypes.app]. destruct rest as [|d r]; [reflexivity|]. cbn [span]. rewrite Hrest. reflexivity.
  - cbn [forallb] in Hall. apply andb_prop in Hall. destruct Hall as [Hc Hall].
    cbn [Datatypes.app span]. rewrite Hc. rewrite IH by assumption. reflexivity.
Qed.

Lemma span_all_nil : forall p l, forallb p l = true -> span p l = (l, []).
Proof. intros p l H. rewrite <- (app_nil_r l) at 1. apply span_all; [exact H|exact I]. Qed.

Lemma uint_str_digits : forall u, forallb is_digit (uint_str u) = true.
Proof. induction u as [|u IH|u IH|u IH|u IH|u IH|u IH|u IH|u IH|u IH|u IH]; cbn [uint_str forallb]; try reflexivity; rewrite IH; reflexivity. Qed.

Lemma digits_uint_str : forall u, digits_uint (uint_str u) = Some u.
Proof. induction u as [|u IH|u IH|u IH|u IH|u IH|u IH|u IH|u IH|u IH|u IH]; cbn [uint_str digits_uint]; try reflexivity; rewrite IH; reflexivity. Qed.

Lemma uint_str_nonnil : forall u, u <> Nil -> exists c r, uint_str u = c :: r /\ is_digit c = true.
Proof. intros [|u|u|u|u|u|u|u|u|u|u] H; try congruence; cbn [uint_str]; eexists; eexists; split; reflexivity. Qed.

Lemma to_int_nonnil : forall z, match Z.to_int z with Decimal.Pos u | Decimal.Neg u => u <> Nil end.
Proof.
  intros [|p|p]; cbn [Z.to_int].
  - discriminate.
  - apply Unsigned.to_uint_nonnil.
  - apply Unsigned.to_uint_nonnil.
Qed.

Lemma is_digit_not_minus : forall c, is_digit c = true -> (c =? 45) = false.
Proof.
  intros c H. unfold is_digit in H. apply andb_prop in H. destruct H as [H1 H2].
  apply N.leb_le in H1. apply N.eqb_neq. lia.
Qed.

(* `print_Z` is read back exactly (str(int) / "%d" against the decoder's integer numerals) *)
Lemma numeral_int_print_Z : forall z, numeral_int (print_Z z) = Some z.
Proof.
  intros z. unfold print_Z. pose proof (to_int_nonnil z) as Hnn. pose proof (of_to z) as Hz.
  destruct (Z.to_int z) as [u|u].
  - destruct (uint_str_nonnil u Hnn) as [c [r [E Hd]]].
    unfold numeral_int. rewrite E. rewrite (is_digit_not_minus c Hd). rewrite <- E.
    rewrite digits_uint_str. rewrite Hz. reflexivity.
  - destruct (uint_str_nonnil u Hnn) as [c [r [E Hd]]].
    unfold numeral_int. change (45 =? 45) with true. cbv iota.
    rewrite E. rewrite <- E. rewrite digits_uint_str. rewrite Hz. reflexivity.
Qed.

Lemma is_digit_numeral_char : forall c, is_digit c = true -> numeral_char c = true.
Proof. intros c H. unfold numeral_char. rewrite H. reflexivity. Qed.

Lemma forallb_impl : forall {A} (p q : A -> bool) l,
  (forall x, p x = true -> q x = true) -> forallb p l = true -> forallb q l = true.
Proof.
  intros A p q l H. induction l as [|x l IH]; cbn [forallb]; [reflexivity|].
  intros Hp. apply andb_prop in Hp. destruct Hp as [H1 H2]. rewrite (H x H1), (IH H2). reflexivity.
Qed.

Lemma is_numeral_print_Z : forall z, is_numeral (print_Z z) = true.
Proof.
  intros z. unfold print_Z. pose proof (to_int_nonnil z) as Hnn.
  destruct (Z.to_int z) as [u|u]; destruct (uint_str_nonnil u Hnn) as [c [r [E Hd]]];
    pose proof (uint_str_digits u) as Hall.
  - unfold is_numeral.
    rewrite (forallb_impl is_digit numeral_char _ is_digit_numeral_char Hall). cbn [andb].
    rewrite E. rewrite (is_digit_not_minus c Hd). rewrite <- E.
    rewrite (span_all_nil _ _ Hall). rewrite E. reflexivity.
  - unfold is_numeral. cbn [forallb]. change (numeral_char 45) with true.
    rewrite (forallb_impl is_digit numeral_char _ is_digit_numeral_char Hall). cbn [andb].
    change (45 =? 45) with true. cbv iota.
    rewrite (span_all_nil _ _ Hall). rewrite E. reflexivity.
Qed.

Lemma numeral_char_not_value_end : forall c, numeral_char c = true -> negb (value_end c) = true.
Proof.
  intros c H. apply negb_true_iff. destruct (value_end c) eqn:E; [|reflexivity].
  unfold value_end in E. apply orb_prop in E. destruct E as [E|E]; [apply orb_prop in E; destruct E as [E|E]|];
    apply N.eqb_eq in E; subst c; discriminate.
Qed.

Lemma is_numeral_chars : forall tok, is_numeral tok = true -> forallb numeral_char tok = true.
Proof. intros tok H. unfold is_numeral in H. apply andb_prop in H. tauto. Qed.

Lemma is_numeral_nonempty : forall tok, is_numeral tok = true -> tok <> [].
Proof. intros tok H E. subst. discriminate. Qed.

Lemma print_Z_chars : forall z, forallb numeral_char (print_Z z) = true.
Proof. intros z. apply is_numeral_chars. apply is_numeral_print_Z. Qed.

(* ---------------------------------------------------------------- one field value *)
Definition starts_value_end (rest : str) : Prop :=
  match rest with [] => True | d :: _ => value_end d = true end.

Lemma starts_value_end_span : forall rest, starts_value_end rest ->
  match rest with [] => True | d :: _ => negb (value_end d) = false end.
Proof. intros [|d r] H; [exact I|]. cbn in H. rewrite H. reflexivity. Qed.

Lemma parse_value_numeral : forall tok rest, is_numeral tok = true -> starts_value_end rest ->
  parse_value (tok ++ rest) = Some (FNum tok, rest).
Proof.
  intros tok rest Hn Hrest. pose proof (is_numeral_chars tok Hn) as Hch.
  destruct tok as [|c t]; [discriminate|].
  unfold parse_value. cbn [Datatypes.app].
  assert (Hc : (c =? 34) = false).
  { cbn [forallb] in Hch. apply andb_prop in Hch. destruct Hch as [Hc _].
    destruct (N.eqb_spec c 34) as [->|]; [discriminate|reflexivity]. }
  rewrite Hc. change (c :: t ++ rest) with ((c :: t) ++ rest).
  rewrite span_all.
  - rewrite Hn. reflexivity.
  - apply (forallb_impl numeral_char); [apply numeral_char_not_value_end|exact Hch].
  - apply starts_value_end_span. exact Hrest.
Qed.

Lemma parse_value_bool : forall b rest, starts_value_end rest ->
  parse_value (text_of (VBool b) ++ rest) = Some (FBool b, rest).
Proof.
  intros b rest Hrest. apply starts_value_end_span in Hrest.
  destruct b; cbn [text_of]; unfold parse_value.
  - unfold s_True. cbn [Datatypes.app]. change (84 =? 34) with false. cbv iota.
    change (84 :: 114 :: 117 :: 101 :: rest) with (s_True ++ rest).
    rewrite span_all; [reflexivity|reflexivity|exact Hrest].
  - unfold s_False. cbn [Datatypes.app]. change (70 =? 34) with false. cbv iota.
    change (70 :: 97 :: 108 :: 115 :: 101 :: rest) with (s_False ++ rest).
    rewrite span_all; [reflexivity|reflexivity|exact Hrest].
Qed.

Lemma parse_value_string : forall s rest, no_newline s = true ->
  parse_value (escape_string s ++ rest) = Some (FStr s, rest).
Proof.
  intros s rest H. rewrite escape_string_encode. unfold parse_value.
  cbn [Datatypes.app]. change (34 =? 34) with true. cbv iota.
  rewrite <- app_assoc. cbn [Datatypes.app]. rewrite scan_string_encode by exact H. reflexivity.
Qed.

Lemma parse_value_ok : forall v rest, ok_value v = true -> starts_value_end rest ->
  parse_value (escape_field v ++ rest) = Some (fvalue_of v, rest).
Proof.
  intros [s|b|z|tok|] rest Hv Hrest; cbn [escape_field fvalue_of ok_value] in *.
  - apply parse_value_string. exact Hv.
  - apply parse_value_bool. exact Hrest.
  - cbn [text_of]. apply parse_value_numeral; [apply is_numeral_print_Z|exact Hrest].
  - cbn [text_of]. apply parse_value_numeral; assumption.
  - discriminate.
Qed.
(* ---------------------------------------------------------------- tags section *)
Ltac norm_app := repeat (progress (repeat rewrite <- app_assoc; cbn [Datatypes.app])).

Lemma ok_key_facts : forall s, ok_key s = true ->
  s <> [] /\ no_newline s = true /\ (s <> [] -> last s 0 <> 92).
Proof.
  intros s H. unfold ok_key in H. apply andb_prop in H. destruct H as [H H3].
  apply andb_prop in H. destruct H as [H1 H2]. apply nonempty_true in H1.
  apply negb_true_iff in H3. apply N.eqb_neq in H3. auto.
Qed.

Lemma sp_key_92 : sp_key 92 = false. Proof. reflexivity. Qed.
Lemma sp_name_92 : sp_name 92 = false. Proof. reflexivity. Qed.

Lemma scan_key : forall s rest, ok_key s = true -> starts_stop sp_key rest ->
  scan sp_key (encode sp_key s ++ rest) = (s, rest).
Proof.
  intros s rest H Hrest. destruct (ok_key_facts s H) as [_ [H2 H3]].
  apply scan_encode; auto using sp_key_92.
Qed.

Lemma parse_tags_step : forall f k v Y,
  ok_key k = true -> ok_key v = true -> starts_stop sp_key Y ->
  parse_tags (S f) (44 :: encode sp_key k ++ 61 :: encode sp_key v ++ Y) =
  match parse_tags f Y with Some (ts, r4) => Some ((k, v) :: ts, r4) | None => None end.
Proof.
  intros f k v Y Hk Hv HY. cbn [parse_tags].
  change (44 =? 32) with false. change (44 =? 44) with true. cbv iota.
  rewrite scan_key; [|exact Hk|left; reflexivity].
  change (61 =? 61) with true. cbn [andb].
  destruct (ok_key_facts k Hk) as [Hk1 _]. apply nonempty_true in Hk1. rewrite Hk1.
  rewrite scan_key; [|exact Hv|exact HY].
  destruct (ok_key_facts v Hv) as [Hv1 _]. apply nonempty_true in Hv1. rewrite Hv1.
  reflexivity.
Qed.

Definition ok_tag (kv : str * value) : Prop :=
  ok_key (fst kv) = true /\ ok_key (text_of (snd kv)) = true.

Definition tags_blob (l : list (str * value)) : str :=
  flat_map (fun kv => 44 :: item_tag kv) l.

Lemma tags_blob_starts : forall l rest, starts_stop sp_key (tags_blob l ++ 32 :: rest).
Proof. intros [|kv l] rest; cbn; left; reflexivity. Qed.

Lemma parse_tags_ok : forall l rest fuel, (List.length l < fuel)%nat -> Forall ok_tag l ->
  parse_tags fuel (tags_blob l ++ 32 :: rest)
  = Some (map (fun kv => (fst kv, text_of (snd kv))) l, rest).
Proof.
  induction l as [|kv l IH]; intros rest fuel Hfuel Hall.
  - destruct fuel as [|f]; [cbn in Hfuel; lia|]. reflexivity.
  - destruct fuel as [|f]; [cbn in Hfuel; lia|].
    inversion Hall as [|x y [Hk Hv] Hall']. subst x y.
    unfold tags_blob. cbn [flat_map]. fold (tags_blob l).
    unfold item_tag. rewrite !escape_key_encode.
    norm_app.
    rewrite parse_tags_step; [|exact Hk|exact Hv|apply tags_blob_starts].
    rewrite IH; [reflexivity| cbn [List.length] in Hfuel; lia | exact Hall'].
Qed.

(* "," + ",".join(items), as emitted for a non-empty dict *)
Lemma join_comma : forall (l : list str), l <> [] ->
  [44] ++ join [44] l = flat_map (fun x => 44 :: x) l.
Proof.
  induction l as [|x l IH]; intros H; [congruence|].
  destruct l as [|y l].
  - cbn. rewrite app_nil_r. reflexivity.
  - change (join [44] (x :: y :: l)) with (x ++ [44] ++ join [44] (y :: l)).
    change (flat_map (fun x0 : list N => 44 :: x0) (x :: y :: l))
      with ((44 :: x) ++ flat_map (fun x0 : list N => 44 :: x0) (y :: l)).
    rewrite <- IH by discriminate. reflexivity.
Qed.

Lemma flat_map_map : forall {A B C} (f : A -> B) (g : B -> list C) l,
  flat_map g (map f l) = flat_map (fun x => g (f x)) l.
Proof. intros. induction l as [|x l IH]; cbn; [reflexivity|]. rewrite IH. reflexivity. Qed.

(* ---------------------------------------------------------------- fields section *)
Definition ok_field (kv : str * value) : Prop :=
  ok_key (fst kv) = true /\ ok_value (snd kv) = true.

Lemma parse_fields_last : forall f k v rest,
  ok_key k = true -> ok_value v = true ->
  (exists d r, rest = d :: r /\ (d = 32 \/ d = 10)) ->
  parse_fields (S f) (encode sp_key k ++ 61 :: escape_field v ++ rest) = Some ([(k, fvalue_of v)], rest).
Proof.
  intros f k v rest Hk Hv [d [r [-> Hd]]]. cbn [parse_fields].
  rewrite scan_key; [|exact Hk|left; reflexivity].
  change (61 =? 61) with true. cbn [andb].
  destruct (ok_key_facts k Hk) as [Hk1 _]. apply nonempty_true in Hk1. rewrite Hk1.
  rewrite parse_value_ok; [|exact Hv|destruct Hd; subst; reflexivity].
  destruct Hd; subst; reflexivity.
Qed.

Lemma parse_fields_more : forall f k v Y,
  ok_key k = true -> ok_value v = true ->
  parse_fields (S f) (encode sp_key k ++ 61 :: escape_field v ++ 44 :: Y) =
  match parse_fields f Y with Some (fs, r5) => Some ((k, fvalue_of v) :: fs, r5) | None => None end.
Proof.
  intros f k v Y Hk Hv. cbn [parse_fields].
  rewrite scan_key; [|exact Hk|left; reflexivity].
  change (61 =? 61) with true. cbn [andb].
  destruct (ok_key_facts k Hk) as [Hk1 _]. apply nonempty_true in Hk1. rewrite Hk1.
  rewrite parse_value_ok; [|exact Hv|reflexivity].
  change (44 =? 44) with true. cbv iota. reflexivity.
Qed.

Lemma parse_fields_ok : forall l rest fuel, l <> [] -> (List.length l <= fuel)%nat -> Forall ok_field l ->
  (exists d r, rest = d :: r /\ (d = 32 \/ d = 10)) ->
  parse_fields fuel (join [44] (map item_field l) ++ rest)
  = Some (map (fun kv => (fst kv, fvalue_of (snd kv))) l, rest).
Proof.
  induction l as [|kv l IH]; intros rest fuel Hne Hfuel Hall Hrest; [congruence|].
  destruct fuel as [|f]; [cbn in Hfuel; lia|].
  inversion Hall as [|x y [Hk Hv] Hall']. subst x y.
  destruct l as [|kv' l].
  - cbn [map join]. unfold item_field. rewrite escape_key_encode.
    norm_app.
    rewrite parse_fields_last by assumption. reflexivity.
  - cbn [map join]. cbn [map] in IH. unfold item_field at 1. rewrite escape_key_encode.
    norm_app.
    rewrite parse_fields_more by assumption.
    rewrite IH; [reflexivity|discriminate|cbn [List.length] in *; lia|exact Hall'|exact Hrest].
Qed.

(* ---------------------------------------------------------------- end of line *)
Lemma numeral_char_not_nl : forall c, numeral_char c = true -> negb (c =? 10) = true.
Proof.
  intros c H. apply negb_true_iff. destruct (N.eqb_spec c 10) as [->|]; [discriminate|reflexivity].
Qed.

Lemma parse_end_none : parse_end [10] = Some None.
Proof. reflexivity. Qed.

Lemma parse_end_time : forall z, parse_end (32 :: print_Z z ++ [10]) = Some (Some z).
Proof.
  intros z. unfold parse_end. change (32 =? 10) with false. change (32 =? 32) with true. cbv iota.
  rewrite span_all.
  - rewrite numeral_int_print_Z. reflexivity.
  - apply (forallb_impl numeral_char); [apply numeral_char_not_nl|apply print_Z_chars].
  - reflexivity.
Qed.
(* ---------------------------------------------------------------- dictionaries, sorting *)
Section DictFacts.
  Context {V : Type}.
  Implicit Types (d l items : list (str * V)).

  Lemma lookup_dict_set : forall k k' (v : V) d,
    lookup k (dict_set k' v d) = if str_eqb k k' then Some v else lookup k d.
  Proof.
    intros k k' v. induction d as [|[k0 v0] d IH]; cbn [dict_set lookup]; [reflexivity|].
    destruct (str_eqb k' k0) eqn:E.
    - apply str_eqb_eq in E. subst k0. cbn [lookup]. destruct (str_eqb k k'); reflexivity.
    - cbn [lookup]. rewrite IH. destruct (str_eqb k k0) eqn:E0; [|reflexivity].
      apply str_eqb_eq in E0. subst k0. destruct (str_eqb k k') eqn:E1; [|reflexivity].
      apply str_eqb_eq in E1. subst k'. rewrite str_eqb_refl in E. discriminate.
  Qed.

  Lemma lookup_None_keys : forall k d, lookup k d = None <-> ~ In k (map fst d).
  Proof.
    intros k. induction d as [|[k0 v0] d IH]; cbn [lookup map fst In]; [tauto|].
    destruct (str_eqb k k0) eqn:E.
    - apply str_eqb_eq in E. subst. split; [discriminate|]. intros H. exfalso. apply H. left. reflexivity.
    - apply str_eqb_neq in E. rewrite IH. split; intros H; [intros [H1|H1]; [congruence|tauto]|tauto].
  Qed.

  Lemma nodup_keys_cons : forall k (v : V) d,
    nodup_keys ((k, v) :: d) = true <-> ~ In k (map fst d) /\ nodup_keys d = true.
  Proof.
    intros. cbn [nodup_keys]. rewrite andb_true_iff, negb_true_iff. 
    split; intros [H1 H2]; split; try assumption.
    - intros Hin. apply mem_In in Hin. congruence.
    - destruct (mem k (map fst d)) eqn:E; [|reflexivity]. apply mem_In in E. contradiction.
  Qed.

  Lemma keys_dict_set : forall k (v : V) d x,
    In x (map fst (dict_set k v d)) <-> x = k \/ In x (map fst d).
  Proof.
    intros k v. induction d as [|[k0 v0] d IH]; intros x; cbn [dict_set map fst In].
    - split; intros [H|H]; auto.
    - destruct (str_eqb k k0) eqn:E.
      + apply str_eqb_eq in E. subst k0. cbn [map fst In]. split; intros H; [destruct H as [H|H]; auto|].
        destruct H as [H|[H|H]]; auto.
      + cbn [map fst In]. rewrite IH. tauto.
  Qed.

  Lemma nodup_dict_set : forall k (v : V) d, nodup_keys d = true -> nodup_keys (dict_set k v d) = true.
  Proof.
    intros k v. induction d as [|[k0 v0] d IH]; intros H; cbn [dict_set]; [reflexivity|].
    apply nodup_keys_cons in H. destruct H as [H1 H2].
    destruct (str_eqb k k0) eqn:E.
    - apply str_eqb_eq in E. subst k0. apply nodup_keys_cons. auto.
    - apply nodup_keys_cons. split; [|auto]. rewrite keys_dict_set. intros [Hx|Hx]; [|contradiction].
      subst k0. rewrite str_eqb_refl in E. discriminate.
  Qed.

  Lemma nodup_dict_update : forall items d, nodup_keys d = true -> nodup_keys (dict_update d items) = true.
  Proof.
    unfold dict_update. induction items as [|[k v] items IH]; intros d H; cbn [fold_left]; [exact H|].
    apply IH. apply nodup_dict_set. exact H.
  Qed.

  Lemma lookup_dict_update : forall items d k, nodup_keys items = true ->
    lookup k (dict_update d items) = match lookup k items with Some v => Some v | None => lookup k d end.
  Proof.
    unfold dict_update. induction items as [|[k0 v0] items IH]; intros d k H; cbn [fold_left lookup]; [reflexivity|].
    apply nodup_keys_cons in H. destruct H as [H1 H2]. rewrite IH by exact H2.
    cbn [fst snd]. rewrite lookup_dict_set.
    destruct (str_eqb k k0) eqn:E; [|reflexivity].
    apply str_eqb_eq in E. subst k0. apply lookup_None_keys in H1. rewrite H1. reflexivity.
  Qed.

  Lemma Forall_dict_set : forall (P : str * V -> Prop) k v d,
    P (k, v) -> Forall P d -> Forall P (dict_set k v d).
  Proof.
    intros P k v. induction d as [|[k0 v0] d IH]; intros Hp H; cbn [dict_set].
    - constructor; [exact Hp|constructor].
    - inversion H as [|x y Hx Hy]. subst x y. destruct (str_eqb k k0).
      + constructor; assumption.
      + constructor; [exact Hx|apply IH; assumption].
  Qed.

  Lemma Forall_dict_update : forall (P : str * V -> Prop) items d,
    Forall P d -> Forall P items -> Forall P (dict_update d items).
  Proof.
    unfold dict_update. intros P. induction items as [|[k v] items IH]; intros d Hd Hi; cbn [fold_left]; [exact Hd|].
    inversion Hi as [|x y Hx Hy]. subst x y. apply IH; [|exact Hy]. apply Forall_dict_set; assumption.
  Qed.

  Lemma Forall_insert : forall (P : str * V -> Prop) a l, P a -> Forall P l -> Forall P (insert a l).
  Proof.
    intros P a. induction l as [|h t IH]; intros Ha H; cbn [insert].
    - constructor; [exact Ha|constructor].
    - inversion H as [|x y Hx Hy]. subst x y. destruct (str_leb (fst a) (fst h)).
      + constructor; assumption.
      + constructor; [exact Hx|apply IH; assumption].
  Qed.

  Lemma Forall_sort_items : forall (P : str * V -> Prop) l, Forall P l -> Forall P (sort_items l).
  Proof.
    intros P. induction l as [|a l IH]; intros H; cbn [sort_items fold_right]; [constructor|].
    inversion H as [|x y Hx Hy]. subst x y. apply Forall_insert; [exact Hx|]. apply IH. exact Hy.
  Qed.

  Lemma length_insert : forall a l, List.length (insert a l) = S (List.length l).
  Proof.
    intros a. induction l as [|h t IH]; cbn [insert]; [reflexivity|].
    destruct (str_leb (fst a) (fst h)); cbn [List.length]; [reflexivity|]. rewrite IH. reflexivity.
  Qed.

  Lemma length_sort_items : forall l, List.length (sort_items l) = List.length l.
  Proof.
    induction l as [|a l IH]; [reflexivity|]. cbn [sort_items fold_right]. rewrite length_insert.
    fold (sort_items l). rewrite IH. reflexivity.
  Qed.

  Lemma keys_insert : forall a l x, In x (map fst (insert a l)) <-> x = fst a \/ In x (map fst l).
  Proof.
    intros a. induction l as [|h t IH]; intros x; cbn [insert map In].
    - split; intros [H|H]; auto.
    - destruct (str_leb (fst a) (fst h)); cbn [map In]; [split; intros [H|H]; auto|].
      rewrite IH. split; intros H; [destruct H as [H|[H|H]]|destruct H as [H|[H|H]]]; auto.
  Qed.

  Lemma keys_sort_items : forall l x, In x (map fst (sort_items l)) <-> In x (map fst l).
  Proof.
    induction l as [|a l IH]; intros x; [reflexivity|]. cbn [sort_items fold_right]. fold (sort_items l).
    rewrite keys_insert. cbn [map In]. rewrite IH. split; intros [H|H]; auto.
  Qed.

  Lemma lookup_insert : forall a l k, ~ In (fst a) (map fst l) ->
    lookup k (insert a l) = if str_eqb k (fst a) then Some (snd a) else lookup k l.
  Proof.
    intros [ka va]. induction l as [|[kh vh] t IH]; intros k Hnin; cbn [insert fst snd]; [reflexivity|].
    cbn [fst snd] in *. destruct (str_leb ka kh); [reflexivity|].
    cbn [lookup]. cbn [map fst In] in Hnin. rewrite IH by tauto.
    destruct (str_eqb k kh) eqn:E; [|reflexivity].
    apply str_eqb_eq in E. subst kh. destruct (str_eqb k ka) eqn:E2; [|reflexivity].
    apply str_eqb_eq in E2. subst ka. exfalso. apply Hnin. left. reflexivity.
  Qed.

  Lemma lookup_sort_items : forall l k, nodup_keys l = true -> lookup k (sort_items l) = lookup k l.
  Proof.
    induction l as [|[ka va] l IH]; intros k H; [reflexivity|].
    apply nodup_keys_cons in H. destruct H as [H1 H2].
    cbn [sort_items fold_right]. fold (sort_items l).
    rewrite lookup_insert by (cbn [fst]; rewrite keys_sort_items; exact H1).
    cbn [fst snd lookup]. rewrite IH by exact H2. reflexivity.
  Qed.

  Lemma lookup_filter_key : forall (p : str -> bool) l k,
    lookup k (filter (fun kv => p (fst kv)) l) = if p k then lookup k l else None.
  Proof.
    intros p. induction l as [|[k0 v0] l IH]; intros k; cbn [filter lookup fst]; [destruct (p k); reflexivity|].
    destruct (p k0) eqn:E0; cbn [lookup]; rewrite IH.
    - destruct (str_eqb k k0) eqn:E; [|reflexivity]. apply str_eqb_eq in E. subst. rewrite E0. reflexivity.
    - destruct (str_eqb k k0) eqn:E; [|reflexivity]. apply str_eqb_eq in E. subst. rewrite E0. reflexivity.
  Qed.

  Lemma nodup_filter : forall (p : str * V -> bool) l, nodup_keys l = true -> nodup_keys (filter p l) = true.
  Proof.
    intros p. induction l as [|[k0 v0] l IH]; intros H; [reflexivity|].
    apply nodup_keys_cons in H. destruct H as [H1 H2]. cbn [filter].
    destruct (p (k0, v0)); [|auto]. apply nodup_keys_cons. split; [|auto].
    intros Hin. apply H1. apply in_map_iff in Hin. destruct Hin as [[k1 v1] [E Hin]].
    apply filter_In in Hin. destruct Hin as [Hin _]. apply in_map_iff. exists (k1, v1). auto.
  Qed.

  (* sorted(...) really sorts: adjacent keys are in (code point) lexicographic order *)
  Lemma str_leb_total : forall a b, str_leb a b = false -> str_leb b a = true.
  Proof.
    induction a as [|x a IH]; intros [|y b] H; cbn [str_leb] in *; try reflexivity; try discriminate.
    destruct (x <? y) eqn:E1; [discriminate|]. destruct (y <? x) eqn:E2; [reflexivity|]. apply IH. exact H.
  Qed.

  Definition key_le (a b : str * V) : Prop := str_leb (fst a) (fst b) = true.

  Lemma insert_sorted : forall a l, Sorted key_le l -> Sorted key_le (insert a l).
  Proof.
    intros a. induction l as [|h t IH]; intros H; cbn [insert].
    - constructor; constructor.
    - destruct (str_leb (fst a) (fst h)) eqn:E.
      + constructor; [exact H|]. constructor. exact E.
      + inversion H as [|x y Hs Hr]. subst x y. constructor; [apply IH; exact Hs|].
        destruct t as [|h' t']; cbn [insert].
        * constructor. apply str_leb_total. exact E.
        * destruct (str_leb (fst a) (fst h')).
          -- constructor. apply str_leb_total. exact E.
          -- inversion Hr. constructor. assumption.
  Qed.

  Lemma sort_items_sorted : forall l, Sorted key_le (sort_items l).
  Proof.
    induction l as [|a l IH]; [constructor|]. cbn [sort_items fold_right]. apply insert_sorted. exact IH.
  Qed.
End DictFacts.

Lemma lookup_map_values : forall {V W} (f : V -> W) (l : list (str * V)) k,
  lookup k (map (fun kv => (fst kv, f (snd kv))) l) = option_map f (lookup k l).
Proof.
  intros V W f. induction l as [|[k0 v0] l IH]; intros k; cbn [map lookup fst snd]; [reflexivity|].
  destruct (str_eqb k k0); [reflexivity|apply IH].
Qed.

Lemma nodup_map_values : forall {V W} (f : V -> W) (l : list (str * V)),
  nodup_keys (map (fun kv => (fst kv, f (snd kv))) l) = nodup_keys l.
Proof.
  intros V W f. induction l as [|[k0 v0] l IH]; [reflexivity|].
  cbn [map nodup_keys fst snd]. rewrite IH. rewrite map_map. cbn [fst]. reflexivity.
Qed.
Lemma nodup_insert : forall {V} (a : str * V) l,
  ~ In (fst a) (map fst l) -> nodup_keys l = true -> nodup_keys (insert a l) = true.
Proof.
  intros V [ka va]. induction l as [|[kh vh] t IH]; intros Hnin H; cbn [insert fst]; [reflexivity|].
  cbn [fst map In] in *.
  destruct (str_leb ka kh).
  - apply nodup_keys_cons. split; [exact Hnin|exact H].
  - apply nodup_keys_cons in H. destruct H as [H1 H2]. apply nodup_keys_cons. split.
    + rewrite keys_insert. cbn [fst]. intros [Hx|Hx]; [|contradiction]. subst. tauto.
    + apply IH; tauto.
Qed.

Lemma nodup_sort_items : forall {V} (l : list (str * V)), nodup_keys l = true -> nodup_keys (sort_items l) = true.
Proof.
  intros V. induction l as [|[ka va] l IH]; intros H; [reflexivity|].
  apply nodup_keys_cons in H. destruct H as [H1 H2]. cbn [sort_items fold_right]. fold (sort_items l).
  apply nodup_insert; [cbn [fst]; rewrite keys_sort_items; exact H1|apply IH; exact H2].
Qed.

(* ---------------------------------------------------------------- the domain, unpacked *)
Record wf_facts (cfg : config) (r : record) : Prop := {
  wf_name : ok_name (r_name r) = true;
  wf_nodup_data : nodup_keys (r_data r) = true;
  wf_items : forallb (ok_item (c_tags cfg)) (r_data r) = true;
  wf_nodup_defaults : nodup_keys (default_tags (c_tags cfg)) = true;
  wf_defaults : forallb ok_default (default_tags (c_tags cfg)) = true;
  wf_has_field : fields_of cfg r <> [];
  wf_res : match c_res cfg with Some res => (0 < res)%Z | None => True end
}.

Lemma wf_unpack : forall cfg r, wf cfg r -> wf_facts cfg r.
Proof.
  intros cfg r H. unfold wf, wfb in H.
  apply andb_prop in H. destruct H as [H H7]. apply andb_prop in H. destruct H as [H H6].
  apply andb_prop in H. destruct H as [H H5]. apply andb_prop in H. destruct H as [H H4].
  apply andb_prop in H. destruct H as [H H3]. apply andb_prop in H. destruct H as [H1 H2].
  constructor; try assumption.
  - apply nonempty_true. assumption.
  - destruct (c_res cfg) as [res|]; [apply Z.ltb_lt; assumption|exact I].
Qed.

Lemma wf_no_none : forall cfg r, wf cfg r -> existsb (fun kv => is_none (snd kv)) (r_data r) = false.
Proof.
  intros cfg r H. destruct (wf_unpack cfg r H) as [_ _ Hi _ _ _ _].
  destruct (existsb (fun kv => is_none (snd kv)) (r_data r)) eqn:E; [|reflexivity].
  apply existsb_exists in E. destruct E as [[k v] [Hin Hn]].
  rewrite forallb_forall in Hi. specialize (Hi _ Hin). unfold ok_item in Hi.
  apply andb_prop in Hi. destruct Hi as [Hi _]. apply andb_prop in Hi. destruct Hi as [_ Hv].
  cbn [snd] in *. destruct v; try discriminate.
Qed.

Lemma wf_tags_ok : forall cfg r, wf cfg r -> Forall ok_tag (tags_of cfg r).
Proof.
  intros cfg r H. destruct (wf_unpack cfg r H) as [_ _ Hi _ Hd _ _].
  unfold tags_of. apply Forall_dict_update.
  - apply Forall_forall. intros kv Hin. rewrite forallb_forall in Hd. specialize (Hd _ Hin).
    unfold ok_default in Hd. apply andb_prop in Hd. exact Hd.
  - apply Forall_forall. intros kv Hin. apply filter_In in Hin. destruct Hin as [Hin Hm].
    rewrite forallb_forall in Hi. specialize (Hi _ Hin). unfold ok_item in Hi. rewrite Hm in Hi.
    apply andb_prop in Hi. destruct Hi as [Hi Ht]. apply andb_prop in Hi. destruct Hi as [Hk _].
    split; assumption.
Qed.

Lemma wf_fields_ok : forall cfg r, wf cfg r -> Forall ok_field (fields_of cfg r).
Proof.
  intros cfg r H. destruct (wf_unpack cfg r H) as [_ _ Hi _ _ _ _].
  unfold fields_of. apply Forall_forall. intros kv Hin. apply filter_In in Hin. destruct Hin as [Hin _].
  rewrite forallb_forall in Hi. specialize (Hi _ Hin). unfold ok_item in Hi.
  apply andb_prop in Hi. destruct Hi as [Hi _]. apply andb_prop in Hi. exact Hi.
Qed.

(* ---------------------------------------------------------------- the whole line *)
Definition time_part (t : option Z) : str :=
  match t with Some z => 32 :: print_Z z | None => [] end.

Definition line_of (name : str) (tags fields : list (str * value)) (t : option Z) : str :=
  encode sp_name name ++ tags_blob tags ++ 32 :: join [44] (map item_field fields) ++ time_part t ++ [10].

Lemma length_flat_map_ge : forall {A} (f : A -> str) l,
  (forall x, (1 <= List.length (f x))%nat) -> (List.length l <= List.length (flat_map f l))%nat.
Proof.
  intros A f l H. induction l as [|x l IH]; cbn [flat_map List.length]; [lia|].
  rewrite app_length. specialize (H x). lia.
Qed.

Lemma length_join_ge : forall (l : list str),
  (forall x, In x l -> (1 <= List.length x)%nat) -> (List.length l <= List.length (join [44%N] l))%nat.
Proof.
  induction l as [|x l IH]; intros H; [cbn; lia|].
  destruct l as [|y l].
  - cbn [join List.length]. specialize (H x (or_introl eq_refl)). lia.
  - change (join [44%N] (x :: y :: l)) with (x ++ [44%N] ++ join [44%N] (y :: l)).
    rewrite !app_length. cbn [List.length] in *.
    assert (S (List.length l) <= List.length (join [44%N] (y :: l)))%nat.
    { apply IH. intros z Hz. apply H. right. exact Hz. }
    lia.
Qed.

Lemma encode_hd : forall sp c s, hd 0 (encode sp (c :: s)) = 92 \/ hd 0 (encode sp (c :: s)) = c.
Proof. intros sp c s. unfold encode. cbn [flat_map]. unfold esc. destruct (sp c); cbn; auto. Qed.

Lemma lp_parse_line_of : forall name tags fields t,
  ok_name name = true -> Forall ok_tag tags -> Forall ok_field fields -> fields <> [] ->
  lp_parse (line_of name tags fields t)
  = Some (name, map (fun kv => (fst kv, text_of (snd kv))) tags,
          map (fun kv => (fst kv, fvalue_of (snd kv))) fields, t).
Proof.
  intros name tags fields t Hname Htags Hfields Hne.
  unfold ok_name in Hname. apply andb_prop in Hname. destruct Hname as [Hname Hhash].
  apply andb_prop in Hname. destruct Hname as [Hkey _].
  destruct (ok_key_facts name Hkey) as [Hn1 [Hn2 Hn3]].
  remember (line_of name tags fields t) as l eqn:Hl.
  assert (Hlen_t : (List.length tags < List.length l)%nat).
  { rewrite Hl. unfold line_of. rewrite !app_length.
    assert (List.length tags <= List.length (tags_blob tags))%nat.
    { apply length_flat_map_ge. intros x. cbn [List.length]. lia. }
    assert (1 <= List.length (encode sp_name name))%nat.
    { destruct name as [|c s]; [congruence|]. unfold encode. cbn [flat_map]. rewrite app_length.
      unfold esc. destruct (sp_name c); cbn [List.length]; lia. }
    lia. }
  assert (Hlen_f : (List.length fields <= List.length l)%nat).
  { rewrite Hl. unfold line_of. rewrite !app_length. cbn [List.length]. rewrite !app_length.
    assert (List.length fields <= List.length (join [44%N] (map item_field fields)))%nat.
    { rewrite <- (map_length item_field fields). apply length_join_ge.
      intros x Hx. apply in_map_iff in Hx. destruct Hx as [kv [<- _]].
      unfold item_field. rewrite !app_length. cbn [List.length]. lia. }
    lia. }
  unfold lp_parse.
  destruct l as [|c0 l']; [destruct fields; [congruence|cbn in Hlen_f; lia]|].
  assert (Hc0 : (c0 =? 35) = false).
  { destruct name as [|c s]; [congruence|].
    assert (E0 : c0 = hd 0 (encode sp_name (c :: s))).
    { unfold line_of in Hl. destruct (encode sp_name (c :: s)) as [|e es] eqn:Ee.
      - unfold encode in Ee. cbn [flat_map] in Ee. unfold esc in Ee. destruct (sp_name c); discriminate.
      - cbn [Datatypes.app] in Hl. injection Hl as E1 _. cbn. congruence. }
    apply negb_true_iff in Hhash. cbn [hd] in Hhash.
    destruct (encode_hd sp_name c s) as [E|E]; rewrite E in E0; subst c0; [reflexivity|exact Hhash]. }
  rewrite Hc0. rewrite Hl in Hlen_t, Hlen_f |- *. unfold line_of at 1.
  rewrite scan_encode; [|reflexivity|exact Hn2|exact Hn3|].
  2:{ destruct tags as [|kv tags']; cbn; left; reflexivity. }
  apply nonempty_true in Hn1. rewrite Hn1.
  rewrite parse_tags_ok by assumption.
  rewrite parse_fields_ok; [|exact Hne|exact Hlen_f|exact Hfields|].
  2:{ destruct t as [z|]; cbn [time_part Datatypes.app]; eexists; eexists; split; [reflexivity|auto| reflexivity|auto]. }
  destruct t as [z|]; cbn [time_part Datatypes.app].
  - rewrite parse_end_time. reflexivity.
  - rewrite parse_end_none. reflexivity.
Qed.

(* the shape of the emitted line: the model's line_protocol is line_of on the sorted items *)
Lemma Qtrunc_inject_Z : forall z, Qtrunc (inject_Z z) = z.
Proof. intros z. unfold Qtrunc. destruct (Qle_bool 0 (inject_Z z)); [apply Qfloor_Z|apply Qceiling_Z]. Qed.

Lemma sort_items_nil_iff : forall {V} (l : list (str * V)), sort_items l = [] <-> l = [].
Proof.
  intros V l. split; intros H; [|subst; reflexivity].
  apply (f_equal (@List.length _)) in H. rewrite length_sort_items in H. destruct l; [reflexivity|discriminate].
Qed.

Lemma line_protocol_line_of : forall name tags fields ts,
  line_protocol name tags fields (option_map inject_Z ts)
  = line_of name (sort_items tags) (sort_items fields) (option_map (fun n => (n * 10 ^ 9)%Z) ts).
Proof.
  intros name tags fields ts. unfold line_protocol, line_of. rewrite escape_name_encode.
  f_equal.
  assert (Et : match tags with [] => [] | _ :: _ => [44] ++ join [44] (map item_tag (sort_items tags)) end
               = tags_blob (sort_items tags)).
  { destruct tags as [|a tags']; [reflexivity|].
    rewrite join_comma.
    - unfold tags_blob. rewrite flat_map_map. reflexivity.
    - intros E. apply map_eq_nil in E. apply (proj1 (sort_items_nil_iff _)) in E. discriminate. }
  rewrite Et. f_equal. cbn [Datatypes.app]. f_equal. f_equal. f_equal.
  destruct ts as [n|]; cbn [option_map time_part]; [|reflexivity].
  change (inject_Z n * inject_Z (10 ^ 9))%Q with (inject_Z (n * 10 ^ 9)%Z). rewrite Qtrunc_inject_Z. reflexivity.
Qed.

Lemma format_ok : forall cfg r, wf cfg r ->
  format cfg r = Ok (line_of (r_name r) (sort_items (tags_of cfg r)) (sort_items (fields_of cfg r))
                             (expected_time cfg r)).
Proof.
  intros cfg r H. unfold format. rewrite (wf_no_none cfg r H).
  destruct (wf_unpack cfg r H) as [_ _ _ _ _ _ Hres]. unfold expected_time.
  destruct (c_res cfg) as [res|].
  - destruct res as [|p|p]; [lia| |lia].
    unfold downsample.
    rewrite (line_protocol_line_of _ _ _ (Some (Qfloor (r_created r / inject_Z (Z.pos p)) * Z.pos p)%Z)).
    reflexivity.
  - rewrite (line_protocol_line_of _ _ _ None). reflexivity.
Qed.

Lemma no_newline_In : forall s, no_newline s = true <-> ~ In 10 s.
Proof.
  induction s as [|c s IH]; [cbn; tauto|]. rewrite no_newline_cons, IH. cbn [In]. split.
  - intros [H1 H2] [H|H]; [congruence|tauto].
  - intros H. split; [intros E; apply H; left; congruence|tauto].
Qed.

Lemma roundtrip : forall cfg r, wf cfg r ->
  exists out, format cfg r = Ok out
    /\ lp_parse out = Some (r_name r, expected_tags cfg r, expected_fields cfg r, expected_time cfg r).
Proof.
  intros cfg r H. eexists. split; [apply format_ok; exact H|].
  destruct (wf_unpack cfg r H) as [Hname _ _ _ _ Hne _].
  unfold expected_tags, expected_fields. apply lp_parse_line_of.
  - exact Hname.
  - apply Forall_sort_items. apply wf_tags_ok. exact H.
  - apply Forall_sort_items. apply wf_fields_ok. exact H.
  - intros E. apply (proj1 (sort_items_nil_iff _)) in E. contradiction.
Qed.
(* ---------------------------------------------------------------- exactly one line *)
Lemma In_encode : forall sp s x, In x (encode sp s) -> x = 92 \/ In x s.
Proof.
  intros sp. induction s as [|c s IH]; intros x H; [destruct H|].
  unfold encode in H. cbn [flat_map] in H. apply in_app_or in H. destruct H as [H|H].
  - unfold esc in H. destruct (sp c); cbn [In] in H; [destruct H as [H|[H|[]]]|destruct H as [H|[]]]; auto;
      right; left; auto.
  - destruct (IH x H) as [E|E]; [auto|right; right; exact E].
Qed.

Lemma In_join : forall sep (l : list str) x, In x (join sep l) -> In x sep \/ exists y, In y l /\ In x y.
Proof.
  intros sep. induction l as [|a l IH]; intros x H; [destruct H|].
  destruct l as [|b l].
  - right. exists a. split; [left; reflexivity|exact H].
  - change (join sep (a :: b :: l)) with (a ++ sep ++ join sep (b :: l)) in H.
    apply in_app_or in H. destruct H as [H|H]; [right; exists a; split; [left; reflexivity|exact H]|].
    apply in_app_or in H. destruct H as [H|H]; [left; exact H|].
    destruct (IH x H) as [E|[y [Hy Hx]]]; [left; exact E|right; exists y; split; [right; exact Hy|exact Hx]].
Qed.

Lemma ok_key_no_nl : forall s, ok_key s = true -> ~ In 10 s.
Proof. intros s H. destruct (ok_key_facts s H) as [_ [H2 _]]. apply no_newline_In. exact H2. Qed.

Lemma encode_no_nl : forall sp s, ~ In 10 s -> ~ In 10 (encode sp s).
Proof. intros sp s H Hin. apply In_encode in Hin. destruct Hin as [E|E]; [discriminate|contradiction]. Qed.

Lemma numeral_chars_no_nl : forall tok, forallb numeral_char tok = true -> ~ In 10 tok.
Proof.
  intros tok H Hin. rewrite forallb_forall in H. specialize (H _ Hin). discriminate.
Qed.

Lemma escape_field_no_nl : forall v, ok_value v = true -> ~ In 10 (escape_field v).
Proof.
  intros [s|b|z|tok|] H; cbn [escape_field text_of ok_value] in *.
  - rewrite escape_string_encode. intros [E|Hin]; [discriminate|].
    apply in_app_or in Hin. destruct Hin as [Hin|[E|[]]]; [|discriminate].
    revert Hin. apply encode_no_nl. apply no_newline_In. exact H.
  - destruct b; cbn; intuition discriminate.
  - apply numeral_chars_no_nl. apply print_Z_chars.
  - apply numeral_chars_no_nl. apply is_numeral_chars. exact H.
  - discriminate.
Qed.

Lemma line_of_single_line : forall name tags fields t,
  ok_name name = true -> Forall ok_tag tags -> Forall ok_field fields ->
  exists body, line_of name tags fields t = body ++ [10] /\ ~ In 10 body.
Proof.
  intros name tags fields t Hname Htags Hfields.
  exists (encode sp_name name ++ tags_blob tags ++ 32 :: join [44] (map item_field fields) ++ time_part t).
  split.
  - unfold line_of. rewrite <- !app_assoc. cbn [Datatypes.app]. rewrite <- !app_assoc. reflexivity.
  - unfold ok_name in Hname. apply andb_prop in Hname. destruct Hname as [Hname _].
    apply andb_prop in Hname. destruct Hname as [Hkey _].
    intros Hin. apply in_app_or in Hin. destruct Hin as [Hin|Hin].
    { revert Hin. apply encode_no_nl. apply ok_key_no_nl. exact Hkey. }
    apply in_app_or in Hin. destruct Hin as [Hin|Hin].
    { unfold tags_blob in Hin. apply in_flat_map in Hin. destruct Hin as [kv [Hkv Hin]].
      rewrite Forall_forall in Htags. destruct (Htags _ Hkv) as [Hk Hv].
      destruct Hin as [E|Hin]; [discriminate|]. unfold item_tag in Hin. rewrite !escape_key_encode in Hin.
      apply in_app_or in Hin. destruct Hin as [Hin|Hin].
      - revert Hin. apply encode_no_nl. apply ok_key_no_nl. exact Hk.
      - destruct Hin as [E|Hin]; [discriminate|]. revert Hin. apply encode_no_nl. apply ok_key_no_nl. exact Hv. }
    destruct Hin as [E|Hin]; [discriminate|].
    apply in_app_or in Hin. destruct Hin as [Hin|Hin].
    { apply In_join in Hin. destruct Hin as [[E|[]]|[y [Hy Hin]]]; [discriminate|].
      apply in_map_iff in Hy. destruct Hy as [kv [<- Hkv]].
      rewrite Forall_forall in Hfields. destruct (Hfields _ Hkv) as [Hk Hv].
      unfold item_field in Hin. rewrite escape_key_encode in Hin.
      apply in_app_or in Hin. destruct Hin as [Hin|Hin].
      - revert Hin. apply encode_no_nl. apply ok_key_no_nl. exact Hk.
      - destruct Hin as [E|Hin]; [discriminate|]. revert Hin. apply escape_field_no_nl. exact Hv. }
    destruct t as [z|]; cbn [time_part] in Hin; [|destruct Hin].
    destruct Hin as [E|Hin]; [discriminate|]. revert Hin. apply numeral_chars_no_nl. apply print_Z_chars.
Qed.

Theorem roundtrip_full : forall cfg r, wf cfg r ->
  exists body,
    format cfg r = Ok (body ++ [10]) /\ ~ In 10 body
    /\ lp_parse (body ++ [10]) = Some (r_name r, expected_tags cfg r, expected_fields cfg r, expected_time cfg r).
Proof.
  intros cfg r H. destruct (roundtrip cfg r H) as [out [Hf Hp]].
  rewrite (format_ok cfg r H) in Hf. injection Hf as Hout.
  destruct (wf_unpack cfg r H) as [Hname _ _ _ _ _ _].
  destruct (line_of_single_line (r_name r) (sort_items (tags_of cfg r)) (sort_items (fields_of cfg r))
              (expected_time cfg r) Hname
              (Forall_sort_items _ _ (wf_tags_ok cfg r H)) (Forall_sort_items _ _ (wf_fields_ok cfg r H)))
    as [body [Hb Hnl]].
  exists body. rewrite <- Hb. split; [apply format_ok; exact H|]. split; [exact Hnl|].
  rewrite Hout. exact Hp.
Qed.

(* ---------------------------------------------------------------- time *)
Open Scope Q_scope.
Lemma time_floor : forall (created : Q) (res : Z), (0 < res)%Z ->
  let t := (Qfloor (created / inject_Z res) * res)%Z in
  (exists k, t = (k * res)%Z) /\ inject_Z t <= created /\ created < inject_Z (t + res).
Proof.
  intros created res Hres t. subst t. set (q := created / inject_Z res).
  assert (Hr : 0 < inject_Z res). { change 0 with (inject_Z 0). rewrite <- Zlt_Qlt. exact Hres. }
  assert (Hc : created == q * inject_Z res).
  { unfold q. field. intros E. rewrite E in Hr. apply (Qlt_irrefl 0). exact Hr. }
  split; [exists (Qfloor q); reflexivity|]. split.
  - rewrite inject_Z_mult. rewrite Hc. apply Qmult_le_compat_r; [apply Qfloor_le|apply Qlt_le_weak; exact Hr].
  - replace (Qfloor q * res + res)%Z with ((Qfloor q + 1) * res)%Z by ring.
    rewrite inject_Z_mult. rewrite Hc at 1. apply Qmult_lt_compat_r; [exact Hr|apply Qlt_floor].
Qed.

Lemma expected_time_spec : forall cfg r,
  expected_time cfg r = match c_res cfg with
                        | Some res => Some (Qfloor (r_created r / inject_Z res) * res * 10 ^ 9)%Z
                        | None => None
                        end.
Proof. reflexivity. Qed.
Close Scope Q_scope.

(* ---------------------------------------------------------------- tags / fields partition *)
Lemma whitelist_defaults : forall t k, lookup k (default_tags t) <> None -> mem k (whitelist t) = true.
Proof.
  intros [|ks|d] k H; cbn [default_tags whitelist] in *; try (cbn in H; congruence).
  apply mem_In. destruct (lookup k d) eqn:E; [|congruence].
  destruct (in_dec (list_eq_dec N.eq_dec) k (map fst d)) as [Hin|Hnin]; [exact Hin|].
  apply lookup_None_keys in Hnin. congruence.
Qed.

Lemma tags_lookup : forall cfg r k,
  nodup_keys (r_data r) = true -> nodup_keys (default_tags (c_tags cfg)) = true ->
  lookup k (expected_tags cfg r)
  = if mem k (whitelist (c_tags cfg))
    then match lookup k (r_data r) with
         | Some v => Some (text_of v)                                   (* the record's value wins *)
         | None => option_map text_of (lookup k (default_tags (c_tags cfg)))   (* else the default *)
         end
    else None.
Proof.
  intros cfg r k Hnd Hndd. unfold expected_tags. rewrite lookup_map_values.
  assert (Hnt : nodup_keys (tags_of cfg r) = true).
  { unfold tags_of. apply nodup_dict_update. exact Hndd. }
  rewrite lookup_sort_items by exact Hnt. unfold tags_of.
  rewrite lookup_dict_update by (apply nodup_filter; exact Hnd).
  rewrite (lookup_filter_key (fun k0 => mem k0 (whitelist (c_tags cfg)))).
  destruct (mem k (whitelist (c_tags cfg))) eqn:Em.
  - destruct (lookup k (r_data r)); reflexivity.
  - destruct (lookup k (default_tags (c_tags cfg))) eqn:Ed; [|reflexivity].
    exfalso. assert (Hm : mem k (whitelist (c_tags cfg)) = true) by (apply whitelist_defaults; congruence).
    congruence.
Qed.

Lemma fields_lookup : forall cfg r k, nodup_keys (r_data r) = true ->
  lookup k (expected_fields cfg r)
  = if blacklisted (c_tags cfg) k then None else option_map fvalue_of (lookup k (r_data r)).
Proof.
  intros cfg r k Hnd. unfold expected_fields. rewrite lookup_map_values.
  assert (Hnf : nodup_keys (fields_of cfg r) = true) by (unfold fields_of; apply nodup_filter; exact Hnd).
  rewrite lookup_sort_items by exact Hnf. unfold fields_of.
  rewrite (lookup_filter_key (fun k0 => negb (blacklisted (c_tags cfg) k0))).
  destruct (blacklisted (c_tags cfg) k); reflexivity.
Qed.

(* nothing is lost and nothing is duplicated: a record key that does not collide with a LogRecord
   attribute name is decoded exactly once, as a tag (whitelisted) or as a field (otherwise) *)
Lemma partition : forall cfg r k v,
  nodup_keys (r_data r) = true -> nodup_keys (default_tags (c_tags cfg)) = true ->
  lookup k (r_data r) = Some v ->
  (mem k (whitelist (c_tags cfg)) = true ->
     lookup k (expected_tags cfg r) = Some (text_of v) /\ lookup k (expected_fields cfg r) = None)
  /\ (mem k (whitelist (c_tags cfg)) = false -> mem k RECORD_ATTRIBUTES = false ->
     lookup k (expected_tags cfg r) = None /\ lookup k (expected_fields cfg r) = Some (fvalue_of v))
  /\ (mem k (whitelist (c_tags cfg)) = false -> mem k RECORD_ATTRIBUTES = true ->
     lookup k (expected_tags cfg r) = None /\ lookup k (expected_fields cfg r) = None).
Proof.
  intros cfg r k v Hnd Hndd Hk.
  rewrite tags_lookup by assumption. rewrite fields_lookup by assumption. unfold blacklisted. rewrite Hk.
  repeat split; intros; repeat match goal with E : mem _ _ = _ |- _ => rewrite E; clear E end; reflexivity.
Qed.

(* keys absent from the record: only configured defaults appear, as tags *)
Lemma partition_absent : forall cfg r k,
  nodup_keys (r_data r) = true -> nodup_keys (default_tags (c_tags cfg)) = true ->
  lookup k (r_data r) = None ->
  lookup k (expected_tags cfg r) = option_map text_of (lookup k (default_tags (c_tags cfg)))
  /\ lookup k (expected_fields cfg r) = None.
Proof.
  intros cfg r k Hnd Hndd Hk.
  rewrite tags_lookup by assumption. rewrite fields_lookup by assumption. rewrite Hk. split.
  - destruct (mem k (whitelist (c_tags cfg))) eqn:Em; [reflexivity|].
    destruct (lookup k (default_tags (c_tags cfg))) eqn:Ed; [|reflexivity].
    exfalso. assert (Hm : mem k (whitelist (c_tags cfg)) = true) by (apply whitelist_defaults; congruence).
    congruence.
  - destruct (blacklisted (c_tags cfg) k); reflexivity.
Qed.

(* the decoded tag and field lists are canonical: sorted by key, keys unique *)
Lemma expected_canonical : forall cfg r,
  nodup_keys (r_data r) = true -> nodup_keys (default_tags (c_tags cfg)) = true ->
  Sorted key_le (expected_tags cfg r) /\ nodup_keys (expected_tags cfg r) = true
  /\ Sorted key_le (expected_fields cfg r) /\ nodup_keys (expected_fields cfg r) = true.
Proof.
  intros cfg r Hnd Hndd.
  assert (Hmap : forall {V W} (f : V -> W) (l : list (str * V)),
            Sorted key_le l -> Sorted key_le (map (fun kv => (fst kv, f (snd kv))) l)).
  { intros V W f l Hs. induction Hs as [|a l Hs IH Hr]; cbn [map]; [constructor|].
    constructor; [exact IH|]. destruct Hr as [|b l Hab]; cbn [map]; constructor. exact Hab. }
  unfold expected_tags, expected_fields. rewrite !nodup_map_values.
  repeat split.
  - apply Hmap. apply sort_items_sorted.
  - apply nodup_sort_items. unfold tags_of. apply nodup_dict_update. exact Hndd.
  - apply Hmap. apply sort_items_sorted.
  - apply nodup_sort_items. unfold fields_of. apply nodup_filter. exact Hnd.
Qed.

(* ---------------------------------------------------------------- JSON merge *)
Lemma json_merge : forall {V} (defaults : list (str * V)) time message data k,
  nodup_keys data = true ->
  lookup k (json_data defaults time message data)
  = match lookup k data with
    | Some v => Some v                                            (* the record's data *)
    | None =>
        if str_eqb k k_message then Some message                  (* then the message *)
        else match (if str_eqb k k_time then time else None) with
             | Some t => Some t                                   (* then the time, unless disabled *)
             | None => lookup k defaults                          (* then the configured defaults *)
             end
    end.
Proof.
  intros V defaults time message data k Hnd. unfold json_data.
  rewrite lookup_dict_update by exact Hnd. destruct (lookup k data); [reflexivity|].
  rewrite lookup_dict_set. destruct (str_eqb k k_message); [reflexivity|].
  destruct time as [t|]; [rewrite lookup_dict_set|]; destruct (str_eqb k k_time); reflexivity.
Qed.

Lemma json_nodup : forall {V} (defaults : list (str * V)) time message data,
  nodup_keys defaults = true -> nodup_keys (json_data defaults time message data) = true.
Proof.
  intros V defaults time message data H. unfold json_data. apply nodup_dict_update. apply nodup_dict_set.
  destruct time; [apply nodup_dict_set|]; exact H.
Qed.

(* keys of the emitted object: exactly defaults + time + message + data *)
Lemma json_keys : forall {V} (defaults : list (str * V)) time message data x,
  In x (map fst (json_data defaults time message data)) <->
  In x (map fst data) \/ x = k_message \/ (time <> None /\ x = k_time) \/ In x (map fst defaults).
Proof.
  intros V defaults time message data x. unfold json_data.
  assert (Hu : forall (items d : list (str * V)), In x (map fst (dict_update d items)) <-> In x (map fst items) \/ In x (map fst d)).
  { unfold dict_update. induction items as [|[k0 v0] items IH]; intros d; cbn [fold_left map In fst snd]; [tauto|].
    rewrite IH. rewrite keys_dict_set. split; intros Hx; [destruct Hx as [Hx|[Hx|Hx]]|destruct Hx as [[Hx|Hx]|Hx]]; auto. }
  rewrite Hu. rewrite keys_dict_set.
  destruct time as [t|]; [rewrite keys_dict_set|]; split; intros Hx.
  - destruct Hx as [Hx|[Hx|[Hx|Hx]]]; auto. right. right. left. split; [discriminate|exact Hx].
  - destruct Hx as [Hx|[Hx|[[_ Hx]|Hx]]]; auto.
  - destruct Hx as [Hx|[Hx|Hx]]; auto.
  - destruct Hx as [Hx|[Hx|[[Hx _]|Hx]]]; auto. congruence.
Qed.

(* ---------------------------------------------------------------- component round trips, on the code's own functions *)
Lemma unescape_escape_key : forall s rest, ok_key s = true -> starts_stop sp_key rest ->
  scan sp_key (escape_key s ++ rest) = (s, rest).
Proof. intros. rewrite escape_key_encode. apply scan_key; assumption. Qed.

Lemma unescape_escape_name : forall s rest, ok_key s = true -> starts_stop sp_name rest ->
  scan sp_name (escape_name s ++ rest) = (s, rest).
Proof.
  intros s rest H Hrest. rewrite escape_name_encode. destruct (ok_key_facts s H) as [_ [H2 H3]].
  apply scan_encode; auto using sp_name_92.
Qed.

Lemma unescape_escape_string : forall s rest, no_newline s = true ->
  exists body, escape_string s = 34 :: body /\ scan_string (body ++ rest) = Some (s, rest).
Proof.
  intros s rest H. exists (encode sp_str s ++ [34]). split; [apply escape_string_encode|].
  rewrite <- app_assoc. apply scan_string_encode. exact H.
Qed.
