(* Lemmas about the FactoryPool model (model/Factory.v). *)
From Coq Require Import ZArith QArith List Bool Arith Permutation Lia Lqa.
From Cobald Require Import kit.QKit kit.SetKit model.Factory.
Import ListNotations.
Open Scope Q_scope.

(* ---------- store updates ---------- *)
Lemma length_upd : forall l i f, length (upd l i f) = length l.
Proof.
  induction l as [|x r IH]; intros i f; destruct i; cbn [upd length]; try reflexivity.
  rewrite IH. reflexivity.
Qed.

Lemma nth_upd_same : forall l i f d, (i < length l)%nat -> nth i (upd l i f) d = f (nth i l d).
Proof.
  induction l as [|x r IH]; intros i f d H; [cbn [length] in H; lia|].
  destruct i; cbn [upd nth]; [reflexivity|]. apply IH. cbn [length] in H. lia.
Qed.

Lemma nth_upd_other : forall l i j f d, i <> j -> nth j (upd l i f) d = nth j l d.
Proof.
  induction l as [|x r IH]; intros i j f d H; [destruct i; reflexivity|].
  destruct i; destruct j; cbn [upd nth]; try reflexivity; [congruence|].
  apply IH. congruence.
Qed.

Lemma upd_overflow : forall l i f, (length l <= i)%nat -> upd l i f = l.
Proof.
  induction l as [|x r IH]; intros i f H; [destruct i; reflexivity|].
  destruct i; cbn [length] in H; [lia|]. cbn [upd]. rewrite IH; [reflexivity|lia].
Qed.

(* ---------- release ---------- *)
Lemma dem_release : forall st i j, dem (release st i) j = if Nat.eqb j i then 0 else dem st j.
Proof.
  intros st i j. unfold dem, get, release. cbn [store].
  destruct (Nat.eqb j i) eqn:E.
  - apply Nat.eqb_eq in E. subst j.
    destruct (lt_dec i (length (store st))) as [H|H].
    + rewrite nth_upd_same by exact H. reflexivity.
    + rewrite upd_overflow by lia. rewrite nth_overflow by lia. reflexivity.
  - apply Nat.eqb_neq in E. rewrite nth_upd_other by congruence. reflexivity.
Qed.

Lemma attrs_release : forall st i j,
  c_supply (get (release st i) j) = c_supply (get st j)
  /\ c_util (get (release st i) j) = c_util (get st j)
  /\ c_alloc (get (release st i) j) = c_alloc (get st j).
Proof.
  intros st i j. unfold get, release. cbn [store].
  destruct (Nat.eq_dec i j) as [->|H].
  - destruct (lt_dec j (length (store st))) as [L|L].
    + rewrite nth_upd_same by exact L. repeat split; reflexivity.
    + rewrite upd_overflow by lia. repeat split; reflexivity.
  - rewrite nth_upd_other by exact H. repeat split; reflexivity.
Qed.

Lemma release_all_cons : forall i l st, release_all (i :: l) st = release_all l (release st i).
Proof. reflexivity. Qed.

Lemma filter_filter : forall {A} (f g : A -> bool) l,
  filter f (filter g l) = filter (fun x => g x && f x) l.
Proof.
  induction l as [|x r IH]; cbn [filter]; [reflexivity|].
  destruct (g x); cbn [filter andb]; [destruct (f x); rewrite IH; reflexivity|exact IH].
Qed.

Lemma hatchery_release_all : forall l st,
  hatchery (release_all l st) = filter (fun x => negb (mem x l)) (hatchery st).
Proof.
  induction l as [|i r IH]; intros st.
  - cbn. induction (hatchery st) as [|x h IHh]; cbn [filter]; [reflexivity|]. rewrite <- IHh. reflexivity.
  - rewrite release_all_cons, IH. unfold release at 1. cbn [hatchery]. unfold set_discard.
    rewrite filter_filter. apply filter_ext. intros x. unfold mem. cbn [existsb].
    rewrite negb_orb. reflexivity.
Qed.

Lemma In_set_add : forall x y l, In y (set_add x l) <-> In y l \/ y = x.
Proof.
  intros x y l. unfold set_add. destruct (mem x l) eqn:E.
  - split; [intros H; left; exact H|]. intros [H| ->]; [exact H|apply mem_In; exact E].
  - rewrite in_app_iff. cbn [In]. split.
    + intros [H|[H|[]]]; [left; exact H|right; symmetry; exact H].
    + intros [H|H]; [left; exact H|right; left; symmetry; exact H].
Qed.

Lemma NoDup_set_add : forall x l, NoDup l -> NoDup (set_add x l).
Proof.
  intros x l H. unfold set_add. destruct (mem x l) eqn:E; [exact H|].
  apply mem_nIn in E. apply NoDup_app_intro; [exact H|repeat constructor; intros []|].
  intros y Hy [<-|[]]. contradiction.
Qed.

Lemma mortuary_release_all : forall l st x,
  In x (mortuary (release_all l st)) <-> In x (mortuary st) \/ In x l.
Proof.
  induction l as [|i r IH]; intros st x.
  - cbn. tauto.
  - rewrite release_all_cons, IH. unfold release at 1. cbn [mortuary In]. rewrite In_set_add.
    split; intros H; [destruct H as [[H|H]|H]|destruct H as [H|[H|H]]]; auto.
Qed.

Lemma NoDup_mortuary_release_all : forall l st,
  NoDup (mortuary st) -> NoDup (mortuary (release_all l st)).
Proof.
  induction l as [|i r IH]; intros st H; [exact H|].
  rewrite release_all_cons. apply IH. unfold release. cbn [mortuary]. apply NoDup_set_add. exact H.
Qed.

Lemma dem_release_all : forall l st j, dem (release_all l st) j = if mem j l then 0 else dem st j.
Proof.
  induction l as [|i r IH]; intros st j; [reflexivity|].
  rewrite release_all_cons, IH, dem_release. unfold mem. cbn [existsb].
  destruct (Nat.eqb j i); cbn [orb]; [destruct (existsb (Nat.eqb j) r); reflexivity|reflexivity].
Qed.

Lemma attrs_release_all : forall l st j,
  c_supply (get (release_all l st) j) = c_supply (get st j)
  /\ c_util (get (release_all l st) j) = c_util (get st j)
  /\ c_alloc (get (release_all l st) j) = c_alloc (get st j).
Proof.
  induction l as [|i r IH]; intros st j; [repeat split; reflexivity|].
  rewrite release_all_cons. destruct (IH (release st i) j) as [H1 [H2 H3]].
  destruct (attrs_release st i j) as [G1 [G2 G3]].
  rewrite H1, H2, H3, G1, G2, G3. repeat split; reflexivity.
Qed.

Lemma frame_release_all : forall l st,
  length (store (release_all l st)) = length (store st)
  /\ demand (release_all l st) = demand st /\ ncalls (release_all l st) = ncalls st.
Proof.
  induction l as [|i r IH]; intros st; [repeat split; reflexivity|].
  rewrite release_all_cons. destruct (IH (release st i)) as [H1 [H2 H3]].
  rewrite H1, H2, H3. unfold release. cbn [store demand ncalls]. rewrite length_upd. repeat split; reflexivity.
Qed.

(* ---------- sums ---------- *)
Lemma qsum_perm : forall (f : nat -> Q) l l', Permutation l l' -> qsum (map f l) == qsum (map f l').
Proof.
  intros f l l' H. induction H as [|x l l' _ IH|x y l|l l' l'' _ IH1 _ IH2]; cbn [map qsum].
  - reflexivity.
  - rewrite IH. reflexivity.
  - ring.
  - rewrite IH1. exact IH2.
Qed.

Lemma qsum_split : forall (f : nat -> Q) h l, NoDup h -> NoDup l -> incl l h ->
  qsum (map f h) == qsum (map f l) + qsum (map f (filter (fun x => negb (mem x l)) h)).
Proof.
  intros f h l Hh Hl Hincl. rewrite (qsum_perm f _ _ (partition_perm h l Hh Hl Hincl)).
  rewrite map_app, qsum_app. reflexivity.
Qed.

Lemma qsum_map_ext : forall (f g : nat -> Q) l, (forall x, In x l -> f x == g x) ->
  qsum (map f l) == qsum (map g l).
Proof. intros f g l H. apply qsum_map_ext_eq. exact H. Qed.

Lemma qsum_map_zero : forall (f : nat -> Q) l, (forall x, In x l -> f x == 0) -> qsum (map f l) == 0.
Proof.
  induction l as [|x r IH]; intros H; cbn [map qsum]; [reflexivity|].
  rewrite (H x) by (left; reflexivity). rewrite IH; [ring|]. intros y Hy. apply H. right. exact Hy.
Qed.

Lemma qsum_map_nonpos : forall (f : nat -> Q) l, (forall x, In x l -> f x <= 0) -> qsum (map f l) <= 0.
Proof.
  induction l as [|x r IH]; intros H; cbn [map qsum]; [lra|].
  assert (f x <= 0) by (apply H; left; reflexivity).
  assert (qsum (map f r) <= 0) by (apply IH; intros y Hy; apply H; right; exact Hy). lra.
Qed.

Lemma qsum_map_nonneg : forall (f : nat -> Q) l, (forall x, In x l -> 0 <= f x) -> 0 <= qsum (map f l).
Proof.
  induction l as [|x r IH]; intros H; cbn [map qsum]; [lra|].
  assert (0 <= f x) by (apply H; left; reflexivity).
  assert (0 <= qsum (map f r)) by (apply IH; intros y Hy; apply H; right; exact Hy). lra.
Qed.

Definition hdem (st : pool) : Q := qsum (map (dem st) (hatchery st)).
Definition mdem (st : pool) : Q := qsum (map (dem st) (mortuary st)).

Lemma cdem_split : forall st, cdem st == hdem st + mdem st.
Proof. intros st. unfold cdem, children, hdem, mdem. rewrite map_app, qsum_app. reflexivity. Qed.

(* the active demand after releasing a duplicate-free part of the hatchery *)
Lemma hdem_release_all : forall l st, NoDup (hatchery st) -> NoDup l -> incl l (hatchery st) ->
  hdem (release_all l st) == hdem st - qsum (map (dem st) l).
Proof.
  intros l st Hh Hl Hincl. unfold hdem. rewrite hatchery_release_all.
  rewrite (qsum_split (dem st) (hatchery st) l Hh Hl Hincl).
  rewrite (qsum_map_ext (dem (release_all l st)) (dem st)).
  - ring.
  - intros x Hx. apply filter_In in Hx. destruct Hx as [_ Hx]. apply negb_true_iff in Hx.
    rewrite dem_release_all, Hx. reflexivity.
Qed.

(* ---------- sorting ---------- *)
Lemma insert_sorted_perm : forall key x l, Permutation (insert_sorted key x l) (x :: l).
Proof.
  induction l as [|y r IH]; cbn [insert_sorted]; [apply Permutation_refl|].
  destruct (Qltb (key y) (key x)); [|apply Permutation_refl].
  rewrite IH. apply perm_swap.
Qed.

Lemma stable_sort_perm : forall key l, Permutation (stable_sort key l) l.
Proof.
  induction l as [|x r IH]; cbn [stable_sort fold_right]; [constructor|].
  fold (stable_sort key r). rewrite insert_sorted_perm. constructor. exact IH.
Qed.

Lemma iter_order_perm : forall ord h, NoDup h -> Permutation (iter_order ord h) h.
Proof.
  intros ord h Hh. unfold iter_order. apply NoDup_Permutation.
  - apply NoDup_app_intro; [apply NoDup_filter'; apply NoDup_nodup|apply NoDup_filter'; exact Hh|].
    intros x Hx Hin. apply filter_In in Hx. apply filter_In in Hin.
    destruct Hx as [Hx _]. apply nodup_In in Hx. destruct Hin as [_ Hn].
    apply negb_true_iff in Hn. apply mem_nIn in Hn. contradiction.
  - exact Hh.
  - intros x. rewrite in_app_iff, !filter_In, nodup_In. split.
    + intros [[_ H]|[H _]]; [apply mem_In; exact H|exact H].
    + intros H. destruct (mem x ord) eqn:E.
      * left. split; [apply mem_In; exact E|apply mem_In; exact H].
      * right. split; [exact H|reflexivity].
Qed.

Lemma hit_list_perm : forall ord st, NoDup (hatchery st) -> Permutation (hit_list ord st) (hatchery st).
Proof.
  intros ord st H. unfold hit_list. rewrite stable_sort_perm. apply iter_order_perm. exact H.
Qed.

(* ---------- the excess rule ---------- *)
Lemma pick_incl : forall d hit e, incl (pick_release d e hit) hit.
Proof.
  induction hit as [|c r IH]; intros e x Hx; cbn [pick_release] in Hx; [destruct Hx|].
  destruct (Qle_bool e 0); [destruct Hx|].
  destruct (Qle_bool (d c) e).
  - destruct Hx as [<-|Hx]; [left; reflexivity|right; apply (IH _ _ Hx)].
  - right. apply (IH _ _ Hx).
Qed.

Lemma pick_NoDup : forall d hit e, NoDup hit -> NoDup (pick_release d e hit).
Proof.
  induction hit as [|c r IH]; intros e H; cbn [pick_release]; [constructor|].
  inversion H as [|? ? Hc Hr]; subst.
  destruct (Qle_bool e 0); [constructor|].
  destruct (Qle_bool (d c) e); [|apply IH; exact Hr].
  constructor; [|apply IH; exact Hr]. intros Hin. apply Hc. apply (pick_incl _ _ _ _ Hin).
Qed.

(* safe: whenever something is released, the excess that remains is not negative *)
Lemma pick_safe : forall d hit e, pick_release d e hit <> [] ->
  0 <= e - qsum (map d (pick_release d e hit)).
Proof.
  induction hit as [|c r IH]; intros e H; cbn [pick_release] in *; [congruence|].
  destruct (Qle_bool e 0) eqn:E0; [congruence|].
  destruct (Qle_bool (d c) e) eqn:E1.
  - apply Qle_bool_iff in E1. cbn [map qsum].
    destruct (pick_release d (e - d c) r) as [|y s] eqn:P.
    + cbn [map qsum]. lra.
    + rewrite <- P. assert (Hne : pick_release d (e - d c) r <> []) by (rewrite P; discriminate).
      specialize (IH (e - d c) Hne). lra.
  - apply IH. exact H.
Qed.

(* maximal: no child that is kept would still fit into the remaining excess *)
Lemma pick_maximal : forall d hit e c,
  (forall x, In x hit -> 0 <= d x) -> In c hit -> ~ In c (pick_release d e hit) -> 0 < d c ->
  e - qsum (map d (pick_release d e hit)) < d c.
Proof.
  induction hit as [|x r IH]; intros e c Hnn Hin Hnot Hpos; [destruct Hin|].
  cbn [pick_release] in *.
  destruct (Qle_bool e 0) eqn:E0.
  - apply Qle_bool_iff in E0. cbn [map qsum]. lra.
  - assert (Hnn' : forall y, In y r -> 0 <= d y) by (intros y Hy; apply Hnn; right; exact Hy).
    destruct (Qle_bool (d x) e) eqn:E1.
    + cbn [map qsum]. assert (Hcx : c <> x) by (intros ->; apply Hnot; left; reflexivity).
      destruct Hin as [Hin|Hin]; [congruence|].
      assert (Hnot' : ~ In c (pick_release d (e - d x) r)) by (intros H; apply Hnot; right; exact H).
      specialize (IH (e - d x) c Hnn' Hin Hnot' Hpos). lra.
    + destruct Hin as [<-|Hin].
      * assert (Hx : e < d x).
        { destruct (Qlt_le_dec e (d x)) as [L|L]; [exact L|]. apply Qle_bool_iff in L. congruence. }
        assert (0 <= qsum (map d (pick_release d e r))).
        { apply qsum_map_nonneg. intros y Hy. apply Hnn'. apply (pick_incl _ _ _ _ Hy). }
        lra.
      * apply IH; assumption.
Qed.

(* ---------- reaping ---------- *)
Lemma reapable_incl : forall st, incl (reapable st) (hatchery st).
Proof. intros st x Hx. unfold reapable in Hx. apply filter_In in Hx. tauto. Qed.

Lemma reapable_NoDup : forall st, NoDup (hatchery st) -> NoDup (reapable st).
Proof. intros st H. unfold reapable. apply NoDup_filter'. exact H. Qed.

Lemma reapable_nonpos : forall st x, In x (reapable st) -> dem st x <= 0.
Proof. intros st x Hx. unfold reapable in Hx. apply filter_In in Hx. apply Qle_bool_iff. tauto. Qed.

Lemma hatchery_reap : forall st c,
  In c (hatchery (reap st)) <-> In c (hatchery st) /\ 0 < dem st c.
Proof.
  intros st c. unfold reap. rewrite hatchery_release_all, filter_In, negb_true_iff, mem_nIn.
  unfold reapable. rewrite filter_In. split.
  - intros [Hc Hn]. split; [exact Hc|].
    destruct (Qlt_le_dec 0 (dem st c)) as [L|L]; [exact L|]. exfalso. apply Hn.
    split; [exact Hc|apply Qle_bool_iff; exact L].
  - intros [Hc Hp]. split; [exact Hc|]. intros [_ Hle]. apply Qle_bool_iff in Hle. lra.
Qed.

Lemma dem_reap_kept : forall st c, In c (hatchery (reap st)) -> dem (reap st) c = dem st c.
Proof.
  intros st c Hc. unfold reap in *. rewrite hatchery_release_all in Hc. apply filter_In in Hc.
  destruct Hc as [_ Hn]. apply negb_true_iff in Hn. rewrite dem_release_all, Hn. reflexivity.
Qed.

Lemma reap_positive : forall st c, In c (hatchery (reap st)) -> 0 < dem (reap st) c.
Proof. intros st c Hc. rewrite (dem_reap_kept st c Hc). apply hatchery_reap in Hc. tauto. Qed.

Lemma hdem_reap_ge : forall st, NoDup (hatchery st) -> hdem st <= hdem (reap st).
Proof.
  intros st H. unfold reap.
  rewrite (hdem_release_all (reapable st) st H (reapable_NoDup st H) (reapable_incl st)).
  assert (qsum (map (dem st) (reapable st)) <= 0).
  { apply qsum_map_nonpos. intros x Hx. apply reapable_nonpos. exact Hx. }
  lra.
Qed.

Lemma hdem_reap_eq : forall st, NoDup (hatchery st) -> (forall x, In x (hatchery st) -> 0 <= dem st x) ->
  hdem (reap st) == hdem st.
Proof.
  intros st H Hnn. unfold reap.
  rewrite (hdem_release_all (reapable st) st H (reapable_NoDup st H) (reapable_incl st)).
  assert (qsum (map (dem st) (reapable st)) == 0).
  { apply qsum_map_zero. intros x Hx. pose proof (reapable_nonpos st x Hx).
    pose proof (Hnn x (reapable_incl st x Hx)). lra. }
  lra.
Qed.

(* ---------- _shrink ---------- *)
Lemma hit_list_NoDup : forall ord st, NoDup (hatchery st) -> NoDup (hit_list ord st).
Proof.
  intros ord st H. apply (Permutation_NoDup (Permutation_sym (hit_list_perm ord st H))). exact H.
Qed.

Lemma shrink_released_NoDup : forall ord st target, NoDup (hatchery st) ->
  NoDup (shrink_released ord st target).
Proof. intros ord st target H. unfold shrink_released. apply pick_NoDup. apply hit_list_NoDup. exact H. Qed.

Lemma shrink_released_incl : forall ord st target, NoDup (hatchery st) ->
  incl (shrink_released ord st target) (hatchery st).
Proof.
  intros ord st target H x Hx. unfold shrink_released in Hx. apply pick_incl in Hx.
  apply (Permutation_in _ (hit_list_perm ord st H)). exact Hx.
Qed.

Lemma shrink_spec : forall ord st target, NoDup (hatchery st) ->
  let rel := shrink_released ord st target in
  let st' := shrink ord st target in
  (* safe *)
  (rel <> [] -> target <= hdem st')
  (* maximal *)
  /\ ((forall x, In x (hatchery st) -> 0 <= dem st x) ->
      forall c, In c (hatchery st') -> ~ dem st' c <= hdem st' - target)
  (* what is kept is untouched and has demand *)
  /\ (forall c, In c (hatchery st') ->
        In c (hatchery st) /\ ~ In c rel /\ dem st' c = dem st c /\ 0 < dem st' c).
Proof.
  intros ord st target Hnd rel st'.
  pose proof (shrink_released_NoDup ord st target Hnd) as Hrnd.
  pose proof (shrink_released_incl ord st target Hnd) as Hrincl.
  fold rel in Hrnd, Hrincl.
  set (st1 := release_all rel st).
  assert (Hst' : st' = reap st1) by reflexivity.
  assert (Hh1 : hatchery st1 = filter (fun x => negb (mem x rel)) (hatchery st))
    by (apply hatchery_release_all).
  assert (Hnd1 : NoDup (hatchery st1)) by (rewrite Hh1; apply NoDup_filter'; exact Hnd).
  assert (Hd1 : hdem st1 == hdem st - qsum (map (dem st) rel))
    by (apply hdem_release_all; assumption).
  assert (Hhit : qsum (map (dem st) (hit_list ord st)) == hdem st)
    by (apply qsum_perm; apply hit_list_perm; exact Hnd).
  assert (Hkept : forall c, In c (hatchery st') ->
            In c (hatchery st) /\ ~ In c rel /\ dem st' c = dem st c /\ 0 < dem st' c).
  { intros c Hc. rewrite Hst' in *. pose proof (reap_positive st1 c Hc) as Hpos.
    rewrite (dem_reap_kept st1 c Hc) in *. apply hatchery_reap in Hc. destruct Hc as [Hc _].
    rewrite Hh1 in Hc. apply filter_In in Hc. destruct Hc as [Hc Hn].
    apply negb_true_iff in Hn. unfold st1 in *. rewrite dem_release_all, Hn in *.
    apply mem_nIn in Hn. tauto. }
  split; [|split; [|exact Hkept]].
  - intros Hne. pose proof (hdem_reap_ge st1 Hnd1) as Hge. rewrite <- Hst' in Hge.
    pose proof (pick_safe (dem st) (hit_list ord st) (qsum (map (dem st) (hit_list ord st)) - target) Hne) as Hs.
    fold (shrink_released ord st target) in Hs. fold rel in Hs. lra.
  - intros Hnn c Hc. destruct (Hkept c Hc) as [Hch [Hcr [Hcd Hcp]]].
    assert (Hnn1 : forall x, In x (hatchery st1) -> 0 <= dem st1 x).
    { intros x Hx. rewrite Hh1 in Hx. apply filter_In in Hx. destruct Hx as [Hx Hn].
      apply negb_true_iff in Hn. unfold st1. rewrite dem_release_all, Hn. apply Hnn. exact Hx. }
    pose proof (hdem_reap_eq st1 Hnd1 Hnn1) as Heq. rewrite <- Hst' in Heq.
    assert (Hm : qsum (map (dem st) (hit_list ord st)) - target - qsum (map (dem st) rel) < dem st c).
    { apply pick_maximal.
      - intros x Hx. apply Hnn. apply (Permutation_in _ (hit_list_perm ord st Hnd)). exact Hx.
      - apply (Permutation_in _ (Permutation_sym (hit_list_perm ord st Hnd))). exact Hch.
      - exact Hcr.
      - rewrite <- Hcd. exact Hcp. }
    rewrite Hcd. lra.
Qed.

(* ---------- _grow ---------- *)
Definition fdem (factory : nat -> child) (n k : nat) : Q :=
  qsum (map (fun j => c_demand (factory j)) (seq n k)).

Definition bounded (st : pool) : Prop :=
  forall i, In i (hatchery st ++ mortuary st) -> (i < length (store st))%nat.

Lemma grow_loop_unfold : forall factory fuel st missing,
  grow_loop factory fuel st missing =
  if Qltb 0 missing then
    match fuel with
    | O => OutOfFuel
    | S f =>
        if Qltb 0 (c_demand (factory (ncalls st)))
        then grow_loop factory f (spawn factory st) (missing - c_demand (factory (ncalls st)))
        else AssertionFailed (spawn factory st)
    end
  else Done st.
Proof. intros factory fuel st missing. destruct fuel; reflexivity. Qed.

Lemma set_add_fresh : forall x l, ~ In x l -> set_add x l = l ++ [x].
Proof. intros x l H. unfold set_add. apply mem_nIn in H. rewrite H. reflexivity. Qed.

Lemma bounded_fresh : forall st, bounded st -> ~ In (length (store st)) (hatchery st).
Proof.
  intros st Hb Hin. assert (H : (length (store st) < length (store st))%nat); [|lia].
  apply Hb. apply in_or_app. left. exact Hin.
Qed.

Lemma hatchery_spawn : forall factory st, bounded st ->
  hatchery (spawn factory st) = hatchery st ++ [length (store st)].
Proof. intros factory st Hb. unfold spawn. cbn [hatchery]. apply set_add_fresh. apply bounded_fresh. exact Hb. Qed.

Lemma bounded_spawn : forall factory st, bounded st -> bounded (spawn factory st).
Proof.
  intros factory st Hb i Hi. rewrite (hatchery_spawn factory st Hb) in Hi.
  unfold spawn. cbn [store mortuary] in *. rewrite app_length. cbn [length].
  rewrite !in_app_iff in Hi. cbn [In] in Hi.
  destruct Hi as [[Hi|[<-|[]]]|Hi]; [|lia|]; (assert ((i < length (store st))%nat); [|lia]);
    apply Hb; apply in_or_app; [left|right]; exact Hi.
Qed.

Lemma fdem_S_l : forall factory n k, fdem factory n (S k) == c_demand (factory n) + fdem factory (S n) k.
Proof. intros. unfold fdem. cbn [seq map qsum]. reflexivity. Qed.

Lemma fdem_S_r : forall factory n k, fdem factory n (S k) == fdem factory n k + c_demand (factory (n + k)%nat).
Proof.
  intros. unfold fdem. rewrite seq_S, map_app, qsum_app. cbn [map qsum]. ring.
Qed.

Lemma grow_loop_spec : forall factory fuel st missing st',
  bounded st -> grow_loop factory fuel st missing = Done st' ->
  exists k,
    store st' = store st ++ map factory (seq (ncalls st) k)
    /\ hatchery st' = hatchery st ++ seq (length (store st)) k
    /\ mortuary st' = mortuary st /\ demand st' = demand st /\ ncalls st' = (ncalls st + k)%nat
    /\ (forall j, (ncalls st <= j < ncalls st + k)%nat -> 0 < c_demand (factory j))
    /\ missing - fdem factory (ncalls st) k <= 0
    /\ ((0 < k)%nat -> 0 < missing - fdem factory (ncalls st) (k - 1)).
Proof.
  intros factory. induction fuel as [|f IH]; intros st missing st' Hb; rewrite grow_loop_unfold.
  - destruct (Qltb 0 missing) eqn:E; [discriminate|]. intros H. inversion H; subst st'.
    apply Qltb_ge in E. exists 0%nat. cbn [seq map]. rewrite !app_nil_r, Nat.add_0_r.
    repeat split; try reflexivity; try lia. unfold fdem. cbn. lra.
  - destruct (Qltb 0 missing) eqn:E.
    + destruct (Qltb 0 (c_demand (factory (ncalls st)))) eqn:Ed; [|discriminate].
      apply Qltb_lt in E. apply Qltb_lt in Ed. intros H.
      destruct (IH _ _ _ (bounded_spawn factory st Hb) H) as [k [Hs [Hh [Hm [Hd [Hn [Hp [Hf Hl]]]]]]]].
      rewrite (hatchery_spawn factory st Hb) in Hh. unfold spawn in Hs, Hh, Hm, Hd, Hn, Hp, Hf, Hl.
      cbn [store mortuary demand ncalls] in *.
      exists (S k). split; [rewrite Hs, <- app_assoc; reflexivity|].
      split; [rewrite Hh, <- app_assoc, app_length; cbn [length app seq]; rewrite Nat.add_1_r; reflexivity|].
      split; [exact Hm|]. split; [exact Hd|]. split; [lia|]. split.
      * intros j Hj. destruct (Nat.eq_dec j (ncalls st)) as [->|Hne]; [exact Ed|]. apply Hp. lia.
      * split.
        -- rewrite fdem_S_l. lra.
        -- intros _. replace (S k - 1)%nat with k by lia. destruct k as [|k'].
           ++ unfold fdem. cbn. lra.
           ++ assert (Hl' : 0 < missing - c_demand (factory (ncalls st)) - fdem factory (S (ncalls st)) (S k' - 1))
                by (apply Hl; lia).
              replace (S k' - 1)%nat with k' in Hl' by lia. rewrite fdem_S_l. lra.
    + intros H. inversion H; subst st'. apply Qltb_ge in E. exists 0%nat. cbn [seq map].
      rewrite !app_nil_r, Nat.add_0_r. repeat split; try reflexivity; try lia. unfold fdem. cbn. lra.
Qed.

(* with a positive lower bound on the factory's demands the loop terminates within the fuel *)
Lemma grow_loop_terminates : forall factory delta, 0 < delta ->
  (forall n, delta <= c_demand (factory n)) ->
  forall fuel st missing, missing <= delta * inject_Z (Z.of_nat fuel) ->
  grow_loop factory fuel st missing <> OutOfFuel.
Proof.
  intros factory delta Hd Hf. induction fuel as [|f IH]; intros st missing Hm; rewrite grow_loop_unfold.
  - destruct (Qltb 0 missing) eqn:E; [|discriminate]. apply Qltb_lt in E.
    change (inject_Z (Z.of_nat 0)) with 0 in Hm. lra.
  - destruct (Qltb 0 missing) eqn:E; [|discriminate].
    assert (Hpos : Qltb 0 (c_demand (factory (ncalls st))) = true).
    { apply Qltb_lt. specialize (Hf (ncalls st)). lra. }
    rewrite Hpos. apply IH. specialize (Hf (ncalls st)).
    rewrite Nat2Z.inj_succ in Hm. unfold Z.succ in Hm. rewrite inject_Z_plus in Hm.
    change (inject_Z 1) with 1 in Hm. lra.
Qed.

Lemma map_seq_shift : forall (f g : nat -> Q) k a b,
  (forall j, (j < k)%nat -> f (a + j)%nat = g (b + j)%nat) -> map f (seq a k) = map g (seq b k).
Proof.
  induction k as [|k IH]; intros a b H; cbn [seq map]; [reflexivity|].
  f_equal.
  - specialize (H 0%nat). rewrite !Nat.add_0_r in H. apply H. lia.
  - apply IH. intros j Hj. specialize (H (S j)). rewrite !Nat.add_succ_r in H. cbn [Nat.add]. apply H. lia.
Qed.

Lemma get_app_old : forall st st' extra i, store st' = store st ++ extra ->
  (i < length (store st))%nat -> get st' i = get st i.
Proof. intros st st' extra i Hs Hi. unfold get. rewrite Hs. apply app_nth1. exact Hi. Qed.

Lemma get_app_new : forall factory st st' n k j, store st' = store st ++ map factory (seq n k) ->
  (j < k)%nat -> get st' (length (store st) + j) = factory (n + j)%nat.
Proof.
  intros factory st st' n k j Hs Hj. unfold get. rewrite Hs.
  rewrite app_nth2 by lia. replace (length (store st) + j - length (store st))%nat with j by lia.
  rewrite (nth_indep _ no_child (factory 0%nat)) by (rewrite map_length, seq_length; exact Hj).
  rewrite map_nth, seq_nth by exact Hj. reflexivity.
Qed.

Definition Inv (st : pool) : Prop := NoDup (hatchery st ++ mortuary st) /\ bounded st.
Definition MortZero (st : pool) : Prop := forall i, In i (mortuary st) -> dem st i == 0.

Lemma grow_spec : forall factory fuel st target st', Inv st ->
  grow factory fuel st target = Done st' ->
  exists k,
    ncalls st' = (ncalls st + k)%nat /\ length (store st') = (length (store st) + k)%nat
    /\ demand st' = demand st
    (* the loop ran exactly until the missing demand was covered *)
    /\ target - cdem st - fdem factory (ncalls st) k <= 0
    /\ ((0 < k)%nat -> 0 < target - cdem st - fdem factory (ncalls st) (k - 1))
    (* every new child is the factory's product and has demand *)
    /\ (forall j, (j < k)%nat -> 0 < c_demand (factory (ncalls st + j)%nat))
    /\ (forall c, In c (hatchery st') -> In c (hatchery st) \/ (length (store st) <= c < length (store st) + k)%nat)
    /\ (forall c, In c (hatchery st') -> (c < length (store st))%nat -> dem st' c = dem st c)
    (* in terms of the active children *)
    /\ (mdem st == 0 -> target <= hdem st')
    /\ ((0 < k)%nat -> mdem st == 0 -> (forall x, In x (hatchery st) -> 0 <= dem st x) ->
        let last := (length (store st) + k - 1)%nat in
        In last (hatchery st') /\ dem st' last = c_demand (factory (ncalls st + k - 1)%nat)
        /\ hdem st' - dem st' last < target).
Proof.
  intros factory fuel st target st' [Hnd Hb]. unfold grow.
  destruct (grow_loop factory fuel st (target - cdem st)) as [st1| |] eqn:G; try discriminate.
  intros H. inversion H; subst st'. clear H.
  destruct (grow_loop_spec factory fuel st _ st1 Hb G) as [k [Hs [Hh [Hm [Hd [Hn [Hp [Hf Hl]]]]]]]].
  pose proof (frame_release_all (reapable st1) st1) as [Fl [Fd Fn]]. fold (reap st1) in Fl, Fd, Fn.
  assert (Hold : forall i, (i < length (store st))%nat -> dem st1 i = dem st i).
  { intros i Hi. unfold dem. rewrite (get_app_old st st1 _ i Hs Hi). reflexivity. }
  assert (Hnew : forall j, (j < k)%nat -> dem st1 (length (store st) + j) = c_demand (factory (ncalls st + j)%nat)).
  { intros j Hj. unfold dem. rewrite (get_app_new factory st st1 _ k j Hs Hj). reflexivity. }
  assert (Hhb : forall x, In x (hatchery st) -> (x < length (store st))%nat).
  { intros x Hx. apply Hb. apply in_or_app. left. exact Hx. }
  assert (Hnd1 : NoDup (hatchery st1)).
  { rewrite Hh. apply NoDup_app_intro; [apply (NoDup_app_l _ _ Hnd)|apply seq_NoDup|].
    intros x Hx Hin. apply in_seq in Hin. specialize (Hhb x Hx). lia. }
  assert (Hd1 : hdem st1 == hdem st + fdem factory (ncalls st) k).
  { unfold hdem. rewrite Hh, map_app, qsum_app.
    rewrite (qsum_map_ext (dem st1) (dem st) (hatchery st)) by (intros x Hx; rewrite Hold; [reflexivity|apply Hhb; exact Hx]).
    unfold fdem. rewrite (map_seq_shift (dem st1) (fun j => c_demand (factory j)) k (length (store st)) (ncalls st)) by exact Hnew.
    reflexivity. }
  pose proof (cdem_split st) as Hc.
  exists k. split; [rewrite Fn; exact Hn|]. split; [rewrite Fl, Hs, app_length, map_length, seq_length; reflexivity|].
  split; [rewrite Fd; exact Hd|]. split; [exact Hf|]. split; [exact Hl|]. split.
  { intros j Hj. apply Hp. lia. }
  split.
  { intros c Hc'. apply hatchery_reap in Hc'. destruct Hc' as [Hc' _]. rewrite Hh in Hc'.
    apply in_app_or in Hc'. destruct Hc' as [Hc'|Hc']; [left; exact Hc'|right; apply in_seq in Hc'; lia]. }
  split.
  { intros c Hc' Hlt. rewrite (dem_reap_kept st1 c Hc'). apply Hold. exact Hlt. }
  split.
  { intros Hmz. pose proof (hdem_reap_ge st1 Hnd1). lra. }
  intros Hk Hmz Hnn. cbv zeta. set (last := (length (store st) + k - 1)%nat).
  assert (Hnn1 : forall x, In x (hatchery st1) -> 0 <= dem st1 x).
  { intros x Hx. rewrite Hh in Hx. apply in_app_or in Hx. destruct Hx as [Hx|Hx].
    - rewrite Hold by (apply Hhb; exact Hx). apply Hnn. exact Hx.
    - apply in_seq in Hx. replace x with (length (store st) + (x - length (store st)))%nat by lia.
      rewrite Hnew by lia. apply Qlt_le_weak. apply Hp. lia. }
  pose proof (hdem_reap_eq st1 Hnd1 Hnn1) as Heq.
  assert (Hlast : dem st1 last = c_demand (factory (ncalls st + k - 1)%nat)).
  { unfold last. replace (length (store st) + k - 1)%nat with (length (store st) + (k - 1))%nat by lia.
    rewrite Hnew by lia. f_equal. f_equal. lia. }
  assert (Hin : In last (hatchery (reap st1))).
  { apply hatchery_reap. split.
    - rewrite Hh. apply in_or_app. right. apply in_seq. unfold last. lia.
    - rewrite Hlast. apply Hp. lia. }
  split; [exact Hin|]. rewrite (dem_reap_kept st1 last Hin). split; [exact Hlast|].
  rewrite Hlast. specialize (Hl Hk).
  pose proof (fdem_S_r factory (ncalls st) (k - 1)) as Hfr.
  replace (S (k - 1)) with k in Hfr by lia.
  replace (ncalls st + (k - 1))%nat with (ncalls st + k - 1)%nat in Hfr by lia. lra.
Qed.

(* ---------- the partition invariant ---------- *)
Lemma Inv_release_all : forall l st, Inv st -> incl l (hatchery st) -> Inv (release_all l st).
Proof.
  intros l st [Hnd Hb] Hincl. split.
  - rewrite hatchery_release_all. apply NoDup_app_intro.
    + apply NoDup_filter'. apply (NoDup_app_l _ _ Hnd).
    + apply NoDup_mortuary_release_all. apply (NoDup_app_r _ _ Hnd).
    + intros x Hx Hm. apply filter_In in Hx. destruct Hx as [Hx Hn].
      apply negb_true_iff in Hn. apply mem_nIn in Hn.
      apply mortuary_release_all in Hm. destruct Hm as [Hm|Hm]; [|contradiction].
      apply (NoDup_app_disj _ _ x Hnd Hx Hm).
  - intros i Hi. destruct (frame_release_all l st) as [Fl _]. rewrite Fl.
    apply Hb. apply in_app_or in Hi. apply in_or_app. destruct Hi as [Hi|Hi].
    + rewrite hatchery_release_all in Hi. apply filter_In in Hi. left. tauto.
    + apply mortuary_release_all in Hi. destruct Hi as [Hi|Hi]; [right; exact Hi|left; apply Hincl; exact Hi].
Qed.

Lemma Inv_reap : forall st, Inv st -> Inv (reap st).
Proof. intros st H. apply Inv_release_all; [exact H|apply reapable_incl]. Qed.

Lemma Inv_shrink : forall ord st target, Inv st -> Inv (shrink ord st target).
Proof.
  intros ord st target H. unfold shrink. apply Inv_reap. apply Inv_release_all; [exact H|].
  apply shrink_released_incl. apply (NoDup_app_l _ _ (proj1 H)).
Qed.

Lemma MortZero_release_all : forall l st, MortZero st -> MortZero (release_all l st).
Proof.
  intros l st H i Hi. rewrite dem_release_all. destruct (mem i l) eqn:E; [reflexivity|].
  apply mem_nIn in E. apply mortuary_release_all in Hi. destruct Hi as [Hi|Hi]; [apply H; exact Hi|contradiction].
Qed.

Lemma Inv_grow_loop : forall factory fuel st missing st', Inv st ->
  grow_loop factory fuel st missing = Done st' -> Inv st'.
Proof.
  intros factory fuel st missing st' [Hnd Hb] G.
  destruct (grow_loop_spec factory fuel st missing st' Hb G) as [k [Hs [Hh [Hm _]]]].
  split.
  - rewrite Hh, Hm.
    apply (Permutation_NoDup (l := seq (length (store st)) k ++ (hatchery st ++ mortuary st))).
    + rewrite app_assoc. apply Permutation_app_tail. apply Permutation_app_comm.
    + apply NoDup_app_intro; [apply seq_NoDup|exact Hnd|].
      intros x Hx Hin. apply in_seq in Hx. specialize (Hb x Hin). lia.
  - intros i Hi. rewrite Hs, app_length, map_length, seq_length. rewrite Hh, Hm in Hi.
    rewrite !in_app_iff in Hi. destruct Hi as [[Hi|Hi]|Hi].
    + assert ((i < length (store st))%nat) by (apply Hb; apply in_or_app; left; exact Hi). lia.
    + apply in_seq in Hi. lia.
    + assert ((i < length (store st))%nat) by (apply Hb; apply in_or_app; right; exact Hi). lia.
Qed.

Lemma MortZero_grow_loop : forall factory fuel st missing st', Inv st -> MortZero st ->
  grow_loop factory fuel st missing = Done st' -> MortZero st'.
Proof.
  intros factory fuel st missing st' [Hnd Hb] Hz G.
  destruct (grow_loop_spec factory fuel st missing st' Hb G) as [k [Hs [Hh [Hm _]]]].
  intros i Hi. rewrite Hm in Hi. unfold dem.
  rewrite (get_app_old st st' _ i Hs) by (apply Hb; apply in_or_app; right; exact Hi).
  apply Hz. exact Hi.
Qed.

Lemma Inv_adjust : forall factory fuel ord st st', Inv st -> adjust factory fuel ord st = Done st' -> Inv st'.
Proof.
  intros factory fuel ord st st' H. unfold adjust. destruct (Qltb (demand st) (supply st)).
  - intros E. inversion E. apply Inv_shrink. exact H.
  - unfold grow. destruct (grow_loop factory fuel st (demand st - cdem st)) as [st1| |] eqn:G; try discriminate.
    intros E. inversion E. apply Inv_reap. apply (Inv_grow_loop factory fuel st _ st1 H G).
Qed.

Lemma MortZero_adjust : forall factory fuel ord st st', Inv st -> MortZero st ->
  adjust factory fuel ord st = Done st' -> MortZero st'.
Proof.
  intros factory fuel ord st st' H Hz. unfold adjust. destruct (Qltb (demand st) (supply st)).
  - intros E. inversion E. unfold shrink, reap. apply MortZero_release_all. apply MortZero_release_all. exact Hz.
  - unfold grow. destruct (grow_loop factory fuel st (demand st - cdem st)) as [st1| |] eqn:G; try discriminate.
    intros E. inversion E. unfold reap. apply MortZero_release_all.
    apply (MortZero_grow_loop factory fuel st _ st1 H Hz G).
Qed.

(* every adjustment ends with _reap_children: no active child is left without demand *)
Lemma adjust_positive : forall factory fuel ord st st', adjust factory fuel ord st = Done st' ->
  forall c, In c (hatchery st') -> 0 < dem st' c.
Proof.
  intros factory fuel ord st st'. unfold adjust. destruct (Qltb (demand st) (supply st)).
  - intros E. inversion E. unfold shrink. apply reap_positive.
  - unfold grow. destruct (grow_loop factory fuel st (demand st - cdem st)) as [st1| |]; try discriminate.
    intros E. inversion E. apply reap_positive.
Qed.

(* children enter the hatchery only fresh from the factory; the store grows by the factory calls *)
Lemma adjust_origin : forall factory fuel ord st st', Inv st -> adjust factory fuel ord st = Done st' ->
  (length (store st') + ncalls st = length (store st) + ncalls st')%nat
  /\ (ncalls st <= ncalls st')%nat
  /\ demand st' = demand st
  /\ forall c, In c (hatchery st') -> In c (hatchery st) \/ (length (store st) <= c < length (store st'))%nat.
Proof.
  intros factory fuel ord st st' H. unfold adjust. destruct (Qltb (demand st) (supply st)).
  - intros E. inversion E. unfold shrink, reap.
    destruct (frame_release_all (reapable (release_all (shrink_released ord st (demand st)) st))
                (release_all (shrink_released ord st (demand st)) st)) as [F1 [F2 F3]].
    destruct (frame_release_all (shrink_released ord st (demand st)) st) as [G1 [G2 G3]].
    rewrite F1, F2, F3, G1, G2, G3. repeat split; try lia.
    intros c Hc. left. rewrite !hatchery_release_all in Hc. apply filter_In in Hc. destruct Hc as [Hc _].
    apply filter_In in Hc. tauto.
  - intros G. destruct (grow_spec factory fuel st (demand st) st' H G) as [k [Hn [Hl [Hd [_ [_ [_ [Ho _]]]]]]]].
    rewrite Hn, Hl. repeat split; try lia; [exact Hd|].
    intros c Hc. destruct (Ho c Hc) as [Ho'|Ho']; [left; exact Ho'|right; lia].
Qed.

(* ---------- histories ---------- *)
Definition polite_op (st : pool) (o : op) : Prop :=
  match o with
  | ChildSet i ADemand v => In i (mortuary st) -> v == 0
  | _ => True
  end.

(* no released child sets its own demand again *)
Fixpoint polite (factory : nat -> child) (fuel : nat) (st : pool) (ops : list op) : Prop :=
  match ops with
  | [] => True
  | o :: r =>
      polite_op st o /\
      match step factory fuel st o with
      | Done st' => polite factory fuel st' r
      | _ => True
      end
  end.

Lemma dem_child_set : forall st i a v j,
  dem (with_store st (upd (store st) i (set_attr a v))) j
  = if andb (Nat.eqb j i) (Nat.ltb i (length (store st)))
    then (match a with ADemand => v | _ => dem st j end) else dem st j.
Proof.
  intros st i a v j. unfold dem, get, with_store. cbn [store].
  destruct (Nat.eqb j i) eqn:E; cbn [andb].
  - apply Nat.eqb_eq in E. subst j. destruct (Nat.ltb i (length (store st))) eqn:L.
    + apply Nat.ltb_lt in L. rewrite nth_upd_same by exact L. destruct a; reflexivity.
    + apply Nat.ltb_ge in L. rewrite upd_overflow by exact L. reflexivity.
  - apply Nat.eqb_neq in E. rewrite nth_upd_other by congruence. reflexivity.
Qed.

Lemma step_Inv : forall factory fuel st o st', Inv st -> step factory fuel st o = Done st' -> Inv st'.
Proof.
  intros factory fuel st o st' H. destruct o as [d|i a v|i|ord]; cbn [step].
  - intros E. inversion E. exact H.
  - intros E. inversion E. destruct H as [Hnd Hb]. split; [exact Hnd|].
    intros j Hj. unfold with_store. cbn [store hatchery mortuary] in *. rewrite length_upd. apply Hb. exact Hj.
  - intros E. inversion E. destruct H as [Hnd Hb]. split; cbn [store hatchery mortuary].
    + apply NoDup_app_intro; [apply (NoDup_app_l _ _ Hnd)|apply NoDup_filter'; apply (NoDup_app_r _ _ Hnd)|].
      intros x Hx Hm. unfold set_discard in Hm. apply filter_In in Hm.
      apply (NoDup_app_disj _ _ x Hnd Hx). tauto.
    + intros j Hj. apply Hb. apply in_app_or in Hj. apply in_or_app. destruct Hj as [Hj|Hj]; [left; exact Hj|].
      unfold set_discard in Hj. apply filter_In in Hj. right. tauto.
  - apply Inv_adjust. exact H.
Qed.

Lemma step_MortZero : forall factory fuel st o st', Inv st -> MortZero st -> polite_op st o ->
  step factory fuel st o = Done st' -> MortZero st'.
Proof.
  intros factory fuel st o st' H Hz Hp. destruct o as [d|i a v|i|ord]; cbn [step].
  - intros E. inversion E. exact Hz.
  - intros E. inversion E. intros j Hj. cbn [mortuary with_store] in Hj. rewrite dem_child_set.
    destruct (Nat.eqb j i && Nat.ltb i (length (store st)))%bool eqn:B; [|apply Hz; exact Hj].
    apply andb_true_iff in B. destruct B as [B _]. apply Nat.eqb_eq in B. subst j.
    destruct a; try (apply Hz; exact Hj). apply Hp. exact Hj.
  - intros E. inversion E. intros j Hj. cbn [mortuary] in Hj. unfold set_discard in Hj. apply filter_In in Hj.
    change (dem st j == 0). apply Hz. tauto.
  - apply MortZero_adjust; assumption.
Qed.

Lemma step_origin : forall factory fuel st o st', Inv st -> step factory fuel st o = Done st' ->
  (length (store st') + ncalls st = length (store st) + ncalls st')%nat
  /\ (ncalls st <= ncalls st')%nat
  /\ ((forall ord, o <> Adjust ord) -> ncalls st' = ncalls st /\ hatchery st' = hatchery st)
  /\ forall c, In c (hatchery st') -> In c (hatchery st) \/ (length (store st) <= c < length (store st'))%nat.
Proof.
  intros factory fuel st o st' H. destruct o as [d|i a v|i|ord]; cbn [step].
  - intros E. inversion E. cbn [store ncalls hatchery]. repeat split; try lia. intros c Hc. left. exact Hc.
  - intros E. inversion E. unfold with_store. cbn [store ncalls hatchery]. rewrite length_upd.
    repeat split; try lia. intros c Hc. left. exact Hc.
  - intros E. inversion E. cbn [store ncalls hatchery]. repeat split; try lia. intros c Hc. left. exact Hc.
  - intros E. destruct (adjust_origin factory fuel ord st st' H E) as [H1 [H2 [_ H4]]].
    split; [exact H1|]. split; [exact H2|]. split; [|exact H4]. intros Hno. exfalso. apply (Hno ord). reflexivity.
Qed.

Lemma run_invariant : forall factory fuel ops st st',
  Inv st -> MortZero st -> polite factory fuel st ops -> run factory fuel st ops = Done st' ->
  Inv st' /\ MortZero st'.
Proof.
  intros factory fuel. induction ops as [|o r IH]; intros st st' H Hz Hp; cbn [run].
  - intros E. inversion E; subst. split; assumption.
  - cbn [polite] in Hp. destruct Hp as [Hpo Hpr].
    destruct (step factory fuel st o) as [st1| |] eqn:S; try discriminate.
    apply IH; [apply (step_Inv factory fuel st o st1 H S)|
               apply (step_MortZero factory fuel st o st1 H Hz Hpo S)|exact Hpr].
Qed.

(* without any assumption on the children's behaviour *)
Lemma run_partition : forall factory fuel ops st st',
  Inv st -> run factory fuel st ops = Done st' ->
  Inv st'
  /\ (length (store st') + ncalls st = length (store st) + ncalls st')%nat
  /\ (length (store st) <= length (store st'))%nat
  /\ forall c, In c (hatchery st') -> In c (hatchery st) \/ (length (store st) <= c < length (store st'))%nat.
Proof.
  intros factory fuel. induction ops as [|o r IH]; intros st st' H; cbn [run].
  - intros E. inversion E; subst. repeat split; try exact (proj1 H); try exact (proj2 H); try lia.
    intros c Hc. left. exact Hc.
  - destruct (step factory fuel st o) as [st1| |] eqn:S; try discriminate. intros R.
    pose proof (step_Inv factory fuel st o st1 H S) as H1.
    destruct (step_origin factory fuel st o st1 H S) as [A1 [A2 [_ A4]]].
    destruct (IH st1 st' H1 R) as [B0 [B1 [B2 B4]]].
    split; [exact B0|]. split; [lia|]. split; [lia|].
    intros c Hc. destruct (B4 c Hc) as [Hc1|Hc1]; [|right; lia].
    destruct (A4 c Hc1) as [Hc0|Hc0]; [left; exact Hc0|right; lia].
Qed.

(* once a child has left the hatchery (released, or released and collected) it is never active again *)
Lemma never_revived : forall factory fuel ops st st' c,
  Inv st -> run factory fuel st ops = Done st' ->
  (c < length (store st))%nat -> ~ In c (hatchery st) -> ~ In c (hatchery st').
Proof.
  intros factory fuel ops st st' c H R Hc Hn Hin.
  destruct (run_partition factory fuel ops st st' H R) as [_ [_ [_ Ho]]].
  destruct (Ho c Hin) as [Hx|Hx]; [contradiction|lia].
Qed.

Lemma run_app : forall factory fuel ops1 ops2 st,
  run factory fuel st (ops1 ++ ops2) =
  match run factory fuel st ops1 with
  | Done st1 => run factory fuel st1 ops2
  | bad => bad
  end.
Proof.
  intros factory fuel. induction ops1 as [|o r IH]; intros ops2 st; cbn [app run]; [reflexivity|].
  destruct (step factory fuel st o); try reflexivity. apply IH.
Qed.

Lemma Inv_init : forall cs, Inv (init cs) /\ MortZero (init cs) /\ ncalls (init cs) = 0%nat
  /\ length (store (init cs)) = length cs.
Proof.
  intros cs. unfold init, Inv, MortZero, bounded. cbn [hatchery mortuary store ncalls].
  rewrite app_nil_r. repeat split; try reflexivity.
  - apply seq_NoDup.
  - intros i Hi. apply in_seq in Hi. lia.
  - intros i [].
Qed.

(* ---------- aggregates ---------- *)
Lemma with_supply_In : forall st i,
  In i (with_supply st) <-> In i (hatchery st ++ mortuary st) /\ 0 < c_supply (get st i).
Proof. intros st i. unfold with_supply, children. rewrite filter_In, Qltb_lt. reflexivity. Qed.

Lemma mean_none : forall f st, (forall i, In i (hatchery st ++ mortuary st) -> ~ 0 < c_supply (get st i)) ->
  mean f st = 1.
Proof.
  intros f st H. unfold mean. destruct (with_supply st) as [|x r] eqn:E; [reflexivity|].
  exfalso. assert (Hx : In x (with_supply st)) by (rewrite E; left; reflexivity).
  apply with_supply_In in Hx. apply (H x); tauto.
Qed.

Lemma mean_some : forall f st, with_supply st <> [] ->
  mean f st = qsum (map (fun i => f (get st i)) (with_supply st)) / qlen (with_supply st).
Proof. intros f st H. unfold mean. destruct (with_supply st); [congruence|reflexivity]. Qed.

(* ---------- what an adjustment does to the old children ---------- *)
Lemma release_all_out : forall l st i, In i (hatchery st) -> ~ In i (hatchery (release_all l st)) ->
  In i (mortuary (release_all l st)) /\ dem (release_all l st) i = 0.
Proof.
  intros l st i Hi Hn. rewrite hatchery_release_all in Hn.
  assert (Hm : mem i l = true).
  { destruct (mem i l) eqn:E; [reflexivity|]. exfalso. apply Hn. apply filter_In. split; [exact Hi|].
    rewrite E. reflexivity. }
  split; [apply mortuary_release_all; right; apply mem_In; exact Hm|].
  rewrite dem_release_all, Hm. reflexivity.
Qed.

Lemma release_all_mortuary_mono : forall l st i, In i (mortuary st) -> In i (mortuary (release_all l st)).
Proof. intros l st i H. apply mortuary_release_all. left. exact H. Qed.

Lemma release_all_twice_out : forall l1 l2 st i, In i (hatchery st) ->
  ~ In i (hatchery (release_all l2 (release_all l1 st))) ->
  In i (mortuary (release_all l2 (release_all l1 st))) /\ dem (release_all l2 (release_all l1 st)) i = 0.
Proof.
  intros l1 l2 st i Hi Hn.
  destruct (in_dec Nat.eq_dec i (hatchery (release_all l1 st))) as [H1|H1].
  - apply release_all_out; assumption.
  - destruct (release_all_out l1 st i Hi H1) as [Hm Hd]. split; [apply release_all_mortuary_mono; exact Hm|].
    rewrite dem_release_all. destruct (mem i l2); [reflexivity|exact Hd].
Qed.

Lemma adjust_old_children : forall factory fuel ord st st', Inv st -> adjust factory fuel ord st = Done st' ->
  (* released children are in the mortuary with demand 0 *)
  (forall i, In i (hatchery st) -> ~ In i (hatchery st') -> In i (mortuary st') /\ dem st' i = 0)
  (* the others keep their demand *)
  /\ (forall i, In i (hatchery st) -> In i (hatchery st') -> dem st' i = dem st i)
  (* nobody leaves the mortuary, and no attribute other than demand is touched *)
  /\ (forall i, In i (mortuary st) -> In i (mortuary st'))
  /\ (forall i, (i < length (store st))%nat ->
        c_supply (get st' i) = c_supply (get st i) /\ c_util (get st' i) = c_util (get st i)
        /\ c_alloc (get st' i) = c_alloc (get st i)).
Proof.
  intros factory fuel ord st st' H. unfold adjust. destruct (Qltb (demand st) (supply st)).
  - intros E. inversion E. unfold shrink, reap.
    set (l1 := shrink_released ord st (demand st)). set (st1 := release_all l1 st). set (l2 := reapable st1).
    split; [|split; [|split]].
    + intros i Hi Hn. apply release_all_twice_out; assumption.
    + intros i Hi Hk. rewrite hatchery_release_all in Hk. apply filter_In in Hk. destruct Hk as [Hk H2].
      unfold st1 in Hk. rewrite hatchery_release_all in Hk.
      apply filter_In in Hk. destruct Hk as [_ H1']. apply negb_true_iff in H2, H1'.
      rewrite dem_release_all, H2. unfold st1. rewrite dem_release_all, H1'. reflexivity.
    + intros i Hi. apply release_all_mortuary_mono. apply release_all_mortuary_mono. exact Hi.
    + intros i _. destruct (attrs_release_all l2 st1 i) as [A1 [A2 A3]].
      destruct (attrs_release_all l1 st i) as [B1 [B2 B3]]. fold st1 in B1, B2, B3.
      rewrite A1, A2, A3, B1, B2, B3. repeat split; reflexivity.
  - unfold grow. destruct (grow_loop factory fuel st (demand st - cdem st)) as [st1| |] eqn:G; try discriminate.
    intros E. inversion E. destruct H as [Hnd Hb].
    destruct (grow_loop_spec factory fuel st _ st1 Hb G) as [k [Hs [Hh [Hm _]]]].
    assert (Hold : forall i, (i < length (store st))%nat -> get st1 i = get st i)
      by (intros i Hi; apply (get_app_old st st1 _ i Hs Hi)).
    assert (Hhb : forall x, In x (hatchery st) -> (x < length (store st))%nat)
      by (intros x Hx; apply Hb; apply in_or_app; left; exact Hx).
    unfold reap. split; [|split; [|split]].
    + intros i Hi Hn. apply release_all_out; [rewrite Hh; apply in_or_app; left; exact Hi|exact Hn].
    + intros i Hi Hk. rewrite hatchery_release_all in Hk. apply filter_In in Hk. destruct Hk as [_ Hk].
      apply negb_true_iff in Hk. rewrite dem_release_all, Hk. unfold dem. rewrite Hold by (apply Hhb; exact Hi).
      reflexivity.
    + intros i Hi. apply release_all_mortuary_mono. rewrite Hm. exact Hi.
    + intros i Hi. destruct (attrs_release_all (reapable st1) st1 i) as [A1 [A2 A3]].
      rewrite A1, A2, A3, (Hold i Hi). repeat split; reflexivity.
Qed.

(* ---------- property-level statements ---------- *)
Lemma grow_just_enough : forall factory fuel ord st st',
  Inv st -> MortZero st -> (forall x, In x (hatchery st) -> 0 <= dem st x) ->
  adjust factory fuel ord st = Done st' -> (ncalls st < ncalls st')%nat ->
  let last := (length (store st') - 1)%nat in
  demand st <= hdem st'
  /\ In last (hatchery st') /\ dem st' last = c_demand (factory (ncalls st' - 1)%nat)
  /\ hdem st' - dem st' last < demand st.
Proof.
  intros factory fuel ord st st' H Hz Hnn A Hgrew. cbv zeta. unfold adjust in A.
  destruct (Qltb (demand st) (supply st)).
  - exfalso. inversion A as [E]. rewrite <- E in Hgrew. unfold shrink, reap in Hgrew.
    destruct (frame_release_all (reapable (release_all (shrink_released ord st (demand st)) st))
                (release_all (shrink_released ord st (demand st)) st)) as [_ [_ F3]].
    destruct (frame_release_all (shrink_released ord st (demand st)) st) as [_ [_ G3]].
    rewrite F3, G3 in Hgrew. lia.
  - destruct (grow_spec factory fuel st (demand st) st' H A) as [k [Hn [Hl [_ [_ [_ [_ [_ [_ [Hcov Hmin]]]]]]]]]].
    assert (Hmz : mdem st == 0) by (apply qsum_map_zero; exact Hz).
    assert (Hk : (0 < k)%nat) by lia.
    destruct (Hmin Hk Hmz Hnn) as [M1 [M2 M3]].
    replace (length (store st') - 1)%nat with (length (store st) + k - 1)%nat by lia.
    replace (ncalls st' - 1)%nat with (ncalls st + k - 1)%nat by lia.
    split; [apply Hcov; exact Hmz|]. split; [exact M1|]. split; [exact M2|exact M3].
Qed.

Lemma shrink_safe_and_maximal : forall factory fuel ord st,
  Inv st -> demand st < supply st ->
  let st' := shrink ord st (demand st) in
  adjust factory fuel ord st = Done st'
  /\ (shrink_released ord st (demand st) <> [] -> demand st <= hdem st')
  /\ ((forall x, In x (hatchery st) -> 0 <= dem st x) ->
      forall c, In c (hatchery st') -> ~ dem st' c <= hdem st' - demand st)
  /\ (forall c, In c (hatchery st') ->
        In c (hatchery st) /\ ~ In c (shrink_released ord st (demand st))
        /\ dem st' c = dem st c /\ 0 < dem st' c)
  /\ ncalls st' = ncalls st.
Proof.
  intros factory fuel ord st [Hnd Hb] Hlt. cbv zeta. split.
  - unfold adjust. apply Qltb_lt in Hlt. rewrite Hlt. reflexivity.
  - destruct (shrink_spec ord st (demand st) (NoDup_app_l _ _ Hnd)) as [S1 [S2 S3]].
    split; [exact S1|]. split; [exact S2|]. split; [exact S3|].
    unfold shrink, reap.
    destruct (frame_release_all (reapable (release_all (shrink_released ord st (demand st)) st))
                (release_all (shrink_released ord st (demand st)) st)) as [_ [_ F3]].
    destruct (frame_release_all (shrink_released ord st (demand st)) st) as [_ [_ G3]].
    rewrite F3, G3. reflexivity.
Qed.

Lemma partition_invariant : forall factory fuel cs ops st,
  run factory fuel (init cs) ops = Done st ->
  NoDup (hatchery st ++ mortuary st)
  /\ length (store st) = (length cs + ncalls st)%nat
  /\ (forall i, In i (hatchery st ++ mortuary st) -> (i < length cs + ncalls st)%nat)
  /\ (polite factory fuel (init cs) ops -> forall i, In i (mortuary st) -> dem st i == 0).
Proof.
  intros factory fuel cs ops st R. destruct (Inv_init cs) as [I0 [Z0 [N0 L0]]].
  destruct (run_partition factory fuel ops (init cs) st I0 R) as [[Hnd Hb] [Hc _]].
  rewrite N0, L0 in Hc.
  assert (Hlen : length (store st) = (length cs + ncalls st)%nat) by lia.
  split; [exact Hnd|]. split; [exact Hlen|]. split.
  - intros i Hi. rewrite <- Hlen. apply Hb. exact Hi.
  - intros Hp. apply (run_invariant factory fuel ops (init cs) st I0 Z0 Hp R).
Qed.

Lemma once_released_never_active : forall factory fuel cs ops1 ops2 st1 st2 c,
  run factory fuel (init cs) ops1 = Done st1 -> run factory fuel st1 ops2 = Done st2 ->
  (c < length (store st1))%nat -> ~ In c (hatchery st1) -> ~ In c (hatchery st2).
Proof.
  intros factory fuel cs ops1 ops2 st1 st2 c R1 R2.
  destruct (run_partition factory fuel ops1 (init cs) st1 (proj1 (Inv_init cs)) R1) as [I1 _].
  apply (never_revived factory fuel ops2 st1 st2 c I1 R2).
Qed.

Lemma membership_changes_only_in_adjust : forall factory fuel st o st',
  (forall ord, o <> Adjust ord) -> step factory fuel st o = Done st' ->
  hatchery st' = hatchery st /\ ncalls st' = ncalls st /\ store st' = store st \/
  hatchery st' = hatchery st /\ ncalls st' = ncalls st /\ length (store st') = length (store st).
Proof.
  intros factory fuel st o st' Hno. destruct o as [d|i a v|i|ord]; cbn [step]; intros E.
  - inversion E. left. repeat split; reflexivity.
  - inversion E. right. unfold with_store. cbn [hatchery ncalls store]. rewrite length_upd. repeat split; reflexivity.
  - inversion E. left. repeat split; reflexivity.
  - exfalso. apply (Hno ord). reflexivity.
Qed.

Lemma supply_is_sum : forall st,
  supply st = qsum (map (fun i => c_supply (get st i)) (hatchery st ++ mortuary st)).
Proof. reflexivity. Qed.
