(* inspect.Signature.bind_partial versus python's call binding:
     bind_partial_spec : what the transcription of inspect's algorithm computes, in closed form
     can_bind_mono / can_bind_extend : `can_bind` is exactly "some extension of the call binds" *)
From Coq Require Import NArith List Bool Arith Lia.
From Cobald Require Import model.PyBind.
Import ListNotations.

(* ---- generic list / boolean facts -------------------------------------------------------- *)
Lemma mem_In : forall k l, mem k l = true <-> In k l.
Proof.
  intros k l. unfold mem. rewrite existsb_exists. split.
  - intros [x [Hin Heq]]. apply N.eqb_eq in Heq. subst. exact Hin.
  - intros Hin. exists k. split; [exact Hin | apply N.eqb_refl].
Qed.

Lemma mem_false_In : forall k l, mem k l = false <-> ~ In k l.
Proof.
  intros k l. split.
  - intros H Hin. apply mem_In in Hin. rewrite Hin in H. discriminate.
  - intros H. destruct (mem k l) eqn:E; [|reflexivity]. apply mem_In in E. contradiction.
Qed.

Lemma mem_app : forall k a b, mem k (a ++ b) = mem k a || mem k b.
Proof. intros. unfold mem. apply existsb_app. Qed.

Lemma forallb_ext_in : forall {A} (f g : A -> bool) l,
  (forall x, In x l -> f x = g x) -> forallb f l = forallb g l.
Proof.
  induction l as [|x r IH]; intros H; cbn; [reflexivity|].
  rewrite (H x (or_introl eq_refl)), IH; [reflexivity|]. intros y Hy. apply H. right. exact Hy.
Qed.

Lemma forallb_and : forall {A} (f g : A -> bool) l,
  forallb (fun x => f x && g x) l = forallb f l && forallb g l.
Proof.
  induction l as [|x r IH]; cbn; [reflexivity|]. rewrite IH.
  destruct (f x), (g x), (forallb f r), (forallb g r); reflexivity.
Qed.

Lemma forallb_const : forall {A} (b : bool) (l : list A),
  forallb (fun _ => b) l = match l with [] => true | _ :: _ => b end.
Proof.
  induction l as [|x r IH]; cbn; [reflexivity|]. rewrite IH. destruct b, r; reflexivity.
Qed.

Lemma forallb_remove_key : forall (g : N -> bool) x keys,
  forallb g (remove_key x keys) = forallb (fun k => N.eqb k x || g k) keys.
Proof.
  induction keys as [|k r IH]; cbn; [reflexivity|].
  rewrite (N.eqb_sym k x). destruct (N.eqb x k); cbn; rewrite IH; reflexivity.
Qed.

(* no element of A occurs in keys, said in two ways *)
Lemma disjoint_sym_b : forall (A keys : list N),
  forallb (fun k => negb (mem k A)) keys = negb (existsb (fun a => mem a keys) A).
Proof.
  intros A keys.
  destruct (existsb (fun a => mem a keys) A) eqn:E; cbn.
  - apply existsb_exists in E. destruct E as [a [Ha Hm]]. apply mem_In in Hm.
    apply not_true_is_false. intro H. rewrite forallb_forall in H. specialize (H a Hm).
    apply negb_true_iff in H. apply mem_false_In in H. contradiction.
  - apply forallb_forall. intros k Hk. apply negb_true_iff. apply mem_false_In. intro Hin.
    assert (existsb (fun a => mem a keys) A = true) as X.
    { apply existsb_exists. exists k. split; [exact Hin | apply mem_In; exact Hk]. }
    rewrite X in E. discriminate.
Qed.

Lemma existsb_names : forall (l : list pent) keys,
  existsb (fun a => mem a keys) (names l) = existsb (fun p => mem (fst p) keys) l.
Proof. induction l as [|p r IH]; intros; cbn; [reflexivity|]. rewrite IH. reflexivity. Qed.

Lemma In_firstn_le : forall {A} (l : list A) a b x, a <= b -> In x (firstn a l) -> In x (firstn b l).
Proof.
  induction l as [|y r IH]; intros a b x Hab Hin.
  - rewrite firstn_nil in Hin. contradiction.
  - destruct a as [|a]; [contradiction|]. destruct b as [|b]; [lia|]. cbn in *.
    destruct Hin as [->|Hin]; [left; reflexivity | right; apply (IH a b); [lia | exact Hin]].
Qed.

Lemma In_firstn_all : forall {A} (l : list A) a x, In x (firstn a l) -> In x l.
Proof.
  intros A l a x H. rewrite <- (firstn_skipn a l). apply in_or_app. left. exact H.
Qed.

Lemma In_skipn_le : forall {A} (l : list A) a b x, a <= b -> In x (skipn b l) -> In x (skipn a l).
Proof.
  induction l as [|y r IH]; intros a b x Hab Hin.
  - rewrite skipn_nil in Hin. contradiction.
  - destruct b as [|b].
    + assert (a = 0) by lia. subst. exact Hin.
    + destruct a as [|a]; cbn in *.
      * right. apply (IH 0 b); [lia | exact Hin].
      * apply (IH a b); [lia | exact Hin].
Qed.

Lemma NoDup_app_parts : forall {A} (a b : list A),
  NoDup (a ++ b) -> NoDup a /\ NoDup b /\ (forall x, In x a -> In x b -> False).
Proof.
  induction a as [|x r IH]; intros b H; cbn in *.
  - split; [constructor|]. split; [exact H|]. intros x [].
  - inversion H as [|? ? Hnin Hnd]; subst. destruct (IH b Hnd) as [Ha [Hb Hd]].
    split; [constructor; [intro Hx; apply Hnin; apply in_or_app; left; exact Hx | exact Ha]|].
    split; [exact Hb|]. intros y [->|Hy] Hyb.
    + apply Hnin. apply in_or_app. right. exact Hyb.
    + exact (Hd y Hy Hyb).
Qed.

Lemma NoDup_app_build : forall {A} (a b : list A),
  NoDup a -> NoDup b -> (forall x, In x a -> In x b -> False) -> NoDup (a ++ b).
Proof.
  induction a as [|x r IH]; intros b Ha Hb Hd; cbn; [exact Hb|].
  inversion Ha as [|? ? Hnin Hnd]; subst. constructor.
  - intro Hin. apply in_app_or in Hin. destruct Hin as [Hin|Hin]; [contradiction|].
    apply (Hd x); [left; reflexivity | exact Hin].
  - apply IH; [exact Hnd | exact Hb|]. intros y Hy Hyb. apply (Hd y); [right; exact Hy | exact Hyb].
Qed.

Lemma NoDup_filter : forall {A} (f : A -> bool) l, NoDup l -> NoDup (filter f l).
Proof.
  induction l as [|x r IH]; intros H; cbn; [constructor|]. inversion H; subst.
  destruct (f x); [constructor|]; auto. intro Hin. apply filter_In in Hin. tauto.
Qed.

(* ---- phase 2 of inspect's algorithm ----------------------------------------------------- *)
Definition named (rest : list param) : list N :=
  map p_name (filter (fun p => match p_kind p with PosOrKw | KwOnly => true | _ => false end) rest).
Definition has_vk (rest : list param) : bool :=
  existsb (fun p => match p_kind p with VarKw => true | _ => false end) rest.
Definition no_posonly (rest : list param) : Prop :=
  forall p, In p rest -> p_kind p <> PosOnly.

Lemma bp_kw_closed : forall rest keys vk, no_posonly rest ->
  bp_kw rest keys vk = forallb (fun k => mem k (named rest) || (vk || has_vk rest)) keys.
Proof.
  induction rest as [|p r IH]; intros keys vk Hnp.
  - cbn. unfold named, has_vk. cbn. rewrite orb_false_r.
    rewrite (forallb_const vk keys). reflexivity.
  - assert (no_posonly r) as Hr by (intros q Hq; apply Hnp; right; exact Hq).
    assert (p_kind p <> PosOnly) as Hp by (apply Hnp; left; reflexivity).
    unfold named, has_vk in *. cbn [bp_kw filter existsb map].
    destruct (p_kind p) eqn:K; try contradiction.
    + (* PosOrKw *)
      cbn [map]. destruct (mem (p_name p) keys) eqn:M.
      * rewrite IH by exact Hr. rewrite forallb_remove_key. apply forallb_ext_in. intros k _.
        cbn. rewrite orb_assoc. reflexivity.
      * rewrite IH by exact Hr. apply forallb_ext_in. intros k Hk. cbn.
        destruct (N.eqb k (p_name p)) eqn:E; [|reflexivity].
        apply N.eqb_eq in E. subst. apply mem_In in Hk. rewrite Hk in M. discriminate.
    + (* VarPos *) rewrite IH by exact Hr. reflexivity.
    + (* KwOnly *)
      cbn [map]. destruct (mem (p_name p) keys) eqn:M.
      * rewrite IH by exact Hr. rewrite forallb_remove_key. apply forallb_ext_in. intros k _.
        cbn. rewrite orb_assoc. reflexivity.
      * rewrite IH by exact Hr. apply forallb_ext_in. intros k Hk. cbn.
        destruct (N.eqb k (p_name p)) eqn:E; [|reflexivity].
        apply N.eqb_eq in E. subst. apply mem_In in Hk. rewrite Hk in M. discriminate.
    + (* VarKw *) rewrite IH by exact Hr. apply forallb_ext_in. intros k _. cbn.
      rewrite !orb_true_r. reflexivity.
Qed.

Lemma bp_kw_posonly : forall l R keys vk,
  bp_kw (mk_params PosOnly l ++ R) keys vk
  = negb (existsb (fun p => mem (fst p) keys) l) && bp_kw R keys vk.
Proof.
  induction l as [|p r IH]; intros; cbn; [reflexivity|].
  destruct (mem (fst p) keys); cbn; [reflexivity | apply IH].
Qed.

(* ---- both phases ----------------------------------------------------------------------------- *)
Definition bp (ps : list param) (n : nat) (keys : list N) : bool :=
  match bp_pos ps n keys with None => false | Some rest => bp_kw rest keys false end.

Lemma bp_zero : forall R keys, no_posonly R -> bp R 0 keys = bp_kw R keys false.
Proof.
  intros [|p r] keys H; unfold bp; cbn; [reflexivity|].
  assert (p_kind p <> PosOnly) as Hp by (apply H; left; reflexivity).
  destruct (p_kind p) eqn:K; try contradiction; cbn [bp_kw]; rewrite ?K; reflexivity.
Qed.

Lemma bp_posonly : forall po R n keys, no_posonly R ->
  bp (mk_params PosOnly po ++ R) n keys
  = negb (existsb (fun p => mem (fst p) keys) (skipn n po)) && bp R (n - length po) keys.
Proof.
  induction po as [|p r IH]; intros R n keys HR.
  - cbn. rewrite skipn_nil. cbn. rewrite Nat.sub_0_r. reflexivity.
  - destruct n as [|m].
    + unfold bp at 1. cbn [mk_params map app bp_pos p_kind p_name skipn existsb].
      destruct (mem (fst p) keys) eqn:M; cbn [negb andb]; [reflexivity|].
      change (mkParam (fst p) PosOnly (snd p) :: map (fun e => mkParam (fst e) PosOnly (snd e)) r ++ R)
        with (mk_params PosOnly (p :: r) ++ R).
      rewrite bp_kw_posonly. cbn [existsb]. rewrite M. cbn [orb Nat.sub].
      rewrite bp_zero by exact HR. reflexivity.
    + unfold bp at 1. cbn [mk_params map app bp_pos p_kind skipn length Nat.sub].
      apply (IH R m keys HR).
Qed.

Lemma bp_pork : forall pk R n keys, no_posonly R ->
  bp (mk_params PosOrKw pk ++ R) n keys
  = negb (existsb (fun p => mem (fst p) keys) (firstn n pk))
    && (if n <=? length pk then bp_kw (mk_params PosOrKw (skipn n pk) ++ R) keys false
        else bp R (n - length pk) keys).
Proof.
  induction pk as [|p r IH]; intros R n keys HR.
  - rewrite firstn_nil, skipn_nil. cbn [mk_params map app existsb negb andb length].
    destruct n as [|m]; cbn [Nat.leb Nat.sub]; [apply bp_zero; exact HR | reflexivity].
  - destruct n as [|m].
    + unfold bp. cbn. reflexivity.
    + unfold bp at 1. cbn [mk_params map app bp_pos p_kind p_name firstn existsb skipn length].
      destruct (mem (fst p) keys) eqn:M; cbn [orb negb andb]; [reflexivity|].
      change (S m <=? S (length r)) with (m <=? length r). change (S m - S (length r)) with (m - length r).
      apply (IH R m keys HR).
Qed.

Definition tail_params (va : option N) (ko : list pent) (vk : option N) : list param :=
  opt_param VarPos va ++ mk_params KwOnly ko ++ opt_param VarKw vk.

Lemma no_posonly_tail : forall va ko vk, no_posonly (tail_params va ko vk).
Proof.
  intros va ko vk p Hin. unfold tail_params in Hin.
  apply in_app_or in Hin. destruct Hin as [Hin|Hin].
  - destruct va; cbn in Hin; [destruct Hin as [<-|[]]; discriminate | contradiction].
  - apply in_app_or in Hin. destruct Hin as [Hin|Hin].
    + unfold mk_params in Hin. apply in_map_iff in Hin. destruct Hin as [e [<- _]]. discriminate.
    + destruct vk; cbn in Hin; [destruct Hin as [<-|[]]; discriminate | contradiction].
Qed.

Lemma no_posonly_app : forall a b, no_posonly a -> no_posonly b -> no_posonly (a ++ b).
Proof. intros a b Ha Hb p Hin. apply in_app_or in Hin. destruct Hin; auto. Qed.

Lemma no_posonly_pork : forall l, no_posonly (mk_params PosOrKw l).
Proof. intros l p Hin. unfold mk_params in Hin. apply in_map_iff in Hin. destruct Hin as [e [<- _]]. discriminate. Qed.

Lemma named_pork_tail : forall l va ko vk,
  named (mk_params PosOrKw l ++ tail_params va ko vk) = names l ++ names ko.
Proof.
  intros. unfold named, tail_params. rewrite !filter_app, !map_app.
  assert (forall k, map p_name (filter (fun p => match p_kind p with PosOrKw | KwOnly => true | _ => false end)
                                       (mk_params PosOrKw k)) = names k) as E1.
  { induction k as [|x r IH]; cbn; [reflexivity|]. f_equal. exact IH. }
  assert (forall k, map p_name (filter (fun p => match p_kind p with PosOrKw | KwOnly => true | _ => false end)
                                       (mk_params KwOnly k)) = names k) as E2.
  { induction k as [|x r IH]; cbn; [reflexivity|]. f_equal. exact IH. }
  rewrite E1, E2. destruct va, vk; cbn; rewrite ?app_nil_r; reflexivity.
Qed.

Lemma has_vk_pork_tail : forall l va ko vk,
  has_vk (mk_params PosOrKw l ++ tail_params va ko vk) = is_some vk.
Proof.
  intros. unfold has_vk, tail_params. rewrite !existsb_app.
  assert (forall k K, K <> VarKw -> existsb (fun p => match p_kind p with VarKw => true | _ => false end)
                                       (mk_params K k) = false) as E.
  { intros k K HK. unfold mk_params. induction k as [|x r IH]; cbn; [reflexivity|]. rewrite IH.
    destruct K; try reflexivity. contradiction. }
  rewrite !E by discriminate. destruct va, vk; reflexivity.
Qed.

Lemma bp_tail_pos : forall va ko vk m keys,
  bp (tail_params va ko vk) (S m) keys
  = is_some va && bp_kw (mk_params KwOnly ko ++ opt_param VarKw vk) keys false.
Proof.
  intros. unfold bp, tail_params. destruct va as [a|]; cbn.
  - reflexivity.
  - destruct ko as [|k r]; cbn; [destruct vk; reflexivity | reflexivity].
Qed.

(* closed form of the transcription: inspect accepts iff no unfilled positional-only formal is
   named by a keyword and the language-level `can_bind` holds *)
Theorem bind_partial_spec : forall s n keys,
  bind_partial s n keys
  = negb (existsb (fun p => mem (fst p) keys) (unfilled_posonly s n)) && can_bind s n keys.
Proof.
  intros [po pk va ko vk] n keys.
  unfold bind_partial, params, can_bind, fits, kw_ok, unfilled_posonly, filled_pork, unfilled_pork, npo.
  cbn [s_posonly s_pork s_varpos s_kwonly s_varkw].
  fold (tail_params va ko vk).
  change (match bp_pos (mk_params PosOnly po ++ mk_params PosOrKw pk ++ tail_params va ko vk) n keys with
          | Some rest => bp_kw rest keys false | None => false end)
    with (bp (mk_params PosOnly po ++ mk_params PosOrKw pk ++ tail_params va ko vk) n keys).
  rewrite bp_posonly by (apply no_posonly_app; [apply no_posonly_pork | apply no_posonly_tail]).
  f_equal.
  rewrite bp_pork by apply no_posonly_tail.
  set (m := n - length po).
  (* kw_ok splits into "no filled slot named twice" and "every keyword has a slot or **kwargs" *)
  assert (forallb (fun k => if mem k (names (firstn m pk)) then false
                            else if mem k (names (skipn m pk) ++ names ko) then true else is_some vk) keys
          = negb (existsb (fun p => mem (fst p) keys) (firstn m pk))
            && forallb (fun k => mem k (names (skipn m pk) ++ names ko) || is_some vk) keys) as KW.
  { rewrite <- existsb_names, <- disjoint_sym_b, <- forallb_and. apply forallb_ext_in. intros k _.
    destruct (mem k (names (firstn m pk))); cbn; [reflexivity|].
    destruct (mem k (names (skipn m pk) ++ names ko)); reflexivity. }
  rewrite KW. clear KW.
  destruct (m <=? length pk) eqn:L.
  - apply Nat.leb_le in L.
    assert ((n <=? length po + length pk) = true) as F by (apply Nat.leb_le; unfold m in L; lia).
    rewrite F. cbn [orb andb].
    rewrite bp_kw_closed by (apply no_posonly_app; [apply no_posonly_pork | apply no_posonly_tail]).
    rewrite named_pork_tail, has_vk_pork_tail. cbn [orb]. reflexivity.
  - apply Nat.leb_gt in L.
    assert ((n <=? length po + length pk) = false) as F by (apply Nat.leb_gt; unfold m in L; lia).
    rewrite F. cbn [orb].
    rewrite (skipn_all2 pk) by lia. cbn [names map app].
    destruct (m - length pk) as [|d] eqn:D; [lia|].
    rewrite bp_tail_pos.
    assert (no_posonly (mk_params KwOnly ko ++ opt_param VarKw vk)) as NP.
    { intros p Hin. apply (no_posonly_tail None ko vk). exact Hin. }
    rewrite bp_kw_closed by exact NP.
    pose proof (named_pork_tail [] None ko vk) as E1. pose proof (has_vk_pork_tail [] None ko vk) as E2.
    unfold tail_params in E1, E2. cbn [mk_params map app opt_param names] in E1, E2.
    unfold names. rewrite E1, E2. cbn [orb].
    destruct (is_some va); cbn [andb]; [|rewrite andb_false_r; reflexivity].
    reflexivity.
Qed.

(* ---- can_bind = "some extension binds" ---------------------------------------------------- *)
Theorem can_bind_mono : forall s n n' keys keys',
  bind_full s (n + n') (keys ++ keys') = true -> can_bind s n keys = true.
Proof.
  intros s n n' keys keys' H. unfold bind_full in H. unfold can_bind.
  apply andb_true_iff in H. destruct H as [H _]. apply andb_true_iff in H. destruct H as [Hf Hk].
  apply andb_true_iff. split.
  - unfold fits in *. apply orb_true_iff in Hf. apply orb_true_iff.
    destruct Hf as [Hf|Hf]; [left | right; exact Hf]. apply Nat.leb_le in Hf. apply Nat.leb_le. lia.
  - unfold kw_ok in *. rewrite forallb_app in Hk. apply andb_true_iff in Hk. destruct Hk as [Hk _].
    rewrite forallb_forall in Hk. apply forallb_forall. intros k Hin. specialize (Hk k Hin).
    unfold filled_pork, unfilled_pork in *.
    destruct (mem k (names (firstn (n + n' - npo s) (s_pork s)))) eqn:M1; [discriminate|].
    assert (mem k (names (firstn (n - npo s) (s_pork s))) = false) as M2.
    { apply mem_false_In. intro Hx. apply mem_false_In in M1. apply M1.
      unfold names in *. apply in_map_iff in Hx. destruct Hx as [p [<- Hp]]. apply in_map.
      apply (In_firstn_le _ (n - npo s)); [lia | exact Hp]. }
    rewrite M2.
    destruct (mem k (names (skipn (n - npo s) (s_pork s)) ++ names (s_kwonly s))) eqn:M3; [reflexivity|].
    destruct (mem k (names (skipn (n + n' - npo s) (s_pork s)) ++ names (s_kwonly s))) eqn:M4; [|exact Hk].
    exfalso. apply mem_false_In in M3. apply M3. apply mem_In in M4.
    apply in_or_app. apply in_app_or in M4. destruct M4 as [M4|M4]; [left | right; exact M4].
    unfold names in *. apply in_map_iff in M4. destruct M4 as [p [<- Hp]]. apply in_map.
    apply (In_skipn_le _ _ (n + n' - npo s)); [lia | exact Hp].
Qed.

Lemma names_mk_params : forall K l, map p_name (mk_params K l) = names l.
Proof. intros. unfold mk_params, names. rewrite map_map. reflexivity. Qed.

Lemma wf_names_pork_kwonly : forall s, wf_names s -> NoDup (names (s_pork s) ++ names (s_kwonly s)).
Proof.
  intros s H. unfold wf_names, params in H. rewrite !map_app, !names_mk_params in H.
  apply NoDup_app_parts in H. destruct H as [_ [H _]].
  apply NoDup_app_parts in H. destruct H as [Hpk [H Hd1]].
  apply NoDup_app_parts in H. destruct H as [_ [H _]].
  apply NoDup_app_parts in H. destruct H as [Hko [_ _]].
  apply NoDup_app_build; [exact Hpk | exact Hko|].
  intros x Hx Hy. apply (Hd1 x Hx). apply in_or_app. right. apply in_or_app. left. exact Hy.
Qed.

Theorem can_bind_extend : forall s n keys,
  wf_names s -> NoDup keys -> can_bind s n keys = true ->
  exists n' keys', NoDup (keys ++ keys') /\ bind_full s (n + n') (keys ++ keys') = true.
Proof.
  intros s n keys Hwf Hnd H.
  pose proof (wf_names_pork_kwonly s Hwf) as ND.
  set (cand := names (unfilled_pork s n) ++ names (s_kwonly s)).
  exists (npo s - n), (filter (fun x => negb (mem x keys)) cand).
  assert (n + (npo s - n) - npo s = n - npo s) as EN by lia.
  assert (NoDup cand) as NDc.
  { unfold cand, unfilled_pork. apply NoDup_app_parts in ND. destruct ND as [Hpk [Hko Hd]].
    apply NoDup_app_build; [|exact Hko|].
    - rewrite <- (firstn_skipn (n - npo s) (s_pork s)) in Hpk. unfold names in Hpk. rewrite map_app in Hpk.
      apply NoDup_app_parts in Hpk. tauto.
    - intros x Hx Hy. apply (Hd x); [|exact Hy]. unfold names in *. apply in_map_iff in Hx.
      destruct Hx as [p [<- Hp]]. apply in_map. apply (In_skipn_le _ 0 (n - npo s)); [lia | exact Hp]. }
  split.
  - apply NoDup_app_build; [exact Hnd | apply NoDup_filter; exact NDc|].
    intros x Hx Hf. apply filter_In in Hf. destruct Hf as [_ Hf]. apply negb_true_iff in Hf.
    apply mem_false_In in Hf. contradiction.
  - unfold can_bind in H. apply andb_true_iff in H. destruct H as [Hf Hk].
    unfold bind_full. apply andb_true_iff. split; [apply andb_true_iff; split|].
    + unfold fits in *. apply orb_true_iff in Hf. apply orb_true_iff.
      destruct Hf as [Hf|Hf]; [left | right; exact Hf]. apply Nat.leb_le in Hf. apply Nat.leb_le.
      unfold npo in *. lia.
    + unfold kw_ok in *. unfold filled_pork, unfilled_pork in *. rewrite EN.
      rewrite forallb_app. apply andb_true_iff. split; [exact Hk|].
      apply forallb_forall. intros k Hin. apply filter_In in Hin. destruct Hin as [Hc _].
      assert (mem k (names (firstn (n - npo s) (s_pork s))) = false) as M1.
      { apply mem_false_In. intro Hx. unfold cand, unfilled_pork in Hc.
        apply NoDup_app_parts in ND. destruct ND as [Hpk [_ Hd]].
        apply in_app_or in Hc. destruct Hc as [Hc|Hc].
        - rewrite <- (firstn_skipn (n - npo s) (s_pork s)) in Hpk. unfold names in Hpk. rewrite map_app in Hpk.
          apply NoDup_app_parts in Hpk. destruct Hpk as [_ [_ Hd2]]. exact (Hd2 k Hx Hc).
        - apply (Hd k); [|exact Hc]. unfold names in *. apply in_map_iff in Hx.
          destruct Hx as [p [<- Hp]]. apply in_map. apply (In_firstn_all _ _ _ Hp). }
      rewrite M1. apply mem_In in Hc. unfold cand, unfilled_pork in Hc. rewrite Hc. reflexivity.
    + unfold req_ok. unfold unfilled_posonly, unfilled_pork. rewrite EN.
      apply andb_true_iff. split; [apply andb_true_iff; split|].
      * rewrite skipn_all2 by (unfold npo; lia). reflexivity.
      * apply forallb_forall. intros p Hp. destruct (snd p); [reflexivity|]. cbn [orb].
        rewrite mem_app. destruct (mem (fst p) keys) eqn:M; [reflexivity|]. cbn [orb].
        apply mem_In. apply filter_In. split; [|rewrite M; reflexivity].
        unfold cand, unfilled_pork. apply in_or_app. left. unfold names. apply in_map. exact Hp.
      * apply forallb_forall. intros p Hp. destruct (snd p); [reflexivity|]. cbn [orb].
        rewrite mem_app. destruct (mem (fst p) keys) eqn:M; [reflexivity|]. cbn [orb].
        apply mem_In. apply filter_In. split; [|rewrite M; reflexivity].
        unfold cand. apply in_or_app. right. unfold names. apply in_map. exact Hp.
Qed.

(* the eager check of inspect is exact unless the positional-only quirk applies *)
Theorem bind_partial_exact : forall s n keys,
  wf_names s -> NoDup keys -> posonly_kw_quirk s n keys = false ->
  (bind_partial s n keys = true
   <-> exists n' keys', NoDup (keys ++ keys') /\ bind_full s (n + n') (keys ++ keys') = true).
Proof.
  intros s n keys Hwf Hnd Hq. rewrite bind_partial_spec. split.
  - intros H. apply andb_true_iff in H. destruct H as [_ H]. apply can_bind_extend; assumption.
  - intros [n' [keys' [_ H]]]. pose proof (can_bind_mono _ _ _ _ _ H) as Hc. rewrite Hc, andb_true_r.
    apply negb_true_iff. destruct (existsb (fun p => mem (fst p) keys) (unfilled_posonly s n)) eqn:E; [|reflexivity].
    exfalso. unfold posonly_kw_quirk in Hq. rewrite E, andb_true_r in Hq.
    (* without **kwargs a keyword naming a positional-only formal has no slot at all *)
    apply existsb_exists in E. destruct E as [p [Hp Hm]]. apply mem_In in Hm.
    unfold can_bind in Hc. apply andb_true_iff in Hc. destruct Hc as [_ Hk]. unfold kw_ok in Hk.
    rewrite forallb_forall in Hk. specialize (Hk (fst p) Hm). rewrite Hq in Hk.
    assert (In (fst p) (names (s_posonly s))) as Hpo.
    { unfold names. apply in_map. unfold unfilled_posonly in Hp. apply (In_skipn_le _ 0 n); [lia | exact Hp]. }
    assert (~ In (fst p) (names (s_pork s) ++ names (s_kwonly s))) as Hno.
    { unfold wf_names, params in Hwf. rewrite !map_app, !names_mk_params in Hwf.
      apply NoDup_app_parts in Hwf. destruct Hwf as [_ [_ Hd]]. intro Hin. apply (Hd (fst p) Hpo).
      apply in_app_or in Hin. apply in_or_app. destruct Hin as [Hin|Hin]; [left; exact Hin|].
      right. apply in_or_app. right. apply in_or_app. left. exact Hin. }
    destruct (mem (fst p) (names (filled_pork s n))) eqn:M1; [discriminate|].
    destruct (mem (fst p) (names (unfilled_pork s n) ++ names (s_kwonly s))) eqn:M2; [|discriminate].
    apply Hno. apply mem_In in M2. apply in_app_or in M2. apply in_or_app.
    destruct M2 as [M2|M2]; [left | right; exact M2]. unfold names, unfilled_pork in *.
    apply in_map_iff in M2. destruct M2 as [q [<- Hq2]]. apply in_map. apply (In_skipn_le _ 0 (n - npo s)); [lia | exact Hq2].
Qed.

(* the quirk is real: def f(a=0, /, **kw) called as f(a=1) binds, inspect refuses *)
Example posonly_quirk_witness :
  let s := mkSig [(3%N, true)] [] None [] (Some 2%N) in
  bind_full s 0 [3%N] = true /\ bind_partial s 0 [3%N] = false /\ posonly_kw_quirk s 0 [3%N] = true.
Proof. cbv. repeat split. Qed.
