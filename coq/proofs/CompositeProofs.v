(* Properties of the composite-pool model (C07). *)
From Coq Require Import ZArith QArith List Bool Lia Lqa.
From Cobald Require Import kit.QKit model.Composite.
Import ListNotations.
Open Scope Q_scope.

Definition nonneg_weights (w : wattr) (cs : list child) : Prop :=
  forall c, In c cs -> 0 <= weight w c.

Lemma total_nonneg w cs : nonneg_weights w cs -> 0 <= total w cs.
Proof.
  intros H. unfold total. apply qsum_nonneg. intros x Hx.
  apply in_map_iff in Hx. destruct Hx as [c [<- Hc]]. apply H. exact Hc.
Qed.

Lemma weight_le_total w cs c : nonneg_weights w cs -> In c cs -> weight w c <= total w cs.
Proof.
  intros H Hc. unfold total. apply qsum_ge_elem.
  - intros y Hy. apply in_map_iff in Hy. destruct Hy as [c' [<- Hc']]. apply H. exact Hc'.
  - apply in_map. exact Hc.
Qed.

(* ---- conservation ---- *)
Lemma shares_uniform_sum cs D : cs <> [] -> qsum (map (fun _ : child => D / qlen cs) cs) == D.
Proof.
  intros Hne. rewrite qsum_map_const. fold (qlen cs).
  pose proof (qlen_pos cs Hne) as Hp. field. lra.
Qed.

Lemma conservation k cs D : cs <> [] -> qsum (shares k cs D) == D.
Proof.
  intros Hne. unfold shares. destruct k as [w|].
  - unfold share, share_weighted. destruct (Qeqb (total w cs) 0) eqn:E.
    + apply shares_uniform_sum. exact Hne.
    + apply Qeqb_neq in E.
      rewrite (qsum_map_ext_eq _ (fun c => (D / total w cs) * weight w c)).
      * rewrite qsum_map_scale. fold (total w cs). field. exact E.
      * intros c _. field. exact E.
  - unfold share, share_uniform. apply shares_uniform_sum. exact Hne.
Qed.

Lemma child_demands_distribute k cs D : map c_demand (distribute k cs D) = shares k cs D.
Proof.
  unfold distribute, shares. rewrite map_map. apply map_ext. intros c. reflexivity.
Qed.

Lemma distribute_length k cs D : length (distribute k cs D) = length cs.
Proof. unfold distribute. apply map_length. Qed.

(* ---- proportionality / uniform fallback ---- *)
Lemma proportional w cs D c : ~ total w cs == 0 ->
  share (Weighted w) cs D c == D * weight w c / total w cs.
Proof.
  intros H. cbn. unfold share_weighted. apply Qeqb_neq in H. rewrite H. reflexivity.
Qed.

Lemma uniform_on_zero_total w cs D c : total w cs == 0 ->
  share (Weighted w) cs D c == D / qlen cs.
Proof.
  intros H. cbn. unfold share_weighted. apply Qeqb_eq in H. rewrite H. reflexivity.
Qed.

Lemma uniform_share cs D c : share Uniform cs D c == D / qlen cs.
Proof. reflexivity. Qed.

(* ---- share bounds ---- *)
Lemma div_bounds D n : 0 <= D -> 1 <= n -> 0 <= D / n /\ D / n <= D.
Proof.
  intros HD Hn. assert (0 < n) by lra. split.
  - apply Qle_shift_div_l; [exact H|]. lra.
  - apply Qle_shift_div_r; [exact H|]. nra.
Qed.

Lemma qlen_ge1 {A} (l : list A) : l <> [] -> 1 <= qlen l.
Proof.
  intros H. destruct l as [|x r]; [congruence|]. unfold qlen. cbn [length].
  rewrite Nat2Z.inj_succ. unfold Z.succ. rewrite inject_Z_plus. change (inject_Z 1) with 1.
  pose proof (qlen_nonneg r) as Hr. unfold qlen in Hr. lra.
Qed.

Lemma share_bounds k cs D c :
  0 <= D -> In c cs ->
  (forall w, k = Weighted w -> nonneg_weights w cs) ->
  0 <= share k cs D c /\ share k cs D c <= D.
Proof.
  intros HD Hc Hw.
  assert (Hne : cs <> []) by (intro E; rewrite E in Hc; destruct Hc).
  pose proof (qlen_ge1 cs Hne) as Hn.
  destruct k as [w|]; cbn.
  - unfold share_weighted. destruct (Qeqb (total w cs) 0) eqn:E.
    + apply div_bounds; assumption.
    + apply Qeqb_neq in E. specialize (Hw w eq_refl).
      pose proof (total_nonneg w cs Hw) as Ht.
      pose proof (weight_le_total w cs c Hw Hc) as Hle.
      pose proof (Hw c Hc) as H0.
      assert (Hpos : 0 < total w cs).
      { destruct (Qlt_le_dec 0 (total w cs)) as [L|L]; [exact L|]. exfalso. apply E. lra. }
      split.
      * apply Qle_shift_div_l; [exact Hpos|]. nra.
      * apply Qle_shift_div_r; [exact Hpos|]. nra.
  - unfold share_uniform. apply div_bounds; assumption.
Qed.

(* ---- convexity of aggregated fitness ---- *)
Lemma weighted_mean_bounds (f g : child -> Q) cs lo hi :
  (forall c, In c cs -> 0 <= g c) ->
  (forall c, In c cs -> lo <= f c /\ f c <= hi) ->
  lo * qsum (map g cs) <= qsum (map (fun c => f c * g c) cs) /\
  qsum (map (fun c => f c * g c) cs) <= hi * qsum (map g cs).
Proof.
  induction cs as [|c r IH]; intros Hg Hf; cbn [map qsum].
  - split; lra.
  - destruct (Hf c (or_introl eq_refl)) as [Hl Hh].
    pose proof (Hg c (or_introl eq_refl)) as H0.
    destruct IH as [IH1 IH2].
    + intros y Hy. apply Hg. right. exact Hy.
    + intros y Hy. apply Hf. right. exact Hy.
    + split; nra.
Qed.

Lemma fitness_convex_weighted w f cs lo hi :
  nonneg_weights w cs -> 0 < total w cs ->
  (forall c, In c cs -> lo <= f c /\ f c <= hi) ->
  lo <= fitness (Weighted w) f cs /\ fitness (Weighted w) f cs <= hi.
Proof.
  intros Hw Hpos Hf. cbn.
  assert (E : Qeqb (total w cs) 0 = false) by (apply Qeqb_neq; lra). rewrite E.
  destruct (weighted_mean_bounds f (weight w) cs lo hi Hw Hf) as [H1 H2].
  fold (total w cs) in H1, H2. split.
  - apply Qle_shift_div_l; [exact Hpos|]. lra.
  - apply Qle_shift_div_r; [exact Hpos|]. lra.
Qed.

Lemma mean_bounds (f : child -> Q) cs lo hi :
  (forall c, In c cs -> lo <= f c /\ f c <= hi) ->
  lo * qlen cs <= qsum (map f cs) /\ qsum (map f cs) <= hi * qlen cs.
Proof.
  intros Hf.
  destruct (weighted_mean_bounds f (fun _ => 1) cs lo hi) as [H1 H2].
  - intros; lra.
  - exact Hf.
  - rewrite qsum_map_const in H1, H2. fold (qlen cs) in H1, H2.
    rewrite (qsum_map_ext_eq (fun c => f c * 1) f) in H1, H2 by (intros; ring).
    split; lra.
Qed.

Lemma fitness_convex_uniform f cs lo hi :
  cs <> [] ->
  (forall c, In c cs -> lo <= f c /\ f c <= hi) ->
  lo <= fitness Uniform f cs /\ fitness Uniform f cs <= hi.
Proof.
  intros Hne Hf. pose proof (qlen_pos cs Hne) as Hp.
  destruct (mean_bounds f cs lo hi Hf) as [H1 H2].
  destruct cs as [|c r]; [congruence|]. cbn [fitness]. split.
  - apply Qle_shift_div_l; [exact Hp|]. lra.
  - apply Qle_shift_div_r; [exact Hp|]. lra.
Qed.

(* ---- documented fallbacks ---- *)
Lemma fallback_no_children k f : fitness k f [] == 1.
Proof. destruct k as [w|]; reflexivity. Qed.

Lemma fallback_zero_weight w f cs : total w cs == 0 ->
  fitness (Weighted w) f cs == (if Qltb 0 (supply cs) then 0 else 1).
Proof.
  intros H. cbn. apply Qeqb_eq in H. rewrite H. reflexivity.
Qed.

(* ---- histories ---- *)
Lemma step_SetDemand_readback st D : cdemand (step st (SetDemand D)) = D.
Proof. reflexivity. Qed.

Lemma after_any_history st ops D :
  cchildren (run st ops) <> [] ->
  let st' := step (run st ops) (SetDemand D) in
  qsum (map c_demand (cchildren st')) == D /\ cdemand st' = D
  /\ length (cchildren st') = length (cchildren (run st ops)).
Proof.
  intros Hne st'. subst st'. cbn [step cchildren cdemand].
  rewrite child_demands_distribute, distribute_length.
  split; [apply conservation; exact Hne|]. split; reflexivity.
Qed.

Lemma supply_is_sum st : o_supply (observe st) = qsum (map c_supply (cchildren st)).
Proof. reflexivity. Qed.

(* reading never changes anything; demand is exactly what was written last *)
Lemma demand_only_changed_by_write st o :
  (forall D, o <> SetDemand D) -> cdemand (step st o) = cdemand st.
Proof. intros H. destruct o; try reflexivity. exfalso. apply (H D). reflexivity. Qed.
