(* Properties of the Standardiser model (C06), part 1: clamping, flooring, one write, one read. *)
From Coq Require Import ZArith QArith Qabs Qround List Bool Lia Lqa.
From Cobald Require Import kit.QKit kit.PyNum model.Standardiser.
Import ListNotations.
Open Scope Q_scope.

(* ------------------------------------------------------------------ clamp on values *)
Definition fclamp (l x h : flt) : flt :=
  if fltb x l then l else if fltb h x then h else x.

(* a <= b < a + g  (or the same infinity) *)
Definition fnear (g : Q) (a b : flt) : Prop :=
  match a, b with
  | Fin x, Fin y => x <= y /\ y < x + g
  | PInf, PInf | NInf, NInf => True
  | _, _ => False
  end.

(* less than one granule apart (or the same infinity) *)
Definition fclose (g : Q) (a b : flt) : Prop :=
  match a, b with
  | Fin x, Fin y => Qabs (x - y) < g
  | PInf, PInf | NInf, NInf => True
  | _, _ => False
  end.

Ltac flt_crush :=
  flt_split; cbn [fltb fle flt_lt feq fnear finite] in *; try tauto;
  repeat (match goal with
          | |- context [Qltb ?a ?b] => let E := fresh "E" in destruct (Qltb a b) eqn:E
          end; cbn [fltb fle flt_lt feq fnear finite] in *);
  q_reflect; try tauto; try lra.

Lemma clamp_val l v h : val (clamp l v h) = fclamp (val l) (val v) (val h).
Proof.
  unfold clamp, fclamp, nlt, ngt.
  destruct (fltb (val v) (val l)); [reflexivity|].
  destruct (fltb (val h) (val v)); reflexivity.
Qed.

(* low <= high: the result lies in [low, high] *)
Lemma fclamp_bounds l x h : fle l h -> fle l (fclamp l x h) /\ fle (fclamp l x h) h.
Proof. intros Hlh. unfold fclamp. split; flt_crush. Qed.

(* a value inside [low, high] is returned itself (the very same python object) *)
Lemma clamp_id l v h : fle (val l) (val v) -> fle (val v) (val h) -> clamp l v h = v.
Proof.
  intros H1 H2. unfold clamp, nlt, ngt.
  apply fltb_ge in H1. apply fltb_ge in H2. rewrite H1, H2. reflexivity.
Qed.

(* two nested clamps whose intervals intersect: the result lies in the inner interval as well *)
Lemma fclamp2_window l h mn mx x :
  fle l h -> fle mn mx -> fle l mx -> fle mn h ->
  fle l (fclamp mn (fclamp l x h) mx) /\ fle (fclamp mn (fclamp l x h) mx) h.
Proof. intros Hlh Hm Hlmx Hmnh. unfold fclamp. split; flt_crush. Qed.

(* clamping is monotone and does not stretch distances *)
Lemma fclamp_near g l h a b : 0 < g -> fle l h -> fnear g a b ->
  fnear g (fclamp l a h) (fclamp l b h).
Proof. intros Hg Hlh Hn. unfold fclamp. flt_crush. Qed.

Lemma fclamp_feq l x x' h : feq x x' -> feq (fclamp l x h) (fclamp l x' h).
Proof.
  intros Hx. unfold fclamp.
  rewrite (fltb_feq x x' l l Hx (feq_refl l)), (fltb_feq h h x x' (feq_refl h) Hx).
  destruct (fltb x' l); [apply feq_refl|]. destruct (fltb h x'); [apply feq_refl|exact Hx].
Qed.

Lemma fnear_close g a b : fnear g a b -> fclose g b a /\ fclose g a b.
Proof.
  destruct a, b; cbn [fnear fclose]; try tauto. intros [H1 H2]. split; apply Qabs_Qlt_condition; split; lra.
Qed.

Lemma fclose_sym g a b : fclose g a b -> fclose g b a.
Proof.
  destruct a, b; cbn [fclose]; try tauto. intros H.
  assert (E : q0 - q == - (q - q0)) by ring. rewrite E, Qabs_opp. exact H.
Qed.

Lemma fclose_refl g a : 0 < g -> fclose g a a.
Proof.
  intros Hg. destruct a; cbn [fclose]; try exact I.
  assert (E : q - q == 0) by ring. rewrite E. exact Hg.
Qed.

Lemma fclose_feq g a a' b b' : feq a a' -> feq b b' -> fclose g a b -> fclose g a' b'.
Proof.
  destruct a, a', b, b'; cbn [fclose feq]; try tauto. intros H1 H2 H. rewrite <- H1, <- H2. exact H.
Qed.

(* ------------------------------------------------------------------ + and - on values *)
Lemma nsub_flt a b c : nsub a b = Ok c -> exists r, fsub (val a) (val b) = Ok r /\ feq (val c) r.
Proof.
  intros H. destruct (fsub (val a) (val b)) as [r|e] eqn:E.
  - exists r. split; [reflexivity|]. eapply nsub_feq; eassumption.
  - exfalso. destruct a as [x|fa], b as [y|fb]; cbn [nsub] in H; unfold lift2 in H;
      try (rewrite E in H; discriminate). cbn in E. discriminate.
Qed.

Lemma nadd_flt a b c : nadd a b = Ok c -> exists r, fadd (val a) (val b) = Ok r /\ feq (val c) r.
Proof.
  intros H. destruct (fadd (val a) (val b)) as [r|e] eqn:E.
  - exists r. split; [reflexivity|]. eapply nadd_feq; eassumption.
  - exfalso. destruct a as [x|fa], b as [y|fb]; cbn [nadd] in H; unfold lift2 in H;
      try (rewrite E in H; discriminate). cbn in E. discriminate.
Qed.

Definition positive (a : num) : Prop := flt_lt (Fin 0) (val a).

Lemma ngt0_positive a : ngt a (PInt 0) = true <-> positive a.
Proof. unfold ngt, positive. cbn [val]. change (inject_Z 0) with 0. apply fltb_lt. Qed.

(* supply - backlog <= supply + surplus whenever both can be computed and backlog, surplus > 0 *)
Lemma window_ordered s b sp lo hi :
  nsub s b = Ok lo -> nadd s sp = Ok hi -> positive b -> positive sp -> fle (val lo) (val hi).
Proof.
  intros Hlo Hhi Hb Hsp. unfold positive in *.
  destruct (nsub_flt _ _ _ Hlo) as [rl [El Fl]]. destruct (nadd_flt _ _ _ Hhi) as [rh [Eh Fh]].
  apply (fle_feq_l rl); [apply feq_sym; exact Fl|]. apply (fle_feq_r _ rh); [apply feq_sym; exact Fh|].
  clear Fl Fh Hlo Hhi. destruct (val s), (val b), (val sp); cbn in *; try tauto; try discriminate;
    inversion El; inversion Eh; subst; cbn; try exact I. lra.
Qed.

(* with a finite supply the window always exists, and its edges straddle the supply *)
Lemma window_total s b sp : finite (val s) ->
  exists lo hi, nsub s b = Ok lo /\ nadd s sp = Ok hi.
Proof.
  intros Hs. destruct (nsub_total_l s b Hs) as [lo Hlo]. destruct (nadd_total_l s sp Hs) as [hi Hhi]. eauto.
Qed.

Lemma window_finite_lo s b lo : finite (val s) -> positive b -> nsub s b = Ok lo -> flt_lt (val lo) PInf.
Proof.
  intros Hs Hb Hlo. destruct (nsub_flt _ _ _ Hlo) as [r [E Fq]]. unfold positive in Hb.
  destruct (val s), (val b); cbn in *; try tauto; inversion E; subst; destruct (val lo); cbn in *; tauto.
Qed.

Lemma window_finite_hi s sp hi : finite (val s) -> positive sp -> nadd s sp = Ok hi -> flt_lt NInf (val hi).
Proof.
  intros Hs Hb Hhi. destruct (nadd_flt _ _ _ Hhi) as [r [E Fq]]. unfold positive in Hb.
  destruct (val s), (val sp); cbn in *; try tauto; inversion E; subst; destruct (val hi); cbn in *; tauto.
Qed.

(* ------------------------------------------------------------------ constructor validation *)
Record valid (P : params) : Prop := mkValid {
  v_order : fle (val (minimum P)) (val (maximum P));
  v_surplus : positive (surplus P);
  v_backlog : positive (backlog P);
  v_gran : positive (granularity P) }.

Lemma accepted_valid P : accepted P = true <-> valid P.
Proof.
  unfold accepted. rewrite !andb_true_iff, !ngt0_positive. unfold nle. rewrite fleb_le.
  split; [intros [[[H1 H2] H3] H4]; constructor; assumption|intros [H1 H2 H3 H4]; auto].
Qed.

Lemma construct_accepts P t : valid P -> construct P t = Ok (mkStd P (p_demand t) t).
Proof. intros H. apply accepted_valid in H. unfold construct. rewrite H. reflexivity. Qed.

Lemma construct_rejects P t : ~ valid P -> construct P t = Err EValue.
Proof.
  intros H. unfold construct. destruct (accepted P) eqn:E; [|reflexivity].
  apply accepted_valid in E. contradiction.
Qed.

Lemma construct_inv P t st : construct P t = Ok st -> valid P /\ st = mkStd P (p_demand t) t.
Proof.
  unfold construct. destruct (accepted P) eqn:E; [|discriminate]. intros H. inversion H.
  split; [apply accepted_valid; exact E|reflexivity].
Qed.

(* ------------------------------------------------------------------ _clamp_demand *)
Lemma clamp_demand_inv P t v r : clamp_demand P t v = Ok r ->
  exists lo hi, nsub (p_supply t) (backlog P) = Ok lo /\ nadd (p_supply t) (surplus P) = Ok hi
    /\ r = clamp (minimum P) (clamp lo v hi) (maximum P).
Proof.
  unfold clamp_demand. destruct (nsub _ _) as [lo|] eqn:E1; cbn [bind]; [|discriminate].
  destruct (nadd _ _) as [hi|] eqn:E2; cbn [bind]; [|discriminate].
  intros H. inversion H. eauto.
Qed.

Lemma clamp_demand_eq P t v lo hi :
  nsub (p_supply t) (backlog P) = Ok lo -> nadd (p_supply t) (surplus P) = Ok hi ->
  clamp_demand P t v = Ok (clamp (minimum P) (clamp lo v hi) (maximum P)).
Proof. intros H1 H2. unfold clamp_demand. rewrite H1, H2. reflexivity. Qed.

(* the limits as the property states them *)
Definition in_limits (P : params) (x : num) : Prop :=
  fle (val (minimum P)) (val x) /\ fle (val x) (val (maximum P)).
Definition in_window (lo hi x : num) : Prop := fle (val lo) (val x) /\ fle (val x) (val hi).
(* minimum/maximum do not force the value out of the supply window: the two intervals intersect *)
Definition window_compatible (P : params) (lo hi : num) : Prop :=
  fle (val lo) (val (maximum P)) /\ fle (val (minimum P)) (val hi).

Lemma clamp_demand_limits P t v r : valid P -> clamp_demand P t v = Ok r -> in_limits P r.
Proof.
  intros HV H. destruct (clamp_demand_inv _ _ _ _ H) as [lo [hi [_ [_ ->]]]].
  unfold in_limits. rewrite clamp_val. apply fclamp_bounds. apply (v_order _ HV).
Qed.

Lemma clamp_demand_window P t v r lo hi : valid P -> clamp_demand P t v = Ok r ->
  nsub (p_supply t) (backlog P) = Ok lo -> nadd (p_supply t) (surplus P) = Ok hi ->
  window_compatible P lo hi -> in_window lo hi r.
Proof.
  intros HV H Hlo Hhi [C1 C2]. rewrite (clamp_demand_eq _ _ _ _ _ Hlo Hhi) in H. inversion H.
  unfold in_window. rewrite !clamp_val. apply fclamp2_window; try assumption.
  - eapply window_ordered; try eassumption; [apply (v_backlog _ HV)|apply (v_surplus _ HV)].
  - apply (v_order _ HV).
Qed.

Lemma clamp_demand_id P t v r lo hi : clamp_demand P t v = Ok r ->
  nsub (p_supply t) (backlog P) = Ok lo -> nadd (p_supply t) (surplus P) = Ok hi ->
  in_window lo hi v -> in_limits P v -> r = v.
Proof.
  intros H Hlo Hhi [W1 W2] [L1 L2]. rewrite (clamp_demand_eq _ _ _ _ _ Hlo Hhi) in H. inversion H.
  rewrite (clamp_id lo v hi W1 W2). apply clamp_id; assumption.
Qed.

Lemma clamp_demand_total P t v : finite (val (p_supply t)) -> exists r, clamp_demand P t v = Ok r.
Proof.
  intros Hs. destruct (window_total (p_supply t) (backlog P) (surplus P) Hs) as [lo [hi [H1 H2]]].
  eexists. apply clamp_demand_eq; eassumption.
Qed.

(* value of the result in terms of the two clamps *)
Definition fC (P : params) (lo hi : num) (x : flt) : flt :=
  fclamp (val (minimum P)) (fclamp (val lo) x (val hi)) (val (maximum P)).

Lemma clamp_demand_val P t v r lo hi : clamp_demand P t v = Ok r ->
  nsub (p_supply t) (backlog P) = Ok lo -> nadd (p_supply t) (surplus P) = Ok hi ->
  val r = fC P lo hi (val v).
Proof.
  intros H Hlo Hhi. rewrite (clamp_demand_eq _ _ _ _ _ Hlo Hhi) in H. inversion H.
  unfold fC. rewrite !clamp_val. reflexivity.
Qed.

Lemma fC_near P lo hi g a b : valid P -> fle (val lo) (val hi) -> 0 < g ->
  fnear g a b -> fnear g (fC P lo hi a) (fC P lo hi b).
Proof.
  intros HV Hw Hg Hn. unfold fC. apply fclamp_near; [exact Hg|apply (v_order _ HV)|].
  apply fclamp_near; assumption.
Qed.

Lemma fC_feq P lo hi a b : feq a b -> feq (fC P lo hi a) (fC P lo hi b).
Proof. intros H. unfold fC. apply fclamp_feq. apply fclamp_feq. exact H. Qed.

(* ------------------------------------------------------------------ _floor *)
Definition floorQ (x g : Q) : Q := inject_Z (Qfloor (x / g)) * g.

Lemma floorQ_spec x g : 0 < g -> floorQ x g <= x /\ x < floorQ x g + g.
Proof.
  intros Hg. unfold floorQ.
  pose proof (Qfloor_le (x / g)) as H1. pose proof (Qlt_floor (x / g)) as H2.
  rewrite inject_Z_plus in H2. change (inject_Z 1) with 1 in H2.
  assert (E : x == (x / g) * g) by (field; lra).
  split.
  - rewrite E at 2. apply Qmult_le_compat_r; [exact H1|lra].
  - rewrite E at 1.
    assert (x / g * g < (inject_Z (Qfloor (x / g)) + 1) * g) by (apply Qmult_lt_compat_r; lra). lra.
Qed.

Lemma floorQ_comp x y g : x == y -> floorQ x g == floorQ y g.
Proof. intros H. unfold floorQ. rewrite H. reflexivity. Qed.

(* an integral value is its own floor at granularity 1 *)
Lemma floorQ_int z : floorQ (inject_Z z) 1 == inject_Z z.
Proof.
  unfold floorQ. assert (E : inject_Z z / 1 == inject_Z z) by (field).
  rewrite E, Qround.Qfloor_Z. ring.
Qed.

Lemma floor_to_val n base x g : val n = Fin x -> val base = Fin g -> 0 < g ->
  exists fl, floor_to n base = Ok fl /\ feq (val fl) (Fin (floorQ x g)).
Proof.
  intros Hn Hb Hg. unfold floor_to.
  destruct (nfloordiv_val n base x g Hn Hb Hg) as [q [Eq Vq]]. rewrite Eq. cbn [bind].
  destruct (nmul_val_fin q base _ g Vq Hb) as [fl [Ef Vf]]. exists fl. split; [exact Ef|exact Vf].
Qed.

(* the quotient only depends on the values, so equal values of the same type floor to the same object *)
Lemma floor_to_near n base x g fl : val n = Fin x -> val base = Fin g -> 0 < g ->
  floor_to n base = Ok fl -> fnear g (val fl) (val n).
Proof.
  intros Hn Hb Hg Hfl. destruct (floor_to_val n base x g Hn Hb Hg) as [fl' [E V]].
  rewrite Hfl in E. inversion E; subst fl'. rewrite Hn.
  destruct (val fl); cbn in V; try contradiction. cbn. pose proof (floorQ_spec x g Hg). lra.
Qed.

(* ------------------------------------------------------------------ one write *)
Definition tdemand (st : std) : num := p_demand (s_tgt st).
Definition wlo (st : std) : res num := nsub (p_supply (s_tgt st)) (backlog (s_par st)).
Definition whi (st : std) : res num := nadd (p_supply (s_tgt st)) (surplus (s_par st)).
Definition no_rounding (P : params) : bool := negb (nne (granularity P) (PInt 1)).

(* what the setter does, in one equation per branch *)
Lemma set_demand_inv st v st' : set_demand st v = Ok st' ->
  exists d t, clamp_demand (s_par st) (s_tgt st) v = Ok d /\
    st' = mkStd (s_par st) d (set_tdemand (s_tgt st) t) /\
    ( (nne (granularity (s_par st)) (PInt 1) = true /\
         exists fl, floor_to v (granularity (s_par st)) = Ok fl /\
                    clamp_demand (s_par st) (s_tgt st) fl = Ok t)
      \/ (nne (granularity (s_par st)) (PInt 1) = false /\ t = d) ).
Proof.
  unfold set_demand. destruct (clamp_demand _ _ v) as [d|] eqn:E1; cbn [bind]; [|discriminate].
  destruct (nne _ _) eqn:En.
  - destruct (floor_to _ _) as [fl|] eqn:E2; cbn [bind]; [|discriminate].
    destruct (clamp_demand _ _ fl) as [t|] eqn:E3; cbn [bind]; [|discriminate].
    intros H. inversion H. exists d, t. split; [reflexivity|]. split; [reflexivity|]. left. eauto.
  - intros H. inversion H. exists d, d. split; [reflexivity|]. split; [reflexivity|]. right. auto.
Qed.

(* a write changes nothing but `_demand` and the target's demand *)
Lemma set_demand_frame st v st' : set_demand st v = Ok st' ->
  s_par st' = s_par st /\ p_supply (s_tgt st') = p_supply (s_tgt st)
  /\ p_util (s_tgt st') = p_util (s_tgt st) /\ p_alloc (s_tgt st') = p_alloc (s_tgt st).
Proof.
  intros H. destruct (set_demand_inv _ _ _ H) as [d [t [_ [-> _]]]]. cbn. auto.
Qed.

(* (1) the forwarded value and the stored one lie within [minimum, maximum]: no further condition *)
Lemma write_limits st v st' : valid (s_par st) -> set_demand st v = Ok st' ->
  in_limits (s_par st) (tdemand st') /\ in_limits (s_par st) (s_demand st').
Proof.
  intros HV H. destruct (set_demand_inv _ _ _ H) as [d [t [Hd [-> Hb]]]]. unfold tdemand. cbn.
  assert (Ld : in_limits (s_par st) d) by (eapply clamp_demand_limits; eassumption).
  split; [|exact Ld].
  destruct Hb as [[_ [fl [_ Ht]]]|[_ ->]]; [eapply clamp_demand_limits; eassumption|exact Ld].
Qed.

(* (2) and within the supply window whenever minimum/maximum leave room for that *)
Lemma write_window st v st' lo hi : valid (s_par st) -> set_demand st v = Ok st' ->
  wlo st = Ok lo -> whi st = Ok hi -> window_compatible (s_par st) lo hi ->
  in_window lo hi (tdemand st') /\ in_window lo hi (s_demand st').
Proof.
  intros HV H Hlo Hhi Hc. destruct (set_demand_inv _ _ _ H) as [d [t [Hd [-> Hb]]]]. unfold tdemand. cbn.
  assert (Wd : in_window lo hi d) by (eapply clamp_demand_window; eassumption).
  split; [|exact Wd].
  destruct Hb as [[_ [fl [_ Ht]]]|[_ ->]]; [eapply clamp_demand_window; eassumption|exact Wd].
Qed.

(* (3) no limit interferes with the rounded value: exactly that value is forwarded (same object) *)
Lemma write_rounds st v st' lo hi fl :
  set_demand st v = Ok st' -> wlo st = Ok lo -> whi st = Ok hi ->
  nne (granularity (s_par st)) (PInt 1) = true ->
  floor_to v (granularity (s_par st)) = Ok fl ->
  in_window lo hi fl -> in_limits (s_par st) fl -> tdemand st' = fl.
Proof.
  intros H Hlo Hhi Hg Hfl HW HL. destruct (set_demand_inv _ _ _ H) as [d [t [Hd [-> Hb]]]].
  unfold tdemand. cbn. destruct Hb as [[_ [fl' [Hfl' Ht]]]|[Hg' _]]; [|congruence].
  rewrite Hfl in Hfl'. inversion Hfl'; subst fl'. eapply clamp_demand_id; eassumption.
Qed.

(* (3') granularity 1 (the "no limit" default): the code does not floor; the value itself is forwarded *)
Lemma write_unrounded st v st' lo hi :
  set_demand st v = Ok st' -> wlo st = Ok lo -> whi st = Ok hi ->
  nne (granularity (s_par st)) (PInt 1) = false ->
  in_window lo hi v -> in_limits (s_par st) v -> tdemand st' = v.
Proof.
  intros H Hlo Hhi Hg HW HL. destruct (set_demand_inv _ _ _ H) as [d [t [Hd [-> Hb]]]].
  unfold tdemand. cbn. destruct Hb as [[Hg' _]|[_ ->]]; [congruence|]. eapply clamp_demand_id; eassumption.
Qed.

(* ... which for an int (any integral value) is the value rounded down to a multiple of 1 *)
Lemma granularity_one P : nne (granularity P) (PInt 1) = false -> feq (val (granularity P)) (Fin 1).
Proof.
  unfold nne, neq, feqb. rewrite negb_false_iff, andb_true_iff, !fleb_le. intros [H1 H2].
  cbn [val] in *. change (inject_Z 1) with 1 in *. apply fle_antisym; assumption.
Qed.

Lemma floor_of_int_at_one z g fl : feq (val g) (Fin 1) -> floor_to (PInt z) g = Ok fl -> feq (val fl) (Fin (inject_Z z)).
Proof.
  intros Hg Hfl. destruct (val g) as [gq| |] eqn:Eg; cbn [feq] in Hg; try contradiction.
  assert (Hp : 0 < gq) by lra.
  destruct (floor_to_val (PInt z) g (inject_Z z) gq eq_refl Eg Hp) as [fl' [E V]].
  rewrite Hfl in E. inversion E; subst fl'. eapply feq_trans; [exact V|]. cbn [feq].
  unfold floorQ.
  assert (E' : inject_Z z / gq == inject_Z z) by (rewrite Hg; field).
  rewrite (Qfloor_comp _ _ E'), Qround.Qfloor_Z, Hg. ring.
Qed.

(* (4) the value kept for reading back is less than one granule above the forwarded one *)
Lemma write_near st v st' x g : valid (s_par st) -> set_demand st v = Ok st' ->
  finite (val (p_supply (s_tgt st))) -> val v = Fin x -> val (granularity (s_par st)) = Fin g ->
  fnear g (val (tdemand st')) (val (s_demand st')).
Proof.
  intros HV H Hs Hv Hg.
  assert (Hgp : 0 < g). { pose proof (v_gran _ HV) as Hp. unfold positive in Hp. rewrite Hg in Hp. exact Hp. }
  destruct (set_demand_inv _ _ _ H) as [d [t [Hd [-> Hb]]]]. unfold tdemand. cbn.
  destruct Hb as [[_ [fl [Hfl Ht]]]|[_ ->]].
  - destruct (clamp_demand_inv _ _ _ _ Hd) as [lo [hi [Hlo [Hhi _]]]].
    rewrite (clamp_demand_val _ _ _ _ _ _ Hd Hlo Hhi), (clamp_demand_val _ _ _ _ _ _ Ht Hlo Hhi).
    apply fC_near; [exact HV| |exact Hgp|].
    + eapply window_ordered; try eassumption; [apply (v_backlog _ HV)|apply (v_surplus _ HV)].
    + eapply floor_to_near; eassumption.
  - destruct (val d); cbn; try exact I. lra.
Qed.

(* in the domain of the property a write always succeeds *)
Lemma write_total st v x g : finite (val (p_supply (s_tgt st))) -> val v = Fin x ->
  val (granularity (s_par st)) = Fin g -> 0 < g -> exists st', set_demand st v = Ok st'.
Proof.
  intros Hs Hv Hg Hgp. unfold set_demand.
  destruct (clamp_demand_total (s_par st) (s_tgt st) v Hs) as [d ->]. cbn [bind].
  destruct (nne _ _); [|eauto].
  destruct (floor_to_val v _ x g Hv Hg Hgp) as [fl [-> _]]. cbn [bind].
  destruct (clamp_demand_total (s_par st) (s_tgt st) fl Hs) as [t ->]. cbn [bind]. eauto.
Qed.

(* ------------------------------------------------------------------ one read *)
Lemma fabs_ge_iff g r : fleb (Fin g) (fabs r) = false <-> match r with Fin d => Qabs d < g | _ => False end.
Proof.
  rewrite fleb_gt. destruct r; cbn; tauto.
Qed.

(* the getter's condition is exactly "a granule or more apart" (same infinities count as not moved) *)
Lemma moved_false_iff d td gn g : val gn = Fin g ->
  (moved d td gn = false <-> fclose g (val d) (val td)).
Proof.
  intros Hg. unfold moved. destruct (nsub d td) as [x|e] eqn:E.
  - destruct (nsub_flt _ _ _ E) as [r [Er Fr]]. unfold nge. rewrite Hg.
    assert (Ex : fleb (Fin g) (val (nabs x)) = fleb (Fin g) (fabs r)).
    { unfold fleb. f_equal. apply fltb_feq; [|apply feq_refl].
      eapply feq_trans; [apply nabs_val|]. destruct (val x), r; cbn in *; try tauto.
      rewrite Fr. reflexivity. }
    rewrite Ex, fabs_ge_iff.
    destruct (val d), (val td); cbn in Er; inversion Er; subst; cbn; tauto.
  - assert (He : fsub (val d) (val td) = Err ENaN).
    { destruct d as [a|fa], td as [b|fb]; cbn [nsub] in E; unfold lift2 in E; try discriminate;
        destruct (fsub _ _) as [r|e'] eqn:E'; try discriminate; f_equal; eapply fsub_err; exact E'. }
    destruct (val d), (val td); cbn in He; try discriminate; cbn; tauto.
Qed.

Lemma get_demand_cases st :
  (moved (s_demand st) (tdemand st) (granularity (s_par st)) = true /\
     get_demand st = (tdemand st, mkStd (s_par st) (tdemand st) (s_tgt st)))
  \/ (moved (s_demand st) (tdemand st) (granularity (s_par st)) = false /\ get_demand st = (s_demand st, st)).
Proof.
  unfold get_demand, tdemand. destruct (moved _ _ _); [left|right]; auto.
Qed.

(* a read never touches the target, and what it returns is afterwards what is stored *)
Lemma get_demand_frame st : s_tgt (snd (get_demand st)) = s_tgt st /\ s_par (snd (get_demand st)) = s_par st
  /\ s_demand (snd (get_demand st)) = fst (get_demand st).
Proof. destruct (get_demand_cases st) as [[_ ->]|[_ ->]]; cbn; auto. Qed.

(* after any read, the value returned is less than a granule from the target's demand *)
Lemma read_close st g : val (granularity (s_par st)) = Fin g -> 0 < g ->
  fclose g (val (fst (get_demand st))) (val (tdemand st)).
Proof.
  intros Hg Hgp. destruct (get_demand_cases st) as [[_ ->]|[Hm ->]]; cbn [fst].
  - apply fclose_refl. exact Hgp.
  - apply (moved_false_iff _ _ _ g Hg). exact Hm.
Qed.

(* reading a standardiser whose stored value is within a granule of the target changes nothing *)
Lemma read_synced st g : val (granularity (s_par st)) = Fin g ->
  fclose g (val (s_demand st)) (val (tdemand st)) -> get_demand st = (s_demand st, st).
Proof.
  intros Hg Hc. destruct (get_demand_cases st) as [[Hm _]|[_ E]]; [|exact E].
  apply (moved_false_iff _ _ _ g Hg) in Hc. congruence.
Qed.

(* reading after the target moved a granule or more returns the target's demand *)
Lemma read_resync st g : val (granularity (s_par st)) = Fin g ->
  ~ fclose g (val (s_demand st)) (val (tdemand st)) -> fst (get_demand st) = tdemand st.
Proof.
  intros Hg Hc. destruct (get_demand_cases st) as [[_ ->]|[Hm _]]; [reflexivity|].
  apply (moved_false_iff _ _ _ g Hg) in Hm. contradiction.
Qed.

(* (4) read-back right after a write: the limited, unrounded value; the state is unchanged *)
Lemma read_after_write st v st' x g : valid (s_par st) -> set_demand st v = Ok st' ->
  finite (val (p_supply (s_tgt st))) -> val v = Fin x -> val (granularity (s_par st)) = Fin g ->
  get_demand st' = (s_demand st', st') /\ clamp_demand (s_par st) (s_tgt st) v = Ok (s_demand st')
  /\ fclose g (val (s_demand st')) (val (tdemand st')).
Proof.
  intros HV H Hs Hv Hg.
  pose proof (write_near _ _ _ _ _ HV H Hs Hv Hg) as Hn. apply fnear_close in Hn. destruct Hn as [Hc _].
  destruct (set_demand_frame _ _ _ H) as [Ep _].
  split; [|split; [|exact Hc]].
  - apply (read_synced st' g); [rewrite Ep; exact Hg|exact Hc].
  - destruct (set_demand_inv _ _ _ H) as [d [t [Hd [-> _]]]]. exact Hd.
Qed.
