(* Properties of the Standardiser model (C06), part 1: clamping, flooring, one write, one read. *)
From Coq Require Import ZArith QArith Qabs Qround List Bool Lia Lqa.
From Cobald Require Import kit.QKit kit.PyNum model.Standardiser.
Import ListNotations.
Open Scope Q_scope.

(* ------------------------------------------------------------------ clamp on values *)
Definition fclamp (l x h : flt) : flt :=
  if fltb x l then l else if fltb h x then h else x.

Lemma clamp_val l v h : val (clamp l v h) = fclamp (val l) (val v) (val h).
Proof.
  unfold clamp, fclamp, nlt, ngt.
  destruct (fltb (val v) (val l)); [reflexivity|].
  destruct (fltb (val h) (val v)); reflexivity.
Qed.

Lemma fclamp_cases l x h :
  (fclamp l x h = l /\ flt_lt x l) \/
  (fclamp l x h = h /\ fle l x /\ flt_lt h x) \/
  (fclamp l x h = x /\ fle l x /\ fle x h).
Proof.
  unfold fclamp. destruct (fltb x l) eqn:E1.
  - left. split; [reflexivity|]. apply fltb_lt. exact E1.
  - apply fltb_ge in E1. destruct (fltb h x) eqn:E2.
    + right; left. split; [reflexivity|]. split; [exact E1|]. apply fltb_lt. exact E2.
    + right; right. apply fltb_ge in E2. auto.
Qed.

(* low <= high: the result lies in [low, high] *)
Lemma fclamp_bounds l x h : fle l h -> fle l (fclamp l x h) /\ fle (fclamp l x h) h.
Proof.
  intros Hlh. destruct (fclamp_cases l x h) as [[-> _]|[[-> [_ _]]|[-> [H1 H2]]]].
  - split; [apply fle_refl|exact Hlh].
  - split; [exact Hlh|apply fle_refl].
  - auto.
Qed.

(* a value inside [low, high] is returned itself (the very same python object) *)
Lemma clamp_id l v h : fle (val l) (val v) -> fle (val v) (val h) -> clamp l v h = v.
Proof.
  intros H1 H2. unfold clamp, nlt, ngt.
  apply fltb_ge in H1. apply fltb_ge in H2. rewrite H1, H2. reflexivity.
Qed.

(* two nested clamps whose intervals intersect: the result lies in the inner one as well *)
Lemma fclamp2_window l h mn mx x :
  fle l h -> fle mn mx -> fle l mx -> fle mn h ->
  fle l (fclamp mn (fclamp l x h) mx) /\ fle (fclamp mn (fclamp l x h) mx) h.
Proof.
  intros Hlh Hm Hlmx Hmnh.
  destruct (fclamp_bounds l x h Hlh) as [B1 B2].
  destruct (fclamp_cases mn (fclamp l x h) mx) as [[-> _]|[[-> [_ Hc]]|[-> _]]].
  - split; [|exact Hmnh].
    destruct (fclamp_cases mn (fclamp l x h) mx) as [[_ Hc]|[[_ [Hc _]]|[_ [Hc _]]]].
    + apply flt_le. eapply fle_lt_trans; [exact B1|exact Hc].
    + eapply fle_trans; [exact B1|]. (* mn <= inner, l <= inner: need l <= mn? not nec. *)
      Abort.
