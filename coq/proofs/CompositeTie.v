(* Translator tie for C07: the terms generated from weighted.py / uniform.py (gen/Gen_composite.v) compute the
   reference model of model/Composite.v. *)
From Coq Require Import ZArith QArith List Bool.
From Cobald Require Import kit.QKit model.Composite gen.Gen_composite.
Import ListNotations.
Open Scope Q_scope.

Lemma gen_w_supply_ok w st : gen_w_supply w st = supply (cchildren st).
Proof. reflexivity. Qed.

Lemma gen_w_total_ok w st : gen_w_total_weight w st = total w (cchildren st).
Proof. reflexivity. Qed.

Lemma gen_w_undefined_ok w st : gen_w_undefined_fitness w st = undefined_fitness (cchildren st).
Proof. reflexivity. Qed.

Lemma gen_w_utilisation_ok w st : gen_w_utilisation w st = utilisation (Weighted w) (cchildren st).
Proof. reflexivity. Qed.

Lemma gen_w_allocation_ok w st : gen_w_allocation w st = allocation (Weighted w) (cchildren st).
Proof. reflexivity. Qed.

Lemma gen_w_demand_get_ok w st : gen_w_demand_get w st = cdemand st.
Proof. reflexivity. Qed.

Lemma gen_w_demand_set_ok w st D :
  ckind st = Weighted w -> gen_w_demand_set w st D = step st (SetDemand D).
Proof.
  intros Hk. unfold gen_w_demand_set, W_demand, W_children, step, distribute, share, share_weighted.
  cbn [ckind cdemand cchildren]. rewrite Hk. reflexivity.
Qed.

Lemma gen_u_supply_ok st : gen_u_supply st = supply (cchildren st).
Proof. reflexivity. Qed.

Lemma uniform_fitness_shape (f : child -> Q) cs :
  (if Qeqb (qlen cs) (inject_Z 0) then inject_Z 1 else qsum (map f cs) / qlen cs) = fitness Uniform f cs.
Proof. destruct cs; reflexivity. Qed.

Lemma gen_u_utilisation_ok st : gen_u_utilisation st = utilisation Uniform (cchildren st).
Proof. unfold gen_u_utilisation, utilisation. apply (uniform_fitness_shape c_util). Qed.

Lemma gen_u_allocation_ok st : gen_u_allocation st = allocation Uniform (cchildren st).
Proof. unfold gen_u_allocation, allocation. apply (uniform_fitness_shape c_alloc). Qed.

Lemma gen_u_demand_set_ok st D :
  ckind st = Uniform -> gen_u_demand_set st D = step st (SetDemand D).
Proof.
  intros Hk. unfold gen_u_demand_set, W_demand, W_children, step, distribute, share, share_uniform.
  cbn [ckind cdemand cchildren]. rewrite Hk. reflexivity.
Qed.

Lemma gen_w_readers_ok w st :
  gen_w_demand_get w st = cdemand st /\ gen_w_supply w st = supply (cchildren st)
  /\ gen_w_utilisation w st = utilisation (Weighted w) (cchildren st)
  /\ gen_w_allocation w st = allocation (Weighted w) (cchildren st)
  /\ gen_w_total_weight w st = total w (cchildren st)
  /\ gen_w_undefined_fitness w st = undefined_fitness (cchildren st).
Proof. repeat split. Qed.

Lemma gen_u_readers_ok st :
  gen_u_demand_get st = cdemand st /\ gen_u_supply st = supply (cchildren st)
  /\ gen_u_utilisation st = utilisation Uniform (cchildren st)
  /\ gen_u_allocation st = allocation Uniform (cchildren st).
Proof.
  split; [reflexivity|]. split; [reflexivity|]. split; [apply gen_u_utilisation_ok|apply gen_u_allocation_ok].
Qed.
