(* C18: the constructor tables of the loader class that cobald.daemon.core.config.load really
   instantiates (extracted on this run into gen/Gen_yaml_tables.v) satisfy the table condition,
   and the general theorems instantiated with them. *)
From Coq Require Import List NArith Bool.
From Cobald Require Import model.YamlDispatch proofs.YamlDispatchProofs gen.Gen_yaml_tables.
Import ListNotations.

Lemma cobald_tables_safe :
  safe_tables cobald_tables = true /\ plugins_match cobald_tables cobald_tables_entrypoints = true.
Proof. split; vm_compute; reflexivity. Qed.

(* the same loader with the check's two canary plugins registered through a second entry-point
   distribution (the tables the document corpus is run against) *)
Lemma cobald_tables_test_safe :
  safe_tables cobald_tables_test = true /\ plugins_match cobald_tables_test cobald_tables_test_entrypoints = true.
Proof. split; vm_compute; reflexivity. Qed.

Lemma cobald_only_entrypoint_plugins_run : forall conv_ok fac doc c,
  In c (calls (snd (construct_document conv_ok fac cobald_tables doc))) ->
  exists f, c = Call f /\ In f (map snd cobald_tables_entrypoints).
Proof.
  intros conv_ok fac doc c Hc. destruct cobald_tables_safe as [Hs Hm].
  destruct (only_plugins_run conv_ok fac cobald_tables doc Hs c Hc) as [f [E R]].
  exists f. split; [exact E|]. eapply registered_is_entrypoint; eassumption.
Qed.

Lemma cobald_foreign_tag_rejected_partial : forall conv_ok fac doc m,
  visits cobald_tables doc m ->
  python_tag (tag_of m) = true \/ assoc (tag_of m) (t_exact cobald_tables) = None ->
  is_err (fst (construct_document conv_ok fac cobald_tables doc))
  /\ forall nm, ~ In (UnsafeCall nm) (snd (construct_document conv_ok fac cobald_tables doc)).
Proof.
  intros conv_ok fac doc m. apply foreign_tag_rejected_partial. exact (proj1 cobald_tables_safe).
Qed.
