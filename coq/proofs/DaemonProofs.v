(* C13: properties of the daemon model (model/Daemon.v) by lifting the RT invariants. *)
From Coq Require Import List Arith Bool Lia.
From Cobald Require Import model.RT model.Daemon proofs.RTBase proofs.RTProofs.
Import ListNotations.

(* every daemon step is an RT step on the underlying state *)
Lemma dstep_step holds d e d' : dstep holds d e = Some d' -> step (d_rt d) e = Some (d_rt d').
Proof.
  unfold dstep. intros H.
  destruct e; try (destruct (step (d_rt d) _) eqn:E; [injection H as <-; reflexivity|discriminate]).
  - destruct c.
    + destruct (step (d_rt d) _) eqn:E; [injection H as <-; reflexivity|discriminate].
    + destruct (is_run _); [|discriminate].
      destruct (step (d_rt d) _) eqn:E; [injection H as <-; reflexivity|discriminate].
  - destruct (d_creator d s) as [q|].
    + destruct (holds && _); [discriminate|].
      destruct (step (d_rt d) _) eqn:E; [injection H as <-; reflexivity|discriminate].
    + destruct (step (d_rt d) _) eqn:E; [injection H as <-; reflexivity|discriminate].
Qed.

Lemma drun_run holds tr : forall d d', drun holds d tr = Some d' -> run (d_rt d) tr = Some (d_rt d').
Proof.
  induction tr as [|e tr IH]; intros d d' H; cbn [drun run] in *.
  - injection H as <-. reflexivity.
  - destruct (dstep holds d e) as [d1|] eqn:E; [|discriminate].
    rewrite (dstep_step _ _ _ _ E). apply IH. exact H.
Qed.

Lemma drun_app holds a : forall d b,
  drun holds d (a ++ b) = match drun holds d a with Some d' => drun holds d' b | None => None end.
Proof.
  induction a as [|e a IH]; intros d b; cbn [app drun]; [reflexivity|].
  destruct (dstep holds d e); [apply IH|reflexivity].
Qed.

(* a payload that has left PRun never returns to it *)
Lemma not_run_perm s e s' q :
  step s e = Some s' -> started (p_st (pay s q)) = true -> p_st (pay s q) <> PRun -> p_st (pay s' q) <> PRun.
Proof.
  intros H Hs Hn. step_inv H; simp_state; auto.
  all: try (upd_keep q; simp_state; auto; try congruence; try discriminate; fail).
  all: try (destruct (flush_st s r q) as [[Hq [_ Hf]]|Hf]; rewrite Hf in *; simp_state; auto; discriminate).
  all: try (upd_keep q; simp_state; auto; try congruence; rw_all; cbn in Hs; discriminate Hs).
Qed.

Lemma unit_next s e s' x :
  step s e = Some s' -> p_st (pay s x) = PUnit ->
  p_st (pay s' x) = PUnit \/ p_st (pay s' x) = PDropped \/ started (p_st (pay s' x)) = true.
Proof.
  intros H A. step_inv H; simp_state; auto.
  all: try (upd_keep x; simp_state; auto; try congruence; fail).
  all: try (destruct (flush_st s r x) as [[Hq [_ Hf]]|Hf]; rewrite Hf in *; simp_state; auto; congruence).
  all: try (upd_keep x; simp_state; auto; try congruence; right; right; reflexivity).
Qed.

Lemma dropped_perm s e s' x :
  step s e = Some s' -> p_st (pay s x) = PDropped -> p_st (pay s' x) = PDropped.
Proof.
  intros H A. step_inv H; simp_state; auto.
  all: try (upd_keep x; simp_state; auto; try congruence; fail).
  all: try (destruct (flush_st s r x) as [[Hq [_ Hf]]|Hf]; rewrite Hf in *; simp_state; auto; congruence).
Qed.

(* the daemon invariant: creators have been started, and a dropped service's creator is not running *)
Definition DInv (holds : bool) (d : dstate) : Prop :=
  forall sv q, d_creator d sv = Some q ->
    started (p_st (pay (d_rt d) q)) = true /\
    (holds = true -> p_st (pay (d_rt d) sv) = PDropped -> p_st (pay (d_rt d) q) <> PRun).

Lemma DInv_init holds : DInv holds dinit.
Proof. intros sv q H. discriminate. Qed.

Lemma is_run_true x : is_run x = true -> x = PRun.
Proof. destruct x; cbn; congruence. Qed.

Lemma dropped_only_by_drop s e s' sv :
  step s e = Some s' -> p_st (pay s sv) <> PDropped -> p_st (pay s' sv) = PDropped -> e = DropService sv.
Proof.
  intros H Hn Hd. step_inv H; simp_state; try congruence.
  all: try (upd_keep sv; simp_state; try congruence; try discriminate; fail).
  all: try (destruct (flush_st s r sv) as [[Hq [_ Hf]]|Hf]; rewrite Hf in *; simp_state; try congruence; discriminate).
  all: try (upd_keep sv; simp_state; try congruence; destruct (r_phase (run_ s r)); discriminate).
Qed.

Lemma DInv_step holds d e d' : DInv holds d -> dstep holds d e = Some d' -> DInv holds d'.
Proof.
  intros I H sv q Hc.
  pose proof (dstep_step _ _ _ _ H) as Hs.
  (* the creator map only grows at NewService (InPayload _) *)
  assert (Hcr : d_creator d sv = Some q \/
                (exists f, e = NewService (InPayload q) sv f /\ p_st (pay (d_rt d) q) = PRun)).
  { unfold dstep in H. destruct e;
      try (destruct (step (d_rt d) _); [injection H as <-; cbn in Hc; auto|discriminate]).
    - destruct c.
      + destruct (step (d_rt d) _); [injection H as <-; cbn in Hc; auto|discriminate].
      + destruct (is_run (p_st (pay (d_rt d) p))) eqn:Er; [|discriminate].
        destruct (step (d_rt d) _); [injection H as <-|discriminate]. cbn in Hc. unfold upd in Hc.
        destruct (sv =? s) eqn:Ee; [|auto]. apply Nat.eqb_eq in Ee. subst. injection Hc as <-.
        right. exists f. split; [reflexivity|]. apply is_run_true. exact Er.
    - destruct (d_creator d s) as [q'|].
      + destruct (holds && _); [discriminate|].
        destruct (step (d_rt d) _); [injection H as <-; cbn in Hc; auto|discriminate].
      + destruct (step (d_rt d) _); [injection H as <-; cbn in Hc; auto|discriminate]. }
  destruct Hcr as [Hold|[f [-> Hrun]]].
  - destruct (I sv q Hold) as [I1 I2]. split.
    + apply (started_perm _ _ _ _ Hs I1).
    + intros Hh Hd.
      destruct (p_st (pay (d_rt d) sv)) eqn:Esv.
      all: try (assert (Hne : p_st (pay (d_rt d) sv) <> PDropped) by (rewrite Esv; discriminate);
                pose proof (dropped_only_by_drop _ _ _ _ Hs Hne Hd) as ->;
                unfold dstep in H; rewrite Hold, Hh in H; cbn in H;
                destruct (is_run (p_st (pay (d_rt d) q))) eqn:Er; [discriminate H|];
                destruct (started_perm _ _ _ _ Hs I1) as [St _];
                apply (not_run_perm _ _ _ _ Hs I1); intros X; rewrite X in Er; discriminate Er).
      (* already dropped before *)
      apply (not_run_perm _ _ _ _ Hs I1). apply I2; auto.
  - (* just created by the running payload q *)
    assert (St : started (p_st (pay (d_rt d) q)) = true) by (rewrite Hrun; reflexivity).
    split; [apply (started_perm _ _ _ _ Hs St)|].
    intros _ Hd. exfalso. remember (d_rt d') as s2 eqn:Es2. clear Es2. step_inv Hs; simp_state.
    rewrite upd_same in Hd. discriminate Hd.
Qed.

Lemma DInv_run holds tr : forall d d', DInv holds d -> drun holds d tr = Some d' -> DInv holds d'.
Proof.
  induction tr as [|e tr IH]; intros d d' I H; cbn [drun] in H.
  - injection H as <-. exact I.
  - destruct (dstep holds d e) as [d1|] eqn:E; [|discriminate]. eapply IH; [|exact H]. eapply DInv_step; eauto.
Qed.

(* C13: with the configuration held by the loading payload, every service it constructed is started
   exactly once and is still alive (never collected) while the loader runs, once nothing is owed *)
Lemma C13_services_started_and_kept tr d sv q :
  drun true dinit tr = Some d -> quiescent (d_rt d) = true ->
  guard (d_rt d) = Some 0 -> r_phase (run_ (d_rt d) 0) = Up -> r_running (run_ (d_rt d) 0) = true ->
  d_creator d sv = Some q -> p_st (pay (d_rt d) q) = PRun ->
  nstarts sv tr = 1 /\ p_st (pay (d_rt d) sv) <> PDropped.
Proof.
  intros H Hq Hg Hu Hr Hc Hrun.
  pose proof (drun_run _ _ _ _ H) as Hrt. cbn in Hrt.
  pose proof (DInv_run _ _ _ _ (DInv_init true) H) as I. destruct (I sv q Hc) as [_ I2].
  assert (Hnd : p_st (pay (d_rt d) sv) <> PDropped) by (intros X; apply (I2 eq_refl X); exact Hrun).
  split; [|exact Hnd].
  apply (C03_started_iff _ _ _ Hrt).
  pose proof (C03_services_started _ _ _ sv Hrt Hq Hg Hu Hr) as Hnu.
  (* a created service is PUnit, started, or PDropped *)
  assert (Hshape : forall tr0 d0, drun true dinit tr0 = Some d0 -> forall x y, d_creator d0 x = Some y ->
            p_st (pay (d_rt d0) x) = PUnit \/ p_st (pay (d_rt d0) x) = PDropped \/ started (p_st (pay (d_rt d0) x)) = true).
  { intros tr0. induction tr0 as [|e tr0 IH] using rev_ind; intros d0 H0 x y Hx.
    - cbn in H0. injection H0 as <-. discriminate Hx.
    - rewrite drun_app in H0. destruct (drun true dinit tr0) as [d1|] eqn:E1; [|discriminate].
      cbn [drun] in H0. destruct (dstep true d1 e) as [d2|] eqn:E2; [|discriminate]. injection H0 as <-.
      pose proof (dstep_step _ _ _ _ E2) as Hs2.
      assert (Hcr : d_creator d1 x = Some y \/ exists f, e = NewService (InPayload y) x f).
      { unfold dstep in E2. destruct e;
          try (destruct (step (d_rt d1) _); [injection E2 as <-; cbn in Hx; auto|discriminate]).
        - destruct c.
          + destruct (step (d_rt d1) _); [injection E2 as <-; cbn in Hx; auto|discriminate].
          + destruct (is_run _); [|discriminate].
            destruct (step (d_rt d1) _); [injection E2 as <-|discriminate]. cbn in Hx. unfold upd in Hx.
            destruct (x =? s) eqn:Ee; [|auto]. apply Nat.eqb_eq in Ee. subst. injection Hx as <-. right. eauto.
        - destruct (d_creator d1 s) as [q'|].
          + destruct (true && _); [discriminate|].
            destruct (step (d_rt d1) _); [injection E2 as <-; cbn in Hx; auto|discriminate].
          + destruct (step (d_rt d1) _); [injection E2 as <-; cbn in Hx; auto|discriminate]. }
      destruct Hcr as [Hold|[f ->]].
      + destruct (IH _ eq_refl x y Hold) as [A|[A|A]].
        * exact (unit_next _ _ _ _ Hs2 A).
        * right. left. exact (dropped_perm _ _ _ _ Hs2 A).
        * right. right. apply (started_perm _ _ _ _ Hs2 A).
      + left. remember (d_rt d2) as s2 eqn:Es2. clear Es2. step_inv Hs2; simp_state. rewrite upd_same. reflexivity. }
  destruct (Hshape _ _ H sv q Hc) as [A|[A|A]]; [contradiction|contradiction|exact A].
Qed.

(* ... and without that reference the guarantee is lost: a service can be collected before it starts *)
Lemma C13_reference_is_necessary :
  exists tr d, drun false dinit tr = Some d /\ quiescent (d_rt d) = true
    /\ r_phase (run_ (d_rt d) 0) = Up /\ d_creator d 3 = Some 0 /\ p_st (pay (d_rt d) 0) = PRun
    /\ nstarts 3 tr = 0.
Proof.
  exists [AdoptCall Outside 0 0 Aio; AdoptEnd 0 true; AcceptCall 0; Start 0 Aio 1 1 0 true;
          NewService (InPayload 0) 3 Trio; DropService 3; RunningSet 0; Quiesce].
  eexists. split; [vm_compute; reflexivity|]. vm_compute. repeat split; reflexivity.
Qed.

(* exit status 0 iff the run call returned normally; that needs a stop trigger (SIGINT, ...) *)
Lemma C13_exit_status holds tr d :
  drun holds dinit tr = Some d ->
  (exit_status d = 0 <-> r_phase (run_ (d_rt d) 0) = Ended AReturned) /\
  (exit_status d = 0 -> exists e, In e tr /\ stop_trigger 0 e).
Proof.
  intros H. pose proof (drun_run _ _ _ _ H) as Hrt. cbn in Hrt.
  assert (Hiff : exit_status d = 0 <-> r_phase (run_ (d_rt d) 0) = Ended AReturned).
  { unfold exit_status. destruct (r_phase (run_ (d_rt d) 0)) as [| |c| |o]; try (split; [discriminate|discriminate]).
    destruct o; split; try reflexivity; try discriminate. }
  split; [exact Hiff|]. intros He. apply (C01_only_interrupt_is_silent _ _ _ Hrt). apply Hiff. exact He.
Qed.

(* a failing load (invalid configuration, unknown extension, ...) or a failing service is a failing
   background payload: once nothing is owed the process has exited with non-zero status (unless
   a SIGINT arrived meanwhile) *)
Lemma C13_failure_sets_exit_status holds tr1 tr2 d1 d p o :
  drun holds dinit tr1 = Some d1 -> failing o = true -> background (d_rt d1) p ->
  p_owner (pay (d_rt d1) p) = 0 -> r_phase (run_ (d_rt d1) 0) = Up ->
  drun holds d1 (Finish p o :: tr2) = Some d -> quiescent (d_rt d) = true ->
  ~ In Sigint (tr1 ++ Finish p o :: tr2) -> exit_status d <> 0.
Proof.
  intros H1 Hf Hb Ho Hu H2 Hq Hns.
  pose proof (drun_run _ _ _ _ H1) as R1. cbn in R1. pose proof (drun_run _ _ _ _ H2) as R2.
  assert (Rall : run init (tr1 ++ Finish p o :: tr2) = Some (d_rt d)) by (rewrite run_app, R1; exact R2).
  cbn [run] in R2. destruct (step (d_rt d1) (Finish p o)) as [s2|] eqn:E; [|discriminate].
  assert (Hu' : r_phase (run_ (d_rt d1) (p_owner (pay (d_rt d1) p))) = Up) by (rewrite Ho; exact Hu).
  destruct (C01_failure_closes _ _ _ _ E Hf Hb Hu') as [_ Hfu]. rewrite Ho in Hfu.
  pose proof (failed_up_run _ _ _ _ R2 Hfu) as Hfu'.
  destruct (C01_failure_forces_end _ _ 0 Rall Hq Hfu') as [a [Ha [Hx Hs]]].
  unfold exit_status. rewrite Ha. destruct a; try discriminate. exfalso. apply Hns. apply Hs. reflexivity.
Qed.
