(* C03 / C01: theorems about the registry model (model/Registry.v), for ALL interleavings of registering
   threads, the main thread and the environment. *)
From Coq Require Import List Arith Bool Lia.
From Cobald Require Import model.Registry.
Import ListNotations.

(* ---------------------------------------------------------------- the state invariant *)
Definition table_ok (lc : lifecycle) (s : sys) : Prop :=
  let r := s_reg s in
  match s_pc s with
  | Idle => (lc_end_clears lc = true -> table r = None) /\ running r = false /\ s_flush s = []
  | Launched => (lc_end_clears lc = true -> table r = None) /\ running r = false /\ s_flush s = []
  | Published => table r = Some (gen r) /\ running r = false /\ s_flush s = []
  | Up => table r = Some (gen r) /\ running r = true /\ s_flush s = []
  | Flushing => table r = Some (gen r) /\ running r = true
  | Serving | Ended _ => table r = Some (gen r) /\ running r = true /\ s_flush s = []
  | Closed _ => (lc_aclose_clears lc = false -> table r = Some (gen r)) /\ running r = true /\ s_flush s = []
  | Cleared => (lc_aclose_clears lc = false -> table r = Some (gen r)) /\ running r = false /\ s_flush s = []
  end.

Definition live_ok (s : sys) : Prop :=
  let r := s_reg s in
  (live r = [] \/ live r = [gen r]) /\
  match s_pc s with
  | Idle | Ended _ | Closed _ | Cleared => live r = []
  | _ => True
  end.

Definition Inv (lc : lifecycle) (s : sys) : Prop := table_ok lc s /\ live_ok s.

Lemma Inv0 lc : Inv lc sys0.
Proof. split; cbn; repeat split; auto. Qed.

Lemma remove_all_single g : remove_all g [g] = [].
Proof. cbn. rewrite Nat.eqb_refl. reflexivity. Qed.

Lemma register_pc s p : s_pc (register s p) = s_pc s.
Proof. unfold register. destruct (decide (s_reg s)); reflexivity. Qed.

Lemma register_reg s p :
  table (s_reg (register s p)) = table (s_reg s) /\ running (s_reg (register s p)) = running (s_reg s) /\
  gen (s_reg (register s p)) = gen (s_reg s) /\ live (s_reg (register s p)) = live (s_reg s) /\
  s_flush (register s p) = s_flush s.
Proof. unfold register. destruct (decide (s_reg s)); cbn; auto. Qed.

Lemma Inv_register lc s p : Inv lc s -> Inv lc (register s p).
Proof.
  intros [T L]. destruct (register_reg s p) as [Ht [Hr [Hg [Hl Hf]]]]. pose proof (register_pc s p) as Hp.
  split.
  - unfold table_ok in *. rewrite Hp, Ht, Hr, Hg, Hf. exact T.
  - unfold live_ok in *. rewrite Hp, Hl, Hg. exact L.
Qed.

Ltac fin_inv :=
  cbn in *; repeat split; intros; try discriminate; try tauto; try congruence; intuition (try congruence; try discriminate).

Lemma Inv_step lc s l s' : Inv lc s -> gstep lc s l = Some s' -> Inv lc s'.
Proof.
  intros I H. destruct l as [p|p g| |failed]; cbn [gstep] in H.
  - injection H as <-. apply Inv_register. exact I.
  - destruct (remove_pair p g (s_pend s)); [|discriminate]. injection H as <-.
    destruct I as [T L]. split; [exact T|exact L].
  - destruct I as [T [L1 L2]]. unfold Inv, table_ok, live_ok in *.
    destruct (s_pc s) eqn:E; try discriminate; injection H as <-; cbn; try rewrite E;
      (split; [exact T|split; [|exact I]]);
      (destruct L1 as [Hl|Hl]; rewrite Hl; [left; reflexivity|left; apply remove_all_single]).
  - destruct I as [T [L1 L2]]. unfold Inv, table_ok, live_ok in *.
    destruct (s_pc s) eqn:E.
    + injection H as <-. rewrite L2. fin_inv.
    + injection H as <-. fin_inv.
    + injection H as <-. fin_inv.
    + injection H as <-. fin_inv.
    + destruct (s_flush s) as [|q rest] eqn:Ef.
      * injection H as <-. fin_inv.
      * injection H as <-.
        match goal with |- context [register ?x q] => set (s1 := x) end.
        assert (I1 : Inv lc s1).
        { unfold Inv, table_ok, live_ok; subst s1; cbn. fin_inv. }
        exact (Inv_register lc s1 q I1).
    + destruct (mem (gen (s_reg s)) (live (s_reg s))) eqn:Em; [discriminate|]. injection H as <-.
      destruct L1 as [Hl|Hl].
      * cbn. rewrite Hl. fin_inv.
      * rewrite Hl in Em. cbn in Em. rewrite Nat.eqb_refl in Em. discriminate Em.
    + injection H as <-.
      destruct failed0, (lc_graceful_closes lc), (lc_aclose_clears lc) eqn:Ec; fin_inv.
    + injection H as <-. destruct failed0; fin_inv.
    + injection H as <-. destruct (lc_end_clears lc) eqn:Ee; fin_inv.
Qed.

Lemma Inv_run lc ls : forall s s', Inv lc s -> grun lc s ls = Some s' -> Inv lc s'.
Proof.
  induction ls as [|l ls IH]; intros s s' I H; cbn [grun] in H.
  - injection H as <-. exact I.
  - destruct (gstep lc s l) as [s1|] eqn:E; [|discriminate]. eapply IH; [|exact H]. eapply Inv_step; eauto.
Qed.

Lemma reachable_inv lc ls s : grun lc sys0 ls = Some s -> Inv lc s.
Proof. apply Inv_run. apply Inv0. Qed.

(* ---------------------------------------------------------------- between runs: queued, never handed to a dead runner *)
Lemma R_idle_queues lc ls s :
  lc_end_clears lc = true -> grun lc sys0 ls = Some s ->
  (s_pc s = Idle \/ s_pc s = Launched) -> decide (s_reg s) = DQueue.
Proof.
  intros Hc H Hp. destruct (reachable_inv _ _ _ H) as [T _]. unfold table_ok in T. unfold decide.
  destruct Hp as [Hp|Hp]; rewrite Hp in T; destruct T as [T1 [T2 _]]; rewrite (T1 Hc), T2; reflexivity.
Qed.

(* the flush hands every queued payload to the runners of the run that flushes: none is queued again, none raises *)
Lemma R_flush_hands lc ls s :
  grun lc sys0 ls = Some s -> s_pc s = Flushing -> decide (s_reg s) = DHand (gen (s_reg s)).
Proof.
  intros H Hp. destruct (reachable_inv _ _ _ H) as [T _]. unfold table_ok in T. rewrite Hp in T.
  destruct T as [T1 _]. unfold decide. rewrite T1. reflexivity.
Qed.

(* ---------------------------------------------------------------- registering never raises *)
Lemma decide_no_raise lc s :
  lc_aclose_clears lc = false -> lc_end_clears lc = true -> Inv lc s -> decide (s_reg s) <> DRaise.
Proof.
  intros Ha He [T _]. unfold table_ok in T. unfold decide.
  destruct (s_pc s) as [| | | | | |f|f|]; try destruct f;
    repeat match goal with H : _ /\ _ |- _ => destruct H end;
    repeat match goal with H : _ = _ -> table _ = _ |- _ => first [rewrite (H Ha)|rewrite (H He)]; clear H end;
    repeat match goal with H : table _ = _ |- _ => rewrite H; clear H end;
    repeat match goal with H : running _ = _ |- _ => rewrite H; clear H end;
    try discriminate.
  all: destruct (table (s_reg s)); discriminate.
Qed.

Lemma raised_step lc s l s' :
  lc_aclose_clears lc = false -> lc_end_clears lc = true -> Inv lc s ->
  gstep lc s l = Some s' -> s_raised s = [] -> s_raised s' = [].
Proof.
  intros Ha He I H R.
  assert (Hreg : forall s1 p, Inv lc s1 -> s_raised s1 = [] -> s_raised (register s1 p) = []).
  { intros s1 p I1 R1. unfold register. pose proof (decide_no_raise lc s1 Ha He I1) as N.
    destruct (decide (s_reg s1)); cbn; auto. contradiction. }
  destruct l as [p|p g| |failed]; cbn [gstep] in H.
  - injection H as <-. apply Hreg; assumption.
  - destruct (remove_pair p g (s_pend s)); [|discriminate]. injection H as <-. exact R.
  - destruct (s_pc s); try discriminate; injection H as <-; exact R.
  - destruct (s_pc s) eqn:E; try (injection H as <-; cbn; exact R).
    + destruct (s_flush s) as [|q rest] eqn:Ef; [injection H as <-; exact R|]. injection H as <-.
      apply Hreg; [|exact R].
      destruct I as [T L]. split; unfold table_ok, live_ok in *; cbn; rewrite E in *; [|exact L].
      destruct T as [T1 T2]. auto.
    + destruct (mem _ _); [discriminate|]. injection H as <-. exact R.
    + injection H as <-. destruct (_ && _); exact R.
    + injection H as <-. destruct (lc_end_clears lc); exact R.
Qed.

Lemma R_never_raises lc ls :
  lc_aclose_clears lc = false -> lc_end_clears lc = true ->
  forall s, grun lc sys0 ls = Some s -> s_raised s = [].
Proof.
  intros Ha He.
  assert (G : forall ls s0 s, Inv lc s0 -> s_raised s0 = [] -> grun lc s0 ls = Some s -> s_raised s = []).
  { clear ls. induction ls as [|l ls IH]; intros s0 s I R H; cbn [grun] in H.
    - injection H as <-. exact R.
    - destruct (gstep lc s0 l) as [s1|] eqn:E; [|discriminate].
      apply (IH s1 s); [eapply Inv_step; eauto|eapply raised_step; eauto|exact H]. }
  intros s H. apply (G ls sys0 s); [apply Inv0|reflexivity|exact H].
Qed.

(* with the failure path emptying the table while `running` is still set (the code before 37b254a), a
   registration in that window raises *)
Lemma R_never_raises_refuted_interim :
  exists ls s, grun lc_interim sys0 ls = Some s /\ s_raised s <> [].
Proof.
  exists [LMain false; LMain false; LMain false; LMain false; LMain false; LStop; LMain true; LMain true; LRegister 7].
  eexists. split; [vm_compute; reflexivity|discriminate].
Qed.

(* ---------------------------------------------------------------- stale decisions only while shutting down *)
Definition stale_ok (s : sys) : Prop :=
  forall p g pc, In (p, g, pc) (s_stale s) -> pc <> Idle /\ pc <> Launched.

Lemma stale_register lc s p :
  lc_end_clears lc = true -> Inv lc s -> stale_ok s -> stale_ok (register s p).
Proof.
  intros He [T L] S. unfold register, stale_ok in *.
  destruct (decide (s_reg s)) eqn:D; cbn; try exact S.
  destruct (mem g (live (s_reg s))); [exact S|].
  intros p0 g0 pc [Eq|Hin]; [|eauto]. injection Eq as <- <- <-.
  unfold decide in D. unfold table_ok in T.
  split; intros Hp; rewrite Hp in T; destruct T as [T1 [T2 _]]; rewrite (T1 He), T2 in D; discriminate D.
Qed.

Lemma stale_step lc s l s' :
  lc_end_clears lc = true -> Inv lc s -> gstep lc s l = Some s' -> stale_ok s -> stale_ok s'.
Proof.
  intros He I H S. destruct l as [p|p g| |failed]; cbn [gstep] in H.
  - injection H as <-. apply (stale_register lc); assumption.
  - destruct (remove_pair p g (s_pend s)); [|discriminate]. injection H as <-. exact S.
  - destruct (s_pc s); try discriminate; injection H as <-; exact S.
  - destruct (s_pc s) eqn:E; try (injection H as <-; cbn; exact S).
    + destruct (s_flush s) as [|q rest] eqn:Ef; [injection H as <-; exact S|]. injection H as <-.
      apply (stale_register lc); [exact He| |exact S].
      destruct I as [T L]. split; unfold table_ok, live_ok in *; cbn; rewrite E in *; [|exact L].
      destruct T as [T1 T2]. auto.
    + destruct (mem _ _); [discriminate|]. injection H as <-. exact S.
    + injection H as <-. destruct (_ && _); exact S.
    + injection H as <-. destruct (lc_end_clears lc); exact S.
Qed.

Lemma R_no_stale_between_runs lc ls s :
  lc_end_clears lc = true -> grun lc sys0 ls = Some s -> stale_ok s.
Proof.
  intros He.
  assert (G : forall ls s0 s, Inv lc s0 -> stale_ok s0 -> grun lc s0 ls = Some s -> stale_ok s).
  { clear ls s. induction ls as [|l ls IH]; intros s0 s I S H; cbn [grun] in H.
    - injection H as <-. exact S.
    - destruct (gstep lc s0 l) as [s1|] eqn:E; [|discriminate].
      apply (IH s1 s); [eapply Inv_step; eauto|eapply stale_step; eauto|exact H]. }
  intros H. apply (G ls sys0 s); [apply Inv0|intros p g pc []|exact H].
Qed.

(* the pinned snapshot: after a graceful stop the table keeps the dead runners; a payload registered between
   runs is handed to them (the defect fixed by 23740f1) *)
Lemma R_no_stale_between_runs_refuted_snapshot :
  exists ls s p g, grun lc_snapshot sys0 ls = Some s /\ In (p, g, Idle) (s_stale s) /\ s_pc s = Idle /\ queue (s_reg s) = [].
Proof.
  exists [LMain false; LMain false; LMain false; LMain false; LMain false; LStop;
          LMain false; LMain false; LMain false; LMain false; LRegister 7].
  eexists. exists 7, 1. split; [vm_compute; reflexivity|]. cbn. auto.
Qed.

(* ---------------------------------------------------------------- nothing is lost, nothing is duplicated *)
Definition cnt (p : nat) (l : list nat) : nat := count_occ Nat.eq_dec l p.

Definition tracked (p : nat) (s : sys) : nat :=
  cnt p (queue (s_reg s)) + cnt p (s_flush s) + cnt p (map fst (s_pend s))
  + cnt p (map (fun x => fst (fst x)) (s_handed s)) + cnt p (s_raised s).

Fixpoint nreg (p : nat) (ls : list label) : nat :=
  match ls with
  | [] => 0
  | LRegister q :: r => (if q =? p then 1 else 0) + nreg p r
  | _ :: r => nreg p r
  end.

Lemma cnt_app p a b : cnt p (a ++ b) = cnt p a + cnt p b.
Proof. unfold cnt. apply count_occ_app. Qed.

Lemma cnt_cons p q l : cnt p (q :: l) = (if q =? p then 1 else 0) + cnt p l.
Proof.
  unfold cnt. cbn. destruct (Nat.eq_dec q p) as [->|N].
  - rewrite Nat.eqb_refl. reflexivity.
  - apply Nat.eqb_neq in N. rewrite N. reflexivity.
Qed.

Lemma cnt_nil p : cnt p [] = 0.
Proof. reflexivity. Qed.

Lemma tracked_register s p q :
  tracked p (register s q) = (if q =? p then 1 else 0) + tracked p s.
Proof.
  unfold register, tracked. destruct (decide (s_reg s)); cbn [s_reg s_flush s_pend s_handed s_raised queue with_queue map fst].
  - rewrite cnt_cons. lia.
  - rewrite cnt_app, cnt_cons, cnt_nil. lia.
  - rewrite cnt_cons. lia.
Qed.

Lemma remove_pair_cnt p q g : forall l l',
  remove_pair q g l = Some l' -> cnt p (map fst l) = (if q =? p then 1 else 0) + cnt p (map fst l').
Proof.
  induction l as [|[a b] l IH]; intros l' H; cbn [remove_pair] in H; [discriminate|].
  destruct ((a =? q) && (b =? g)) eqn:E.
  - injection H as <-. apply andb_prop in E. destruct E as [Ea _]. apply Nat.eqb_eq in Ea. subst a.
    cbn [map fst]. rewrite cnt_cons. reflexivity.
  - destruct (remove_pair q g l) as [r|] eqn:Er; [|discriminate]. injection H as <-.
    cbn [map fst]. rewrite !cnt_cons. rewrite (IH r eq_refl). lia.
Qed.

Lemma tracked_step lc p s l s' :
  Inv lc s -> gstep lc s l = Some s' ->
  tracked p s' = (match l with LRegister q => if q =? p then 1 else 0 | _ => 0 end) + tracked p s.
Proof.
  intros I H. destruct l as [q|q g| |failed]; cbn [gstep] in H.
  - injection H as <-. apply tracked_register.
  - destruct (remove_pair q g (s_pend s)) as [pend'|] eqn:E; [|discriminate]. injection H as <-.
    unfold tracked. cbn [s_reg s_flush s_pend s_handed s_raised map fst].
    rewrite cnt_cons. rewrite (remove_pair_cnt p q g _ _ E). lia.
  - destruct (s_pc s); try discriminate; injection H as <-; reflexivity.
  - destruct I as [T _]. unfold table_ok in T.
    destruct (s_pc s) eqn:Ep; try (injection H as <-; reflexivity).
    + (* Up: the queue is taken *) injection H as <-. destruct T as [_ [_ Tf]].
      unfold tracked. cbn [s_reg s_flush s_pend s_handed s_raised queue with_queue]. rewrite Tf, cnt_nil. lia.
    + destruct (s_flush s) as [|q rest] eqn:Ef; [injection H as <-; reflexivity|]. injection H as <-.
      rewrite tracked_register. unfold tracked. cbn [s_reg s_flush s_pend s_handed s_raised]. rewrite Ef, cnt_cons. lia.
    + destruct (mem _ _); [discriminate|]. injection H as <-. reflexivity.
    + injection H as <-. destruct (_ && _); reflexivity.
    + injection H as <-. destruct (lc_end_clears lc); reflexivity.
Qed.

(* every registration is accounted for exactly once: queued, being flushed, decided, handed over or raised *)
Lemma R_conservation lc p ls s : grun lc sys0 ls = Some s -> tracked p s = nreg p ls.
Proof.
  assert (G : forall ls s0 s, Inv lc s0 -> grun lc s0 ls = Some s -> tracked p s = nreg p ls + tracked p s0).
  { clear ls s. induction ls as [|l ls IH]; intros s0 s I H; cbn [grun] in H.
    - injection H as <-. reflexivity.
    - destruct (gstep lc s0 l) as [s1|] eqn:E; [|discriminate].
      rewrite (IH s1 s (Inv_step _ _ _ _ I E) H). rewrite (tracked_step lc p _ _ _ I E).
      destruct l; cbn [nreg]; lia. }
  intros H. rewrite (G ls sys0 s (Inv0 lc) H). unfold tracked, sys0, reg0. cbn. lia.
Qed.
