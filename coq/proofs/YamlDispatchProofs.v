(* C18 -- proofs about model/YamlDispatch.v.
   A. every event in the log of any document is a SafeConstructor method or a call of a plugin
      factory present in the table (no UnsafeCall), for tables satisfying safe_tables;
   B. the recursion budget used by construct_document is always sufficient (no Fuel outcome);
   C. a constructed document (outcome Ok) has no dispatched node whose tag is undefined. *)
From Coq Require Import List NArith Bool Arith Lia.
From Cobald Require Import model.YamlDispatch.
Import ListNotations.

(* ------------------------------------------------------------------ strings, tables *)
Lemma str_eqb_eq : forall a b, str_eqb a b = true -> a = b.
Proof.
  induction a as [|x r IH]; intros [|y s] H; cbn in H; try discriminate; [reflexivity|].
  apply andb_true_iff in H. destruct H as [H1 H2]. apply N.eqb_eq in H1. subst y.
  f_equal. apply IH. exact H2.
Qed.

Lemma str_eqb_refl : forall a, str_eqb a a = true.
Proof. induction a as [|x r IH]; cbn; [reflexivity|]. rewrite N.eqb_refl. exact IH. Qed.

Lemma assoc_in : forall A t (l : list (str * A)) a, assoc t l = Some a -> In (t, a) l.
Proof.
  induction l as [|[k b] r IH]; intros a H; cbn in H; [discriminate|].
  destruct (str_eqb k t) eqn:E.
  - inversion H; subst. apply str_eqb_eq in E. subst. left. reflexivity.
  - right. apply IH. exact H.
Qed.

Lemma safe_tables_parts : forall T, safe_tables T = true ->
  forallb (fun tc => cls_safe (snd tc) && negb (python_tag (fst tc))) (t_exact T) = true
  /\ t_none T = Some Undefined /\ t_multi T = [] /\ t_multi_none T = None /\ t_safe_methods T = true.
Proof.
  intros T H. unfold safe_tables in H.
  repeat (apply andb_true_iff in H; destruct H as [H ?]).
  destruct (t_none T) as [[| | |]|]; try discriminate.
  destruct (t_multi T); try discriminate.
  destruct (t_multi_none T); try discriminate.
  repeat split; assumption.
Qed.

Lemma dispatch_safe : forall T t, safe_tables T = true ->
  match dispatch T t with
  | EUnsafe _ => False
  | EDefault => False
  | EPlugin f _ => registered T f
  | _ => True
  end.
Proof.
  intros T t H. destruct (safe_tables_parts T H) as [Hex [Hn [Hm [Hmn _]]]].
  unfold dispatch. rewrite Hm, Hmn, Hn. cbn [find_prefix of_cls].
  destruct (assoc t (t_exact T)) as [c|] eqn:E; [|exact I].
  apply assoc_in in E. rewrite forallb_forall in Hex. specialize (Hex _ E). cbn [fst snd] in Hex.
  apply andb_true_iff in Hex. destruct Hex as [Hc _].
  destruct c as [k| |f e|nm]; cbn; try exact I.
  - exists t, e. exact E.
  - discriminate.
Qed.

Lemma dispatch_foreign : forall T t, safe_tables T = true ->
  python_tag t = true \/ assoc t (t_exact T) = None -> dispatch T t = EUndefined.
Proof.
  intros T t H Hf. destruct (safe_tables_parts T H) as [Hex [Hn [Hm [Hmn _]]]].
  assert (Hnone : assoc t (t_exact T) = None).
  { destruct Hf as [Hp|Hp]; [|exact Hp].
    destruct (assoc t (t_exact T)) as [c|] eqn:E; [|reflexivity].
    apply assoc_in in E. rewrite forallb_forall in Hex. specialize (Hex _ E). cbn [fst snd] in Hex.
    apply andb_true_iff in Hex. destruct Hex as [_ Hc]. rewrite Hp in Hc. discriminate. }
  unfold dispatch. rewrite Hnone, Hm, Hmn, Hn. reflexivity.
Qed.

(* ------------------------------------------------------------------ induction on node trees *)
Section NodeInd.
  Variable P : node -> Prop.
  Hypothesis HS : forall t v, P (Scalar t v).
  Hypothesis HQ : forall t l, Forall P l -> P (Seq t l).
  Hypothesis HM : forall t l, Forall (fun kv => P (fst kv) /\ P (snd kv)) l -> P (Map t l).

  Fixpoint node_ind' (n : node) : P n :=
    match n with
    | Scalar t v => HS t v
    | Seq t l =>
        HQ t l ((fix go (l : list node) : Forall P l :=
                   match l with
                   | [] => Forall_nil _
                   | c :: r => Forall_cons _ (node_ind' c) (go r)
                   end) l)
    | Map t l =>
        HM t l ((fix go (l : list (node * node)) : Forall (fun kv => P (fst kv) /\ P (snd kv)) l :=
                   match l with
                   | [] => Forall_nil _
                   | (k, v) :: r => Forall_cons (k, v) (conj (node_ind' k) (node_ind' v)) (go r)
                   end) l)
    end.
End NodeInd.

(* ------------------------------------------------------------------ heights *)
Lemma hmax_in : forall A (h : A -> nat) l x, In x l -> h x <= hmax h l.
Proof.
  induction l as [|y r IH]; intros x Hin; [destruct Hin|].
  cbn [hmax fold_right]. fold (hmax h r). destruct Hin as [->|Hin]; [lia|].
  specialize (IH _ Hin). lia.
Qed.

Lemma height_seq_child : forall t l c, In c l -> height c < height (Seq t l).
Proof. intros t l c H. cbn [height]. pose proof (hmax_in _ height l c H). lia. Qed.

Lemma height_map_child : forall t l k v, In (k, v) l ->
  height k < height (Map t l) /\ height v < height (Map t l).
Proof.
  intros t l k v H. cbn [height].
  pose proof (hmax_in _ (fun kv => Nat.max (height (fst kv)) (height (snd kv))) l (k, v) H) as B.
  cbn [fst snd] in B. lia.
Qed.

Lemma height_retag : forall t n, height (retag t n) = height n.
Proof. intros t [ | | ]; reflexivity. Qed.

Definition kvb (b : nat) (kv : node * node) : Prop := height (fst kv) < b /\ height (snd kv) < b.

Lemma kvb_weaken : forall b b' l, b <= b' -> Forall (kvb b) l -> Forall (kvb b') l.
Proof.
  intros b b' l Hle H. eapply Forall_impl; [|exact H]. intros kv [H1 H2]. split; lia.
Qed.

(* flatten_mapping only returns pairs found strictly below the mapping node *)
Definition flat_bound (n : node) : Prop :=
  forall l, flatten_node n = Some l -> Forall (kvb (height n)) l.

Lemma flat_subs_bound : forall subs subm,
  Forall flat_bound subs -> flat_subs flatten_node subs = Some subm ->
  Forall (Forall (kvb (hmax height subs))) subm.
Proof.
  induction subs as [|sub rs IH]; intros subm HF H; cbn [flat_subs] in H.
  - inversion H. constructor.
  - inversion HF as [|? ? Hsub Hrs]; subst.
    destruct sub as [t v|t l|t l]; try discriminate.
    destruct (flatten_node (Map t l)) as [x|] eqn:E1; cbn [obind] in H; try discriminate.
    destruct (flat_subs flatten_node rs) as [xs|] eqn:E2; cbn [obind] in H; try discriminate.
    inversion H; subst. cbn [hmax fold_right]. fold (hmax height rs). constructor.
    + eapply kvb_weaken; [|apply Hsub; exact E1]. lia.
    + eapply Forall_impl; [|apply IH; [exact Hrs|reflexivity]].
      intros a Ha. eapply kvb_weaken; [|exact Ha]. lia.
Qed.

Lemma Forall_concat : forall A (P : A -> Prop) ll, Forall (Forall P) ll -> Forall P (concat ll).
Proof.
  induction ll as [|l r IH]; intros H; cbn; [constructor|].
  inversion H; subst. apply Forall_app. split; [assumption|]. apply IH. assumption.
Qed.

Lemma Forall_rev' : forall A (P : A -> Prop) l, Forall P l -> Forall P (rev l).
Proof.
  intros A P l H. apply Forall_forall. intros x Hx. apply in_rev in Hx.
  rewrite Forall_forall in H. apply H. exact Hx.
Qed.

Definition pair_h (kv : node * node) : nat := Nat.max (height (fst kv)) (height (snd kv)).

Lemma flat_go_bound : forall l m kept,
  Forall (fun kv => (flat_bound (fst kv) /\ (match fst kv with Seq _ s => Forall flat_bound s | _ => True end))
                    /\ (flat_bound (snd kv) /\ (match snd kv with Seq _ s => Forall flat_bound s | _ => True end))) l ->
  flat_go flatten_node l = Some (m, kept) ->
  Forall (kvb (S (hmax pair_h l))) m /\ Forall (kvb (S (hmax pair_h l))) kept.
Proof.
  induction l as [|[k v] r IH]; intros m kept HF H; cbn [flat_go] in H.
  - inversion H; subst. split; constructor.
  - inversion HF as [|? ? [_ [Hv Hvs]] Hr]; subst. cbn [fst snd] in Hv, Hvs.
    cbn [hmax fold_right]. fold (hmax pair_h r).
    assert (Hk1 : height k <= pair_h (k, v)) by (unfold pair_h; cbn [fst snd]; lia).
    assert (Hv1 : height v <= pair_h (k, v)) by (unfold pair_h; cbn [fst snd]; lia).
    assert (Hrest : forall m' kept', flat_go flatten_node r = Some (m', kept') ->
              Forall (kvb (S (Nat.max (pair_h (k, v)) (hmax pair_h r)))) m'
              /\ Forall (kvb (S (Nat.max (pair_h (k, v)) (hmax pair_h r)))) kept').
    { intros m' kept' E. destruct (IH _ _ Hr E) as [A B].
      split; (eapply kvb_weaken; [|eassumption]); lia. }
    destruct (str_eqb (tag_of k) merge_tag).
    + destruct v as [tv vv|tv subs|tv lv]; try discriminate.
      * destruct (flat_subs flatten_node subs) as [subm|] eqn:E1; cbn [obind] in H; try discriminate.
        destruct (flat_go flatten_node r) as [[m' kept']|] eqn:E2; cbn [obind] in H; try discriminate.
        inversion H; subst. cbn [fst snd]. destruct (Hrest _ _ eq_refl) as [A B]. split; [|exact B].
        apply Forall_app. split; [|exact A].
        apply Forall_concat. apply Forall_rev'.
        pose proof (flat_subs_bound subs subm Hvs E1) as Hb.
        eapply Forall_impl; [|exact Hb]. intros a Ha. eapply kvb_weaken; [|exact Ha].
        cbn [height] in Hv1. lia.
      * destruct (flatten_node (Map tv lv)) as [m1|] eqn:E1; cbn [obind] in H; try discriminate.
        destruct (flat_go flatten_node r) as [[m' kept']|] eqn:E2; cbn [obind] in H; try discriminate.
        inversion H; subst. cbn [fst snd]. destruct (Hrest _ _ eq_refl) as [A B]. split; [|exact B].
        apply Forall_app. split; [|exact A].
        eapply kvb_weaken; [|apply Hv; exact E1]. lia.
    + destruct (str_eqb (tag_of k) value_tag).
      * destruct (flat_go flatten_node r) as [[m' kept']|] eqn:E2; cbn [obind] in H; try discriminate.
        inversion H; subst. cbn [fst snd]. destruct (Hrest _ _ eq_refl) as [A B]. split; [exact A|].
        constructor; [|exact B]. split; cbn [fst snd]; [rewrite height_retag|]; lia.
      * destruct (flat_go flatten_node r) as [[m' kept']|] eqn:E2; cbn [obind] in H; try discriminate.
        inversion H; subst. cbn [fst snd]. destruct (Hrest _ _ eq_refl) as [A B]. split; [exact A|].
        constructor; [|exact B]. split; cbn [fst snd]; lia.
Qed.

Lemma flatten_bound_all : forall n,
  flat_bound n /\ match n with Seq _ s => Forall flat_bound s | _ => True end.
Proof.
  apply node_ind'.
  - intros t v. split; [|exact I]. intros l H. discriminate.
  - intros t l HF. split.
    + intros l' H. discriminate.
    + eapply Forall_impl; [|exact HF]. intros a [Ha _]. exact Ha.
  - intros t l HF. split; [|exact I]. intros l' H. cbn [flatten_node] in H.
    destruct (flat_go flatten_node l) as [[m kept]|] eqn:E; cbn [obind] in H; try discriminate.
    inversion H; subst. cbn [fst snd].
    destruct (flat_go_bound l m kept HF E) as [A B].
    apply Forall_app. split; exact A || exact B.
Qed.

Lemma flatten_bound : forall n l, flatten_node n = Some l -> Forall (kvb (height n)) l.
Proof. intros n. apply (proj1 (flatten_bound_all n)). Qed.

Lemma mapping_pairs_bound : forall T n l, mapping_pairs T n = Some l -> Forall (kvb (height n)) l.
Proof.
  intros T n l H. destruct n as [t v|t c|t p]; cbn [mapping_pairs] in H; try discriminate.
  destruct (t_safe_methods T).
  - apply flatten_bound. exact H.
  - inversion H; subst. apply Forall_forall. intros [k v] Hin.
    destruct (height_map_child t l k v Hin). split; assumption.
Qed.

(* ------------------------------------------------------------------ A. what can be logged / deferred *)
Section Sem.
  Variable conv_ok : N -> str -> bool.
  Variable fac : N -> option vclass.
  Variable T : tables.
  Variable P : event -> Prop.
  Hypothesis P_builtin : forall k, P (EvB k).
  Hypothesis P_unsafe : forall t nm, dispatch T t = EUnsafe nm -> P (UnsafeCall nm).
  Hypothesis P_plugin : forall t f e, dispatch T t = EPlugin f e -> P (Call f).

  Definition pend_lt (b : nat) (p : sbk * node) : Prop := height (snd p) < b.

  (* s' extends s: logged events satisfy P, deferred generators sit on nodes lower than b *)
  Definition ext (b : nat) (s s' : st) : Prop :=
    (Forall P (fst s) -> Forall P (fst s'))
    /\ exists extra, snd s' = snd s ++ extra /\ Forall (pend_lt b) extra.

  Definition mext {A} (b : nat) (m : M A) : Prop := forall s r s', m s = (r, s') -> ext b s s'.

  Lemma ext_refl : forall b s, ext b s s.
  Proof. intros b s. split; [tauto|]. exists []. rewrite app_nil_r. split; [reflexivity|constructor]. Qed.

  Lemma ext_trans : forall b s1 s2 s3, ext b s1 s2 -> ext b s2 s3 -> ext b s1 s3.
  Proof.
    intros b s1 s2 s3 [L1 [e1 [E1 F1]]] [L2 [e2 [E2 F2]]]. split; [tauto|].
    exists (e1 ++ e2). rewrite E2, E1, app_assoc. split; [reflexivity|].
    apply Forall_app. split; assumption.
  Qed.

  Lemma ext_weaken : forall b b' s s', b <= b' -> ext b s s' -> ext b' s s'.
  Proof.
    intros b b' s s' Hle [L [e [E F]]]. split; [exact L|]. exists e. split; [exact E|].
    eapply Forall_impl; [|exact F]. unfold pend_lt. intros p Hp. lia.
  Qed.

  Lemma mext_weaken : forall A b b' (m : M A), b <= b' -> mext b m -> mext b' m.
  Proof. intros A b b' m Hle H s r s' E. eapply ext_weaken; [exact Hle|]. eapply H. exact E. Qed.

  Lemma mext_ret : forall A b (a : A), mext b (ret a).
  Proof. intros A b a s r s' E. inversion E; subst. apply ext_refl. Qed.

  Lemma mext_fail : forall A b e, mext b (@fail A e).
  Proof. intros A b e s r s' E. inversion E; subst. apply ext_refl. Qed.

  Lemma mext_lift : forall A b (x : option A), mext b (lift_o x).
  Proof. intros A b x s r s' E. inversion E; subst. apply ext_refl. Qed.

  Lemma mext_emit : forall b e, P e -> mext b (emit e).
  Proof.
    intros b e He s r s' E. inversion E; subst. split; cbn [fst snd].
    - intros H. constructor; assumption.
    - exists []. rewrite app_nil_r. split; [reflexivity|constructor].
  Qed.

  Lemma mext_push : forall b p, pend_lt b p -> mext b (push p).
  Proof.
    intros b p Hp s r s' E. inversion E; subst. split; cbn [fst snd]; [tauto|].
    exists [p]. split; [reflexivity|]. constructor; [exact Hp|constructor].
  Qed.

  Lemma mext_bind : forall A B b (m : M A) (k : A -> M B),
    mext b m -> (forall a, mext b (k a)) -> mext b (bind m k).
  Proof.
    intros A B b m k Hm Hk s r s' E. unfold bind in E.
    destruct (m s) as [[a|e|] s1] eqn:E1.
    - eapply ext_trans; [eapply Hm; exact E1|eapply Hk; exact E].
    - inversion E; subst. eapply Hm. exact E1.
    - inversion E; subst. eapply Hm. exact E1.
  Qed.

  Definition rec_ext (rec : rec_t) : Prop := forall d c, mext (S (height c)) (rec d c).

  Lemma seq_children_ext : forall rec d b l, rec_ext rec ->
    Forall (fun c => height c < b) l -> mext b (seq_children rec d l).
  Proof.
    intros rec d b l Hrec. induction l as [|c r IH]; intros HF; cbn [seq_children].
    - apply mext_ret.
    - inversion HF; subst. apply mext_bind.
      + eapply mext_weaken; [|apply Hrec]. lia.
      + intros _. apply IH. assumption.
  Qed.

  Lemma map_children_ext : forall rec d b l, rec_ext rec ->
    Forall (kvb b) l -> mext b (map_children rec d l).
  Proof.
    intros rec d b l Hrec. induction l as [|[k v] r IH]; intros HF; cbn [map_children].
    - apply mext_ret.
    - inversion HF as [|? ? [Hk Hv] Hr]; subst. cbn [fst snd] in Hk, Hv. apply mext_bind.
      + eapply mext_weaken; [|apply Hrec]. lia.
      + intros kc.
        assert (Hrest : mext b (bind (rec d v) (fun _ => bind (map_children rec d r) (fun all =>
                          ret match kc with VStr => all | _ => false end)))).
        { apply mext_bind; [eapply mext_weaken; [|apply Hrec]; lia|].
          intros _. apply mext_bind; [apply IH; assumption|]. intros all. apply mext_ret. }
        destruct kc; [exact Hrest|exact Hrest|apply mext_fail].
  Qed.

  Lemma pairs_children_ext : forall rec d b l, rec_ext rec ->
    Forall (fun c => height c < b) l -> mext b (pairs_children rec d l).
  Proof.
    intros rec d b l Hrec. induction l as [|c r IH]; intros HF; cbn [pairs_children].
    - apply mext_ret.
    - inversion HF as [|? ? Hc Hr]; subst.
      destruct c as [t v|t q|t [|[k v] [|p2 ps]]]; try apply mext_fail.
      destruct (height_map_child t [(k, v)] k v (or_introl eq_refl)) as [Hk Hv].
      apply mext_bind; [eapply mext_weaken; [|apply Hrec]; lia|]. intros _.
      apply mext_bind; [eapply mext_weaken; [|apply Hrec]; lia|]. intros _.
      apply IH. assumption.
  Qed.

  Lemma seq_kids_lt : forall t l, Forall (fun c => height c < height (Seq t l)) l.
  Proof. intros t l. apply Forall_forall. intros c Hc. apply height_seq_child. exact Hc. Qed.

  Lemma mapping_children_ext : forall rec d n A (k : bool -> M A) b, rec_ext rec ->
    height n <= b -> (forall x, mext b (k x)) ->
    mext b (bind (lift_o (mapping_pairs T n)) (fun l => bind (map_children rec d l) k)).
  Proof.
    intros rec d n A k b Hrec Hle Hk s r s' E. unfold bind at 1, lift_o in E.
    destruct (mapping_pairs T n) as [l|] eqn:Em.
    - revert E. apply mext_bind; [|exact Hk].
      apply map_children_ext; [exact Hrec|].
      eapply kvb_weaken; [exact Hle|]. eapply mapping_pairs_bound. exact Em.
    - inversion E; subst. apply ext_refl.
  Qed.

  Lemma tail_ext : forall rec d k n, rec_ext rec -> mext (height n) (tail T rec d k n).
  Proof.
    intros rec d k n Hrec. destruct k; cbn [tail].
    - apply mext_ret.
    - destruct n as [t v|t l|t l]; try apply mext_fail.
      apply seq_children_ext; [exact Hrec|apply seq_kids_lt].
    - apply mapping_children_ext; [exact Hrec|lia|]. intros x. apply mext_ret.
    - apply mapping_children_ext; [exact Hrec|lia|]. intros x. apply mext_ret.
    - destruct n as [t v|t l|t l]; try apply mext_fail.
      apply pairs_children_ext; [exact Hrec|apply seq_kids_lt].
  Qed.

  Lemma call_ext : forall b f, P (Call f) -> mext b (call fac f).
  Proof.
    intros b f Hf. unfold call. apply mext_bind; [apply mext_emit; exact Hf|].
    intros _. destruct (fac f); [apply mext_ret|apply mext_fail].
  Qed.

  Lemma step_ext : forall rec d n, rec_ext rec -> mext (S (height n)) (step conv_ok fac T rec d n).
  Proof.
    intros rec d n Hrec. unfold step.
    destruct (dispatch T (tag_of n)) as [k| |f eager|nm|] eqn:Ed.
    - assert (Hgen : mext (S (height n))
                (bind (emit (EvB k)) (fun _ => bind (if d then tail T rec d k n else push (k, n)) (fun _ => ret VUnhash)))).
      { apply mext_bind; [apply mext_emit; apply P_builtin|]. intros _.
        apply mext_bind; [|intros _; apply mext_ret].
        destruct d.
        - eapply mext_weaken; [|apply tail_ext; exact Hrec]. lia.
        - apply mext_push. unfold pend_lt. cbn [snd]. lia. }
      destruct k as [c| | | |]; try exact Hgen.
      apply mext_bind; [apply mext_emit; apply P_builtin|]. intros _.
      apply mext_bind; [apply mext_lift|]. intros v.
      destruct (conv_ok c v); [apply mext_ret|apply mext_fail].
    - apply mext_fail.
    - pose proof (P_plugin _ _ _ Ed) as Hf.
      destruct n as [t v|t l|t l].
      + apply call_ext. exact Hf.
      + apply mext_bind; [|intros _; apply call_ext; exact Hf].
        eapply mext_weaken; [|apply seq_children_ext; [exact Hrec|apply (seq_kids_lt t l)]]. lia.
      + apply mapping_children_ext; [exact Hrec|lia|].
        intros [|]; [apply call_ext; exact Hf|apply mext_fail].
    - apply mext_bind; [apply mext_emit; eapply P_unsafe; exact Ed|]. intros _. apply mext_ret.
    - destruct n as [t v|t l|t l].
      + apply mext_ret.
      + apply mext_bind; [|intros _; apply mext_ret].
        eapply mext_weaken; [|apply seq_children_ext; [exact Hrec|apply (seq_kids_lt t l)]]. lia.
      + apply mapping_children_ext; [exact Hrec|lia|]. intros x. apply mext_ret.
  Qed.

  Lemma cons_ext : forall f, rec_ext (cons conv_ok fac T f).
  Proof.
    induction f as [|f IH]; intros d c; cbn [cons].
    - intros s r s' E. inversion E; subst. apply ext_refl.
    - apply step_ext. exact IH.
  Qed.

  Lemma run_pending_ext : forall f b q,
    Forall (fun p => height (snd p) <= b) q -> mext b (run_pending conv_ok fac T f q).
  Proof.
    intros f b q. induction q as [|[k n] r IH]; intros HF; cbn [run_pending].
    - apply mext_ret.
    - inversion HF as [|? ? Hn Hr]; subst. cbn [snd] in Hn. apply mext_bind.
      + eapply mext_weaken; [exact Hn|]. apply tail_ext. apply cons_ext.
      + intros _. apply IH. exact Hr.
  Qed.

  Lemma drain_log : forall r f s res s',
    drain conv_ok fac T r f s = (res, s') -> Forall P (fst s) -> Forall P (fst s').
  Proof.
    induction r as [|r IH]; intros f s res s' E HP; cbn [drain] in E.
    - destruct (snd s); inversion E; subst; exact HP.
    - destruct (snd s) as [|p q] eqn:Eq; [inversion E; subst; exact HP|].
      destruct (run_pending conv_ok fac T f (p :: q) (fst s, [])) as [[u|e|] s1] eqn:E1.
      + eapply IH; [exact E|].
        assert (Hb : Forall (fun x => height (snd x) <= hmax (fun x => height (snd x)) (p :: q)) (p :: q)).
        { apply Forall_forall. intros x Hx. apply (hmax_in _ (fun x => height (snd x))). exact Hx. }
        destruct (run_pending_ext f _ _ Hb _ _ _ E1) as [L _]. apply L. exact HP.
      + inversion E; subst.
        assert (Hb : Forall (fun x => height (snd x) <= hmax (fun x => height (snd x)) (p :: q)) (p :: q)).
        { apply Forall_forall. intros x Hx. apply (hmax_in _ (fun x => height (snd x))). exact Hx. }
        destruct (run_pending_ext f _ _ Hb _ _ _ E1) as [L _]. apply L. exact HP.
      + inversion E; subst.
        assert (Hb : Forall (fun x => height (snd x) <= hmax (fun x => height (snd x)) (p :: q)) (p :: q)).
        { apply Forall_forall. intros x Hx. apply (hmax_in _ (fun x => height (snd x))). exact Hx. }
        destruct (run_pending_ext f _ _ Hb _ _ _ E1) as [L _]. apply L. exact HP.
  Qed.

  Lemma document_log : forall doc, Forall P (snd (construct_document conv_ok fac T doc)).
  Proof.
    intros doc. unfold construct_document.
    destruct (cons conv_ok fac T (S (height doc)) false doc ([], [])) as [r s] eqn:E.
    destruct (cons_ext _ _ _ _ _ _ E) as [L _]. specialize (L (Forall_nil _)).
    destruct r as [v|e|]; cbn [snd]; try (apply Forall_rev'; exact L).
    destruct (drain conv_ok fac T (S (height doc)) (S (height doc)) s) as [r2 s2] eqn:E2.
    pose proof (drain_log _ _ _ _ _ E2 L) as L2.
    destruct r2; cbn [snd]; apply Forall_rev'; exact L2.
  Qed.
End Sem.

(* ------------------------------------------------------------------ B. the budget suffices *)
Section FuelFree.
  Variable conv_ok : N -> str -> bool.
  Variable fac : N -> option vclass.
  Variable T : tables.

  Definition nf {A} (m : M A) : Prop := forall s, fst (m s) <> Fuel.

  Lemma nf_ret : forall A (a : A), nf (ret a).
  Proof. intros A a s. cbn. discriminate. Qed.
  Lemma nf_fail : forall A e, nf (@fail A e).
  Proof. intros A e s. cbn. discriminate. Qed.
  Lemma nf_emit : forall e, nf (emit e).
  Proof. intros e s. cbn. discriminate. Qed.
  Lemma nf_push : forall p, nf (push p).
  Proof. intros p s. cbn. discriminate. Qed.
  Lemma nf_lift_o : forall A (x : option A), nf (lift_o x).
  Proof. intros A x s. unfold lift_o. cbn. destruct x; discriminate. Qed.

  Lemma nf_bind : forall A B (m : M A) (k : A -> M B), nf m -> (forall a, nf (k a)) -> nf (bind m k).
  Proof.
    intros A B m k Hm Hk s. unfold bind. specialize (Hm s).
    destruct (m s) as [[a|e|] s1]; cbn [fst] in *; [apply Hk|discriminate|congruence].
  Qed.

  (* rec is fuel-free on nodes lower than b *)
  Definition rec_nf (b : nat) (rec : rec_t) : Prop := forall d c, height c < b -> nf (rec d c).

  Lemma seq_children_nf : forall rec d b l, rec_nf b rec ->
    Forall (fun c => height c < b) l -> nf (seq_children rec d l).
  Proof.
    intros rec d b l Hrec. induction l as [|c r IH]; intros HF; cbn [seq_children]; [apply nf_ret|].
    inversion HF; subst. apply nf_bind; [apply Hrec; assumption|]. intros _. apply IH. assumption.
  Qed.

  Lemma map_children_nf : forall rec d b l, rec_nf b rec -> Forall (kvb b) l -> nf (map_children rec d l).
  Proof.
    intros rec d b l Hrec. induction l as [|[k v] r IH]; intros HF; cbn [map_children]; [apply nf_ret|].
    inversion HF as [|? ? [Hk Hv] Hr]; subst. cbn [fst snd] in Hk, Hv.
    apply nf_bind; [apply Hrec; exact Hk|]. intros kc.
    assert (Hrest : nf (bind (rec d v) (fun _ => bind (map_children rec d r) (fun all =>
                          ret match kc with VStr => all | _ => false end)))).
    { apply nf_bind; [apply Hrec; exact Hv|]. intros _.
      apply nf_bind; [apply IH; exact Hr|]. intros all. apply nf_ret. }
    destruct kc; [exact Hrest|exact Hrest|apply nf_fail].
  Qed.

  Lemma pairs_children_nf : forall rec d b l, rec_nf b rec ->
    Forall (fun c => height c < b) l -> nf (pairs_children rec d l).
  Proof.
    intros rec d b l Hrec. induction l as [|c r IH]; intros HF; cbn [pairs_children]; [apply nf_ret|].
    inversion HF as [|? ? Hc Hr]; subst.
    destruct c as [t v|t q|t [|[k v] [|p2 ps]]]; try apply nf_fail.
    destruct (height_map_child t [(k, v)] k v (or_introl eq_refl)) as [Hk Hv].
    apply nf_bind; [apply Hrec; lia|]. intros _.
    apply nf_bind; [apply Hrec; lia|]. intros _. apply IH. exact Hr.
  Qed.

  Lemma mapping_children_nf : forall rec d n A (k : bool -> M A), rec_nf (height n) rec ->
    (forall x, nf (k x)) ->
    nf (bind (lift_o (mapping_pairs T n)) (fun l => bind (map_children rec d l) k)).
  Proof.
    intros rec d n A k Hrec Hk s. unfold bind at 1, lift_o.
    destruct (mapping_pairs T n) as [l|] eqn:Em; [|cbn; discriminate].
    apply nf_bind; [|exact Hk]. eapply map_children_nf; [exact Hrec|].
    eapply mapping_pairs_bound. exact Em.
  Qed.

  Lemma tail_nf : forall rec d k n, rec_nf (height n) rec -> nf (tail T rec d k n).
  Proof.
    intros rec d k n Hrec. destruct k; cbn [tail].
    - apply nf_ret.
    - destruct n as [t v|t l|t l]; try apply nf_fail.
      eapply seq_children_nf; [exact Hrec|apply seq_kids_lt].
    - apply mapping_children_nf; [exact Hrec|]. intros x. apply nf_ret.
    - apply mapping_children_nf; [exact Hrec|]. intros x. apply nf_ret.
    - destruct n as [t v|t l|t l]; try apply nf_fail.
      eapply pairs_children_nf; [exact Hrec|apply seq_kids_lt].
  Qed.

  Lemma call_nf : forall f, nf (call fac f).
  Proof.
    intros f. unfold call. apply nf_bind; [apply nf_emit|]. intros _.
    destruct (fac f); [apply nf_ret|apply nf_fail].
  Qed.

  Lemma step_nf : forall rec d n, rec_nf (height n) rec -> nf (step conv_ok fac T rec d n).
  Proof.
    intros rec d n Hrec. unfold step.
    destruct (dispatch T (tag_of n)) as [k| |f eager|nm|].
    - assert (Hgen : nf (bind (emit (EvB k)) (fun _ =>
                 bind (if d then tail T rec d k n else push (k, n)) (fun _ => ret VUnhash)))).
      { apply nf_bind; [apply nf_emit|]. intros _.
        apply nf_bind; [|intros _; apply nf_ret].
        destruct d; [apply tail_nf; exact Hrec|apply nf_push]. }
      destruct k as [c| | | |]; try exact Hgen.
      apply nf_bind; [apply nf_emit|]. intros _.
      apply nf_bind; [apply nf_lift_o|]. intros v.
      destruct (conv_ok c v); [apply nf_ret|apply nf_fail].
    - apply nf_fail.
    - destruct n as [t v|t l|t l].
      + apply call_nf.
      + apply nf_bind; [|intros _; apply call_nf].
        eapply seq_children_nf; [exact Hrec|apply (seq_kids_lt t l)].
      + apply mapping_children_nf; [exact Hrec|]. intros [|]; [apply call_nf|apply nf_fail].
    - apply nf_bind; [apply nf_emit|]. intros _. apply nf_ret.
    - destruct n as [t v|t l|t l].
      + apply nf_ret.
      + apply nf_bind; [|intros _; apply nf_ret].
        eapply seq_children_nf; [exact Hrec|apply (seq_kids_lt t l)].
      + apply mapping_children_nf; [exact Hrec|]. intros x. apply nf_ret.
  Qed.

  Lemma cons_nf : forall f, rec_nf f (cons conv_ok fac T f).
  Proof.
    induction f as [|f IH]; intros d c Hc; [lia|]. cbn [cons].
    apply step_nf. intros d' c' Hc'. apply IH. lia.
  Qed.

  Lemma run_pending_nf : forall f q,
    Forall (fun p => height (snd p) <= f) q -> nf (run_pending conv_ok fac T f q).
  Proof.
    intros f q. induction q as [|[k n] r IH]; intros HF; cbn [run_pending]; [apply nf_ret|].
    inversion HF as [|? ? Hn Hr]; subst. cbn [snd] in Hn. apply nf_bind.
    - apply tail_nf. intros d c Hc. apply cons_nf. lia.
    - intros _. apply IH. exact Hr.
  Qed.

  Lemma drain_nf : forall r f s,
    Forall (pend_lt r) (snd s) -> r <= f -> fst (drain conv_ok fac T r f s) <> Fuel.
  Proof.
    induction r as [|r IH]; intros f s HF Hle; cbn [drain].
    - destruct (snd s) as [|p q]; [cbn; discriminate|].
      inversion HF as [|? ? Hp _]; subst. unfold pend_lt in Hp. lia.
    - destruct (snd s) as [|p q] eqn:Eq; [cbn; discriminate|].
      assert (Hq : Forall (fun x => height (snd x) <= r) (p :: q)).
      { eapply Forall_impl; [|exact HF]. unfold pend_lt. intros x Hx. lia. }
      destruct (run_pending conv_ok fac T f (p :: q) (fst s, [])) as [[u|e|] s1] eqn:E1.
      + apply IH; [|lia].
        destruct (run_pending_ext conv_ok fac T (fun _ => True) (fun _ => I) (fun _ _ _ => I) (fun _ _ _ _ => I)
                    f r (p :: q) Hq _ _ _ E1) as [_ [extra [Ex Fx]]].
        cbn [snd] in Ex. rewrite Ex. exact Fx.
      + cbn. discriminate.
      + exfalso. apply (run_pending_nf f (p :: q)) with (s := (fst s, [])).
        * eapply Forall_impl; [|exact Hq]. cbn beta. intros x Hx. lia.
        * rewrite E1. reflexivity.
  Qed.

  Lemma document_no_fuel : forall doc, fst (construct_document conv_ok fac T doc) <> Fuel.
  Proof.
    intros doc. unfold construct_document.
    destruct (cons conv_ok fac T (S (height doc)) false doc ([], [])) as [r s] eqn:E.
    pose proof (cons_nf (S (height doc)) false doc (Nat.lt_succ_diag_r _) ([], [])) as Hnf.
    rewrite E in Hnf. cbn [fst] in Hnf.
    destruct r as [v|e|]; [|cbn; discriminate|congruence].
    destruct (cons_ext conv_ok fac T (fun _ => True) (fun _ => I) (fun _ _ _ => I) (fun _ _ _ _ => I)
                (S (height doc)) false doc _ _ _ E) as [_ [extra [Ex Fx]]].
    cbn [snd] in Ex.
    pose proof (drain_nf (S (height doc)) (S (height doc)) s) as Hd.
    rewrite Ex in Hd. specialize (Hd Fx (Nat.le_refl _)).
    destruct (drain conv_ok fac T (S (height doc)) (S (height doc)) s) as [[u|e|] s2]; cbn [fst] in *;
      [discriminate|discriminate|congruence].
  Qed.
End FuelFree.

(* ------------------------------------------------------------------ C. constructed => every dispatched tag is defined *)
Section Good.
  Variable conv_ok : N -> str -> bool.
  Variable fac : N -> option vclass.
  Variable T : tables.

  Definition good (n : node) : Prop := forall m, visits T n m -> dispatch T (tag_of m) <> EUndefined.
  Definition pgood (p : sbk * node) : Prop := Forall good (tail_children T (fst p) (snd p)).

  Lemma good_intro : forall n,
    dispatch T (tag_of n) <> EUndefined -> Forall good (children_of T n) -> good n.
  Proof.
    intros n Hd Hc m Hv. inversion Hv as [|? c ? Hin Hcm]; subst; [exact Hd|].
    rewrite Forall_forall in Hc. apply (Hc c Hin). exact Hcm.
  Qed.

  (* on success: the state grows by deferred generators only (none under deep construction), and
     once those are good, G holds *)
  Definition okx {A} (d : bool) (G : Prop) (m : M A) : Prop :=
    forall s a s', m s = (Ok a, s') ->
      exists extra, snd s' = snd s ++ extra /\ (d = true -> extra = []) /\ (Forall pgood extra -> G).

  Lemma okx_weaken : forall A d (G G' : Prop) (m : M A), (G -> G') -> okx d G m -> okx d G' m.
  Proof.
    intros A d G G' m HG H s a s' E. destruct (H s a s' E) as [x [E1 [E2 E3]]].
    exists x. repeat split; auto.
  Qed.

  Lemma okx_flag : forall A d d' G (m : M A), (d = true -> d' = true) -> okx d' G m -> okx d G m.
  Proof.
    intros A d d' G m Hd H s a s' E. destruct (H s a s' E) as [x [E1 [E2 E3]]].
    exists x. repeat split; auto.
  Qed.

  Lemma okx_pure : forall A d (m : M A), (forall s a s', m s = (Ok a, s') -> snd s' = snd s) -> okx d True m.
  Proof.
    intros A d m H s a s' E. exists []. rewrite app_nil_r. repeat split; auto. eapply H. exact E.
  Qed.

  Lemma okx_ret : forall A d (a : A), okx d True (ret a).
  Proof. intros. apply okx_pure. intros s a0 s' E. inversion E; reflexivity. Qed.
  Lemma okx_emit : forall d e, okx d True (emit e).
  Proof. intros. apply okx_pure. intros s a0 s' E. inversion E; reflexivity. Qed.
  Lemma okx_lift_o : forall A d (x : option A), okx d True (lift_o x).
  Proof. intros. apply okx_pure. intros s a0 s' E. inversion E; reflexivity. Qed.
  Lemma okx_fail : forall A d G e, okx d G (@fail A e).
  Proof. intros A d G e s a s' E. inversion E. Qed.

  Lemma okx_push : forall p, okx false (pgood p) (push p).
  Proof.
    intros p s a s' E. inversion E; subst. exists [p]. cbn [snd]. repeat split; [discriminate|].
    intros H. inversion H; assumption.
  Qed.

  Lemma okx_bind : forall A B d (G1 G2 : Prop) (m : M A) (k : A -> M B),
    okx d G1 m -> (forall a, okx d G2 (k a)) -> okx d (G1 /\ G2) (bind m k).
  Proof.
    intros A B d G1 G2 m k Hm Hk s b s' E. unfold bind in E.
    destruct (m s) as [[a|e|] s1] eqn:E1; try (inversion E; fail).
    destruct (Hm _ _ _ E1) as [x1 [A1 [A2 A3]]]. destruct (Hk a _ _ _ E) as [x2 [B1 [B2 B3]]].
    exists (x1 ++ x2). rewrite B1, A1, app_assoc. repeat split.
    - intros Hd. rewrite (A2 Hd), (B2 Hd). reflexivity.
    - apply A3. apply Forall_app in H. tauto.
    - apply B3. apply Forall_app in H. tauto.
  Qed.

  Definition rec_ok (rec : rec_t) : Prop := forall d c, okx d (good c) (rec d c).

  Lemma seq_children_ok : forall rec d l, rec_ok rec -> okx d (Forall good l) (seq_children rec d l).
  Proof.
    intros rec d l Hrec. induction l as [|c r IH]; cbn [seq_children].
    - eapply okx_weaken; [|apply okx_ret]. intros _. constructor.
    - eapply okx_weaken; [|apply okx_bind; [apply Hrec|intros _; exact IH]].
      intros [H1 H2]. constructor; assumption.
  Qed.

  Lemma map_children_ok : forall rec d l, rec_ok rec ->
    okx d (Forall good (kv_nodes l)) (map_children rec d l).
  Proof.
    intros rec d l Hrec. induction l as [|[k v] r IH]; cbn [map_children].
    - eapply okx_weaken; [|apply okx_ret]. intros _. constructor.
    - cbn [kv_nodes flat_map fst snd app]. fold (kv_nodes r).
      eapply okx_weaken; [|apply okx_bind; [apply (Hrec d k)|]].
      + intros [H1 H2]. constructor; [exact H1|exact H2].
      + intros kc.
        assert (Hrest : okx d (Forall good (v :: kv_nodes r))
                  (bind (rec d v) (fun _ => bind (map_children rec d r) (fun all =>
                          ret match kc with VStr => all | _ => false end)))).
        { eapply okx_weaken; [|apply okx_bind; [apply (Hrec d v)|intros _; apply okx_bind; [exact IH|intros all; apply okx_ret]]].
          intros [H1 [H2 _]]. constructor; assumption. }
        destruct kc; [exact Hrest|exact Hrest|apply okx_fail].
  Qed.

  Lemma pairs_children_ok : forall rec d l, rec_ok rec ->
    okx d (Forall good (pairs_nodes l)) (pairs_children rec d l).
  Proof.
    intros rec d l Hrec. induction l as [|c r IH]; cbn [pairs_children].
    - eapply okx_weaken; [|apply okx_ret]. intros _. constructor.
    - destruct c as [t v|t q|t [|[k v] [|p2 ps]]]; try apply okx_fail.
      cbn [pairs_nodes flat_map app]. fold (pairs_nodes r).
      eapply okx_weaken; [|apply okx_bind; [apply (Hrec d k)|intros _; apply okx_bind; [apply (Hrec d v)|intros _; exact IH]]].
      intros [H1 [H2 H3]]. constructor; [exact H1|]. constructor; assumption.
  Qed.

  Lemma mapping_children_ok : forall rec d n A (k : bool -> M A) (G : Prop), rec_ok rec ->
    (forall x, okx d G (k x)) ->
    okx d (Forall good (mapping_nodes T n) /\ G)
        (bind (lift_o (mapping_pairs T n)) (fun l => bind (map_children rec d l) k)).
  Proof.
    intros rec d n A k G Hrec Hk s a s' E. unfold bind at 1, lift_o in E. unfold mapping_nodes.
    destruct (mapping_pairs T n) as [l|]; [|inversion E].
    revert E. apply okx_bind; [apply map_children_ok; exact Hrec|exact Hk].
  Qed.

  Lemma tail_ok : forall rec d k n, rec_ok rec -> okx d (pgood (k, n)) (tail T rec d k n).
  Proof.
    intros rec d k n Hrec. unfold pgood. cbn [fst snd]. destruct k; cbn [tail tail_children].
    - eapply okx_weaken; [|apply okx_ret]. intros _. constructor.
    - destruct n as [t v|t l|t l]; try apply okx_fail. apply seq_children_ok. exact Hrec.
    - eapply okx_weaken; [|apply mapping_children_ok with (G := True); [exact Hrec|intros x; apply okx_ret]]. tauto.
    - eapply okx_weaken; [|apply mapping_children_ok with (G := True); [exact Hrec|intros x; apply okx_ret]]. tauto.
    - destruct n as [t v|t l|t l]; try apply okx_fail. apply pairs_children_ok. exact Hrec.
  Qed.

  Lemma call_ok : forall d f, okx d True (call fac f).
  Proof.
    intros d f. unfold call. eapply okx_weaken; [|apply okx_bind; [apply okx_emit|]].
    - intros _. exact I.
    - intros _. destruct (fac f); [apply okx_ret|apply okx_fail].
  Qed.

  Lemma step_ok : forall rec d n, rec_ok rec -> okx d (good n) (step conv_ok fac T rec d n).
  Proof.
    intros rec d n Hrec. unfold step.
    destruct (dispatch T (tag_of n)) as [k| |f eager|nm|] eqn:Ed.
    - assert (Hgen : okx d (good n) (bind (emit (EvB k)) (fun _ =>
                 bind (if d then tail T rec d k n else push (k, n)) (fun _ => ret VUnhash)))).
      { eapply okx_weaken; [|apply okx_bind; [apply okx_emit|intros _; apply okx_bind;
                                 [instantiate (1 := pgood (k, n))|intros _; apply okx_ret]]].
        - intros [_ [Hp _]]. apply good_intro; [rewrite Ed; discriminate|].
          unfold children_of. rewrite Ed. exact Hp.
        - destruct d; [apply tail_ok; exact Hrec|apply okx_push]. }
      destruct k as [c| | | |]; try exact Hgen.
      eapply okx_weaken; [|apply okx_bind; [apply okx_emit|intros _; apply okx_bind; [apply okx_lift_o|]]].
      + intros _. apply good_intro; [rewrite Ed; discriminate|].
        unfold children_of. rewrite Ed. constructor.
      + intros v. instantiate (1 := True). destruct (conv_ok c v); [apply okx_ret|apply okx_fail].
    - apply okx_fail.
    - assert (Hflag : d = true -> d || eager = true) by (intros ->; reflexivity).
      destruct n as [t v|t l|t l].
      + eapply okx_weaken; [|apply call_ok]. intros _.
        apply good_intro; [rewrite Ed; discriminate|]. unfold children_of. rewrite Ed. constructor.
      + eapply okx_weaken; [|apply okx_bind; [eapply okx_flag; [exact Hflag|apply seq_children_ok; exact Hrec]|intros _; apply call_ok]].
        intros [Hl _]. apply good_intro; [rewrite Ed; discriminate|]. unfold children_of. rewrite Ed. exact Hl.
      + eapply okx_weaken; [|eapply okx_flag; [exact Hflag|apply mapping_children_ok with (G := True); [exact Hrec|]]].
        * intros [Hl _]. apply good_intro; [rewrite Ed; discriminate|]. unfold children_of. rewrite Ed. exact Hl.
        * intros [|]; [apply call_ok|apply okx_fail].
    - eapply okx_weaken; [|apply okx_bind; [apply okx_emit|intros _; apply okx_ret]].
      intros _. apply good_intro; [rewrite Ed; discriminate|]. unfold children_of. rewrite Ed. constructor.
    - destruct n as [t v|t l|t l].
      + eapply okx_weaken; [|apply okx_ret]. intros _.
        apply good_intro; [rewrite Ed; discriminate|]. unfold children_of. rewrite Ed. constructor.
      + eapply okx_weaken; [|apply okx_bind; [apply seq_children_ok; exact Hrec|intros _; apply okx_ret]].
        intros [Hl _]. apply good_intro; [rewrite Ed; discriminate|]. unfold children_of. rewrite Ed. exact Hl.
      + eapply okx_weaken; [|apply mapping_children_ok with (G := True); [exact Hrec|intros x; apply okx_ret]].
        intros [Hl _]. apply good_intro; [rewrite Ed; discriminate|]. unfold children_of. rewrite Ed. exact Hl.
  Qed.

  Lemma cons_ok : forall f, rec_ok (cons conv_ok fac T f).
  Proof.
    induction f as [|f IH]; intros d c; cbn [cons].
    - intros s a s' E. inversion E.
    - apply step_ok. exact IH.
  Qed.

  Lemma run_pending_ok : forall f q, okx false (Forall pgood q) (run_pending conv_ok fac T f q).
  Proof.
    intros f q. induction q as [|[k n] r IH]; cbn [run_pending].
    - eapply okx_weaken; [|apply okx_ret]. intros _. constructor.
    - eapply okx_weaken; [|apply okx_bind; [apply tail_ok; apply cons_ok|intros _; exact IH]].
      intros [H1 H2]. constructor; assumption.
  Qed.

  Lemma drain_ok : forall r f s u s', drain conv_ok fac T r f s = (Ok u, s') -> Forall pgood (snd s).
  Proof.
    induction r as [|r IH]; intros f s u s' E; cbn [drain] in E.
    - destruct (snd s); [constructor|inversion E].
    - destruct (snd s) as [|p q] eqn:Eq; [constructor|].
      destruct (run_pending conv_ok fac T f (p :: q) (fst s, [])) as [[u1|e|] s1] eqn:E1; try (inversion E; fail).
      destruct (run_pending_ok f (p :: q) _ _ _ E1) as [x [X1 [_ X3]]]. cbn [snd app] in X1.
      apply X3. rewrite <- X1. eapply IH. exact E.
  Qed.

  Lemma document_ok : forall doc v, fst (construct_document conv_ok fac T doc) = Ok v -> good doc.
  Proof.
    intros doc v H. unfold construct_document in H.
    destruct (cons conv_ok fac T (S (height doc)) false doc ([], [])) as [r s] eqn:E.
    destruct r as [v0|e|]; try (cbn in H; discriminate).
    destruct (drain conv_ok fac T (S (height doc)) (S (height doc)) s) as [[u|e|] s2] eqn:E2; try (cbn in H; discriminate).
    destruct (cons_ok _ _ _ _ _ _ E) as [x [X1 [_ X3]]]. cbn [snd app] in X1.
    apply X3. rewrite <- X1. eapply drain_ok. exact E2.
  Qed.
End Good.

(* ------------------------------------------------------------------ the property theorems *)
Definition ev_ok (T : tables) (e : event) : Prop :=
  match e with EvB _ => True | Call f => registered T f | UnsafeCall _ => False end.

Theorem only_plugins_run : forall conv_ok fac T doc, safe_tables T = true ->
  forall c, In c (calls (snd (construct_document conv_ok fac T doc))) ->
  exists f, c = Call f /\ registered T f.
Proof.
  intros conv_ok fac T doc Hs c Hc.
  assert (HF : Forall (ev_ok T) (snd (construct_document conv_ok fac T doc))).
  { apply document_log.
    - intros k. exact I.
    - intros t nm Hd. pose proof (dispatch_safe T t Hs) as H. rewrite Hd in H. exact H.
    - intros t f e Hd. pose proof (dispatch_safe T t Hs) as H. rewrite Hd in H. exact H. }
  unfold calls in Hc. apply filter_In in Hc. destruct Hc as [Hin Hcall].
  rewrite Forall_forall in HF. specialize (HF c Hin).
  destruct c as [k|f|nm]; cbn in Hcall, HF; [discriminate| |contradiction].
  exists f. split; [reflexivity|exact HF].
Qed.

Definition is_err {A} (r : res A) : Prop := exists e, r = Err e.

Theorem foreign_tag_rejected_partial : forall conv_ok fac T doc m, safe_tables T = true ->
  visits T doc m ->
  python_tag (tag_of m) = true \/ assoc (tag_of m) (t_exact T) = None ->
  is_err (fst (construct_document conv_ok fac T doc))
  /\ forall nm, ~ In (UnsafeCall nm) (snd (construct_document conv_ok fac T doc)).
Proof.
  intros conv_ok fac T doc m Hs Hv Hf. split.
  - destruct (fst (construct_document conv_ok fac T doc)) as [v|e|] eqn:E.
    + exfalso. apply (document_ok conv_ok fac T doc v E m Hv). apply dispatch_foreign; assumption.
    + exists e. reflexivity.
    + exfalso. apply (document_no_fuel conv_ok fac T doc). exact E.
  - intros nm Hin.
    destruct (only_plugins_run conv_ok fac T doc Hs (UnsafeCall nm)) as [f [Hf' _]]; [|discriminate].
    unfold calls. apply filter_In. split; [exact Hin|reflexivity].
Qed.

Lemma registered_is_entrypoint : forall T eps f, plugins_match T eps = true ->
  registered T f -> In f (map snd eps).
Proof.
  intros T eps f Hm [t [e Hin]]. unfold plugins_match in Hm.
  apply andb_true_iff in Hm. destruct Hm as [Hsub _]. unfold subset_b in Hsub.
  rewrite forallb_forall in Hsub.
  assert (Hp : In (t, f) (plugin_entries T)).
  { unfold plugin_entries. apply in_flat_map. exists (t, Plugin f e). split; [exact Hin|]. cbn. left. reflexivity. }
  specialize (Hsub _ Hp). apply existsb_exists in Hsub. destruct Hsub as [[t' f'] [Hin' Heq]].
  unfold pair_eqb in Heq. cbn [fst snd] in Heq. apply andb_true_iff in Heq. destruct Heq as [_ Hn].
  apply N.eqb_eq in Hn. subst f'. apply in_map_iff. exists (t', f). split; [reflexivity|exact Hin'].
Qed.
