(* Lemmas about the toposort model (model/Toposort.v): fuel sufficiency, success on acyclic
   dependency maps, the layers are a partition of the items, and every dependency is emitted in a
   strictly earlier layer than its dependant. *)
From Coq Require Import List Arith Bool Permutation Lia Relations Sorted.
From Cobald Require Import model.Toposort.
Import ListNotations.

(* ---------- generic list facts (see also kit/SetKit.v) ---------- *)
Lemma NoDup_keys_filter : forall {B} (f : name * B -> bool) (d : list (name * B)),
  NoDup (map fst d) -> NoDup (map fst (filter f d)).
Proof.
  induction d as [|x r IH]; intros H; cbn [filter map]; [constructor|].
  cbn [map] in H. inversion H as [|? ? Hx Hr]; subst. destruct (f x); cbn [map].
  - constructor; [|apply IH; exact Hr]. intros Hin. apply Hx.
    apply in_map_iff in Hin. destruct Hin as [y [E Hy]]. apply filter_In in Hy.
    apply in_map_iff. exists y. tauto.
  - apply IH; exact Hr.
Qed.

Lemma NoDup_keys_unique : forall {B} (d : list (name * B)) k v1 v2,
  NoDup (map fst d) -> In (k, v1) d -> In (k, v2) d -> v1 = v2.
Proof.
  induction d as [|[k0 v0] r IH]; intros k v1 v2 H H1 H2; [destruct H1|].
  cbn [map fst] in H. inversion H as [|? ? Hx Hr]; subst.
  destruct H1 as [E1|H1]; destruct H2 as [E2|H2].
  - congruence.
  - inversion E1; subst. exfalso. apply Hx. apply in_map_iff. exists (k, v2). split; [reflexivity|exact H2].
  - inversion E2; subst. exfalso. apply Hx. apply in_map_iff. exists (k, v1). split; [reflexivity|exact H1].
  - eapply IH; eassumption.
Qed.

(* ---------- before_in / pos ---------- *)
Lemma pos_app_notin : forall x l1 l2, ~ In x l1 -> pos x (l1 ++ l2) = length l1 + pos x l2.
Proof.
  induction l1 as [|y r IH]; intros l2 H; cbn [app pos length]; [reflexivity|].
  destruct (Nat.eqb x y) eqn:E.
  - apply Nat.eqb_eq in E. subst y. exfalso. apply H. left. reflexivity.
  - rewrite IH; [lia|]. intros Hin. apply H. right. exact Hin.
Qed.

Lemma pos_head : forall x l, pos x (x :: l) = 0.
Proof. intros. cbn [pos]. rewrite Nat.eqb_refl. reflexivity. Qed.

Lemma before_in_pos : forall a b l, NoDup l -> before_in a b l -> pos a l < pos b l.
Proof.
  intros a b l Hnd [l1 [l2 [l3 ->]]].
  assert (Ha : ~ In a l1).
  { intros Hin. apply NoDup_remove_2 in Hnd. apply Hnd. apply in_or_app. left. exact Hin. }
  assert (Hb : ~ In b (l1 ++ a :: l2)).
  { replace (l1 ++ a :: l2 ++ b :: l3) with ((l1 ++ a :: l2) ++ b :: l3) in Hnd
      by (rewrite <- app_assoc; reflexivity).
    apply NoDup_remove_2 in Hnd. intros Hin. apply Hnd. apply in_or_app. left. exact Hin. }
  rewrite (pos_app_notin a l1) by exact Ha. rewrite pos_head.
  replace (l1 ++ a :: l2 ++ b :: l3) with ((l1 ++ a :: l2) ++ b :: l3)
    by (rewrite <- app_assoc; reflexivity).
  rewrite (pos_app_notin b (l1 ++ a :: l2)) by exact Hb. rewrite pos_head.
  rewrite app_length. cbn [length]. lia.
Qed.

Lemma before_in_flat_map : forall {A B} (f : A -> list B) a b x y l,
  before_in a b l -> f a = [x] -> f b = [y] -> before_in x y (flat_map f l).
Proof.
  intros A B f a b x y l [l1 [l2 [l3 ->]]] Ha Hb.
  exists (flat_map f l1), (flat_map f l2), (flat_map f l3).
  rewrite flat_map_app. cbn [flat_map]. rewrite flat_map_app. cbn [flat_map].
  rewrite Ha, Hb. reflexivity.
Qed.

Lemma before_in_filter : forall {A} (f : A -> bool) a b l,
  before_in a b l -> f a = true -> f b = true -> before_in a b (filter f l).
Proof.
  intros A f a b l [l1 [l2 [l3 ->]]] Ha Hb.
  exists (filter f l1), (filter f l2), (filter f l3).
  rewrite filter_app. cbn [filter]. rewrite Ha. rewrite filter_app. cbn [filter]. rewrite Hb. reflexivity.
Qed.

Lemma before_in_map : forall {A B} (f : A -> B) a b l,
  before_in a b l -> before_in (f a) (f b) (map f l).
Proof.
  intros A B f a b l [l1 [l2 [l3 ->]]]. exists (map f l1), (map f l2), (map f l3).
  rewrite map_app. cbn [map]. rewrite map_app. reflexivity.
Qed.

(* ---------- dictionaries ---------- *)
Definition has (d : dict) (k e : name) : Prop := exists dep, In (k, dep) d /\ In e dep.

Definition closed (d : dict) : Prop := forall k e, has d k e -> In e (keys d).

Lemma has_key : forall d k e, has d k e -> In k (keys d).
Proof.
  intros d k e [dep [H _]]. unfold keys. apply in_map_iff. exists (k, dep). split; [reflexivity|exact H].
Qed.

Lemma keys_strip : forall o d, keys (strip o d) = filter (fun k => negb (mem k o)) (keys d).
Proof.
  intros o d. unfold strip, keys. rewrite map_map. cbn [fst].
  induction d as [|[k dep] r IH]; cbn [filter map fst]; [reflexivity|].
  destruct (negb (mem k o)); cbn [map fst]; rewrite IH; reflexivity.
Qed.

Lemma has_strip : forall o d k e,
  has (strip o d) k e <-> has d k e /\ ~ In k o /\ ~ In e o.
Proof.
  intros o d k e. unfold has, strip. split.
  - intros [dep [Hin He]]. apply in_map_iff in Hin. destruct Hin as [[k0 dep0] [E Hin]].
    cbn [fst snd] in E. inversion E; subst. apply filter_In in Hin. destruct Hin as [Hin Hk].
    cbn [fst] in Hk. apply negb_true_iff in Hk. apply mem_nIn in Hk.
    apply filter_In in He. destruct He as [He Hn]. apply negb_true_iff in Hn. apply mem_nIn in Hn.
    split; [exists dep0; split; assumption|split; assumption].
  - intros [[dep [Hin He]] [Hk Hn]].
    exists (filter (fun e0 => negb (mem e0 o)) dep). split.
    + apply in_map_iff. exists (k, dep). split; [reflexivity|].
      apply filter_In. split; [exact Hin|]. cbn [fst]. apply negb_true_iff. apply mem_nIn. exact Hk.
    + apply filter_In. split; [exact He|]. apply negb_true_iff. apply mem_nIn. exact Hn.
Qed.

Lemma free_In : forall d k, In k (free d) <-> In (k, []) d.
Proof.
  intros d k. unfold free, keys. rewrite in_map_iff. split.
  - intros [[k0 dep] [E Hin]]. cbn [fst] in E. subst k0. apply filter_In in Hin.
    destruct Hin as [Hin Hn]. cbn [snd] in Hn. destruct dep; [exact Hin|discriminate].
  - intros Hin. exists (k, []). split; [reflexivity|]. apply filter_In. split; [exact Hin|reflexivity].
Qed.

Lemma free_incl_keys : forall d, incl (free d) (keys d).
Proof.
  intros d k H. apply free_In in H. unfold keys. apply in_map_iff. exists (k, []). split; [reflexivity|exact H].
Qed.

Lemma free_NoDup : forall d, NoDup (keys d) -> NoDup (free d).
Proof. intros d H. unfold free, keys. apply NoDup_keys_filter. exact H. Qed.

Lemma has_not_free : forall d k e, NoDup (keys d) -> has d k e -> ~ In k (free d).
Proof.
  intros d k e Hnd [dep [Hin He]] Hf. apply free_In in Hf.
  assert (dep = []) by (eapply NoDup_keys_unique; eassumption). subst dep. destruct He.
Qed.

Lemma strip_length_lt : forall d, free d <> [] -> length (strip (free d) d) < length d.
Proof.
  intros d Hf. unfold strip. rewrite map_length.
  destruct (free d) as [|k r] eqn:F; [congruence|].
  assert (Hk : In k (free d)) by (rewrite F; left; reflexivity).
  rewrite <- F. apply free_In in Hk.
  apply (filter_length_lt _ d (k, [])); [exact Hk|].
  cbn [fst]. apply negb_false_iff. apply mem_In. apply free_In. exact Hk.
Qed.

Lemma peel_unfold : forall fuel d,
  peel fuel d =
  match free d with
  | [] => match d with [] => Ok [] | _ => Err Circular end
  | _ =>
      match fuel with
      | O => Err OutOfFuel
      | S f =>
          match peel f (strip (free d) d) with
          | Ok ls => Ok (free d :: ls)
          | Err e => Err e
          end
      end
  end.
Proof. intros fuel d. destruct fuel; reflexivity. Qed.

(* OutOfFuel is unreachable with fuel >= number of items *)
Lemma peel_fuel : forall fuel d, length d <= fuel -> peel fuel d <> Err OutOfFuel.
Proof.
  induction fuel as [|f IH]; intros d Hlen; rewrite peel_unfold.
  - destruct d; [cbn; discriminate|cbn [length] in Hlen; lia].
  - destruct (free d) as [|k r] eqn:F.
    + destruct d; discriminate.
    + rewrite <- F.
      assert (Hlt : length (strip (free d) d) < length d) by (apply strip_length_lt; rewrite F; discriminate).
      specialize (IH (strip (free d) d)).
      destruct (peel f (strip (free d) d)) as [ls|e]; [discriminate|].
      intros E. inversion E; subst. apply IH; [lia|reflexivity].
Qed.

(* ---------- a finite relation without cycles has a source ---------- *)
Section Acyclic.
  Variable R : name -> name -> Prop.
  Hypothesis R_acyclic : forall x, ~ clos_trans name R x x.

  Lemma Sorted_ct : forall l, Sorted R l -> Sorted (clos_trans name R) l.
  Proof.
    induction 1 as [|a l HS IH HR]; constructor; [exact IH|].
    destruct HR as [|b l' Hab]; constructor. apply t_step. exact Hab.
  Qed.

  Lemma chain_NoDup : forall l, Sorted R l -> NoDup l.
  Proof.
    intros l HS. apply Sorted_ct in HS.
    apply Sorted_StronglySorted in HS; [|intros x y z Hxy Hyz; eapply t_trans; eassumption].
    induction HS as [|a l HS IH HF]; constructor; [|exact IH].
    intros Hin. rewrite Forall_forall in HF. apply (R_acyclic a). apply HF. exact Hin.
  Qed.

  Lemma chain_exists : forall (K : list name) k0,
    In k0 K -> (forall k, In k K -> exists e, In e K /\ R e k) ->
    forall n, exists l, length l = S n /\ Sorted R l /\ incl l K.
  Proof.
    intros K k0 Hk0 Hpred. induction n as [|n [l [Hlen [HS Hincl]]]].
    - exists [k0]. split; [reflexivity|]. split; [repeat constructor|].
      intros x [<-|[]]. exact Hk0.
    - destruct l as [|h t]; [discriminate|].
      destruct (Hpred h) as [e [He HR]]; [apply Hincl; left; reflexivity|].
      exists (e :: h :: t). split; [cbn [length] in *; lia|]. split.
      + constructor; [exact HS|constructor; exact HR].
      + intros x [<-|Hx]; [exact He|apply Hincl; exact Hx].
  Qed.

  Definition sound (d : dict) : Prop := forall k e, has d k e -> R e k.

  Lemma sound_strip : forall o d, sound d -> sound (strip o d).
  Proof. intros o d H k e Hh. apply has_strip in Hh. apply H. tauto. Qed.

  Lemma free_nonempty : forall d, closed d -> sound d -> d <> [] -> free d <> [].
  Proof.
    intros d Hc Hs Hd Hf.
    destruct d as [|[k0 dep0] r] eqn:Ed; [congruence|]. rewrite <- Ed in *.
    assert (Hk0 : In k0 (keys d)) by (rewrite Ed; left; reflexivity).
    assert (Hpred : forall k, In k (keys d) -> exists e, In e (keys d) /\ R e k).
    { intros k Hk. unfold keys in Hk. apply in_map_iff in Hk. destruct Hk as [[k' dep] [E Hin]].
      cbn [fst] in E. subst k'. destruct dep as [|e dep'].
      - exfalso. assert (Hin' : In k (free d)) by (apply free_In; exact Hin). rewrite Hf in Hin'. destruct Hin'.
      - assert (Hh : has d k e) by (exists (e :: dep'); split; [exact Hin|left; reflexivity]).
        exists e. split; [apply (Hc k e Hh)|apply Hs; exact Hh]. }
    destruct (chain_exists (keys d) k0 Hk0 Hpred (length (keys d))) as [l [Hlen [HS Hincl]]].
    pose proof (chain_NoDup l HS) as Hnd.
    pose proof (NoDup_incl_length Hnd Hincl). lia.
  Qed.
End Acyclic.

Lemma closed_strip : forall o d, closed d -> closed (strip o d).
Proof.
  intros o d H k e Hh. apply has_strip in Hh. destruct Hh as [Hh [_ Hn]].
  rewrite keys_strip. apply filter_In. split; [apply (H k e Hh)|].
  apply negb_true_iff. apply mem_nIn. exact Hn.
Qed.

Lemma NoDup_keys_strip : forall o d, NoDup (keys d) -> NoDup (keys (strip o d)).
Proof. intros o d H. rewrite keys_strip. apply NoDup_filter'. exact H. Qed.

(* success on acyclic dependency maps *)
Lemma peel_ok : forall R, (forall x, ~ clos_trans name R x x) ->
  forall fuel d, closed d -> sound R d -> length d <= fuel -> exists ls, peel fuel d = Ok ls.
Proof.
  intros R HR. induction fuel as [|f IH]; intros d Hc Hs Hlen; rewrite peel_unfold.
  - destruct d; [exists []; reflexivity|cbn [length] in Hlen; lia].
  - destruct (free d) as [|k r] eqn:F.
    + destruct d as [|kv d']; [exists []; reflexivity|].
      exfalso. apply (free_nonempty R HR (kv :: d') Hc Hs); [discriminate|exact F].
    + rewrite <- F.
      assert (Hlt : length (strip (free d) d) < length d) by (apply strip_length_lt; rewrite F; discriminate).
      destruct (IH (strip (free d) d)) as [ls Hls];
        [apply closed_strip; exact Hc|apply sound_strip; exact Hs|lia|].
      rewrite Hls. exists (free d :: ls). reflexivity.
Qed.

(* the layers partition the items *)
Lemma peel_perm : forall fuel d ls, NoDup (keys d) -> peel fuel d = Ok ls ->
  Permutation (concat ls) (keys d).
Proof.
  induction fuel as [|f IH]; intros d ls Hnd; rewrite peel_unfold.
  - destruct (free d); [|discriminate]. destruct d; [|discriminate]. intros E. inversion E. constructor.
  - destruct (free d) as [|k r] eqn:F.
    + destruct d; [|discriminate]. intros E. inversion E. constructor.
    + rewrite <- F. destruct (peel f (strip (free d) d)) as [ls'|e] eqn:P; [|discriminate].
      intros E. inversion E; subst ls. cbn [concat].
      specialize (IH _ _ (NoDup_keys_strip (free d) d Hnd) P).
      rewrite IH, keys_strip. symmetry.
      apply partition_perm; [exact Hnd|apply free_NoDup; exact Hnd|apply free_incl_keys].
Qed.

Lemma peel_layers_NoDup : forall fuel d ls, NoDup (keys d) -> peel fuel d = Ok ls ->
  Forall (@NoDup name) ls.
Proof.
  induction fuel as [|f IH]; intros d ls Hnd; rewrite peel_unfold.
  - destruct (free d); [|discriminate]. destruct d; [|discriminate]. intros E. inversion E. constructor.
  - destruct (free d) as [|k r] eqn:F.
    + destruct d; [|discriminate]. intros E. inversion E. constructor.
    + rewrite <- F. destruct (peel f (strip (free d) d)) as [ls'|e] eqn:P; [|discriminate].
      intros E. inversion E; subst ls. constructor; [apply free_NoDup; exact Hnd|].
      apply (IH _ _ (NoDup_keys_strip (free d) d Hnd) P).
Qed.

Definition layer_before (a b : name) (ls : list (list name)) : Prop :=
  exists L1 la L2 lb L3, ls = L1 ++ la :: L2 ++ lb :: L3 /\ In a la /\ In b lb.

(* a dependency is emitted in a strictly earlier layer *)
Lemma peel_order : forall fuel d ls a b, NoDup (keys d) -> peel fuel d = Ok ls ->
  has d b a -> In a (keys d) -> layer_before a b ls.
Proof.
  induction fuel as [|f IH]; intros d ls a b Hnd; rewrite peel_unfold.
  - destruct (free d) eqn:F; [|discriminate]. destruct d; [|discriminate].
    intros _ [dep [[] _]].
  - destruct (free d) as [|k r] eqn:F.
    + destruct d as [|kv d']; [intros _ [dep [[] _]]|discriminate].
    + rewrite <- F. destruct (peel f (strip (free d) d)) as [ls'|e] eqn:P; [|discriminate].
      intros E Hh Ha. inversion E; subst ls.
      pose proof (has_not_free d b a Hnd Hh) as Hb.
      pose proof (NoDup_keys_strip (free d) d Hnd) as Hnd'.
      destruct (in_dec Nat.eq_dec a (free d)) as [Hfa|Hfa].
      * assert (Hbk : In b (keys (strip (free d) d))).
        { rewrite keys_strip. apply filter_In. split; [eapply has_key; exact Hh|].
          apply negb_true_iff. apply mem_nIn. exact Hb. }
        pose proof (peel_perm _ _ _ Hnd' P) as Hp.
        apply (Permutation_in _ (Permutation_sym Hp)) in Hbk.
        apply in_concat in Hbk. destruct Hbk as [lb [Hlb Hbl]].
        apply in_split in Hlb. destruct Hlb as [L2 [L3 ->]].
        exists [], (free d), L2, lb, L3. split; [reflexivity|split; assumption].
      * assert (Hh' : has (strip (free d) d) b a) by (apply has_strip; tauto).
        assert (Ha' : In a (keys (strip (free d) d))).
        { rewrite keys_strip. apply filter_In. split; [exact Ha|].
          apply negb_true_iff. apply mem_nIn. exact Hfa. }
        destruct (IH _ _ a b Hnd' P Hh' Ha') as [L1 [la [L2 [lb [L3 [-> [Hla Hlb]]]]]]].
        exists (free d :: L1), la, L2, lb, L3. split; [reflexivity|split; assumption].
Qed.

(* ---------- prep ---------- *)
Lemma keys_drop_self : forall d, keys (drop_self d) = keys d.
Proof. intros d. unfold drop_self, keys. rewrite map_map. reflexivity. Qed.

Lemma has_drop_self : forall d k e, has (drop_self d) k e <-> has d k e /\ e <> k.
Proof.
  intros d k e. unfold has, drop_self. split.
  - intros [dep [Hin He]]. apply in_map_iff in Hin. destruct Hin as [[k0 dep0] [E Hin]].
    cbn [fst snd] in E. inversion E; subst. apply filter_In in He. destruct He as [He Hn].
    apply negb_true_iff in Hn. apply Nat.eqb_neq in Hn.
    split; [exists dep0; split; assumption|exact Hn].
  - intros [[dep [Hin He]] Hn]. exists (filter (fun e0 => negb (Nat.eqb e0 k)) dep). split.
    + apply in_map_iff. exists (k, dep). split; [reflexivity|exact Hin].
    + apply filter_In. split; [exact He|]. apply negb_true_iff. apply Nat.eqb_neq. exact Hn.
Qed.

Lemma extra_items_In : forall d e,
  In e (extra_items d) <-> (exists k, has d k e) /\ ~ In e (keys d).
Proof.
  intros d e. unfold extra_items. rewrite nodup_In, filter_In, in_concat. split.
  - intros [[dep [Hdep He]] Hn]. apply negb_true_iff in Hn. apply mem_nIn in Hn. split; [|exact Hn].
    apply in_map_iff in Hdep. destruct Hdep as [[k dep0] [E Hin]]. cbn [snd] in E. subst dep0.
    exists k, dep. split; assumption.
  - intros [[k [dep [Hin He]]] Hn]. split.
    + exists dep. split; [|exact He]. apply in_map_iff. exists (k, dep). split; [reflexivity|exact Hin].
    + apply negb_true_iff. apply mem_nIn. exact Hn.
Qed.

Lemma keys_prep : forall d, keys (prep d) = keys d ++ extra_items (drop_self d).
Proof.
  intros d. unfold prep, keys. rewrite map_app, map_map. cbn [fst]. rewrite map_id.
  fold (keys (drop_self d)). rewrite keys_drop_self. reflexivity.
Qed.

Lemma NoDup_keys_prep : forall d, NoDup (keys d) -> NoDup (keys (prep d)).
Proof.
  intros d H. rewrite keys_prep. apply NoDup_app_intro; [exact H|apply NoDup_nodup|].
  intros x Hx Hin. apply extra_items_In in Hin. rewrite keys_drop_self in Hin. tauto.
Qed.

Lemma has_prep : forall d k e, has (prep d) k e <-> has d k e /\ e <> k.
Proof.
  intros d k e. rewrite <- has_drop_self. unfold prep, has. split.
  - intros [dep [Hin He]]. apply in_app_or in Hin. destruct Hin as [Hin|Hin].
    + exists dep. split; assumption.
    + apply in_map_iff in Hin. destruct Hin as [x [E _]]. inversion E; subst. destruct He.
  - intros [dep [Hin He]]. exists dep. split; [apply in_or_app; left; exact Hin|exact He].
Qed.

Lemma closed_prep : forall d, closed (prep d).
Proof.
  intros d k e Hh. assert (Hh' : has (drop_self d) k e).
  { apply has_drop_self. apply has_prep. exact Hh. }
  rewrite keys_prep.
  destruct (in_dec Nat.eq_dec e (keys d)) as [Hin|Hn]; apply in_or_app; [left; exact Hin|right].
  apply extra_items_In. split; [exists k; exact Hh'|rewrite keys_drop_self; exact Hn].
Qed.

(* ---------- toposort / toposort_flatten ---------- *)
Definition layer_perms (perm : list name -> list name) : Prop :=
  forall l, NoDup l -> Permutation (perm l) l.

Lemma toposort_never_out_of_fuel : forall d, toposort d <> Err OutOfFuel.
Proof. intros d. unfold toposort. apply peel_fuel. apply le_n. Qed.

Lemma concat_perm_layers : forall perm ls, layer_perms perm -> Forall (@NoDup name) ls ->
  Permutation (concat (map perm ls)) (concat ls).
Proof.
  intros perm ls Hp HF. induction HF as [|l r Hl HF IH]; cbn [map concat]; [constructor|].
  apply Permutation_app; [apply Hp; exact Hl|exact IH].
Qed.

Lemma layer_before_flat : forall perm a b ls, layer_perms perm -> Forall (@NoDup name) ls ->
  layer_before a b ls -> before_in a b (concat (map perm ls)).
Proof.
  intros perm a b ls Hp HF [L1 [la [L2 [lb [L3 [-> [Ha Hb]]]]]]].
  rewrite Forall_forall in HF.
  assert (Ha' : In a (perm la)).
  { apply (Permutation_in _ (Permutation_sym (Hp la (HF la ltac:(apply in_or_app; right; left; reflexivity))))).
    exact Ha. }
  assert (Hb' : In b (perm lb)).
  { apply (Permutation_in _ (Permutation_sym (Hp lb (HF lb ltac:(apply in_or_app; right; right; apply in_or_app; right; left; reflexivity))))).
    exact Hb. }
  apply in_split in Ha'. destruct Ha' as [x1 [x2 Ea]].
  apply in_split in Hb'. destruct Hb' as [y1 [y2 Eb]].
  exists (concat (map perm L1) ++ x1), (x2 ++ concat (map perm L2) ++ y1), (y2 ++ concat (map perm L3)).
  rewrite map_app, concat_app. cbn [map concat]. rewrite map_app, concat_app. cbn [map concat].
  rewrite Ea, Eb. repeat rewrite <- app_assoc. cbn [app]. reflexivity.
Qed.

(* the specification of toposort_flatten(d, sort=False) on acyclic dependency maps *)
Lemma toposort_flatten_spec : forall R perm d,
  (forall x, ~ clos_trans name R x x) ->
  (forall k e, has d k e -> e <> k -> R e k) ->
  layer_perms perm -> NoDup (keys d) ->
  exists names, toposort_flatten perm d = Ok names
    /\ Permutation names (keys (prep d))
    /\ forall a b, has d b a -> a <> b -> before_in a b names.
Proof.
  intros R perm d HR Hs Hp Hnd. unfold toposort_flatten, toposort.
  assert (Hs' : sound R (prep d)).
  { intros k e Hh. apply has_prep in Hh. apply Hs; tauto. }
  destruct (peel_ok R HR (length (prep d)) (prep d) (closed_prep d) Hs' (le_n _)) as [ls Hls].
  rewrite Hls. exists (concat (map perm ls)).
  pose proof (NoDup_keys_prep d Hnd) as Hnd'.
  pose proof (peel_layers_NoDup _ _ _ Hnd' Hls) as HF.
  split; [reflexivity|]. split.
  - rewrite (concat_perm_layers perm ls Hp HF). apply (peel_perm _ _ _ Hnd' Hls).
  - intros a b Hh Hab. apply layer_before_flat; [exact Hp|exact HF|].
    assert (Hh' : has (prep d) b a) by (apply has_prep; split; assumption).
    apply (peel_order _ _ _ a b Hnd' Hls Hh'). apply (closed_prep d b a Hh').
Qed.

(* a successful result orders every dependency first, whatever the graph: cyclic maps are rejected *)
Lemma toposort_flatten_sound : forall perm d names,
  layer_perms perm -> NoDup (keys d) ->
  toposort_flatten perm d = Ok names ->
  Permutation names (keys (prep d))
  /\ forall a b, has d b a -> a <> b -> before_in a b names.
Proof.
  intros perm d names Hp Hnd. unfold toposort_flatten, toposort.
  destruct (peel (length (prep d)) (prep d)) as [ls|e] eqn:Hls; [|discriminate].
  intros E. inversion E; subst names.
  pose proof (NoDup_keys_prep d Hnd) as Hnd'.
  pose proof (peel_layers_NoDup _ _ _ Hnd' Hls) as HF.
  split.
  - rewrite (concat_perm_layers perm ls Hp HF). apply (peel_perm _ _ _ Hnd' Hls).
  - intros a b Hh Hab. apply layer_before_flat; [exact Hp|exact HF|].
    assert (Hh' : has (prep d) b a) by (apply has_prep; split; assumption).
    apply (peel_order _ _ _ a b Hnd' Hls Hh'). apply (closed_prep d b a Hh').
Qed.
