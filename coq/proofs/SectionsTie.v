(* kit/SectionsIR.v's phases, in the reference order and with the reference tests, are the model's load_configuration. *)
From Coq Require Import List Arith Bool.
From Cobald Require Import model.Toposort model.Sections kit.SectionsIR.
Import ListNotations.

Lemma digest_loop_p_ref : forall cfg ps, digest_loop_p ref_lparams cfg ps = digest_loop cfg ps.
Proof.
  intros cfg. induction ps as [|p r IH]; [reflexivity|].
  cbn [digest_loop_p digest_loop]. destruct (cfg_get cfg (section p)) as [data|].
  - rewrite IH. destruct (digest_loop cfg r) as [out log]. destruct out as [c|e]; [|reflexivity].
    unfold stored. cbn [l_store ref_lparams]. destruct (ret p); reflexivity.
  - cbn [missing_raises l_missing ref_lparams]. destruct (required p); [reflexivity|apply IH].
Qed.

Lemma load_configuration_p_ref : forall cfg ps, load_configuration_p ref_lparams cfg ps = load_configuration cfg ps.
Proof.
  intros cfg ps. unfold load_configuration_p, load_configuration. cbn [l_phases ref_lparams phases_p].
  destruct (cfg_get cfg logging_name) as [m|].
  - cbn [app]. destruct (unmatched (cfg_pop logging_name cfg) ps) as [|k ks]; [|reflexivity].
    rewrite digest_loop_p_ref. destruct (digest_loop (cfg_pop logging_name cfg) ps) as [[c|e] l]; reflexivity.
  - destruct (unmatched cfg ps) as [|k ks]; [|reflexivity].
    rewrite digest_loop_p_ref. destruct (digest_loop cfg ps) as [[c|e] l]; reflexivity.
Qed.
