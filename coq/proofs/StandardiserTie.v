(* Translator tie for C06: the Gallina terms generated from src/cobald/decorator/standardiser.py on this
   run (gen/Gen_standardiser.v) compute exactly the hand-written reference model (model/Standardiser.v)
   that the property theorems are about.  A change of the source that changes the meaning of one of these
   five kernels changes the generated term and one of these lemmas stops compiling; meaning-preserving
   rewrites within the fragment usually keep them compiling (the proofs are by symbolic evaluation). *)
From Coq Require Import ZArith QArith Bool.
From Cobald Require Import kit.QKit kit.PyNum kit.PyShallow model.Standardiser gen.Gen_standardiser.

Ltac ev := cbn [bind rif rbin rcmp rlt rgt rle rge req rne rabs rneg rnot rand ror fst snd
               s_par s_demand s_tgt W_demand W_tdemand].

(* evaluate symbolically: unfold the generated term, then split on every comparison / partial operation *)
Ltac sym :=
  repeat (ev;
          match goal with
          | [ |- context[match ?x with _ => _ end]] =>
              match x with
              | nlt _ _ => destruct x eqn:?
              | ngt _ _ => destruct x eqn:?
              | nle _ _ => destruct x eqn:?
              | nge _ _ => destruct x eqn:?
              | neq _ _ => destruct x eqn:?
              | nne _ _ => destruct x eqn:?
              | nadd _ _ => destruct x eqn:?
              | nsub _ _ => destruct x eqn:?
              | nmul _ _ => destruct x eqn:?
              | nfloordiv _ _ => destruct x eqn:?
              | moved _ _ _ => destruct x eqn:?
              end
          | [ |- context[if ?x then _ else _]] => destruct x eqn:?
          end); ev; try reflexivity.

Lemma gen_clamp_ok l v h : gen__clamp l v h = Ok (clamp l v h).
Proof. unfold gen__clamp, clamp, rlt, rgt. sym. Qed.

Lemma gen_floor_ok n b : gen__floor n b = floor_to n b.
Proof. unfold gen__floor, floor_to. sym. Qed.

Lemma gen_clamp_demand_ok st v :
  gen_clamp_demand st v = clamp_demand (s_par st) (s_tgt st) v.
Proof.
  unfold gen_clamp_demand, clamp_demand. ev.
  destruct (nsub (p_supply (s_tgt st)) (backlog (s_par st))) as [lo|e]; ev; [|reflexivity].
  destruct (nadd (p_supply (s_tgt st)) (surplus (s_par st))) as [hi|e]; ev; [|reflexivity].
  rewrite gen_clamp_ok. ev. rewrite gen_clamp_ok. reflexivity.
Qed.

Lemma gen_demand_set_ok st v : gen_demand_set st v = set_demand st v.
Proof.
  unfold gen_demand_set, set_demand. ev. rewrite gen_clamp_demand_ok.
  destruct (clamp_demand (s_par st) (s_tgt st) v) as [d|e]; ev; [|reflexivity].
  unfold rne. ev. destruct (nne (granularity (s_par st)) (PInt 1)); ev.
  - rewrite gen_floor_ok. destruct (floor_to v (granularity (s_par st))) as [fl|e]; ev; [|reflexivity].
    rewrite gen_clamp_demand_ok. ev.
    destruct (clamp_demand (s_par st) (s_tgt st) fl) as [t|e]; ev; reflexivity.
  - reflexivity.
Qed.

Lemma gen_demand_get_ok st : gen_demand_get st = Ok (get_demand st).
Proof.
  unfold gen_demand_get, get_demand, moved, rge. ev.
  destruct (nsub (s_demand st) (p_demand (s_tgt st))) as [x|e] eqn:E; ev.
  - destruct (nge (nabs x) (granularity (s_par st))); ev; destruct st; reflexivity.
  - (* the only failure of `-` is inf - inf: NaN, and `NaN >= g` is False *)
    pose proof (nsub_err _ _ _ E) as ->. ev. destruct st; reflexivity.
Qed.
