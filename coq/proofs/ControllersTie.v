(* Translator tie for C08: the terms generated from LinearController.regulate and
   RelativeSupplyController.regulate (gen/Gen_controllers.v, regenerated on every run) compute the
   reference model's step (model/Controllers.v). *)
From Coq Require Import ZArith QArith Bool Lqa.
From Cobald Require Import kit.QKit model.Controllers gen.Gen_controllers.
Open Scope Q_scope.

Definition pool_eq (a b : pool) : Prop :=
  p_supply a = p_supply b /\ p_demand a == p_demand b /\ p_util a = p_util b /\ p_alloc a = p_alloc b.

Lemma gen_linear_ok c p itv :
  gen_linear_regulate c p itv = fst (apply_write p (linear_write c p itv)).
Proof.
  unfold gen_linear_regulate, linear_write.
  destruct (Qltb (p_util p) (l_low c)); [reflexivity|].
  destruct (Qltb (l_high c) (p_alloc p)); reflexivity.
Qed.

Lemma gen_relative_ok c p itv :
  pool_eq (gen_relative_regulate c p itv) (fst (apply_write p (relative_write c p))).
Proof.
  unfold gen_relative_regulate, relative_write, relative_scale, pool_eq.
  destruct (Qltb (p_util p) (r_low c)); [cbn; repeat split; reflexivity|].
  destruct (Qltb (r_high c) (p_alloc p)); cbn; repeat split; try reflexivity. ring.
Qed.

(* ---- the selection kernels of Stepwise (RangeSelector.get_rule) and DemandSwitch (regulate) ---- *)
From Coq Require Import List.
From Cobald Require Import kit.SelectIR.
Import ListNotations.

Lemma get_rule_p_ref : forall lk s, get_rule_p ref_get_rule_chain lk s = get_rule lk s.
Proof.
  induction lk as [|[[lo hi] r] rest IH]; intros s; [reflexivity|].
  cbn [get_rule_p get_rule]. rewrite IH.
  replace (chain_ev (mkSenv (Some lo) hi (Some s)) ref_get_rule_chain) with (in_range (lo, hi, r) s); [reflexivity|].
  unfold in_range, chain_ev, ref_get_rule_chain. cbn.
  destruct hi as [h|]; cbn; rewrite ?andb_true_r; reflexivity.
Qed.

Lemma choose_p_ref : forall slaves default d, choose_p ref_choose_chain default slaves d = choose default slaves d.
Proof.
  unfold choose_p, choose. induction slaves as [|e r IH]; intros default d; [reflexivity|].
  cbn [fold_left].
  replace (chain_ev (mkSenv (Some (fst e)) None (Some d)) ref_choose_chain) with (Qle_bool (fst e) d).
  - apply IH.
  - unfold chain_ev, ref_choose_chain. cbn. rewrite andb_true_r. reflexivity.
Qed.
