(* Currying is concatenation; the eager signature check is exact whenever inspect reports the
   signature of the __init__ that really runs; passing the target is always refused; for classes
   wrapped by the service decorator the check is vacuous (witness). *)
From Coq Require Import NArith List Bool Arith Lia.
From Cobald Require Import model.PyBind model.Partial proofs.PyBindProofs proofs.PartialProofs.
Import ListNotations.

(* ---- currying ---------------------------------------------------------------------------------- *)
Lemma new_partial_ok : forall c leaf a k e, new_partial c leaf a k = Ok e -> e = mkElem c a k leaf.
Proof.
  intros c leaf a k e H. unfold new_partial in H.
  destruct (passes_target a k); [discriminate|]. destruct (sig_check c leaf a k); [|discriminate].
  inversion H. reflexivity.
Qed.

Lemma curry_ok : forall e a k e', curry e a k = Ok e' ->
  e' = mkElem (e_ctor e) (e_args e ++ a) (e_kwargs e ++ k) (e_leaf e).
Proof.
  intros e a k e' H. unfold curry in H. destruct (disjoint_keys (e_kwargs e) k); [|discriminate].
  apply new_partial_ok in H. exact H.
Qed.

(* any number of accepted curry calls: positionals appended in the order given, keywords merged *)
Theorem currying_is_concatenation : forall splits e e',
  curry_all e splits = Ok e' ->
  e' = mkElem (e_ctor e) (e_args e ++ concat (map fst splits)) (e_kwargs e ++ concat (map snd splits)) (e_leaf e).
Proof.
  induction splits as [|[a k] r IH]; intros e e' H; cbn [curry_all] in H.
  - inversion H; subst. cbn. rewrite !app_nil_r. destruct e'; reflexivity.
  - destruct (curry e a k) as [e1|x] eqn:E; [|discriminate].
    apply curry_ok in E. rewrite (IH e1 e' H). subst e1. cbn. rewrite <- !app_assoc. reflexivity.
Qed.

(* .s(a0, k0) followed by curry calls = one template holding everything *)
Corollary dot_s_then_curry : forall c a0 k0 splits e0 e',
  dot_s c a0 k0 = Ok e0 -> curry_all e0 splits = Ok e' ->
  e' = mkElem c (a0 ++ concat (map fst splits)) (k0 ++ concat (map snd splits)) (s_leaf c).
Proof.
  intros c a0 k0 splits e0 e' H0 H. apply new_partial_ok in H0. subst e0.
  apply currying_is_concatenation in H. exact H.
Qed.

(* the accepted keywords never repeat a name *)
Lemma disjoint_keys_spec : forall k1 k2, disjoint_keys k1 k2 = true <->
  (forall x, In x (keys_of k1) -> In x (keys_of k2) -> False).
Proof.
  intros k1 k2. unfold disjoint_keys. rewrite forallb_forall. split.
  - intros H x H1 H2. specialize (H x H2). apply negb_true_iff in H. apply mem_false_In in H. contradiction.
  - intros H x H2. apply negb_true_iff. apply mem_false_In. intro H1. exact (H x H1 H2).
Qed.

Lemma keys_of_app : forall a b, keys_of (a ++ b) = keys_of a ++ keys_of b.
Proof. intros. unfold keys_of. apply map_app. Qed.

(* ---- exactness of the eager check ---------------------------------------------------------- *)
Definition target_slots (leaf : bool) : nat := if leaf then 0 else 1.

(* "(a, k) can still become a call that binds": some further positionals a' and keywords k'
   (no name twice) make ctor(TARGET?, *a, *a', **k, **k') bind *)
Definition extendable (c : cls) (leaf : bool) (a : list val) (k : kwargs) : Prop :=
  exists (a' : list val) (k' : kwargs),
    NoDup (keys_of (k ++ k'))
    /\ call_binds c (target_slots leaf + length (a ++ a')) (keys_of (k ++ k')) = true.

Definition accepted {A} (r : res A) : Prop := exists x, r = Ok x.

Theorem eager_check_exact : forall c leaf a k,
  effective_sig c = init_sig c ->
  wf_names (init_sig c) -> NoDup (keys_of k) -> passes_target a k = false ->
  posonly_kw_quirk (init_sig c) (target_slots leaf + length a) (keys_of k) = false ->
  (accepted (new_partial c leaf a k) <-> extendable c leaf a k).
Proof.
  intros c leaf a k Heff Hwf Hnd Hpt Hq.
  pose proof (bind_partial_exact (init_sig c) (target_slots leaf + length a) (keys_of k) Hwf Hnd Hq) as EX.
  unfold accepted, extendable, new_partial, sig_check, call_binds. rewrite Hpt, Heff.
  fold (target_slots leaf). split.
  - intros [e He].
    destruct (bind_partial (init_sig c) (target_slots leaf + length a) (keys_of k)) eqn:B; [|discriminate].
    destruct (proj1 EX eq_refl) as [n' [keys' [Hnd' Hb]]].
    exists (repeat (VAtom 0) n'), (map (fun x => (x, VAtom 0)) keys').
    assert (keys_of (map (fun x => (x, VAtom 0)) keys') = keys') as KE.
    { unfold keys_of. rewrite map_map. cbn. apply map_id. }
    rewrite keys_of_app, KE, app_length, repeat_length, Nat.add_assoc. split; assumption.
  - intros [a' [k' [Hnd' Hb]]].
    rewrite keys_of_app, app_length, Nat.add_assoc in *.
    assert (bind_partial (init_sig c) (target_slots leaf + length a) (keys_of k) = true) as B.
    { apply EX. exists (length a'), (keys_of k'). split; assumption. }
    rewrite B. eexists. reflexivity.
Qed.

(* the same for a curry call: a repeated keyword is refused, and can indeed never bind *)
Theorem eager_curry_exact : forall e a k,
  effective_sig (e_ctor e) = init_sig (e_ctor e) -> wf_names (init_sig (e_ctor e)) ->
  NoDup (keys_of (e_kwargs e)) -> NoDup (keys_of k) ->
  passes_target (e_args e ++ a) (e_kwargs e ++ k) = false ->
  posonly_kw_quirk (init_sig (e_ctor e)) (target_slots (e_leaf e) + length (e_args e ++ a))
                   (keys_of (e_kwargs e ++ k)) = false ->
  (accepted (curry e a k) <-> extendable (e_ctor e) (e_leaf e) (e_args e ++ a) (e_kwargs e ++ k)).
Proof.
  intros e a k Heff Hwf Hnd1 Hnd2 Hpt Hq. unfold curry.
  destruct (disjoint_keys (e_kwargs e) k) eqn:D.
  - apply eager_check_exact; try assumption. rewrite keys_of_app.
    apply NoDup_app_build; try assumption. apply disjoint_keys_spec. exact D.
  - split; [intros [x Hx]; discriminate|]. intros [a' [k' [Hnd' _]]]. exfalso.
    rewrite !keys_of_app in Hnd'.
    apply NoDup_app_parts in Hnd'. destruct Hnd' as [Hnd' _].
    apply NoDup_app_parts in Hnd'. destruct Hnd' as [_ [_ Hd]].
    assert (disjoint_keys (e_kwargs e) k = true) as X by (apply disjoint_keys_spec; exact Hd).
    rewrite X in D. discriminate.
Qed.

(* classes without the service wrapper anywhere in their MRO satisfy the hypothesis *)
Lemma unwrapped_effective_sig : forall c, service_wrapped c = false -> effective_sig c = init_sig c.
Proof.
  intros [id kind mro]. unfold service_wrapped, effective_sig, init_sig. cbn [c_mro].
  induction mro as [|l r IH]; intros H; [reflexivity|]. cbn in H. apply orb_false_iff in H.
  destruct H as [Hl Hr]. cbn. rewrite Hl. destruct (l_init l); [reflexivity | exact (IH Hr)].
Qed.

(* ---- passing the target ------------------------------------------------------------------- *)
Theorem target_always_rejected : forall c leaf a k,
  passes_target a k = true -> new_partial c leaf a k = Err ETypeError.
Proof. intros c leaf a k H. unfold new_partial. rewrite H. reflexivity. Qed.

Theorem target_always_rejected_curry : forall e a k,
  passes_target (e_args e ++ a) (e_kwargs e ++ k) = true -> curry e a k = Err ETypeError.
Proof.
  intros e a k H. unfold curry. destruct (disjoint_keys (e_kwargs e) k); [|reflexivity].
  apply target_always_rejected. exact H.
Qed.

(* ---- the defect: service-wrapped classes -------------------------------------------------------- *)
(* LinearController (controller/linear.py:8-28): @service(flavour=trio);
   __init__(self, target, low_utilisation=0.5, high_allocation=0.5, rate=1, interval=1)
   names: 0 target, 3 low_utilisation, 4 high_allocation, 5 rate, 6 interval, 7 foo *)
Definition linear_init : sig :=
  mkSig [] [(0%N, false); (3%N, true); (4%N, true); (5%N, true); (6%N, true)] None [] None.
Definition linear_controller : cls :=
  mkCls 0%N KController [mkLayer true (Some linear_init); mkLayer false (Some (mkSig [] [(0%N, false)] None [] None))].

Lemma never_binds : forall s n keys, can_bind s n keys = false ->
  forall n' keys', bind_full s (n + n') (keys ++ keys') = false.
Proof.
  intros s n keys H n' keys'. destruct (bind_full s (n + n') (keys ++ keys')) eqn:B; [|reflexivity].
  apply can_bind_mono in B. rewrite B in H. discriminate.
Qed.

(* LinearController.s(foo=0) is accepted although no call LinearController(target, ..., foo=0, ...)
   can ever bind: full-strength exactness (without the hypothesis effective_sig = init_sig) is false *)
Theorem eager_check_exact_refuted :
  exists c a k,
    service_wrapped c = true /\ wf_names (init_sig c) /\ NoDup (keys_of k) /\ passes_target a k = false
    /\ posonly_kw_quirk (init_sig c) (target_slots (s_leaf c) + length a) (keys_of k) = false
    /\ accepted (dot_s c a k)
    /\ ~ extendable c (s_leaf c) a k.
Proof.
  exists linear_controller, [], [(7%N, VAtom 0)].
  split; [reflexivity|]. split.
  { unfold wf_names. cbn. repeat constructor; cbn; intuition discriminate. }
  split; [repeat constructor; cbn; tauto|]. split; [reflexivity|]. split; [reflexivity|]. split.
  - eexists. reflexivity.
  - intros [a' [k' [_ H]]]. unfold call_binds in H. rewrite keys_of_app in H. cbn [app length] in H.
    change (target_slots (s_leaf linear_controller) + length a') with (1 + length a') in H.
    rewrite (never_binds (init_sig linear_controller) 1 (keys_of [(7%N, VAtom 0)]) eq_refl) in H.
    discriminate.
Qed.

(* Second cause, masked by the first on the unchanged tree: UnboundStepwise.s (stepwise.py:193) passes
   __leaf__=True for Stepwise, a controller.  With the service wrapper out of the way (what inspect
   reports = the running __init__), stepwise(f).s(base=g) is accepted because the check leaves out the
   target slot, yet Stepwise(target, f, base=g, ...) never binds.
   Stepwise.__init__(self, target, base, *rules, interval=1); names 0 target, 3 base, 4 rules, 5 interval *)
Definition stepwise_init : sig := mkSig [] [(0%N, false); (3%N, false)] (Some 4%N) [(5%N, true)] None.
Definition stepwise_unshadowed : cls :=
  mkCls 0%N KController [mkLayer false (Some stepwise_init); mkLayer false (Some (mkSig [] [(0%N, false)] None [] None))].

Theorem unbound_stepwise_leaf_refuted :
  let c := stepwise_unshadowed in
  let a := [VAtom 900] in                      (* self.base, put first by UnboundStepwise.s *)
  let k := [(3%N, VAtom 5)] in                 (* base=g *)
  effective_sig c = init_sig c /\ passes_target a k = false
  /\ accepted (new_partial c true a k)                                   (* leaf=True: no target slot *)
  /\ forall n' keys', call_binds c (1 + length a + n') (keys_of k ++ keys') = false.   (* with the target *)
Proof.
  cbv zeta. split; [reflexivity|]. split; [reflexivity|]. split; [eexists; reflexivity|].
  intros n' keys'. unfold call_binds. apply (never_binds (init_sig stepwise_unshadowed) 2 [3%N] eq_refl).
Qed.

(* ---- the three tail forms -------------------------------------------------------------------- *)
Inductive tail_form :=
| TInst (id : N)                                                   (* a pool instance *)
| TTmpl (c : cls) (a : list val) (k : kwargs)                      (* Pool.s(...) *)
| TCurried (c : cls) (a : list val) (k : kwargs) (splits : list (list val * kwargs)).   (* Pool.s(...)(...)... *)

Definition tail_obj (t : tail_form) : res obj :=
  match t with
  | TInst id => Ok (PoolI id)
  | TTmpl c a k => match dot_s c a k with Ok e => Ok (Tmpl e) | Err x => Err x end
  | TCurried c a k splits =>
      match dot_s c a k with
      | Ok e => match curry_all e splits with Ok e' => Ok (Tmpl e') | Err x => Err x end
      | Err x => Err x
      end
  end.

Definition tail_class_ok (t : tail_form) : Prop :=
  match t with
  | TInst _ => True
  | TTmpl c _ _ | TCurried c _ _ _ => c_kind c = KPool
  end.

Lemma tail_forms_ok : forall t o, tail_class_ok t -> tail_obj t = Ok o -> tail_ok o.
Proof.
  intros [id|c a k|c a k splits] o Hc H; cbn in H.
  - inversion H. left. exists id. reflexivity.
  - destruct (dot_s c a k) as [e|x] eqn:E; [|discriminate]. inversion H; subst.
    apply new_partial_ok in E. subst e. right. eexists. split; [reflexivity|].
    cbn in Hc. unfold pool_elem, c_pool, s_leaf. cbn. rewrite Hc. split; reflexivity.
  - destruct (dot_s c a k) as [e|x] eqn:E; [|discriminate].
    destruct (curry_all e splits) as [e'|x] eqn:E'; [|discriminate]. inversion H; subst.
    rewrite (dot_s_then_curry _ _ _ _ _ _ E E'). right. eexists. split; [reflexivity|].
    cbn in Hc. unfold pool_elem, c_pool, s_leaf. cbn. rewrite Hc. split; reflexivity.
Qed.

(* chain elements made by the .s factories of controllers / decorators are non-leaf; decorators are pools *)
Lemma dot_s_decorator_good : forall c a k e splits e',
  c_kind c = KDecorator -> dot_s c a k = Ok e -> curry_all e splits = Ok e' -> good e' = true.
Proof.
  intros c a k e splits e' Hk H H'. rewrite (dot_s_then_curry _ _ _ _ _ _ H H').
  unfold good, nonleaf, pool_elem, c_pool, s_leaf. cbn. rewrite Hk. reflexivity.
Qed.

Theorem any_grouping_all_tails : forall (es : list elem) (tf : tail_form) (tail : obj) (t : tree obj),
  es <> [] -> forallb good (tl es) = true ->
  tail_class_ok tf -> tail_obj tf = Ok tail ->
  leaves t = map Tmpl es ++ [tail] ->
  eval t = hand_nested es tail
  /\ (tail_binds tail = true -> binds_all es (tail_built tail) = true ->
      eval t = (Ok (nest_obj es (tail_built tail)), tail_log tail ++ rev_log es (tail_built tail))).
Proof.
  intros es tf tail t Hne Hg Hc Ho Hl.
  pose proof (any_grouping es tail t Hne Hg (tail_forms_ok tf tail Hc Ho) Hl) as H.
  split; [exact H|]. intros Hb Ha. rewrite H. apply hand_nested_explicit; assumption.
Qed.
