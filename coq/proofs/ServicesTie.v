(* The loop shapes of kit/LoopIR.v, instantiated with the reference shapes, give the timelines of model/Services.v. *)
From Coq Require Import ZArith QArith List Bool.
From Cobald Require Import kit.QKit model.Controllers model.Services kit.LoopIR.
Import ListNotations.
Open Scope Q_scope.

Section Ext.
  Context {W A E : Type}.
  Variable env_apply : A -> W -> W.
  Variables act1 act2 : bool -> W -> res (W * option (list E)).
  Hypothesis Hact : forall b w, act1 b w = act2 b w.
  Variable t0 period : Q.
  Variable before : nat -> bool.

  Lemma wakes_ext : forall n k w env,
    wakes env_apply act1 t0 period before n k w env = wakes env_apply act2 t0 period before n k w env.
  Proof.
    induction n as [|n IH]; intros k w env; [reflexivity|].
    cbn [wakes]. match goal with |- context [split_while ?f env] => destruct (split_while f env) as [rdy rest] end.
    rewrite Hact. destruct (act2 (Nat.eqb k 0) (apply_all env_apply rdy w)) as [[w2 rec]|er]; [|reflexivity].
    rewrite IH. reflexivity.
  Qed.

  Lemma timeline_ext : forall T w env,
    timeline env_apply act1 t0 period before T w env = timeline env_apply act2 t0 period before T w env.
  Proof. intros T w env. unfold timeline. rewrite wakes_ext. reflexivity. Qed.
End Ext.

Lemma ctrl_act_regulate_ref : forall sem c b p, ctrl_act_p sem ref_loop_regulate c b p = ctrl_act sem c b p.
Proof. reflexivity. Qed.

Lemma ctrl_act_stepwise_ref : forall sem c b p, ctrl_act_p sem ref_loop_stepwise c b p = ctrl_act sem c b p.
Proof. reflexivity. Qed.

Lemma ctrl_timeline_regulate_ref : forall sem c t0 before T p env,
  ctrl_timeline_p sem ref_loop_regulate c t0 before T p env = ctrl_timeline sem c t0 before T p env.
Proof.
  intros. unfold ctrl_timeline_p, ctrl_timeline.
  change (aval (ctrl_interval c) (lp_period ref_loop_regulate)) with (ctrl_interval c).
  apply timeline_ext. apply ctrl_act_regulate_ref.
Qed.

Lemma ctrl_timeline_stepwise_ref : forall sem c t0 before T p env,
  ctrl_timeline_p sem ref_loop_stepwise c t0 before T p env = ctrl_timeline sem c t0 before T p env.
Proof.
  intros. unfold ctrl_timeline_p, ctrl_timeline.
  change (aval (ctrl_interval c) (lp_period ref_loop_stepwise)) with (ctrl_interval c).
  apply timeline_ext. apply ctrl_act_stepwise_ref.
Qed.

Lemma buffer_act_ref : forall b w, skip_first ref_loop_buffer (buffer_body ref_loop_buffer) b w = buffer_act b w.
Proof.
  intros b w. unfold skip_first, buffer_body, buffer_act. cbn [lp_sleep_first ref_loop_buffer lp_body andb].
  destruct (Qeqb (b_demand w) (p_demand (b_target w))); reflexivity.
Qed.

Lemma buffer_timeline_ref : forall window t0 before T p env,
  buffer_timeline_p ref_loop_buffer window t0 before T p env = buffer_timeline window t0 before T p env.
Proof.
  intros. unfold buffer_timeline_p, buffer_timeline. cbn [lp_period ref_loop_buffer].
  apply timeline_ext. apply buffer_act_ref.
Qed.

Lemma factory_act_ref : forall q b w, skip_first ref_loop_factory (factory_body q) b w = factory_act q b w.
Proof. intros q b w. destruct b; reflexivity. Qed.

Lemma factory_timeline_ref : forall q interval t0 before T w env,
  factory_timeline_p ref_loop_factory q interval t0 before T w env = factory_timeline q interval t0 before T w env.
Proof.
  intros. unfold factory_timeline_p, factory_timeline.
  change (aval interval (lp_period ref_loop_factory)) with interval.
  apply timeline_ext. apply factory_act_ref.
Qed.
