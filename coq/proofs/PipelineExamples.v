(* Concrete oracles, documents and the witness of the known finding, used by props/C05.v. *)
From Coq Require Import ZArith NArith List Bool.
From Cobald Require Import model.Mapping model.Pipeline.
Import ListNotations.

(* tags: 0 = !Pool (class 4), 1 = !Ctl (class 0, lazy), 2 = !CtlE (class 0, eager), 3 = !Bad (class 6) *)
Definition ex_reg (t : tag) : option (tagk * cls * bool) :=
  match t with
  | 0%N => Some (KTemplate, 4%N, false)
  | 1%N => Some (KTemplate, 0%N, false)
  | 2%N => Some (KTemplate, 0%N, true)
  | 3%N => Some (KTemplate, 6%N, false)
  | 4%N => Some (KAux, 100%N, false)
  | _ => None
  end.
Definition n_C : str := [67]%N.     (* "C": class 1, an owner *)
Definition n_B : str := [66]%N.     (* "B": class 6, an owner whose constructor fails *)
Definition ex_resolve (name : str) : rres :=
  if str_eqb name n_C then RCallable 1%N else if str_eqb name n_B then RCallable 6%N else RNoSuch.
Definition ex_leaf (c : cls) : bool := N.eqb c 4.
Definition ex_fails (c : cls) : bool := N.eqb c 6.

Definition k_opts : str := [111; 112; 116; 115]%N.
Definition k_k : str := [107]%N.

(* pipeline: [!Ctl {k: [1, !Aux {k: 2}]}, !CtlE [1, "C"], {__type__: C, opts: {k: null}}, !Ctl, !Pool {k: 3}] *)
Definition ex_doc : ynode :=
  YL [ YT 1%N FMap [] [(k_k, YL [YS (SInt 1); YT 4%N FMap [] [(k_k, YS (SInt 2))]])];
       YT 2%N FSeq [YS (SInt 1); YS (SStr n_C)] [];
       YM [(s_type, YS (SStr n_C)); (k_opts, YM [(k_k, YS SNone)])];
       YT 1%N FScalar [] [];
       YT 0%N FMap [] [(k_k, YS (SInt 3))] ].

(* the same with the legacy element naming the failing class: position 2 fails *)
Definition ex_doc_fail : ynode :=
  YL [ YT 1%N FMap [] [(k_k, YS (SInt 1))];
       YT 2%N FSeq [YS (SInt 1)] [];
       YM [(s_type, YS (SStr n_B)); (k_opts, YM [(k_k, YS SNone)])];
       YT 1%N FScalar [] [];
       YT 0%N FMap [] [(k_k, YS (SInt 3))] ].

(* the known finding: pipeline: [{__type__: C, opts: {pipeline: [1, 2]}}, !Pool] *)
Definition witness_doc : ynode :=
  YL [ YM [(s_type, YS (SStr n_C)); (k_opts, YM [(s_pipeline, YL [YS (SInt 1); YS (SInt 2)])])];
       YT 0%N FScalar [] [] ].

Ltac all_in := let s := fresh "s" in let Hs := fresh "Hs" in
  intros s Hs; repeat (destruct Hs as [<-|Hs]; [vm_compute; reflexivity|]); destruct Hs.

Definition items_of (y : ynode) : list pvalue :=
  match yload ex_reg y with Ok (PL l) => l | _ => [] end.
Definition specs_of (g : pvalue -> bool) (items : list pvalue) : list espec :=
  flat_map (fun x => match elem_spec ex_resolve g x with Some s => [s] | None => [] end) items.

Lemma chain_example :
  exists items specs,
  yload ex_reg ex_doc = Ok (PL items) /\ length items = 5
  /\ map (elem_spec ex_resolve plain) items = map Some specs /\ shape ex_leaf specs = true
  /\ (forall s, In s specs -> ex_fails (sp_cls s) = false)
  /\ map sp_cls specs = [0; 0; 1; 0; 4]%N.
Proof.
  exists (items_of ex_doc), (specs_of plain (items_of ex_doc)).
  split; [vm_compute; reflexivity|]. split; [reflexivity|].
  split; [vm_compute; reflexivity|]. split; [vm_compute; reflexivity|].
  split; [vm_compute; all_in|vm_compute; reflexivity].
Qed.

Lemma failure_example :
  exists pre x post s specs_post,
  yload ex_reg ex_doc_fail = Ok (PL (pre ++ x :: post)) /\ length pre = 2 /\ length post = 2
  /\ elem_spec ex_resolve plain x = Some s /\ ex_fails (sp_cls s) = true
  /\ map (elem_spec ex_resolve plain) post = map Some specs_post
  /\ shape ex_leaf (s :: specs_post) = true
  /\ (forall s', In s' specs_post -> ex_fails (sp_cls s') = false).
Proof.
  exists [PTag KTemplate 0%N [] [(k_k, PS (SInt 1))]; PTag KTemplate 0%N [PS (SInt 1)] []].
  exists (PM [(s_type, PS (SStr n_B)); (k_opts, PM [(k_k, PS SNone)])]).
  exists [PTag KTemplate 0%N [] []; PTag KTemplate 4%N [] [(k_k, PS (SInt 3))]].
  exists (mkSpec 6%N [] [(k_opts, PM [(k_k, PS SNone)])]).
  exists (specs_of plain [PTag KTemplate 0%N [] []; PTag KTemplate 4%N [] [(k_k, PS (SInt 3))]]).
  split; [vm_compute; reflexivity|]. split; [reflexivity|]. split; [reflexivity|].
  split; [vm_compute; reflexivity|]. split; [vm_compute; reflexivity|].
  split; [vm_compute; reflexivity|]. split; [vm_compute; reflexivity|]. vm_compute. all_in.
Qed.

Lemma builds_the_chain_refuted :
  exists reg resolve leaf fails content items specs,
  yload reg content = Ok (PL items)
  /\ map (elem_spec resolve no_nested_type) items = map Some specs /\ shape leaf specs = true
  /\ (forall s, In s specs -> fails (sp_cls s) = false)
  /\ load_doc reg resolve leaf fails content
     <> (Ok (PL (expected_refs (length items))), mkSt (length items) (expected_log specs))
  /\ plog (snd (load_doc reg resolve leaf fails content))
     = [ mkEv 0 4%N None [] [];
         mkEv 1 1%N (Some (PRef 0)) [] [(k_opts, PL [PS (SInt 0); PS (SInt 2)])] ]
  /\ expected_log specs
     = [ mkEv 0 4%N None [] [];
         mkEv 1 1%N (Some (PRef 0)) [] [(k_opts, PM [(s_pipeline, PL [PS (SInt 1); PS (SInt 2)])])] ].
Proof.
  exists ex_reg, ex_resolve, ex_leaf, ex_fails, witness_doc.
  exists (items_of witness_doc), (specs_of no_nested_type (items_of witness_doc)).
  split; [vm_compute; reflexivity|]. split; [vm_compute; reflexivity|].
  split; [vm_compute; reflexivity|]. split; [vm_compute; all_in|].
  split; [|split; vm_compute; reflexivity].
  vm_compute. intros H. discriminate H.
Qed.
