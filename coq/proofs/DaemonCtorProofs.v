(* C13: the construction-time layer (model/DaemonCtor.v): it refines the daemon model, same-loop starts wait
   for the constructor, other-loop starts do not (counter-example). *)
From Coq Require Import List Arith Bool Lia.
From Cobald Require Import model.RT model.Daemon model.DaemonCtor.
Import ListNotations.

Lemma cstep_dstep holds c e c' : cstep holds c e = Some c' -> dstep holds (c_d c) e = Some (c_d c').
Proof.
  unfold cstep. intros H. destruct (dstep holds (c_d c) e) as [d'|]; [|discriminate].
  destruct e; try (injection H as <-; reflexivity).
  - destruct c0; injection H as <-; reflexivity.
  - destruct (c_ctor c p); [|injection H as <-; reflexivity].
    destruct (d_creator (c_d c) p); [|injection H as <-; reflexivity].
    destruct (_ && _ && _); [discriminate|injection H as <-; reflexivity].
Qed.

Lemma crun_drun holds tr : forall c c', crun holds c tr = Some c' -> drun holds (c_d c) tr = Some (c_d c').
Proof.
  induction tr as [|e tr IH]; intros c c' H; cbn [crun drun] in *.
  - injection H as <-. reflexivity.
  - destruct (cstep holds c e) as [c1|] eqn:E; [|discriminate].
    rewrite (cstep_dstep _ _ _ _ E). apply IH. exact H.
Qed.

(* what the ghost map records: a start under construction never happened on the creator's own loop *)
Definition HalfOk (c : cstate) : Prop :=
  forall sv l lq, c_half c sv = Some (l, lq) -> l <> lq \/ l = 0.

Lemma half_step holds c e c' :
  cstep holds c e = Some c' ->
  forall sv, c_half c' sv = c_half c sv \/
    (exists f tid loop other ok q,
        e = Start sv f tid loop other ok /\ c_ctor c sv = true /\ d_creator (c_d c) sv = Some q /\
        c_half c' sv = Some (loop, p_loop (pay (d_rt (c_d c)) q)) /\
        (coroutine f && coroutine (p_flav (pay (d_rt (c_d c)) q)) && (p_loop (pay (d_rt (c_d c)) q) =? loop)) = false).
Proof.
  unfold cstep. intros H sv. destruct (dstep holds (c_d c) e) as [d'|]; [|discriminate].
  destruct e; try (injection H as <-; left; reflexivity).
  - destruct c0; injection H as <-; left; reflexivity.
  - destruct (c_ctor c p) eqn:Ec; [|injection H as <-; left; reflexivity].
    destruct (d_creator (c_d c) p) as [q|] eqn:Eq; [|injection H as <-; left; reflexivity].
    destruct (_ && _ && _) eqn:Eg; [discriminate|]. injection H as <-. cbn [c_half]. unfold upd.
    destruct (sv =? p) eqn:Ee; [|left; reflexivity]. apply Nat.eqb_eq in Ee. subst sv.
    right. exists f, tid, loop, other, args_ok, q. repeat split; auto.
Qed.

(* a coroutine service created by a coroutine payload is never started on its creator's loop while its
   constructor is still running (the acceptor's rule: one loop thread does one thing at a time) *)
Lemma C13_same_loop_start_waits_for_constructor holds tr1 c1 sv f tid loop other ok c2 q :
  crun holds cinit tr1 = Some c1 -> cstep holds c1 (Start sv f tid loop other ok) = Some c2 ->
  c_ctor c1 sv = true -> d_creator (c_d c1) sv = Some q ->
  coroutine f = true -> coroutine (p_flav (pay (d_rt (c_d c1)) q)) = true ->
  p_loop (pay (d_rt (c_d c1)) q) <> loop /\ c_half c2 sv = Some (loop, p_loop (pay (d_rt (c_d c1)) q)).
Proof.
  intros _ H Hc Hq Hf Hfq. unfold cstep in H.
  destruct (dstep holds (c_d c1) _) as [d'|]; [|discriminate].
  rewrite Hc, Hq, Hf, Hfq in H. cbn [andb] in H.
  destruct (p_loop (pay (d_rt (c_d c1)) q) =? loop) eqn:E; [discriminate|].
  injection H as <-. cbn [c_half]. unfold upd. rewrite Nat.eqb_refl. split; [|reflexivity].
  apply Nat.eqb_neq. exact E.
Qed.

(* ... but nothing makes the OTHER threads wait: the full statement "a service is only started once its
   constructor has returned" is false of the faithful model (known finding
   C13-service-started-before-constructed): a trio service created by the asyncio loader *)
Definition half_built_trace : list event :=
  [AdoptCall Outside 0 0 Aio; AdoptEnd 0 true; AcceptCall 0; Start 0 Aio 1 1 0 true; RunningSet 0;
   Enter 0; NewService (InPayload 0) 3 Trio; Start 3 Trio 2 2 0 true; Exit 0].

Lemma C13_started_only_when_constructed_refuted :
  exists tr c sv, crun true cinit tr = Some c /\ c_half c sv <> None /\ p_st (pay (d_rt (c_d c)) sv) = PRun.
Proof.
  exists half_built_trace.
  destruct (crun true cinit half_built_trace) as [c|] eqn:E; [|vm_compute in E; discriminate E].
  exists c, 3. vm_compute in E. injection E as <-. vm_compute. split; [reflexivity|split; [discriminate|reflexivity]].
Qed.

(* the same history with an asyncio service: the start inside the constructor is rejected, after it accepted *)
Example same_loop_example :
  crun true cinit (firstn 6 half_built_trace ++ [NewService (InPayload 0) 3 Aio; Start 3 Aio 1 1 0 true]) = None
  /\ crun true cinit (firstn 6 half_built_trace ++ [NewService (InPayload 0) 3 Aio; Exit 0; Start 3 Aio 1 1 0 true]) <> None.
Proof. vm_compute. split; [reflexivity|discriminate]. Qed.
