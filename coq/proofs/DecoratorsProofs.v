(* C16 -- proofs about model/Decorators.v *)
From Coq Require Import ZArith QArith List Bool NArith Arith Lia.
From Cobald Require Import kit.QKit model.Decorators.
Import ListNotations.
Close Scope Q_scope.

(* ------------------------------------------------------------------ shapes *)
(* what never changes in a stack: the kinds, the loggers' configuration, the standardisers' parameters *)
Inductive kind :=
| KPlain | KLogger (name level : N) (msg : str) | KStd (sp : sparams) | KBuffer.

Definition kind_of (d : deco) : kind :=
  match d with
  | Plain => KPlain
  | LoggerD n l m => KLogger n l m
  | StandardiserD sp _ => KStd sp
  | BufferD _ => KBuffer
  end.

Definition shape (st : stack) : list kind := map kind_of st.

Lemma read_demand_shape : forall st p, shape (snd (read_demand st p)) = shape st.
Proof.
  induction st as [|d r IH]; intros p; [reflexivity|].
  destruct d as [|n l m|sp s|s]; cbn [read_demand];
    try (specialize (IH p); destruct (read_demand r p) as [x r'] eqn:E; cbn [snd shape map kind_of] in *;
         f_equal; exact IH).
Qed.

Lemma shape_length : forall a b, shape a = shape b -> length a = length b.
Proof. intros a b H. unfold shape in H. rewrite <- (map_length kind_of a), H. apply map_length. Qed.

Lemma read_demand_length : forall st p, length (snd (read_demand st p)) = length st.
Proof. intros. apply shape_length. apply read_demand_shape. Qed.

(* ------------------------------------------------------------------ 1. supply / utilisation / allocation *)
Lemma reads_transparent : forall st p a, read_through st p a = attr_of a p.
Proof. induction st as [|d r IH]; intros p a; cbn [read_through]; [reflexivity|apply IH]. Qed.

Definition same_attrs (p p' : pool) : Prop :=
  p_supply p' = p_supply p /\ p_util p' = p_util p /\ p_alloc p' = p_alloc p.

Lemma write_go_facts : forall sp st p v,
  let '(e, st', p') := write_go sp st p v in same_attrs p p' /\ shape st' = shape st.
Proof.
  induction sp as [|x sp IH]; intros st p v.
  - destruct st as [|d r]; cbn [write_go]; repeat split.
  - destruct st as [|d r]; cbn [write_go]; [repeat split|].
    destruct d as [|n l m|prm s|s].
    + specialize (IH r p v). destruct (write_go sp r p v) as [[e r'] p']. destruct IH as [A B].
      split; [exact A|]. cbn [shape map kind_of]. f_equal. exact B.
    + pose proof (read_demand_shape r p) as Hs. destruct (read_demand r p) as [dm r1]. cbn [snd] in Hs.
      specialize (IH r1 p v). destruct (write_go sp r1 p v) as [[e r2] p']. destruct IH as [A B].
      split; [exact A|]. cbn [shape map kind_of]. f_equal. unfold shape in *. congruence.
    + match goal with |- context[write_go sp r p ?w] => specialize (IH r p w); destruct (write_go sp r p w) as [[e r'] p'] end.
      destruct IH as [A B]. split; [exact A|]. cbn [shape map kind_of]. f_equal. exact B.
    + repeat split.
Qed.

Lemma write_preserves : forall st p v,
  let '(e, st', p') := write st p v in same_attrs p p' /\ shape st' = shape st.
Proof. intros. unfold write. apply write_go_facts. Qed.

(* the recursion budget of write_go is irrelevant once it covers the stack *)
Lemma write_go_spine : forall sp sp' st p v,
  length st <= length sp -> length st <= length sp' -> write_go sp st p v = write_go sp' st p v.
Proof.
  induction sp as [|x sp IH]; intros sp' st p v H1 H2.
  - destruct st; [destruct sp'; reflexivity|cbn in H1; lia].
  - destruct st as [|d r]; [destruct sp'; reflexivity|].
    destruct sp' as [|y sp']; [cbn in H2; lia|]. cbn [length] in H1, H2.
    cbn [write_go]. destruct d as [|n l m|prm s|s].
    + rewrite (IH sp' r p v); [reflexivity|lia|lia].
    + pose proof (read_demand_length r p) as Hl. destruct (read_demand r p) as [dm r1]. cbn [snd] in Hl.
      rewrite (IH sp' r1 p v); [reflexivity|lia|lia].
    + match goal with |- context[write_go sp r p ?w] => rewrite (IH sp' r p w); [reflexivity|lia|lia] end.
    + reflexivity.
Qed.

(* histories: what is read through the stack is the pool's current value, and only PoolState
   operations change it *)
Lemma step_attrs : forall st p o,
  let '(ob, st', p') := step st p o in
  shape st' = shape st /\ ((forall s u a, o <> PoolState s u a) -> same_attrs p p').
Proof.
  intros st p o. destruct o as [|v|s u a|d]; cbn [step].
  - pose proof (read_demand_shape st p) as H. destruct (read_demand st p) as [d st']. cbn [snd] in H.
    split; [exact H|]. intros _. repeat split.
  - pose proof (write_preserves st p v) as H. destruct (write st p v) as [[e st'] p']. destruct H as [A B].
    split; [exact B|]. intros _. exact A.
  - split; [reflexivity|]. intros H. exfalso. apply (H s u a). reflexivity.
  - split; [reflexivity|]. intros _. repeat split.
Qed.

Lemma run_attrs : forall ops st p,
  let '(obs, st', p') := run st p ops in
  shape st' = shape st
  /\ ((forall o, In o ops -> forall s u a, o <> PoolState s u a) -> same_attrs p p')
  /\ forall a, read_through st' p' a = attr_of a p'.
Proof.
  induction ops as [|o r IH]; intros st p; cbn [run].
  - repeat split. intros a. apply reads_transparent.
  - pose proof (step_attrs st p o) as Hs. destruct (step st p o) as [[ob st1] p1]. destruct Hs as [S1 A1].
    specialize (IH st1 p1). destruct (run st1 p1 r) as [[rest st2] p2]. destruct IH as [S2 [A2 R2]].
    split; [congruence|]. split; [|exact R2].
    intros Hno.
    assert (H1 : same_attrs p p1) by (apply A1; apply Hno; left; reflexivity).
    assert (H2 : same_attrs p1 p2) by (apply A2; intros o' Ho'; apply Hno; right; exact Ho').
    destruct H1 as [a1 [a2 a3]]. destruct H2 as [b1 [b2 b3]]. repeat split; congruence.
Qed.

(* ------------------------------------------------------------------ 2. plain decorators and Loggers pass demand *)
Definition pl_only (st : stack) : bool :=
  forallb (fun d => match d with Plain | LoggerD _ _ _ => true | _ => false end) st.

Lemma pl_read_demand : forall st p, pl_only st = true -> read_demand st p = (p_demand p, st).
Proof.
  induction st as [|d r IH]; intros p H; [reflexivity|].
  cbn [pl_only forallb] in H. apply andb_true_iff in H. destruct H as [Hd Hr].
  destruct d as [|n l m|sp s|s]; try discriminate; cbn [read_demand]; rewrite (IH p Hr); reflexivity.
Qed.

(* the records a write of v produces in a plain/Logger stack over pool p *)
Fixpoint pl_records (st : stack) (p : pool) (v : Q) : list effect :=
  match st with
  | [] => []
  | LoggerD n l m :: r =>
      Log n l m (mkFields v (p_demand p) (p_supply p) (p_util p) (p_alloc p) (p_alloc p) (length r))
      :: pl_records r p v
  | _ :: r => pl_records r p v
  end.

Lemma pl_write_go : forall sp st p v, pl_only st = true -> length st <= length sp ->
  write_go sp st p v = (pl_records st p v ++ [PoolWrite v], st, set_demand p v).
Proof.
  induction sp as [|x sp IH]; intros st p v H Hl.
  - destruct st; [reflexivity|cbn in Hl; lia].
  - destruct st as [|d r]; [reflexivity|].
    cbn [pl_only forallb] in H. apply andb_true_iff in H. destruct H as [Hd Hr]. cbn [length] in Hl.
    destruct d as [|n l m|prm s|s]; try discriminate; cbn [write_go pl_records].
    + rewrite (IH r p v Hr); [reflexivity|lia].
    + rewrite (pl_read_demand r p Hr). rewrite (IH r p v Hr); [|lia].
      rewrite !reads_transparent. reflexivity.
Qed.

Lemma plain_and_logger_pass_demand : forall st p v, pl_only st = true ->
  read_demand st p = (p_demand p, st)
  /\ write st p v = (pl_records st p v ++ [PoolWrite v], st, set_demand p v).
Proof.
  intros st p v H. split; [apply pl_read_demand; exact H|]. unfold write. apply pl_write_go; [exact H|lia].
Qed.

(* ------------------------------------------------------------------ 3. one record, before the write, with the before-values *)
Lemma logger_write : forall n l m r p v,
  write (LoggerD n l m :: r) p v =
    let target_after_read := snd (read_demand r p) in
    let '(e, r', p') := write target_after_read p v in
    (Log n l m (mkFields v (fst (read_demand r p)) (p_supply p) (p_util p) (p_alloc p) (p_alloc p) (length r)) :: e,
     LoggerD n l m :: r', p').
Proof.
  intros n l m r p v. unfold write at 1. cbn [write_go].
  pose proof (read_demand_length r p) as Hl. destruct (read_demand r p) as [dm r1]. cbn [fst snd] in *.
  unfold write. rewrite (write_go_spine r r1 r1 p v); [|lia|lia].
  rewrite !reads_transparent. reflexivity.
Qed.

(* ------------------------------------------------------------------ 4. which Loggers a write reaches *)
Definition is_log (e : effect) : bool := match e with Log _ _ _ _ => true | PoolWrite _ => false end.

Definition log_key (e : effect) : option (N * N * str) :=
  match e with Log n l m _ => Some (n, l, m) | PoolWrite _ => None end.

(* the Loggers above the first Buffer, outermost first *)
Fixpoint reached (ks : list kind) : list (N * N * str) :=
  match ks with
  | [] => []
  | KLogger n l m :: r => (n, l, m) :: reached r
  | KBuffer :: _ => []
  | _ :: r => reached r
  end.

Fixpoint has_buffer (ks : list kind) : bool :=
  match ks with [] => false | KBuffer :: _ => true | _ :: r => has_buffer r end.

(* effects of one write: the records of exactly the reached Loggers, in order, then the pool write
   unless a Buffer holds the value back *)
Definition write_shape (ks : list kind) (e : list effect) : Prop :=
  exists logs tl, e = logs ++ tl
    /\ map log_key logs = map Some (reached ks)
    /\ (if has_buffer ks then tl = [] else exists v', tl = [PoolWrite v']).

Lemma write_go_shape : forall sp st p v, length st <= length sp ->
  write_shape (shape st) (fst (fst (write_go sp st p v))).
Proof.
  induction sp as [|x sp IH]; intros st p v Hl.
  - destruct st; [|cbn in Hl; lia]. cbn. exists [], [PoolWrite v]. repeat split. exists v. reflexivity.
  - destruct st as [|d r].
    + cbn. exists [], [PoolWrite v]. repeat split. exists v. reflexivity.
    + cbn [length] in Hl. cbn [write_go]. destruct d as [|n l m|prm s|s].
      * specialize (IH r p v ltac:(lia)). destruct (write_go sp r p v) as [[e r'] p']. exact IH.
      * pose proof (read_demand_shape r p) as Hs. pose proof (read_demand_length r p) as Hn.
        destruct (read_demand r p) as [dm r1]. cbn [snd] in Hs, Hn.
        specialize (IH r1 p v ltac:(lia)). destruct (write_go sp r1 p v) as [[e r2] p'].
        cbn [fst] in *. rewrite Hs in IH. destruct IH as [logs [tl [E [K B]]]].
        exists (Log n l m (mkFields v dm (read_through r p Supply) (read_through r p Utilisation)
                             (read_through r p Allocation) (read_through r p Allocation) (length r)) :: logs), tl.
        cbn [shape map kind_of reached has_buffer log_key]. rewrite E. repeat split; [|exact B].
        f_equal. exact K.
      * match goal with |- context[write_go sp r p ?w] =>
          specialize (IH r p w ltac:(lia)); destruct (write_go sp r p w) as [[e r'] p'] end.
        exact IH.
      * cbn. exists [], []. repeat split.
Qed.

Lemma write_records : forall st p v, write_shape (shape st) (fst (fst (write st p v))).
Proof. intros. unfold write. apply write_go_shape. lia. Qed.

Definition count_logs (e : list effect) : nat := length (filter is_log e).

Lemma write_shape_count : forall ks e, write_shape ks e -> count_logs e = length (reached ks).
Proof.
  intros ks e [logs [tl [E [K B]]]]. subst e. unfold count_logs. rewrite filter_app, app_length.
  assert (Htl : filter is_log tl = []).
  { destruct (has_buffer ks); [subst tl; reflexivity|]. destruct B as [v' ->]. reflexivity. }
  rewrite Htl. cbn [length]. rewrite Nat.add_0_r.
  assert (Hl : forall l ks', map log_key l = map Some ks' -> length (filter is_log l) = length ks').
  { induction l as [|a l IHl]; intros [|k ks'] H; cbn in H; try discriminate; [reflexivity|].
    destruct a as [n l0 m f|w]; cbn in H; [|discriminate]. cbn [filter is_log length]. f_equal.
    apply IHl. inversion H. reflexivity. }
  apply Hl. exact K.
Qed.

Definition obs_logs (o : obs) : nat := match o with OWrite e => count_logs e | _ => 0 end.
Definition is_write (o : op) : bool := match o with Write _ => true | _ => false end.

Fixpoint total_logs (l : list (obs * pool)) : nat :=
  match l with [] => 0 | (o, _) :: r => obs_logs o + total_logs r end.

(* over any history: records = (writes) x (Loggers reached) *)
Lemma records_through_stacks : forall ops st p,
  total_logs (fst (fst (run st p ops))) = length (filter is_write ops) * length (reached (shape st)).
Proof.
  induction ops as [|o r IH]; intros st p; cbn [run]; [reflexivity|].
  pose proof (step_attrs st p o) as Hs.
  assert (Ho : obs_logs (fst (fst (step st p o))) = (if is_write o then length (reached (shape st)) else 0)).
  { destruct o as [|v|s u a|d]; cbn [step is_write].
    - destruct (read_demand st p); reflexivity.
    - pose proof (write_records st p v) as W. destruct (write st p v) as [[e st'] p']. cbn [fst obs_logs] in *.
      apply write_shape_count. exact W.
    - reflexivity.
    - reflexivity. }
  destruct (step st p o) as [[ob st1] p1]. destruct Hs as [S1 _]. cbn [fst] in Ho.
  specialize (IH st1 p1). destruct (run st1 p1 r) as [[rest st2] p2]. cbn [fst] in *.
  cbn [total_logs]. rewrite Ho, IH, S1. cbn [filter].
  destruct (is_write o); cbn [length]; lia.
Qed.

(* ------------------------------------------------------------------ 5. templates *)
Section FormatProofs.
  Variable lookup : str -> option tv.

  Ltac crunch H :=
    repeat match type of H with
           | context[if ?b then _ else _] => destruct b
           | context[match ?x with _ => _ end] => destruct x
           end.

  Lemma conv_keys : forall c s m' s', conv c s = inr (m', s') -> fs_keys s' = fs_keys s.
  Proof.
    intros c s m' s' H. unfold conv in H.
    repeat match type of H with
           | context[if ?b then _ else _] => destruct b
           | context[match fs_cur ?x with _ => _ end] => destruct (fs_cur x)
           end; inversion H; reflexivity.
  Qed.

  Lemma conv_no_key : forall c s k, conv c s <> inl (FKey k).
  Proof.
    intros c s k H. unfold conv in H.
    repeat match type of H with
           | context[if ?b then _ else _] => destruct b
           | context[match fs_cur ?x with _ => _ end] => destruct (fs_cur x)
           end; discriminate.
  Qed.

  Lemma len_check_keys : forall c s m' s', len_check c s = inr (m', s') -> fs_keys s' = fs_keys s.
  Proof.
    intros c s m' s' H. unfold len_check in H. destruct (mem c [104; 108; 76]%N).
    - inversion H; reflexivity.
    - eapply conv_keys; exact H.
  Qed.
  Lemma len_check_no_key : forall c s k, len_check c s <> inl (FKey k).
  Proof. intros c s k H. unfold len_check in H. destruct (mem c [104; 108; 76]%N); [discriminate|]. eapply conv_no_key; exact H. Qed.

  Lemma dot_check_keys : forall c s m' s', dot_check c s = inr (m', s') -> fs_keys s' = fs_keys s.
  Proof.
    intros c s m' s' H. unfold dot_check in H. destruct (N.eqb c 46).
    - inversion H; reflexivity.
    - eapply len_check_keys; exact H.
  Qed.
  Lemma dot_check_no_key : forall c s k, dot_check c s <> inl (FKey k).
  Proof. intros c s k H. unfold dot_check in H. destruct (N.eqb c 46); [discriminate|]. eapply len_check_no_key; exact H. Qed.

  Lemma width_start_keys : forall c s m' s', width_start c s = inr (m', s') -> fs_keys s' = fs_keys s.
  Proof.
    intros c s m' s' H. unfold width_start in H. destruct (N.eqb c 42); [discriminate|].
    destruct (is_digit c); [inversion H; reflexivity|]. eapply dot_check_keys; exact H.
  Qed.
  Lemma width_start_no_key : forall c s k, width_start c s <> inl (FKey k).
  Proof.
    intros c s k H. unfold width_start in H. destruct (N.eqb c 42); [discriminate|].
    destruct (is_digit c); [discriminate|]. eapply dot_check_no_key; exact H.
  Qed.

  Lemma flags_step_keys : forall c s m' s', flags_step c s = inr (m', s') -> fs_keys s' = fs_keys s.
  Proof.
    intros c s m' s' H. unfold flags_step in H. destruct (is_flag c); [inversion H; reflexivity|].
    eapply width_start_keys; exact H.
  Qed.
  Lemma flags_step_no_key : forall c s k, flags_step c s <> inl (FKey k).
  Proof.
    intros c s k H. unfold flags_step in H. destruct (is_flag c); [discriminate|].
    eapply width_start_no_key; exact H.
  Qed.

  (* one character: the looked-up keys stay, or one key that the mapping HAS is added *)
  Lemma fstep_keys : forall m c s m' s', fstep lookup m c s = inr (m', s') ->
    fs_keys s' = fs_keys s \/ exists key v, lookup key = Some v /\ fs_keys s' = key :: fs_keys s.
  Proof.
    intros m c s m' s' H. destruct m as [| |pc acc| | | | |]; cbn [fstep] in H.
    - destruct (N.eqb c 37); inversion H; left; reflexivity.
    - destruct (N.eqb c 37); [inversion H; left; reflexivity|].
      destruct (N.eqb c 40); [inversion H; left; reflexivity|]. left. eapply flags_step_keys; exact H.
    - destruct (N.eqb c 41).
      + destruct pc as [|[|pc]].
        * inversion H; left; reflexivity.
        * destruct (lookup (rev acc)) as [v|] eqn:E; [|discriminate].
          inversion H; subst. right. exists (rev acc), v. split; [exact E|reflexivity].
        * inversion H; left; reflexivity.
      + destruct (N.eqb c 40); inversion H; left; reflexivity.
    - left. eapply flags_step_keys; exact H.
    - destruct (is_digit c); [inversion H; left; reflexivity|]. left. eapply dot_check_keys; exact H.
    - destruct (N.eqb c 42); [discriminate|].
      destruct (is_digit c); [inversion H; left; reflexivity|]. left. eapply len_check_keys; exact H.
    - destruct (is_digit c); [inversion H; left; reflexivity|]. left. eapply len_check_keys; exact H.
    - left. eapply conv_keys; exact H.
  Qed.

  (* a KeyError only comes from a lookup that the mapping does not have *)
  Lemma fstep_key_error : forall m c s k, fstep lookup m c s = inl (FKey k) -> lookup k = None.
  Proof.
    intros m c s k H. destruct m as [| |pc acc| | | | |]; cbn [fstep] in H.
    - destruct (N.eqb c 37); discriminate.
    - destruct (N.eqb c 37); [discriminate|]. destruct (N.eqb c 40); [discriminate|].
      exfalso. eapply flags_step_no_key; exact H.
    - destruct (N.eqb c 41).
      + destruct pc as [|[|pc]]; try discriminate.
        destruct (lookup (rev acc)) as [v|] eqn:E; [discriminate|]. inversion H; subst. exact E.
      + destruct (N.eqb c 40); discriminate.
    - exfalso. eapply flags_step_no_key; exact H.
    - destruct (is_digit c); [discriminate|]. exfalso. eapply dot_check_no_key; exact H.
    - destruct (N.eqb c 42); [discriminate|]. destruct (is_digit c); [discriminate|].
      exfalso. eapply len_check_no_key; exact H.
    - destruct (is_digit c); [discriminate|]. exfalso. eapply len_check_no_key; exact H.
    - exfalso. eapply conv_no_key; exact H.
  Qed.

  Lemma frun_unknown : forall l m s,
    (forall k, In k (fs_keys s) -> lookup k <> None) ->
    forall k, In k (snd (frun lookup m s l)) -> lookup k = None ->
    fst (frun lookup m s l) = FKey k.
  Proof.
    induction l as [|c r IH]; intros m s Hinv k Hin Hk; cbn [frun] in *.
    - exfalso. destruct m; cbn [snd] in Hin; apply in_rev in Hin; exact (Hinv k Hin Hk).
    - destruct (fstep lookup m c s) as [o|[m' s']] eqn:E.
      + destruct o as [|k0| |]; cbn [fst snd] in *;
          try (exfalso; apply in_rev in Hin; exact (Hinv k Hin Hk)).
        apply in_rev in Hin. destruct Hin as [->|Hin]; [reflexivity|].
        exfalso. exact (Hinv k Hin Hk).
      + apply IH; [|exact Hin|exact Hk].
        intros k1 Hk1. destruct (fstep_keys _ _ _ _ _ E) as [Hs|[key [v [Hl Hs]]]]; rewrite Hs in Hk1.
        * apply Hinv. exact Hk1.
        * destruct Hk1 as [<-|Hk1]; [congruence|apply Hinv; exact Hk1].
  Qed.

  Lemma frun_key_error : forall l m s k, fst (frun lookup m s l) = FKey k ->
    In k (snd (frun lookup m s l)) /\ lookup k = None.
  Proof.
    induction l as [|c r IH]; intros m s k H; cbn [frun] in *.
    - destruct m; discriminate.
    - destruct (fstep lookup m c s) as [o|[m' s']] eqn:E.
      + destruct o as [|k0| |]; cbn [fst snd] in *; try discriminate.
        inversion H; subst. split; [apply in_rev; rewrite rev_involutive; left; reflexivity|].
        eapply fstep_key_error; exact E.
      + apply IH. exact H.
  Qed.
End FormatProofs.

Lemma unknown_field_rejected : forall msg k,
  reaches_key (pct_scan test_fields msg) k -> known_field k = false -> logger_init msg = Rejected.
Proof.
  intros msg k Hr Hk. unfold logger_init.
  assert (Hn : test_fields k = None) by (unfold known_field in Hk; destruct (test_fields k); [discriminate|reflexivity]).
  unfold reaches_key, pct_scan in *.
  rewrite (frun_unknown test_fields msg MText (mkFS TMap true []) (fun k0 H => match H with end) k Hr Hn).
  reflexivity.
Qed.

Lemma rejected_only_for_unknown_field : forall msg, logger_init msg = Rejected ->
  exists k, reaches_key (pct_scan test_fields msg) k /\ known_field k = false.
Proof.
  intros msg H. unfold logger_init in H.
  destruct (fst (pct_scan test_fields msg)) as [|k| |] eqn:E; try discriminate.
  unfold pct_scan in *. destruct (frun_key_error test_fields msg MText _ k E) as [Hin Hn].
  exists k. split; [exact Hin|]. unfold known_field. rewrite Hn. reflexivity.
Qed.

(* a Logger with a rejected template is never constructed, whatever lies below *)
Lemma construct_rejects : forall name level msg inner p k,
  reaches_key (pct_scan test_fields msg) k -> known_field k = false ->
  fst (construct (SLogger name level msg) inner p) = inl CRuntime.
Proof.
  intros name level msg inner p k Hr Hk. cbn [construct].
  rewrite (unknown_field_rejected msg k Hr Hk). reflexivity.
Qed.
