(* C16 -- proofs about model/Decorators.v *)
From Coq Require Import ZArith QArith List Bool NArith Arith Lia.
From Cobald Require Import kit.QKit model.Decorators.
Import ListNotations.
Close Scope Q_scope.

(* ------------------------------------------------------------------ shapes *)
(* what never changes in a stack: the kinds and the loggers' configuration (scripts are consumed) *)
Inductive kind := KPlain | KLogger (name level : N) (msg : str) | KOpaque (cls : N).

Definition kind_of (d : deco) : kind :=
  match d with
  | Plain => KPlain
  | LoggerD n l m => KLogger n l m
  | OpaqueD c _ => KOpaque c
  end.

Definition shape (st : stack) : list kind := map kind_of st.

Lemma shape_length : forall a b, shape a = shape b -> length a = length b.
Proof. intros a b H. unfold shape in H. rewrite <- (map_length kind_of a), H. apply map_length. Qed.

Definition same_attrs (p p' : pool) : Prop :=
  p_supply p' = p_supply p /\ p_util p' = p_util p /\ p_alloc p' = p_alloc p.

Lemma same_attrs_refl : forall p, same_attrs p p.
Proof. intros p. repeat split. Qed.
Lemma same_attrs_trans : forall a b c, same_attrs a b -> same_attrs b c -> same_attrs a c.
Proof. intros a b c [x1 [x2 x3]] [y1 [y2 y3]]. repeat split; congruence. Qed.

(* ------------------------------------------------------------------ reads keep the composition *)
Definition R_shape (R : stack -> pool -> option (Q * stack)) : Prop :=
  forall r p x r', R r p = Some (x, r') -> shape r' = shape r.

Lemma rd_iter_shape : forall R, R_shape R -> forall k r p r', rd_iter R k r p = Some r' -> shape r' = shape r.
Proof.
  intros R HR. induction k as [|k IH]; intros r p r' H; cbn [rd_iter] in H.
  - inversion H. reflexivity.
  - destruct (R r p) as [[x r1]|] eqn:E; [|discriminate].
    rewrite (IH _ _ _ H). eapply HR. exact E.
Qed.

Lemma rd_shape : forall f, R_shape (rd f).
Proof.
  induction f as [|f IH]; intros st p x st' H.
  - destruct st; cbn [rd] in H; [inversion H; reflexivity|discriminate].
  - destruct st as [|d r]; cbn [rd] in H; [inversion H; reflexivity|].
    destruct d as [|n l m|c sc].
    + destruct (rd f r p) as [[y r1]|] eqn:E; [|discriminate]. inversion H; subst.
      cbn [shape map kind_of]. f_equal. eapply IH. exact E.
    + destruct (rd f r p) as [[y r1]|] eqn:E; [|discriminate]. inversion H; subst.
      cbn [shape map kind_of]. f_equal. eapply IH. exact E.
    + destruct sc as [|[k ret|v0 acts] sc]; try discriminate.
      destruct (rd_iter (rd f) k r p) as [r1|] eqn:E; [|discriminate]. inversion H; subst.
      cbn [shape map kind_of]. f_equal. eapply rd_iter_shape; [exact IH|exact E].
Qed.

Lemma read_demand_shape : forall st p x st', read_demand st p = Some (x, st') -> shape st' = shape st.
Proof. intros st p x st' H. eapply rd_shape. exact H. Qed.

(* ------------------------------------------------------------------ 1. supply / utilisation / allocation *)
Lemma reads_transparent : forall st p a, read_through st p a = attr_of a p.
Proof. induction st as [|d r IH]; intros p a; cbn [read_through]; [reflexivity|apply IH]. Qed.

Definition W_ok (W : stack -> pool -> Q -> option (list effect * stack * pool)) : Prop :=
  forall r p v e r' p', W r p v = Some (e, r', p') -> same_attrs p p' /\ shape r' = shape r.

Lemma acts_go_ok : forall R W, R_shape R -> W_ok W ->
  forall acts r p e r' p', acts_go R W acts r p = Some (e, r', p') -> same_attrs p p' /\ shape r' = shape r.
Proof.
  intros R W HR HW. induction acts as [|a rest IH]; intros r p e r' p' H; cbn [acts_go] in H.
  - inversion H; subst. split; [apply same_attrs_refl|reflexivity].
  - destruct a as [|w].
    + destruct (R r p) as [[x r1]|] eqn:E; [|discriminate].
      destruct (IH _ _ _ _ _ H) as [A B]. split; [exact A|].
      etransitivity; [exact B|]. eapply HR. exact E.
    + destruct (W r p w) as [[[e1 r1] p1]|] eqn:E; [|discriminate].
      destruct (acts_go R W rest r1 p1) as [[[e2 r2] p2]|] eqn:E2; [|discriminate]. inversion H; subst.
      destruct (HW _ _ _ _ _ _ E) as [A1 B1]. destruct (IH _ _ _ _ _ E2) as [A2 B2].
      split; [eapply same_attrs_trans; eassumption|congruence].
Qed.

Lemma wr_ok : forall f, W_ok (wr f).
Proof.
  induction f as [|f IH]; intros st p v e st' p' H.
  - destruct st; cbn [wr] in H; [|discriminate]. inversion H; subst. split; [repeat split|reflexivity].
  - destruct st as [|d r]; cbn [wr] in H.
    + inversion H; subst. split; [repeat split|reflexivity].
    + destruct d as [|n l m|c sc].
      * destruct (wr f r p v) as [[[e1 r1] p1]|] eqn:E; [|discriminate]. inversion H; subst.
        destruct (IH _ _ _ _ _ _ E) as [A B]. split; [exact A|]. cbn [shape map kind_of]. f_equal. exact B.
      * destruct (rd f r p) as [[dm r1]|] eqn:E0; [|discriminate].
        destruct (wr f r1 p v) as [[[e1 r2] p1]|] eqn:E; [|discriminate]. inversion H; subst.
        destruct (IH _ _ _ _ _ _ E) as [A B]. split; [exact A|]. cbn [shape map kind_of]. f_equal.
        etransitivity; [exact B|]. eapply rd_shape. exact E0.
      * destruct sc as [|[k ret|v0 acts] sc]; try discriminate.
        destruct (Qeq_bool v0 v); [|discriminate].
        destruct (acts_go (rd f) (wr f) acts r p) as [[[e1 r1] p1]|] eqn:E; [|discriminate]. inversion H; subst.
        destruct (acts_go_ok _ _ (rd_shape f) IH _ _ _ _ _ _ E) as [A B].
        split; [exact A|]. cbn [shape map kind_of]. f_equal. exact B.
Qed.

Lemma write_preserves : forall st p v e st' p', write st p v = Some (e, st', p') ->
  same_attrs p p' /\ shape st' = shape st.
Proof. intros st p v e st' p' H. eapply wr_ok. exact H. Qed.

(* histories *)
Lemma step_attrs : forall st p o,
  let '(ob, st', p') := step st p o in
  shape st' = shape st /\ ((forall s u a, o <> PoolState s u a) -> same_attrs p p').
Proof.
  intros st p o. destruct o as [|v|s u a|d]; cbn [step].
  - destruct (read_demand st p) as [[d st']|] eqn:E.
    + split; [eapply read_demand_shape; exact E|]. intros _. apply same_attrs_refl.
    + split; [reflexivity|]. intros _. apply same_attrs_refl.
  - destruct (write st p v) as [[[e st'] p']|] eqn:E.
    + destruct (write_preserves _ _ _ _ _ _ E) as [A B]. split; [exact B|]. intros _. exact A.
    + split; [reflexivity|]. intros _. apply same_attrs_refl.
  - split; [reflexivity|]. intros H. exfalso. apply (H s u a). reflexivity.
  - split; [reflexivity|]. intros _. repeat split.
Qed.

Lemma run_attrs : forall ops st p,
  let '(obs, st', p') := run st p ops in
  shape st' = shape st
  /\ ((forall o, In o ops -> forall s u a, o <> PoolState s u a) -> same_attrs p p')
  /\ forall a, read_through st' p' a = attr_of a p'.
Proof.
  induction ops as [|o r IH]; intros st p; cbn [run].
  - split; [reflexivity|]. split; [intros _; apply same_attrs_refl|]. intros a. apply reads_transparent.
  - pose proof (step_attrs st p o) as Hs. destruct (step st p o) as [[ob st1] p1]. destruct Hs as [S1 A1].
    specialize (IH st1 p1). destruct (run st1 p1 r) as [[rest st2] p2]. destruct IH as [S2 [A2 R2]].
    split; [congruence|]. split; [|exact R2].
    intros Hno. eapply same_attrs_trans.
    + apply A1. apply Hno. left. reflexivity.
    + apply A2. intros o' Ho'. apply Hno. right. exact Ho'.
Qed.

(* ------------------------------------------------------------------ 2. plain decorators and Loggers pass demand *)
Definition pl_only (st : stack) : bool :=
  forallb (fun d => match d with Plain | LoggerD _ _ _ => true | _ => false end) st.

Lemma pl_rd : forall f st p, pl_only st = true -> length st <= f -> rd f st p = Some (p_demand p, st).
Proof.
  induction f as [|f IH]; intros st p H Hl.
  - destruct st; [reflexivity|cbn in Hl; lia].
  - destruct st as [|d r]; [reflexivity|].
    cbn [pl_only forallb] in H. apply andb_true_iff in H. destruct H as [Hd Hr]. cbn [length] in Hl.
    destruct d as [|n l m|c sc]; try discriminate; cbn [rd]; rewrite (IH r p Hr); try lia; reflexivity.
Qed.

(* what a write of v does in a plain/Logger stack over pool p *)
Fixpoint pl_effects (st : stack) (p : pool) (v : Q) : list effect :=
  match st with
  | [] => [PoolWrite v]
  | LoggerD n l m :: r =>
      Arrive (length r) v
      :: Log n l m (mkFields v (p_demand p) (p_supply p) (p_util p) (p_alloc p) (p_alloc p) (length r))
      :: pl_effects r p v
  | _ :: r => Arrive (length r) v :: pl_effects r p v
  end.

Lemma pl_wr : forall f st p v, pl_only st = true -> length st <= f ->
  wr f st p v = Some (pl_effects st p v, st, set_demand p v).
Proof.
  induction f as [|f IH]; intros st p v H Hl.
  - destruct st; [reflexivity|cbn in Hl; lia].
  - destruct st as [|d r]; [reflexivity|].
    cbn [pl_only forallb] in H. apply andb_true_iff in H. destruct H as [Hd Hr]. cbn [length] in Hl.
    destruct d as [|n l m|c sc]; try discriminate; cbn [wr pl_effects].
    + rewrite (IH r p v Hr); [reflexivity|lia].
    + rewrite (pl_rd f r p Hr); [|lia]. rewrite (IH r p v Hr); [|lia].
      rewrite !reads_transparent. reflexivity.
Qed.

Lemma plain_and_logger_pass_demand : forall st p v, pl_only st = true ->
  read_demand st p = Some (p_demand p, st)
  /\ write st p v = Some (pl_effects st p v, st, set_demand p v).
Proof.
  intros st p v H. split; [apply pl_rd; [exact H|lia]|apply pl_wr; [exact H|lia]].
Qed.

(* ------------------------------------------------------------------ 3. one record, before the write, with the before-values *)
Lemma logger_write : forall n l m r p v,
  write (LoggerD n l m :: r) p v =
    match read_demand r p with
    | Some (dm, target_after_read) =>
        match write target_after_read p v with
        | Some (e, r', p') =>
            Some (Arrive (length r) v
                  :: Log n l m (mkFields v dm (p_supply p) (p_util p) (p_alloc p) (p_alloc p) (length r))
                  :: e, LoggerD n l m :: r', p')
        | None => None
        end
    | None => None
    end.
Proof.
  intros n l m r p v. unfold write at 1, read_demand. cbn [length wr].
  destruct (rd (length r) r p) as [[dm r1]|] eqn:E; [|reflexivity].
  unfold write. rewrite (shape_length _ _ (rd_shape _ _ _ _ _ E)).
  rewrite !reads_transparent. reflexivity.
Qed.

(* ------------------------------------------------------------------ 4. records = writes reaching the Logger *)
Definition is_arrive (j : nat) (e : effect) : bool :=
  match e with Arrive k _ => Nat.eqb k j | _ => false end.
Definition is_log_at (j : nat) (e : effect) : bool :=
  match e with Log _ _ _ f => Nat.eqb (f_target f) j | _ => false end.
Definition count (f : effect -> bool) (e : list effect) : nat := length (filter f e).

Definition depth_of (e : effect) : option nat :=
  match e with Arrive k _ => Some k | Log _ _ _ f => Some (f_target f) | PoolWrite _ => None end.
Definition below (b : nat) (e : effect) : Prop := match depth_of e with Some k => k < b | None => True end.

(* level with j levels under it *)
Fixpoint kind_at (ks : list kind) (j : nat) : option kind :=
  match ks with
  | [] => None
  | k :: r => if Nat.eqb j (length r) then Some k else kind_at r j
  end.

Definition logger_at (ks : list kind) (j : nat) : bool :=
  match kind_at ks j with Some (KLogger _ _ _) => true | _ => false end.

Lemma kind_at_high : forall ks j, length ks <= j -> kind_at ks j = None.
Proof.
  induction ks as [|k r IH]; intros j H; [reflexivity|]. cbn [kind_at length] in *.
  destruct (Nat.eqb j (length r)) eqn:E; [apply Nat.eqb_eq in E; lia|]. apply IH. lia.
Qed.

Lemma count_app : forall f a b, count f (a ++ b) = count f a + count f b.
Proof. intros. unfold count. rewrite filter_app, app_length. reflexivity. Qed.

Lemma count_below : forall j b e, Forall (below b) e -> b <= j ->
  count (is_arrive j) e = 0 /\ count (is_log_at j) e = 0.
Proof.
  intros j b e H Hb. induction H as [|x r Hx Hr IH]; [split; reflexivity|].
  destruct IH as [I1 I2]. unfold count in *. cbn [filter].
  destruct x as [k w|n l m f|w]; cbn [is_arrive is_log_at]; unfold below in Hx; cbn [depth_of] in Hx.
  - destruct (Nat.eqb k j) eqn:E; [apply Nat.eqb_eq in E; lia|]. split; assumption.
  - destruct (Nat.eqb (f_target f) j) eqn:E; [apply Nat.eqb_eq in E; lia|]. split; assumption.
  - split; assumption.
Qed.

(* the property of an effect list produced under a stack of shape ks *)
Definition balanced (ks : list kind) (e : list effect) : Prop :=
  Forall (below (length ks)) e
  /\ forall j, count (is_log_at j) e = if logger_at ks j then count (is_arrive j) e else 0.

Lemma balanced_nil : forall ks, balanced ks [].
Proof. intros ks. split; [constructor|]. intros j. destruct (logger_at ks j); reflexivity. Qed.

Lemma balanced_app : forall ks a b, balanced ks a -> balanced ks b -> balanced ks (a ++ b).
Proof.
  intros ks a b [A1 A2] [B1 B2]. split; [apply Forall_app; split; assumption|].
  intros j. rewrite !count_app, A2, B2. destruct (logger_at ks j); reflexivity.
Qed.

Lemma balanced_pw : forall ks v, balanced ks [PoolWrite v].
Proof.
  intros ks v. split; [constructor; [exact I|constructor]|].
  intros j. cbn. destruct (logger_at ks j); reflexivity.
Qed.

Lemma below_weaken : forall b b' e, b <= b' -> Forall (below b) e -> Forall (below b') e.
Proof.
  intros b b' e Hle H. eapply Forall_impl; [|exact H]. intros x Hx. unfold below in *.
  destruct (depth_of x); [lia|exact I].
Qed.

(* putting a level k on top of ks: `hd` is what the level itself contributes at depth length ks *)
Lemma balanced_cons : forall k ks hd e,
  balanced ks e ->
  Forall (fun x => depth_of x = Some (length ks)) hd ->
  count (is_log_at (length ks)) hd = (match k with KLogger _ _ _ => count (is_arrive (length ks)) hd | _ => 0 end) ->
  balanced (k :: ks) (hd ++ e).
Proof.
  intros k ks hd e [E1 E2] Hhd Hcnt. split.
  - cbn [length]. apply Forall_app. split.
    + eapply Forall_impl; [|exact Hhd]. intros x Hx. unfold below. rewrite Hx. lia.
    + eapply below_weaken; [|exact E1]. lia.
  - intros j. rewrite !count_app. unfold logger_at. cbn [kind_at].
    destruct (Nat.eqb j (length ks)) eqn:Ej.
    + apply Nat.eqb_eq in Ej. subst j.
      destruct (count_below (length ks) (length ks) e E1 (Nat.le_refl _)) as [Z1 Z2]. rewrite Z1, Z2, Hcnt.
      destruct k; lia.
    + assert (Hz : count (is_arrive j) hd = 0 /\ count (is_log_at j) hd = 0).
      { clear Hcnt. induction Hhd as [|x r Hx Hr IH]; [split; reflexivity|]. destruct IH as [I1 I2].
        unfold count in *. cbn [filter].
        destruct x as [q w|n l m f|w]; cbn [depth_of] in Hx; cbn [is_arrive is_log_at]; try discriminate.
        - inversion Hx; subst. rewrite Nat.eqb_sym, Ej. split; assumption.
        - inversion Hx as [Hf]. rewrite Hf, Nat.eqb_sym, Ej. split; assumption. }
      destruct Hz as [Z1 Z2]. rewrite Z1, Z2. cbn [plus]. specialize (E2 j). unfold logger_at in E2. exact E2.
Qed.

Definition W_bal (W : stack -> pool -> Q -> option (list effect * stack * pool)) : Prop :=
  forall r p v e r' p', W r p v = Some (e, r', p') -> balanced (shape r) e.

Lemma acts_go_bal : forall R W, R_shape R -> W_ok W -> W_bal W ->
  forall acts r p e r' p', acts_go R W acts r p = Some (e, r', p') -> balanced (shape r) e.
Proof.
  intros R W HR HW HB. induction acts as [|a rest IH]; intros r p e r' p' H; cbn [acts_go] in H.
  - inversion H; subst. apply balanced_nil.
  - destruct a as [|w].
    + destruct (R r p) as [[x r1]|] eqn:E; [|discriminate].
      rewrite <- (HR _ _ _ _ E). eapply IH. exact H.
    + destruct (W r p w) as [[[e1 r1] p1]|] eqn:E; [|discriminate].
      destruct (acts_go R W rest r1 p1) as [[[e2 r2] p2]|] eqn:E2; [|discriminate]. inversion H; subst.
      apply balanced_app; [eapply HB; exact E|].
      destruct (HW _ _ _ _ _ _ E) as [_ Hs]. rewrite <- Hs. eapply IH. exact E2.
Qed.

Lemma shape_len : forall st, length (shape st) = length st.
Proof. intros. unfold shape. apply map_length. Qed.

Lemma wr_bal : forall f, W_bal (wr f).
Proof.
  induction f as [|f IH]; intros st p v e st' p' H.
  - destruct st; cbn [wr] in H; [|discriminate]. inversion H; subst. apply balanced_pw.
  - destruct st as [|d r]; cbn [wr] in H; [inversion H; subst; apply balanced_pw|].
    destruct d as [|n l m|c sc].
    + destruct (wr f r p v) as [[[e1 r1] p1]|] eqn:E; [|discriminate]. inversion H; subst.
      cbn [shape map kind_of]. rewrite <- (shape_len r).
      apply (balanced_cons KPlain (shape r) [Arrive (length (shape r)) v] e1); [eapply IH; exact E| |reflexivity].
      constructor; [reflexivity|constructor].
    + destruct (rd f r p) as [[dm r1]|] eqn:E0; [|discriminate].
      destruct (wr f r1 p v) as [[[e1 r2] p1]|] eqn:E; [|discriminate]. inversion H; subst.
      cbn [shape map kind_of]. rewrite <- (shape_len r).
      match goal with |- balanced _ (?a :: ?b :: e1) =>
        apply (balanced_cons (KLogger n l m) (shape r) [a; b] e1) end.
      * rewrite <- (rd_shape _ _ _ _ _ E0). eapply IH. exact E.
      * constructor; [reflexivity|]. constructor; [reflexivity|constructor].
      * unfold count. cbn [filter is_log_at is_arrive f_target]. rewrite !Nat.eqb_refl. reflexivity.
    + destruct sc as [|[k ret|v0 acts] sc]; try discriminate.
      destruct (Qeq_bool v0 v); [|discriminate].
      destruct (acts_go (rd f) (wr f) acts r p) as [[[e1 r1] p1]|] eqn:E; [|discriminate]. inversion H; subst.
      cbn [shape map kind_of]. rewrite <- (shape_len r).
      apply (balanced_cons (KOpaque c) (shape r) [Arrive (length (shape r)) v] e1); [| |reflexivity].
      * eapply acts_go_bal; [apply rd_shape|apply wr_ok|exact IH|exact E].
      * constructor; [reflexivity|constructor].
Qed.

(* one write through any stack with any scripts: at every Logger, records = arrivals; elsewhere no record *)
Lemma records_match_arrivals : forall st p v e st' p', write st p v = Some (e, st', p') ->
  forall j, count (is_log_at j) e = if logger_at (shape st) j then count (is_arrive j) e else 0.
Proof. intros st p v e st' p' H. exact (proj2 (wr_bal _ _ _ _ _ _ _ H)). Qed.

(* over any history *)
Fixpoint run_count (f : effect -> bool) (l : list (obs * pool)) : nat :=
  match l with
  | [] => 0
  | (OWrite e, _) :: r => count f e + run_count f r
  | _ :: r => run_count f r
  end.

Lemma records_through_stacks : forall ops st p j,
  run_count (is_log_at j) (fst (fst (run st p ops)))
  = if logger_at (shape st) j then run_count (is_arrive j) (fst (fst (run st p ops))) else 0.
Proof.
  induction ops as [|o r IH]; intros st p j; cbn [run].
  - cbn. destruct (logger_at (shape st) j); reflexivity.
  - pose proof (step_attrs st p o) as Hs.
    assert (Ho : forall e, fst (fst (step st p o)) = OWrite e ->
              count (is_log_at j) e = if logger_at (shape st) j then count (is_arrive j) e else 0).
    { intros e He. destruct o as [|v|s u a|d]; cbn [step] in He.
      - destruct (read_demand st p) as [[d st']|]; discriminate.
      - destruct (write st p v) as [[[e0 st'] p']|] eqn:E; [|discriminate]. cbn [fst] in He. inversion He; subst.
        eapply records_match_arrivals. exact E.
      - discriminate.
      - discriminate. }
    destruct (step st p o) as [[ob st1] p1]. destruct Hs as [S1 _]. cbn [fst] in Ho.
    specialize (IH st1 p1 j). destruct (run st1 p1 r) as [[rest st2] p2]. cbn [fst] in *.
    rewrite S1 in IH. destruct ob as [d s u a|e| |]; cbn [run_count]; try exact IH.
    rewrite IH, (Ho e eq_refl). destruct (logger_at (shape st) j); reflexivity.
Qed.

(* ------------------------------------------------------------------ 5. templates *)
Section FormatProofs.
  Variable lookup : str -> option tv.

  Ltac crunch H :=
    repeat match type of H with
           | context[if ?b then _ else _] => destruct b
           | context[match ?x with _ => _ end] => destruct x
           end.

  Lemma conv_keys : forall c s m' s', conv c s = inr (m', s') -> fs_keys s' = fs_keys s.
  Proof.
    intros c s m' s' H. unfold conv in H.
    repeat match type of H with
           | context[if ?b then _ else _] => destruct b
           | context[match fs_cur ?x with _ => _ end] => destruct (fs_cur x)
           end; inversion H; reflexivity.
  Qed.

  Lemma conv_no_key : forall c s k, conv c s <> inl (FKey k).
  Proof.
    intros c s k H. unfold conv in H.
    repeat match type of H with
           | context[if ?b then _ else _] => destruct b
           | context[match fs_cur ?x with _ => _ end] => destruct (fs_cur x)
           end; discriminate.
  Qed.

  Lemma len_check_keys : forall c s m' s', len_check c s = inr (m', s') -> fs_keys s' = fs_keys s.
  Proof.
    intros c s m' s' H. unfold len_check in H. destruct (mem c [104; 108; 76]%N).
    - inversion H; reflexivity.
    - eapply conv_keys; exact H.
  Qed.
  Lemma len_check_no_key : forall c s k, len_check c s <> inl (FKey k).
  Proof. intros c s k H. unfold len_check in H. destruct (mem c [104; 108; 76]%N); [discriminate|]. eapply conv_no_key; exact H. Qed.

  Lemma dot_check_keys : forall c s m' s', dot_check c s = inr (m', s') -> fs_keys s' = fs_keys s.
  Proof.
    intros c s m' s' H. unfold dot_check in H. destruct (N.eqb c 46).
    - inversion H; reflexivity.
    - eapply len_check_keys; exact H.
  Qed.
  Lemma dot_check_no_key : forall c s k, dot_check c s <> inl (FKey k).
  Proof. intros c s k H. unfold dot_check in H. destruct (N.eqb c 46); [discriminate|]. eapply len_check_no_key; exact H. Qed.

  Lemma width_start_keys : forall c s m' s', width_start c s = inr (m', s') -> fs_keys s' = fs_keys s.
  Proof.
    intros c s m' s' H. unfold width_start in H. destruct (N.eqb c 42); [discriminate|].
    destruct (is_digit c); [inversion H; reflexivity|]. eapply dot_check_keys; exact H.
  Qed.
  Lemma width_start_no_key : forall c s k, width_start c s <> inl (FKey k).
  Proof.
    intros c s k H. unfold width_start in H. destruct (N.eqb c 42); [discriminate|].
    destruct (is_digit c); [discriminate|]. eapply dot_check_no_key; exact H.
  Qed.

  Lemma flags_step_keys : forall c s m' s', flags_step c s = inr (m', s') -> fs_keys s' = fs_keys s.
  Proof.
    intros c s m' s' H. unfold flags_step in H. destruct (is_flag c); [inversion H; reflexivity|].
    eapply width_start_keys; exact H.
  Qed.
  Lemma flags_step_no_key : forall c s k, flags_step c s <> inl (FKey k).
  Proof.
    intros c s k H. unfold flags_step in H. destruct (is_flag c); [discriminate|].
    eapply width_start_no_key; exact H.
  Qed.

  (* one character: the looked-up keys stay, or one key that the mapping HAS is added *)
  Lemma fstep_keys : forall m c s m' s', fstep lookup m c s = inr (m', s') ->
    fs_keys s' = fs_keys s \/ exists key v, lookup key = Some v /\ fs_keys s' = key :: fs_keys s.
  Proof.
    intros m c s m' s' H. destruct m as [| |pc acc| | | | |]; cbn [fstep] in H.
    - destruct (N.eqb c 37); inversion H; left; reflexivity.
    - destruct (N.eqb c 37); [inversion H; left; reflexivity|].
      destruct (N.eqb c 40); [inversion H; left; reflexivity|]. left. eapply flags_step_keys; exact H.
    - destruct (N.eqb c 41).
      + destruct pc as [|[|pc]].
        * inversion H; left; reflexivity.
        * destruct (lookup (rev acc)) as [v|] eqn:E; [|discriminate].
          inversion H; subst. right. exists (rev acc), v. split; [exact E|reflexivity].
        * inversion H; left; reflexivity.
      + destruct (N.eqb c 40); inversion H; left; reflexivity.
    - left. eapply flags_step_keys; exact H.
    - destruct (is_digit c); [inversion H; left; reflexivity|]. left. eapply dot_check_keys; exact H.
    - destruct (N.eqb c 42); [discriminate|].
      destruct (is_digit c); [inversion H; left; reflexivity|]. left. eapply len_check_keys; exact H.
    - destruct (is_digit c); [inversion H; left; reflexivity|]. left. eapply len_check_keys; exact H.
    - left. eapply conv_keys; exact H.
  Qed.

  (* a KeyError only comes from a lookup that the mapping does not have *)
  Lemma fstep_key_error : forall m c s k, fstep lookup m c s = inl (FKey k) -> lookup k = None.
  Proof.
    intros m c s k H. destruct m as [| |pc acc| | | | |]; cbn [fstep] in H.
    - destruct (N.eqb c 37); discriminate.
    - destruct (N.eqb c 37); [discriminate|]. destruct (N.eqb c 40); [discriminate|].
      exfalso. eapply flags_step_no_key; exact H.
    - destruct (N.eqb c 41).
      + destruct pc as [|[|pc]]; try discriminate.
        destruct (lookup (rev acc)) as [v|] eqn:E; [discriminate|]. inversion H; subst. exact E.
      + destruct (N.eqb c 40); discriminate.
    - exfalso. eapply flags_step_no_key; exact H.
    - destruct (is_digit c); [discriminate|]. exfalso. eapply dot_check_no_key; exact H.
    - destruct (N.eqb c 42); [discriminate|]. destruct (is_digit c); [discriminate|].
      exfalso. eapply len_check_no_key; exact H.
    - destruct (is_digit c); [discriminate|]. exfalso. eapply len_check_no_key; exact H.
    - exfalso. eapply conv_no_key; exact H.
  Qed.

  Lemma frun_unknown : forall l m s,
    (forall k, In k (fs_keys s) -> lookup k <> None) ->
    forall k, In k (snd (frun lookup m s l)) -> lookup k = None ->
    fst (frun lookup m s l) = FKey k.
  Proof.
    induction l as [|c r IH]; intros m s Hinv k Hin Hk; cbn [frun] in *.
    - exfalso. destruct m; cbn [snd] in Hin; apply in_rev in Hin; exact (Hinv k Hin Hk).
    - destruct (fstep lookup m c s) as [o|[m' s']] eqn:E.
      + destruct o as [|k0| |]; cbn [fst snd] in *;
          try (exfalso; apply in_rev in Hin; exact (Hinv k Hin Hk)).
        apply in_rev in Hin. destruct Hin as [->|Hin]; [reflexivity|].
        exfalso. exact (Hinv k Hin Hk).
      + apply IH; [|exact Hin|exact Hk].
        intros k1 Hk1. destruct (fstep_keys _ _ _ _ _ E) as [Hs|[key [v [Hl Hs]]]]; rewrite Hs in Hk1.
        * apply Hinv. exact Hk1.
        * destruct Hk1 as [<-|Hk1]; [congruence|apply Hinv; exact Hk1].
  Qed.

  Lemma frun_key_error : forall l m s k, fst (frun lookup m s l) = FKey k ->
    In k (snd (frun lookup m s l)) /\ lookup k = None.
  Proof.
    induction l as [|c r IH]; intros m s k H; cbn [frun] in *.
    - destruct m; discriminate.
    - destruct (fstep lookup m c s) as [o|[m' s']] eqn:E.
      + destruct o as [|k0| |]; cbn [fst snd] in *; try discriminate.
        inversion H; subst. split; [apply in_rev; rewrite rev_involutive; left; reflexivity|].
        eapply fstep_key_error; exact E.
      + apply IH. exact H.
  Qed.
End FormatProofs.

Lemma unknown_field_rejected : forall msg k,
  reaches_key (pct_scan test_fields msg) k -> known_field k = false -> logger_init msg = Rejected.
Proof.
  intros msg k Hr Hk. unfold logger_init.
  assert (Hn : test_fields k = None) by (unfold known_field in Hk; destruct (test_fields k); [discriminate|reflexivity]).
  unfold reaches_key, pct_scan in *.
  rewrite (frun_unknown test_fields msg MText (mkFS TMap true []) (fun k0 H => match H with end) k Hr Hn).
  reflexivity.
Qed.

Lemma rejected_only_for_unknown_field : forall msg, logger_init msg = Rejected ->
  exists k, reaches_key (pct_scan test_fields msg) k /\ known_field k = false.
Proof.
  intros msg H. unfold logger_init in H.
  destruct (fst (pct_scan test_fields msg)) as [|k| |] eqn:E; try discriminate.
  unfold pct_scan in *. destruct (frun_key_error test_fields msg MText _ k E) as [Hin Hn].
  exists k. split; [exact Hin|]. unfold known_field. rewrite Hn. reflexivity.
Qed.

(* a Logger with a rejected template is never constructed, whatever lies below *)
Lemma construct_rejects : forall name level msg inner p k,
  reaches_key (pct_scan test_fields msg) k -> known_field k = false ->
  fst (construct (SLogger name level msg) inner p) = BErr CRuntime.
Proof.
  intros name level msg inner p k Hr Hk. cbn [construct].
  rewrite (unknown_field_rejected msg k Hr Hk). reflexivity.
Qed.
