(* Correspondence for the runtime properties (C01 C02 C03 C10 C11 C12 C13): a real event log,
   translated to `list event`, must be accepted by the model and leave nothing owed. *)
From Coq Require Import List Arith Bool.
From Cobald Require Import model.RT.
Import ListNotations.

Definition case := list event.

Definition check (tr : case) : bool :=
  match run init tr with
  | Some st => quiescent st
  | None => false
  end.

(* diagnostics printed for a disagreeing trace: index of the first rejected event (if any) and
   what is still owed at the end of the accepted prefix *)
Fixpoint run_prefix (s : rt) (tr : list event) : rt :=
  match tr with
  | [] => s
  | e :: r => match step s e with Some s' => run_prefix s' r | None => s end
  end.

Definition diagnose (tr : case) : option nat * list oblig :=
  (first_reject init tr 0, owed (run_prefix init tr)).
