(* Correspondence check for C07: the harness records, for one history of operations on a real
   WeightedComposite/UniformComposite, the observation after every operation; the model must
   produce the same observations (numbers compared as exact rationals). *)
From Coq Require Import ZArith QArith List Bool.
From Cobald Require Import kit.QKit model.Composite.
Import ListNotations.

Record case := mkCase {
  k_kind : kind;
  k_children : list child;
  k_ops : list op;
  k_obs : list observation      (* implementation's observation after construction and after each op *)
}.

Definition obs_eqb (a b : observation) : bool :=
  Qeqb (o_demand a) (o_demand b) && Qeqb (o_supply a) (o_supply b)
  && Qeqb (o_util a) (o_util b) && Qeqb (o_alloc a) (o_alloc b)
  && list_Qeqb (o_child_demands a) (o_child_demands b).

Fixpoint all2 {A} (f : A -> A -> bool) (a b : list A) : bool :=
  match a, b with
  | [], [] => true
  | x :: r, y :: s => f x y && all2 f r s
  | _, _ => false
  end.

Definition check (c : case) : bool :=
  let st0 := init (k_kind c) (k_children c) in
  all2 obs_eqb (observe st0 :: trace st0 (k_ops c)) (k_obs c).
