(* Correspondence check for C17.
   LineCase: the harness formats one real logging.LogRecord with the real LineProtocolFormatter and
   records the output's code points (or the exception class); the model must produce the same
   outcome, and - inside the property's domain - the reference decoder must decode the REAL output
   to the expected point.
   JsonCase: the harness records json.loads(JsonFormatter.format(record)) as key -> canonical value
   text; the model's merged dictionary must be the same finite map. *)
From Coq Require Import ZArith NArith QArith List Bool.
From Cobald Require Import model.LineProtocol.
Import ListNotations.

Inductive observation := OOut (s : str) | ORaised (e : error) | OOther.

Inductive case :=
| LineCase (cfg : config) (r : record) (in_domain : bool) (obs : observation)
| JsonCase (defaults : list (str * str)) (datefmt : option str) (timestr : str) (message : str)
           (data : list (str * str)) (obs : option (list (str * str))).

Definition error_eqb (a b : error) : bool :=
  match a, b with
  | AssertNoneValue, AssertNoneValue | ZeroDivision, ZeroDivision => true
  | _, _ => false
  end.

Definition outcome_matches (o : outcome) (obs : observation) : bool :=
  match o, obs with
  | Ok s, OOut s' => str_eqb s s'
  | Raised e, ORaised e' => error_eqb e e'
  | _, _ => false
  end.

Fixpoint list_eqb {A} (f : A -> A -> bool) (a b : list A) : bool :=
  match a, b with
  | [], [] => true
  | x :: r, y :: s => f x y && list_eqb f r s
  | _, _ => false
  end.

Definition fvalue_eqb (a b : fvalue) : bool :=
  match a, b with
  | FStr s, FStr s' => str_eqb s s'
  | FBool x, FBool y => Bool.eqb x y
  | FNum s, FNum s' => str_eqb s s'
  | _, _ => false
  end.

Definition optZ_eqb (a b : option Z) : bool :=
  match a, b with
  | Some x, Some y => Z.eqb x y
  | None, None => true
  | _, _ => false
  end.

Definition point_eqb (a b : point) : bool :=
  let '(n, t, f, ts) := a in
  let '(n', t', f', ts') := b in
  str_eqb n n'
  && list_eqb (fun x y => str_eqb (fst x) (fst y) && str_eqb (snd x) (snd y)) t t'
  && list_eqb (fun x y => str_eqb (fst x) (fst y) && fvalue_eqb (snd x) (snd y)) f f'
  && optZ_eqb ts ts'.

(* the model does not describe python's %-formatting of the message (`name % data`): a name with a
   percent sign is outside the property's domain and, unless the data is empty, outside the model *)
Definition model_applies (r : record) : bool :=
  forallb (fun c => negb (N.eqb c 37)) (r_name r) || negb (nonempty (r_data r)).

(* `in_domain` is the harness's own (python) reading of the property's quantifier; it must agree
   with the model's `wfb`, so that neither side silently shrinks the domain *)
Definition check_line (cfg : config) (r : record) (in_domain : bool) (obs : observation) : bool :=
  Bool.eqb (wfb cfg r) in_domain &&
  (negb (model_applies r) ||
  outcome_matches (format cfg r) obs
  && (if wfb cfg r then
        match obs with
        | OOut s =>
            match lp_parse s with
            | Some p => point_eqb p (r_name r, expected_tags cfg r, expected_fields cfg r, expected_time cfg r)
            | None => false
            end
        | _ => false
        end
      else true)).

Definition optstr_eqb (a b : option str) : bool :=
  match a, b with
  | Some x, Some y => str_eqb x y
  | None, None => true
  | _, _ => false
  end.

(* equality of finite maps given as association lists with unique keys *)
Definition map_eqb (a b : list (str * str)) : bool :=
  nodup_keys a && nodup_keys b && Nat.eqb (length a) (length b)
  && forallb (fun kv => optstr_eqb (lookup (fst kv) b) (Some (snd kv))) a.

Definition check_json defaults datefmt timestr message data (obs : option (list (str * str))) : bool :=
  match obs with
  | None => false
  | Some o =>
      map_eqb (json_data defaults (if add_time datefmt then Some timestr else None) message data) o
  end.

Definition check (c : case) : bool :=
  match c with
  | LineCase cfg r dom obs => check_line cfg r dom obs
  | JsonCase d f t m data obs => check_json d f t m data obs
  end.
