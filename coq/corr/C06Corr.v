(* Correspondence check for C06: the harness builds a real Standardiser over a plain recording pool
   for the given parameters (or records the ValueError of the constructor), runs one or more
   histories of operations on fresh instances and records what an observer sees after every
   operation (value returned by a read, target.demand, supply/utilisation/allocation read through
   the decorator; every number with its int/float tag, exact rational value or infinity).
   A history ends early when a NaN shows up (outcome ENaN) or an exception is raised.
   The model must reproduce all of it exactly (values and outcomes for the verdict; types in a second,
   informational pass). *)
From Coq Require Import ZArith QArith List Bool.
From Cobald Require Import kit.QKit kit.PyNum model.Standardiser.
Import ListNotations.

Record history := mkHist {
  h_ops : list op;
  h_obs : list obs;            (* implementation: observation after each completed operation *)
  h_end : option err           (* implementation: how the history ended early, if it did *)
}.

Record case := mkCase {
  k_par : params;
  k_pool : pool;
  k_accepted : bool;           (* implementation: constructor returned (true) / raised ValueError (false) *)
  k_init : obs;                (* implementation: observation right after construction (if accepted) *)
  k_hists : list history;
  k_sane : bool                (* false: the implementation did something the model has no outcome for *)
}.

(* equality of python numbers by value (10 == 10.0, as python's `==`) / by value and type *)
Definition val_eqb (a b : num) : bool := feqb (val a) (val b).

Definition opt_eqb (eqn : num -> num -> bool) (a b : option num) : bool :=
  match a, b with
  | None, None => true
  | Some x, Some y => eqn x y
  | _, _ => false
  end.

Definition obs_eqb (eqn : num -> num -> bool) (a b : obs) : bool :=
  opt_eqb eqn (o_read a) (o_read b) && eqn (o_tdemand a) (o_tdemand b)
  && eqn (o_supply a) (o_supply b) && eqn (o_util a) (o_util b)
  && eqn (o_alloc a) (o_alloc b).

Fixpoint all2 {A} (f : A -> A -> bool) (a b : list A) : bool :=
  match a, b with
  | [], [] => true
  | x :: r, y :: s => f x y && all2 f r s
  | _, _ => false
  end.

Definition opt_err_eqb (a b : option err) : bool :=
  match a, b with
  | None, None => true
  | Some x, Some y => err_eqb x y
  | _, _ => false
  end.

Definition hist_ok (eqn : num -> num -> bool) (st0 : std) (h : history) : bool :=
  let (l, e) := trace st0 (h_ops h) in
  all2 (obs_eqb eqn) l (h_obs h) && opt_err_eqb e (h_end h).

Definition check_with (eqn : num -> num -> bool) (c : case) : bool :=
  k_sane c &&
  match construct (k_par c) (k_pool c) with
  | Err EValue => negb (k_accepted c)
  | Err _ => false
  | Ok st0 =>
      k_accepted c && obs_eqb eqn (observe None st0) (k_init c) && forallb (hist_ok eqn st0) (k_hists c)
  end.

(* the verdict: every observed VALUE (and every outcome) agrees.  The property speaks about values; a
   rewrite of the code that returns 10.0 where it returned 10 keeps it. *)
Definition check : case -> bool := check_with val_eqb.

(* stricter, reported but not part of the verdict: the int/float type of every observed number agrees too
   (validates the typing rules of kit/PyNum.v) *)
Definition check_tags : case -> bool := check_with num_eqb.
