(* Correspondence for C13: the event file of a real daemon process, translated to RT events, plus the
   observed exit status. *)
From Coq Require Import List Arith Bool.
From Cobald Require Import model.RT model.Daemon.
Import ListNotations.

Record case := mkCase { k_holds : bool; k_trace : list event; k_exit_zero : bool }.

Definition check (c : case) : bool :=
  match drun (k_holds c) dinit (k_trace c) with
  | Some d => quiescent (d_rt d) && Bool.eqb (exit_status d =? 0) (k_exit_zero c)
  | None => false
  end.

Fixpoint drun_prefix (holds : bool) (d : dstate) (tr : list event) : dstate :=
  match tr with
  | [] => d
  | e :: r => match dstep holds d e with Some d' => drun_prefix holds d' r | None => d end
  end.

Definition diagnose (c : case) : option nat * list oblig * nat :=
  (dfirst_reject (k_holds c) dinit (k_trace c) 0,
   owed (d_rt (drun_prefix (k_holds c) dinit (k_trace c))),
   exit_status (drun_prefix (k_holds c) dinit (k_trace c))).
