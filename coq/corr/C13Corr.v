(* Correspondence for C13: the event file of a real daemon process, translated to RT events, plus the
   observed exit status. *)
From Coq Require Import List Arith Bool.
From Cobald Require Import model.RT model.Daemon model.DaemonCtor.
Import ListNotations.

Record case := mkCase { k_holds : bool; k_trace : list event; k_exit_zero : bool }.

Definition check (c : case) : bool :=
  match crun (k_holds c) cinit (k_trace c) with
  | Some cs => quiescent (d_rt (c_d cs)) && Bool.eqb (exit_status (c_d cs) =? 0) (k_exit_zero c)
  | None => false
  end.

Definition diagnose (c : case) : option nat * list oblig * nat :=
  (cfirst_reject (k_holds c) cinit (k_trace c) 0,
   owed (d_rt (c_d (crun_prefix (k_holds c) cinit (k_trace c)))),
   exit_status (c_d (crun_prefix (k_holds c) cinit (k_trace c)))).
