(* Correspondence check for C15: the harness runs one history on a real FactoryPool (recording
   children holding exact Fractions, scripted factory, the shipped run() loop under a mock clock)
   and records the pool after construction and after every operation; the model must produce the
   same observations (hatchery / mortuary as sorted sets of child numbers, the children's demands,
   the pool's demand, supply, utilisation, allocation, the factory call count) and the same ending. *)
From Coq Require Import ZArith QArith List Bool Arith.
From Cobald Require Import kit.QKit kit.SetKit model.Factory.
Import ListNotations.

Record case := mkCase {
  k_children : list child;        (* initial children, numbered 0.. *)
  k_script : list child;          (* what the factory returns, call by call *)
  k_default : child;              (* ... and after the script is exhausted *)
  k_ops : list op;
  k_obs : list observation;       (* implementation: after construction and after each completed op *)
  k_end : ending
}.

Fixpoint nat_list_eqb (a b : list nat) : bool :=
  match a, b with
  | [], [] => true
  | x :: r, y :: s => Nat.eqb x y && nat_list_eqb r s
  | _, _ => false
  end.

Definition obs_eqb (a b : observation) : bool :=
  nat_list_eqb (o_hatchery a) (o_hatchery b) && nat_list_eqb (o_mortuary a) (o_mortuary b)
  && list_Qeqb (o_demands a) (o_demands b)
  && Qeqb (o_demand a) (o_demand b) && Qeqb (o_supply a) (o_supply b)
  && Qeqb (o_util a) (o_util b) && Qeqb (o_alloc a) (o_alloc b)
  && Nat.eqb (o_calls a) (o_calls b).

Fixpoint all2 {A} (f : A -> A -> bool) (a b : list A) : bool :=
  match a, b with
  | [], [] => true
  | x :: r, y :: s => f x y && all2 f r s
  | _, _ => false
  end.

Definition ending_eqb (a b : ending) : bool :=
  match a, b with
  | EndOk, EndOk | EndAssertion, EndAssertion | EndOutOfFuel, EndOutOfFuel => true
  | _, _ => false
  end.

Definition fuel : nat := 400.

Definition check (c : case) : bool :=
  let factory := fun n => nth n (k_script c) (k_default c) in
  let st0 := init (k_children c) in
  let '(t, e) := trace factory fuel st0 (k_ops c) in
  all2 obs_eqb (observe st0 :: t) (k_obs c) && ending_eqb e (k_end c).
