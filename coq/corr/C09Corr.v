(* Correspondence check for C09.  The harness runs the shipped run() coroutine of one service under
   trio's MockClock (service started at virtual time 0), lets the environment act at generated virtual
   times and records (a) for every virtual time at which the service touched its pool / children:
   the time and the effects (demand writes, rule / slave calls, factory calls) at that time, (b) whether
   and when run() raised, (c) the final numbers at the end time T.  The model must reproduce this for
   SOME resolution of the ties (environment action exactly at a wake time). *)
From Coq Require Import ZArith QArith List Bool Arith NArith.
From Cobald Require Import kit.QKit model.Controllers model.Services corr.C08Corr.
Import ListNotations.
Open Scope Q_scope.

Inductive svc :=
| VCtl (k : ctor) (table : list beh)
| VBuffer (window : Q)
| VFactory (q interval : Q) (n0 : nat).      (* n0 initial children, each with demand q *)

Inductive xenv := XP (a : penv) | XB (v : Q) | XF (d : Q).

Record case := mkCase {
  k_svc : svc;
  k_pool : pool;                          (* the target (controllers, Buffer) *)
  k_env : list (@eact xenv);
  k_T : Q;
  k_nties : nat;                          (* tie groups are numbered 0 .. k_nties-1 *)
  (* observations *)
  k_log : list (Q * list effect);         (* controllers, Buffer *)
  k_spawns : list (Q * nat);              (* FactoryPool: factory() calls per adjustment *)
  k_raised : option Q;                    (* run() raised (TypeError from a missing rule) at this time *)
  k_final : list Q                        (* ctl: [demand]; buffer: [buffer.demand; target.demand]; factory: [demand; sum of children's demand] *)
}.

Fixpoint conv {B} (f : xenv -> option B) (l : list (@eact xenv)) : list (@eact B) :=
  match l with
  | [] => []
  | x :: r => match f (ea_act x) with
              | Some b => mkEact (ea_time x) (ea_group x) b :: conv f r
              | None => conv f r
              end
  end.

Definition as_penv (x : xenv) := match x with XP a => Some a | _ => None end.
Definition as_benv (x : xenv) := match x with XP a => Some (BTarget a) | XB v => Some (BWrite v) | _ => None end.
Definition as_fenv (x : xenv) := match x with XF d => Some (FDemand d) | _ => None end.

Fixpoint all2h {A B} (f : A -> B -> bool) (a : list A) (b : list B) : bool :=
  match a, b with
  | [], [] => true
  | x :: r, y :: s => f x y && all2h f r s
  | _, _ => false
  end.

Definition rec_eqb (a b : Q * list effect) : bool :=
  Qeqb (fst a) (fst b) && all2 effect_eqb (snd a) (snd b).

Definition spawn_eqb (a : Q * list fef) (b : Q * nat) : bool :=
  Qeqb (fst a) (fst b) && Nat.eqb (length (snd a)) (snd b).

Definition out_eqb (o : outcome) (r : option Q) : bool :=
  match o, r with
  | Running, None => true
  | Raised ENoRule t, Some t' => Qeqb t t'
  | _, _ => false
  end.

Definition check_with (before : nat -> bool) (c : case) : bool :=
  match k_svc c with
  | VCtl k tbl =>
      match construct k with
      | Err _ => false
      | Ok ct =>
          let r := ctrl_timeline (table_sem tbl) ct 0 before (k_T c) (k_pool c) (conv as_penv (k_env c)) in
          all2 rec_eqb (r_log r) (k_log c) && out_eqb (r_out r) (k_raised c)
          && list_Qeqb [p_demand (r_world r)] (k_final c)
      end
  | VBuffer window =>
      let r := buffer_timeline window 0 before (k_T c) (k_pool c) (conv as_benv (k_env c)) in
      all2 rec_eqb (r_log r) (k_log c) && out_eqb (r_out r) (k_raised c)
      && list_Qeqb [b_demand (r_world r); p_demand (b_target (r_world r))] (k_final c)
  | VFactory q interval n0 =>
      let have := inject_Z (Z.of_nat n0) * q in
      let r := factory_timeline q interval 0 before (k_T c) (mkFworld have have) (conv as_fenv (k_env c)) in
      all2h spawn_eqb (r_log r) (k_spawns c) && out_eqb (r_out r) (k_raised c)
      && list_Qeqb [f_demand (r_world r); f_have (r_world r)] (k_final c)
  end.

Definition before_of (m : nat) (g : nat) : bool := N.testbit (N.of_nat m) (N.of_nat g).

Definition check (c : case) : bool :=
  existsb (fun m => check_with (before_of m) c) (seq 0 (Nat.pow 2 (k_nties c))).
