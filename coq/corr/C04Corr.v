(* Correspondence check for C04.  The harness (harness/c04.py) runs the real cobald code on
   generated classes / templates / `>>` trees and records canonical observations; `check`
   recomputes each observation with the model and compares.

   case kinds
     CChain : templates created by `.s(...)`/Partial(...) and 0-3 curry calls each (accepted or
              TypeError per call), then -- if all were accepted -- one tree of real `>>` operators:
              resulting object graph and the global construction log (raw positional and keyword
              arguments every constructor received)
     CBind  : one real constructor call cls( *pos, **kw): which value each formal received, or TypeError
     CSig   : what inspect.signature(cls) reports for a class with the given MRO *)
From Coq Require Import NArith List Bool Arith.
From Cobald Require Import model.PyBind model.Partial.
Import ListNotations.

(* canonical view of python objects *)
Inductive ov :=
| OVal (v : val)
| OBuilt (c : N) (pos : list ov) (kw : kwargs)        (* also used for one entry of the construction log *)
| OPartial
| OPartialBind.

Definition val_eqb (a b : val) : bool :=
  match a, b with
  | VAtom x, VAtom y => N.eqb x y
  | VPool x, VPool y => N.eqb x y
  | _, _ => false
  end.

Fixpoint all2 {A B} (f : A -> B -> bool) (a : list A) (b : list B) : bool :=
  match a, b with
  | [], [] => true
  | x :: r, y :: s => f x y && all2 f r s
  | _, _ => false
  end.

Definition kv_eqb (a b : N * val) : bool := N.eqb (fst a) (fst b) && val_eqb (snd a) (snd b).

(* keyword arguments are compared as sets of pairs: sort by name (names are distinct) *)
Fixpoint kw_insert (x : N * val) (l : kwargs) : kwargs :=
  match l with
  | [] => [x]
  | y :: r => if N.leb (fst x) (fst y) then x :: l else y :: kw_insert x r
  end.
Definition kw_sort (l : kwargs) : kwargs := fold_right kw_insert [] l.
Definition kw_eqb (a b : kwargs) : bool := all2 kv_eqb (kw_sort a) (kw_sort b).

Fixpoint ov_eqb (a b : ov) : bool :=
  match a, b with
  | OVal x, OVal y => val_eqb x y
  | OBuilt c p k, OBuilt c' p' k' =>
      N.eqb c c' && kw_eqb k k'
      && (fix go (l l' : list ov) : bool :=
            match l, l' with
            | [], [] => true
            | x :: r, y :: s => ov_eqb x y && go r s
            | _, _ => false
            end) p p'
  | OPartial, OPartial => true
  | OPartialBind, OPartialBind => true
  | _, _ => false
  end.

Fixpoint view (o : obj) : ov :=
  match o with
  | PoolI id => OVal (VPool id)
  | Tmpl _ => OPartial
  | Bind _ _ => OPartialBind
  | Built e t =>
      OBuilt (c_id (e_ctor e))
             (match t with Some x => [view x] | None => [] end ++ map OVal (e_args e))
             (e_kwargs e)
  end.

Definition view_arg (a : arg) : ov := match a with AObj o => view o | AVal v => OVal v end.
Definition view_call (k : call) : ov := OBuilt (c_id (k_cls k)) (map view_arg (k_pos k)) (k_kw k).

(* ---- templates ------------------------------------------------------------------------------ *)
Inductive how := ViaS | Direct (leaf : bool).     (* cls.s(...)  |  Partial(cls, ..., __leaf__=leaf) *)
Record espec := mkE { sp_cls : cls; sp_how : how; sp_calls : list (list val * kwargs) }.

Fixpoint curry_obs (e : elem) (calls : list (list val * kwargs)) : list bool * option elem :=
  match calls with
  | [] => ([], Some e)
  | (a, k) :: r =>
      match curry e a k with
      | Ok e' => let (fl, o) := curry_obs e' r in (true :: fl, o)
      | Err _ => ([false], None)
      end
  end.

Definition tmpl_obs (sp : espec) : list bool * option elem :=
  match sp_calls sp with
  | [] => ([], None)
  | (a, k) :: r =>
      let leaf := match sp_how sp with ViaS => s_leaf (sp_cls sp) | Direct l => l end in
      match new_partial (sp_cls sp) leaf a k with
      | Ok e => let (fl, o) := curry_obs e r in (true :: fl, o)
      | Err _ => ([false], None)
      end
  end.

Inductive tailspec := TInstS (id : N) | TTmplS (sp : espec).

Inductive ores := RObj (o : ov) | RErr (e : err).

Definition err_eqb (a b : err) : bool :=
  match a, b with ETypeError, ETypeError => true | EIndexError, EIndexError => true | _, _ => false end.

Definition ores_eqb (a b : ores) : bool :=
  match a, b with
  | RObj x, RObj y => ov_eqb x y
  | RErr x, RErr y => err_eqb x y
  | _, _ => false
  end.

Fixpoint map_tree {A B} (f : A -> B) (t : tree A) : tree B :=
  match t with Leaf a => Leaf (f a) | Node l r => Node (map_tree f l) (map_tree f r) end.

Fixpoint all_some {A} (l : list (option A)) : option (list A) :=
  match l with
  | [] => Some []
  | Some a :: r => match all_some r with Some x => Some (a :: x) | None => None end
  | None :: _ => None
  end.

(* ---- signatures ------------------------------------------------------------------------------- *)
Definition pent_eqb (a b : pent) : bool := N.eqb (fst a) (fst b) && Bool.eqb (snd a) (snd b).
Definition optN_eqb (a b : option N) : bool :=
  match a, b with Some x, Some y => N.eqb x y | None, None => true | _, _ => false end.
Definition sig_eqb (a b : sig) : bool :=
  all2 pent_eqb (s_posonly a) (s_posonly b) && all2 pent_eqb (s_pork a) (s_pork b)
  && optN_eqb (s_varpos a) (s_varpos b) && all2 pent_eqb (s_kwonly a) (s_kwonly b)
  && optN_eqb (s_varkw a) (s_varkw b).

Definition bound_eqb (a b : bound val) : bool :=
  match a, b with
  | BVal x, BVal y => val_eqb x y
  | BDefault, BDefault => true
  | BStar x, BStar y => all2 val_eqb x y
  | BKwd x, BKwd y => kw_eqb x y
  | _, _ => false
  end.
Definition binding_eqb (a b : list (N * bound val)) : bool :=
  all2 (fun x y => N.eqb (fst x) (fst y) && bound_eqb (snd x) (snd y)) a b.

(* ---- cases ------------------------------------------------------------------------------------ *)
Inductive case :=
| CChain (elems : list espec) (tail : tailspec) (shape : tree nat)
         (accepted : list (list bool))                (* per template (elements, then a template tail) *)
         (result : option (ores * list ov))           (* None: some template was rejected, no chain built *)
| CBind (s : sig) (pos : list val) (kw : kwargs) (observed : option (list (N * bound val)))
| CSig (c : cls) (observed : sig).

Definition check (c : case) : bool :=
  match c with
  | CChain elems tail shape accepted result =>
      let specs := elems ++ match tail with TTmplS sp => [sp] | TInstS _ => [] end in
      let obs := map tmpl_obs specs in
      all2 (all2 Bool.eqb) (map fst obs) accepted
      && match all_some (map snd obs), result with
         | None, None => true
         | Some es, Some (r, log) =>
             let objs := match tail with
                         | TInstS id => map Tmpl es ++ [PoolI id]
                         | TTmplS _ => map Tmpl es
                         end in
             let t := map_tree (fun i => nth i objs (PoolI 0)) shape in
             let (mr, mlog) := eval t in
             ores_eqb (match mr with Ok o => RObj (view o) | Err e => RErr e end) r
             && all2 ov_eqb (map view_call mlog) log
         | _, _ => false
         end
  | CBind s pos kw observed =>
      match bind_call s pos kw, observed with
      | None, None => true
      | Some b, Some b' => binding_eqb b b'
      | _, _ => false
      end
  | CSig c observed => sig_eqb (effective_sig c) observed
  end.
