(* Correspondence check for C16: the harness builds a real stack of PoolDecorator / Logger /
   Standardiser / Buffer over a recording pool (Standardiser and Buffer are opaque levels: what they
   did to demand is observed through probes and handed to the model as scripts), runs a history of reads, writes and changes of the
   underlying pool, and records what happened (construction outcome and warnings, values read,
   the ordered effects of every write: log records with their args mapping and the pool write, and
   the pool's state after every operation).  The model must produce the same. *)
From Coq Require Import ZArith QArith List Bool NArith.
From Cobald Require Import kit.QKit model.Decorators.
Import ListNotations.

Record case := mkCase {
  k_specs : list dspec;               (* outermost first *)
  k_pool : pool;
  k_ops : list op;
  k_built : option cerr;              (* None = the stack was constructed *)
  k_warn : nat;                       (* FutureWarnings seen while constructing *)
  k_obs : list (obs * pool)
}.

Definition pool_eqb (a b : pool) : bool :=
  Qeqb (p_demand a) (p_demand b) && Qeqb (p_supply a) (p_supply b)
  && Qeqb (p_util a) (p_util b) && Qeqb (p_alloc a) (p_alloc b).

Definition fields_eqb (a b : fields) : bool :=
  Qeqb (f_value a) (f_value b) && Qeqb (f_demand a) (f_demand b) && Qeqb (f_supply a) (f_supply b)
  && Qeqb (f_util a) (f_util b) && Qeqb (f_alloc a) (f_alloc b) && Qeqb (f_consumption a) (f_consumption b)
  && Nat.eqb (f_target a) (f_target b).

Definition effect_eqb (a b : effect) : bool :=
  match a, b with
  | Log n l m f, Log n' l' m' f' => N.eqb n n' && N.eqb l l' && str_eqb m m' && fields_eqb f f'
  | PoolWrite v, PoolWrite v' => Qeqb v v'
  | _, _ => false
  end.

(* arrivals are ghost events of the model (not observable from outside) *)
Definition visible (e : effect) : bool := match e with Arrive _ _ => false | _ => true end.

Fixpoint all2 {A} (f : A -> A -> bool) (a b : list A) : bool :=
  match a, b with
  | [], [] => true
  | x :: r, y :: s => f x y && all2 f r s
  | _, _ => false
  end.

Definition obs_eqb (a b : obs) : bool :=
  match a, b with
  | ORead d s u x, ORead d' s' u' x' => Qeqb d d' && Qeqb s s' && Qeqb u u' && Qeqb x x'
  | OWrite e, OWrite e' => all2 effect_eqb (filter visible e) e'
  | ONone, ONone => true
  | _, _ => false
  end.

Definition cerr_eqb (a b : cerr) : bool :=
  match a, b with
  | CRuntime, CRuntime | CValue, CValue | CType, CType => true
  | _, _ => false
  end.

Definition check (c : case) : bool :=
  match build (k_specs c) (k_pool c) with
  | (BStuck, _) => false
  | (BErr e, w) =>
      match k_built c with Some e' => cerr_eqb e e' && Nat.eqb w (k_warn c) | None => false end
  | (BStack st, w) =>
      match k_built c with
      | Some _ => false
      | None =>
          Nat.eqb w (k_warn c)
          && all2 (fun a b => obs_eqb (fst a) (fst b) && pool_eqb (snd a) (snd b))
                  (fst (fst (run st (k_pool c) (k_ops c)))) (k_obs c)
      end
  end.
