(* Correspondence check for C05.  One case = the registration tables of the harness (tags,
   dotted class names, which classes are pools, which constructors fail), the content of the
   pipeline section as YAML nodes, and what the REAL cobald.daemon.core.config.load did with the
   generated document: section content or exception, and the global construction log (serial,
   class, target, args, kwargs per constructor entered).  Optionally the same pipeline built in
   python with >> : templates, head object or exception, construction log.  The model must
   reproduce all of it. *)
From Coq Require Import ZArith NArith QArith List Bool.
From Cobald Require Import model.Mapping model.Pipeline.
Import ListNotations.

Inductive outcome := ORet (v : pvalue) | ORaise (e : pyexc).

Record case := mkCase {
  k_reg : list (tag * (tagk * cls * bool));
  k_names : list (str * rres);
  k_leaf : list cls;
  k_fails : list cls;
  k_doc : ynode;
  k_out : outcome;
  k_log : list event;
  k_chain : option (list tmpl * outcome * list event)
}.

Fixpoint assocN {A} (n : N) (l : list (N * A)) : option A :=
  match l with
  | [] => None
  | (m, a) :: r => if N.eqb n m then Some a else assocN n r
  end.
Definition memN (n : N) (l : list N) : bool := existsb (N.eqb n) l.

Definition resolve_tbl (tbl : list (str * rres)) (name : str) : rres :=
  match lookup name tbl with Some r => r | None => RRaise (ExUser 999999) end.

(* ---- decidable equality on observations (dicts compared order-free, as python does) ---- *)
Definition Q_eqb (a b : Q) : bool := Z.eqb (Qnum a) (Qnum b) && Pos.eqb (Qden a) (Qden b).

Definition scalar_eqb (a b : scalar) : bool :=
  match a, b with
  | SNone, SNone => true
  | SBool x, SBool y => Bool.eqb x y
  | SInt x, SInt y => Z.eqb x y
  | SFlt x, SFlt y => Q_eqb x y
  | SStr x, SStr y => str_eqb x y
  | _, _ => false
  end.

Definition tagk_eqb (a b : tagk) : bool :=
  match a, b with KTemplate, KTemplate | KAux, KAux => true | _, _ => false end.

Fixpoint pvalue_eqb (a b : pvalue) {struct a} : bool :=
  match a, b with
  | PS s, PS s' => scalar_eqb s s'
  | PRef i, PRef j => Nat.eqb i j
  | PL l, PL l' =>
      (fix go (l l' : list pvalue) : bool :=
         match l, l' with
         | [], [] => true
         | x :: r, y :: s => pvalue_eqb x y && go r s
         | _, _ => false
         end) l l'
  | PM m, PM m' =>
      Nat.eqb (length m) (length m') &&
      (fix go (m : list (str * pvalue)) : bool :=
         match m with
         | [] => true
         | kv :: r =>
             match lookup (fst kv) m' with
             | Some v' => pvalue_eqb (snd kv) v'
             | None => false
             end && go r
         end) m
  | PTag k c l m, PTag k' c' l' m' =>
      tagk_eqb k k' && N.eqb c c' &&
      (fix go (l l' : list pvalue) : bool :=
         match l, l' with
         | [], [] => true
         | x :: r, y :: s => pvalue_eqb x y && go r s
         | _, _ => false
         end) l l' &&
      Nat.eqb (length m) (length m') &&
      (fix go (m : list (str * pvalue)) : bool :=
         match m with
         | [] => true
         | kv :: r =>
             match lookup (fst kv) m' with
             | Some v' => pvalue_eqb (snd kv) v'
             | None => false
             end && go r
         end) m
  | _, _ => false
  end.

Definition opt_eqb {A} (f : A -> A -> bool) (a b : option A) : bool :=
  match a, b with
  | None, None => true
  | Some x, Some y => f x y
  | _, _ => false
  end.

Definition event_eqb (a b : event) : bool :=
  Nat.eqb (e_id a) (e_id b) && N.eqb (e_cls a) (e_cls b)
  && opt_eqb pvalue_eqb (e_target a) (e_target b)
  && pvalue_eqb (PL (e_args a)) (PL (e_args b)) && pvalue_eqb (PM (e_kw a)) (PM (e_kw b)).

Fixpoint all2 {A} (f : A -> A -> bool) (a b : list A) : bool :=
  match a, b with
  | [], [] => true
  | x :: r, y :: s => f x y && all2 f r s
  | _, _ => false
  end.

Definition exc_eqb (a b : exc) : bool :=
  match a, b with
  | ExImport, ExImport | ExAttr, ExAttr | ExType, ExType | ExValue, ExValue | ExKey, ExKey
  | ExAssert, ExAssert | ExYaml, ExYaml => true
  | ExUser n, ExUser m => N.eqb n m
  | _, _ => false
  end.
Definition what_eqb (a b : what) : bool :=
  match a, b with
  | WExc x, WExc y => exc_eqb x y
  | WNoSuch x, WNoSuch y => str_eqb x y
  | WUser n, WUser m => N.eqb n m
  | _, _ => false
  end.
Definition pyexc_eqb (a b : pyexc) : bool :=
  match a, b with
  | PConf w (Some l), PConf w' (Some l') => what_eqb w w' && str_eqb l l'
  | PConf w None, PConf w' None => what_eqb w w'
  | PExc x, PExc y => exc_eqb x y
  | PBase n, PBase m => N.eqb n m
  | _, _ => false
  end.

Definition out_eqb (r : res pvalue) (o : outcome) : bool :=
  match r, o with
  | Ok v, ORet v' => pvalue_eqb v v'
  | Err e, ORaise e' => pyexc_eqb e e'
  | _, _ => false
  end.

Definition check (c : case) : bool :=
  let reg := fun t => assocN t (k_reg c) in
  let rs := resolve_tbl (k_names c) in
  let leaf := fun x => memN x (k_leaf c) in
  let fails := fun x => memN x (k_fails c) in
  let r := load_doc reg rs leaf fails (k_doc c) in
  out_eqb (fst r) (k_out c) && all2 event_eqb (plog (snd r)) (k_log c)
  && match k_chain c with
     | None => true
     | Some (ts, o, lg) =>
         let r2 := chain_build leaf fails ts st0 in
         out_eqb (fst r2) o && all2 event_eqb (plog (snd r2)) lg
     end.
