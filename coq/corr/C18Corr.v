(* Correspondence check for C18: the harness records, for one table and one document, what PyYAML
   (with cobald's real yaml_constructor closures) did: the outcome class and the log of table
   entries / factories that ran.  The model must predict both.
   Two kinds of cases: tables built by the harness on a scratch loader class (full log), and
   documents loaded through the real cobald.daemon.core.config.load with the tables extracted from
   the live loader (gen/Gen_yaml_tables.v); there only calls of the watched factories are visible. *)
From Coq Require Import List NArith Bool.
From Cobald Require Import model.YamlDispatch.
Import ListNotations.

Record case := mkCase {
  k_tables : tables;
  k_valid : list (N * str);              (* (conversion, text) pairs the real conversion accepts *)
  k_fac : list (N * option vclass);      (* factories that do not simply return a hashable object *)
  k_doc : node;
  k_full : bool;                         (* observed log is complete / only watched factory calls *)
  k_watch : list N;
  k_err : option err;                    (* observed outcome: None = document constructed *)
  k_vclass : option vclass;              (* class of the constructed value when observed *)
  k_log : list event
}.

Definition sbk_eqb (a b : sbk) : bool :=
  match a, b with
  | BScalar x, BScalar y => N.eqb x y
  | BSeq, BSeq | BMap, BMap | BSet, BSet | BPairs, BPairs => true
  | _, _ => false
  end.

Definition event_eqb (a b : event) : bool :=
  match a, b with
  | EvB x, EvB y => sbk_eqb x y
  | Call x, Call y => N.eqb x y
  | UnsafeCall x, UnsafeCall y => N.eqb x y
  | _, _ => false
  end.

Fixpoint list_eqb {A} (f : A -> A -> bool) (a b : list A) : bool :=
  match a, b with
  | [], [] => true
  | x :: r, y :: s => f x y && list_eqb f r s
  | _, _ => false
  end.

Definition err_eqb (a b : err) : bool :=
  match a, b with
  | EUndef, EUndef | EStructure, EStructure | EOther, EOther => true
  | _, _ => false
  end.

Definition vclass_eqb (a b : vclass) : bool :=
  match a, b with
  | VStr, VStr | VHash, VHash | VUnhash, VUnhash => true
  | _, _ => false
  end.

Definition conv_of (valid : list (N * str)) (c : N) (v : str) : bool :=
  existsb (fun p => N.eqb (fst p) c && str_eqb (snd p) v) valid.

Definition fac_of (l : list (N * option vclass)) (f : N) : option vclass :=
  match find (fun p => N.eqb (fst p) f) l with
  | Some p => snd p
  | None => Some VHash
  end.

Definition watched (w : list N) (e : event) : bool :=
  match e with
  | EvB _ => false
  | Call f => existsb (N.eqb f) w
  | UnsafeCall _ => true
  end.

Definition check (c : case) : bool :=
  let '(r, log) := construct_document (conv_of (k_valid c)) (fac_of (k_fac c)) (k_tables c) (k_doc c) in
  let log' := if k_full c then log else filter (watched (k_watch c)) log in
  list_eqb event_eqb log' (k_log c)
  && match r, k_err c with
     | Ok v, None => match k_vclass c with Some w => vclass_eqb v w | None => true end
     | Err e, Some e' => err_eqb e e'
     | _, _ => false
     end.
