(* Correspondence check for C19.  One case = an input tree and `where`, the outcome of
   load_name for every name that can occur (known to the generator by construction), the
   behaviour of every factory of the generated module, and what the REAL
   Translator.translate_hierarchy did: result or exception, and the global factory call log.
   The model must produce exactly that; so must the specification (eval_spec /
   post_order_calls / first_failure / reached / path_of), which ties the spec's reading of the
   property to the implementation as well. *)
From Coq Require Import ZArith NArith QArith List Bool.
From Cobald Require Import model.Mapping.
Import ListNotations.

Inductive beh :=
| BRecord                               (* returns an opaque object remembering the call *)
| BList                                 (* returns list(args): plain data flowing upwards *)
| BConst (s : scalar)                   (* returns a constant scalar *)
| BRaise (e : exc)                      (* raises an Exception *)
| BRaiseConf (n : N) (loc : option str) (* raises ConfigurationError(what, where=loc) *)
| BRaiseBase (n : N).                   (* raises a BaseException that is not an Exception *)

Inductive outcome := ORet (v : value) | ORaise (e : pyexc).

Record case := mkCase {
  k_where : str;
  k_tree : tree;
  k_names : list (str * rres);
  k_behs : list (fid * beh);
  k_out : outcome;
  k_log : list call
}.

Definition resolve_tbl (tbl : list (str * rres)) (name : str) : rres :=
  match lookup name tbl with Some r => r | None => RRaise (ExUser 999999) end.

Fixpoint find_beh (f : fid) (tbl : list (fid * beh)) : option beh :=
  match tbl with
  | [] => None
  | (g, b) :: r => if N.eqb f g then Some b else find_beh f r
  end.

Definition apply_tbl (tbl : list (fid * beh)) (f : fid) (args : list value)
           (kwargs : list (str * value)) : fres :=
  match find_beh f tbl with
  | Some BRecord => FRet (VObj f args kwargs)
  | Some BList => FRet (VList args)
  | Some (BConst s) => FRet (VLeaf s)
  | Some (BRaise e) => FRaise (PExc e)
  | Some (BRaiseConf n loc) => FRaise (PConf (WUser n) loc)
  | Some (BRaiseBase n) => FRaise (PBase n)
  | None => FRaise (PExc (ExUser 999998))
  end.

(* ---- decidable equality on observations (dicts compared as python does: order-free) ---- *)
Definition Q_eqb (a b : Q) : bool := Z.eqb (Qnum a) (Qnum b) && Pos.eqb (Qden a) (Qden b).

Definition scalar_eqb (a b : scalar) : bool :=
  match a, b with
  | SNone, SNone => true
  | SBool x, SBool y => Bool.eqb x y
  | SInt x, SInt y => Z.eqb x y
  | SFlt x, SFlt y => Q_eqb x y
  | SStr x, SStr y => str_eqb x y
  | _, _ => false
  end.

Fixpoint value_eqb (a b : value) {struct a} : bool :=
  match a, b with
  | VLeaf s, VLeaf s' => scalar_eqb s s'
  | VList l, VList l' =>
      (fix go (l l' : list value) : bool :=
         match l, l' with
         | [], [] => true
         | x :: r, y :: s => value_eqb x y && go r s
         | _, _ => false
         end) l l'
  | VMap m, VMap m' =>
      Nat.eqb (length m) (length m') &&
      (fix go (m : list (str * value)) : bool :=
         match m with
         | [] => true
         | kv :: r =>
             match lookup (fst kv) m' with
             | Some v' => value_eqb (snd kv) v'
             | None => false
             end && go r
         end) m
  | VObj f l m, VObj f' l' m' =>
      N.eqb f f' &&
      (fix go (l l' : list value) : bool :=
         match l, l' with
         | [], [] => true
         | x :: r, y :: s => value_eqb x y && go r s
         | _, _ => false
         end) l l' &&
      Nat.eqb (length m) (length m') &&
      (fix go (m : list (str * value)) : bool :=
         match m with
         | [] => true
         | kv :: r =>
             match lookup (fst kv) m' with
             | Some v' => value_eqb (snd kv) v'
             | None => false
             end && go r
         end) m
  | _, _ => false
  end.

Definition call_eqb (a b : call) : bool :=
  value_eqb (VObj (c_fid a) (c_args a) (c_kwargs a)) (VObj (c_fid b) (c_args b) (c_kwargs b)).

Fixpoint all2 {A} (f : A -> A -> bool) (a b : list A) : bool :=
  match a, b with
  | [], [] => true
  | x :: r, y :: s => f x y && all2 f r s
  | _, _ => false
  end.

Definition exc_eqb (a b : exc) : bool :=
  match a, b with
  | ExImport, ExImport | ExAttr, ExAttr | ExType, ExType | ExValue, ExValue | ExKey, ExKey
  | ExAssert, ExAssert | ExYaml, ExYaml => true
  | ExUser n, ExUser m => N.eqb n m
  | _, _ => false
  end.

Definition what_eqb (a b : what) : bool :=
  match a, b with
  | WExc x, WExc y => exc_eqb x y
  | WNoSuch x, WNoSuch y => str_eqb x y
  | WUser n, WUser m => N.eqb n m
  | _, _ => false
  end.

Definition pyexc_eqb (a b : pyexc) : bool :=
  match a, b with
  | PConf w (Some l), PConf w' (Some l') => what_eqb w w' && str_eqb l l'
  | PConf w None, PConf w' None => what_eqb w w'
  | PExc x, PExc y => exc_eqb x y
  | PBase n, PBase m => N.eqb n m
  | _, _ => false
  end.

Definition out_eqb (r : res value) (o : outcome) : bool :=
  match r, o with
  | Ok v, ORet v' => value_eqb v v'
  | Err e, ORaise e' => pyexc_eqb e e'
  | _, _ => false
  end.

(* model vs implementation *)
Definition check_model (c : case) : bool :=
  let rs := resolve_tbl (k_names c) in
  let ap := apply_tbl (k_behs c) in
  let r := translate rs ap (k_where c) (k_tree c) in
  out_eqb (fst r) (k_out c) && all2 call_eqb (snd r) (k_log c).

(* specification vs implementation *)
Definition check_spec (c : case) : bool :=
  let rs := resolve_tbl (k_names c) in
  let ap := apply_tbl (k_behs c) in
  let t := k_tree c in
  match eval_spec rs ap t, first_failure rs ap t with
  | Some v, None =>
      out_eqb (Ok v) (k_out c) && all2 call_eqb (post_order_calls rs ap t) (k_log c)
  | None, Some (p, e) =>
      out_eqb (Err (report e (k_where c ++ path_of p))) (k_out c)
      && all2 call_eqb (filter_map (call_of rs ap t) (reached rs ap t)) (k_log c)
  | _, _ => false
  end.

Definition check (c : case) : bool := wf (k_tree c) && check_model c && check_spec c.
