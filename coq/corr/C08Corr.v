(* Correspondence check for C08.  The harness constructs a real controller from raw constructor
   arguments, runs a history of regulation steps / environment changes against a recording pool
   and recording rules / slave controllers, and records after every operation the pool's demand
   and the effects (demand writes, rule calls, slave regulate calls) that happened during it.
   The model must accept/reject the same constructor arguments and produce the same trace. *)
From Coq Require Import ZArith QArith List Bool Arith.
From Cobald Require Import kit.QKit model.Controllers.
Import ListNotations.
Open Scope Q_scope.

(* behaviours of the recording rules / slave controllers used by the harness *)
Inductive beh :=
| BNone                              (* returns None / does nothing *)
| BConst (q : Q)                     (* q *)
| BAddDemand (q : Q)                 (* pool.demand + q *)
| BScaleSupply (q : Q)               (* pool.supply * q *)
| BItv (q : Q)                       (* pool.demand + interval * q *)
| BLinear (low high rate : Q)        (* a real LinearController / the rule of the same shape *)
| BRelative (low high ls hs : Q).    (* a real RelativeSupplyController / the rule of the same shape *)

Definition beh_sem (b : beh) (p : pool) (itv : Q) : option Q :=
  match b with
  | BNone => None
  | BConst q => Some q
  | BAddDemand q => Some (p_demand p + q)
  | BScaleSupply q => Some (p_supply p * q)
  | BItv q => Some (p_demand p + itv * q)
  | BLinear low high rate => linear_write (mkLinear low high rate 1) p itv
  | BRelative low high ls hs => relative_write (mkRelative low high ls hs 1) p
  end.

Definition table_sem (tbl : list beh) (id : nat) : pool -> Q -> option Q := beh_sem (nth id tbl BNone).

(* raw constructor arguments *)
Inductive ctor :=
| KLinear (low high rate itv : Q)
| KRelative (low high ls hs itv : Q)
| KStepwise (base : nat) (rules : list entry) (itv : Q)
| KSwitch (tags : list ttag) (default : nat) (items : list sitem) (itv : Q).

Definition construct (k : ctor) : res ctrl :=
  match k with
  | KLinear low high rate itv =>
      match linear_init low high rate itv with Ok c => Ok (CLinear c) | Err e => Err e end
  | KRelative low high ls hs itv =>
      match relative_init low high ls hs itv with Ok c => Ok (CRelative c) | Err e => Err e end
  | KStepwise base rules itv =>
      match stepwise_init base rules itv with Ok c => Ok (CStepwise c) | Err e => Err e end
  | KSwitch tags default items itv =>
      match switch_init tags default items itv with Ok c => Ok (CSwitch c) | Err e => Err e end
  end.

Record case := mkCase {
  k_ctor : ctor;
  k_table : list beh;
  k_pool : pool;
  k_ops : list op;
  k_probes : list Q;                  (* RangeSelector(base, *rules).get_rule(s) for these s *)
  (* observations of the implementation *)
  k_accepted : bool;                  (* the constructor returned *)
  k_on_target : list bool;            (* DemandSwitch: controller i's target is the switch's target, after construction *)
  k_obs : list step_obs;
  k_probe_obs : list (option nat)
}.

Definition effect_eqb (a b : effect) : bool :=
  match a, b with
  | EWrite x, EWrite y => Qeqb x y
  | ECallRule i f x, ECallRule j g y => Nat.eqb i j && Bool.eqb f g && Qeqb x y
  | ECallReg i f x, ECallReg j g y => Nat.eqb i j && Bool.eqb f g && Qeqb x y
  | _, _ => false
  end.

Fixpoint all2 {A} (f : A -> A -> bool) (a b : list A) : bool :=
  match a, b with
  | [], [] => true
  | x :: r, y :: s => f x y && all2 f r s
  | _, _ => false
  end.

Definition err_eqb (a b : err) : bool :=
  match a, b with ERejected, ERejected | ENoRule, ENoRule => true | _, _ => false end.

Definition obs_eqb (a b : step_obs) : bool :=
  match a, b with
  | SOk d e, SOk d' e' => Qeqb d d' && all2 effect_eqb e e'
  | SErr x, SErr y => err_eqb x y
  | _, _ => false
  end.

Definition optnat_eqb (a b : option nat) : bool :=
  match a, b with
  | None, None => true
  | Some x, Some y => Nat.eqb x y
  | _, _ => false
  end.

Definition check (c : case) : bool :=
  match construct (k_ctor c) with
  | Err _ => negb (k_accepted c)
  | Ok ct =>
      k_accepted c
      && all2 obs_eqb (trace (table_sem (k_table c)) ct (k_pool c) (k_ops c)) (k_obs c)
      && match ct with
         | CSwitch sw => all2 Bool.eqb (map (fun t => ttag_eqb t TSame) (s_tags sw)) (k_on_target c)
         | CStepwise sw => all2 optnat_eqb (map (get_rule (sw_lookup sw)) (k_probes c)) (k_probe_obs c)
         | _ => true
         end
  end.
