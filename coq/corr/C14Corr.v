(* Correspondence check for C14.  The harness drives the real load_section_plugins through fake
   entry points and the real load_configuration with recording digests, and records:
     - the exception class or the order (digest ids) returned by load_section_plugins,
     - the plugin tuple handed to load_configuration, its exception class or returned content and
       the log of calls (logging configuration, digests with the content they received).
   The order is checked by `admissible_order` (the library iterates python sets, the order inside
   one layer is hash dependent); everything else by equality with the model. *)
From Coq Require Import List Arith Bool.
From Cobald Require Import model.Toposort model.Sections.
Import ListNotations.

Inductive obs_plugins :=
| PErr (e : lerr)
| POther                      (* any other exception: never matches the model *)
| POrder (order : list nat).

Inductive obs_outcome :=
| OConfigurationError
| OOther
| OContent (c : list (nat * nat)).

Record case := mkCase {
  k_entries : list plugin;
  k_config : config;
  k_plugins : obs_plugins;
  k_tuple : list nat;          (* pids of the plugin tuple given to load_configuration *)
  k_outcome : obs_outcome;
  k_log : list event
}.

Definition lerr_eqb (a b : lerr) : bool :=
  match a, b with
  | EValueError, EValueError | ECircular, ECircular | EOutOfFuel, EOutOfFuel => true
  | _, _ => false
  end.

Definition event_eqb (a b : event) : bool :=
  match a, b with
  | EvLogging x, EvLogging y => Nat.eqb x y
  | EvDigest p x, EvDigest q y => Nat.eqb p q && Nat.eqb x y
  | _, _ => false
  end.

Fixpoint all2 {A} (f : A -> A -> bool) (a b : list A) : bool :=
  match a, b with
  | [], [] => true
  | x :: r, y :: s => f x y && all2 f r s
  | _, _ => false
  end.

Definition pair_eqb (a b : nat * nat) : bool := Nat.eqb (fst a) (fst b) && Nat.eqb (snd a) (snd b).

Definition check_plugins (c : case) : bool :=
  match k_plugins c with
  | PErr e =>
      match load_section_plugins (fun l => l) (k_entries c) with
      | Err e' => lerr_eqb e e'
      | Ok _ => false
      end
  | POther => false
  | POrder o => admissible_order (k_entries c) o
  end.

Definition by_pid (es : list plugin) (i : nat) : list plugin :=
  match find (fun p => Nat.eqb (pid p) i) es with Some p => [p] | None => [] end.

Definition check_config (c : case) : bool :=
  let ps := flat_map (by_pid (k_entries c)) (k_tuple c) in
  let '(out, log) := load_configuration (k_config c) ps in
  Nat.eqb (length ps) (length (k_tuple c)) &&
  all2 event_eqb log (k_log c) &&
  match out, k_outcome c with
  | Err _, OConfigurationError => true
  | Ok content, OContent content' => all2 pair_eqb content content'
  | _, _ => false
  end.

Definition check (c : case) : bool := check_plugins c && check_config c.
