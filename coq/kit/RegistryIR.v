(* A deep-embedded fragment for the payload registry of MetaRunner (src/cobald/daemon/runners/meta_runner.py):
   register_payload, _manage_runners, _launch_runners, _unqueue_payloads, _aclose_runners.
   py2coq/units.py prints the python AST of these five methods as `list rstmt` (gen/Gen_registry.v, regenerated
   on every run; anything it does not recognise makes the translation fail: the tie is then LOST, never guessed).
   This file gives the fragment its meaning in terms of model/Registry.v:
     - the lock region of register_payload is interpreted over a registry state and yields the decision
       (hand to the published runners / queue / raise);
     - the other four methods are flattened, per way a run can end, into the sequence of atomic steps of the
       main thread; `lifecycle_of` recognises the life cycle that model/Registry.v walks through and reads off
       its two points of variation. *)
From Coq Require Import List Bool Arith.
From Cobald Require Import model.Registry.
Import ListNotations.

Inductive rstmt :=
| SWithLock (b : list rstmt)               (* with self._register_lock: b *)
| STryLookup (ok miss : list rstmt)        (* try: runner = self._runners[flavour] (else: ok) except KeyError: miss *)
| SIfRunning (t e : list rstmt)            (* if self.running.is_set(): t else: e *)
| SRaiseUnknown                            (* raise RuntimeError(...) *)
| SQueueExtend                             (* self._runner_queues.setdefault(flavour, []).extend(payloads) *)
| SReturn
| SForPayloadsHand                         (* for payload in payloads: runner.register_payload(payload) *)
| SAwaitLaunch                             (* runner_tasks = await self._launch_runners() *)
| SLaunchLocal                             (* create the runners in a LOCAL dict, start their tasks *)
| SAwaitReady                              (* for runner in runners.values(): await runner.ready() *)
| SPublishLocal                            (* self._runners = runners *)
| SPublishEach                             (* self._runners[flavour] = runner  while creating (the snapshot's way) *)
| SReturnTasks
| SSetRunning | SClearRunning              (* self.running.set() / .clear() *)
| SAssertRunning
| SSwapQueues                              (* runner_queues, self._runner_queues = self._runner_queues, {} *)
| SReregisterAll                           (* for flavour, queue in runner_queues.items(): self.register_payload(...) *)
| SGatherFlush                             (* await asyncio.gather( *runner_tasks, self._unqueue_payloads()) *)
| SShieldAclose                            (* await asyncio.shield(self._aclose_runners(runner_tasks)) *)
| SAcloseAll                               (* for runner in self._runners.values(): await runner.aclose() *)
| SAwaitTasks                              (* await asyncio.gather( *runner_tasks, return_exceptions=True) *)
| SClearTable                              (* self._runners.clear()   or   self._runners = {} *)
| SReraise
| STryRun (body on_kbd on_base fin : list rstmt).   (* try/except KeyboardInterrupt/except BaseException/finally *)

(* ---------------------------------------------------------------- register_payload *)
Inductive rout := RNext (runner : option nat) (queued : bool) | RRet (queued : bool) | RRaised | RBad.

Fixpoint exec_block (fuel : nat) (b : list rstmt) (r : reg) (runner : option nat) (queued : bool) : rout :=
  match fuel with
  | O => RBad
  | S fuel' =>
      match b with
      | [] => RNext runner queued
      | st :: rest =>
          let continue (o : rout) :=
            match o with RNext ru q => exec_block fuel' rest r ru q | other => other end in
          match st with
          | STryLookup ok miss =>
              match table r with
              | Some g => continue (exec_block fuel' ok r (Some g) queued)
              | None => continue (exec_block fuel' miss r runner queued)
              end
          | SIfRunning t e => continue (exec_block fuel' (if running r then t else e) r runner queued)
          | SRaiseUnknown => RRaised
          | SQueueExtend => if queued then RBad else continue (RNext runner true)
          | SReturn => RRet queued
          | _ => RBad
          end
      end
  end.

(* the whole method: one lock region, then the hand-off loop *)
Definition decision_of_ir (p : list rstmt) (r : reg) : option decision :=
  match p with
  | [SWithLock b; SForPayloadsHand] =>
      match exec_block 32 b r None false with
      | RNext (Some g) false => Some (DHand g)
      | RRet true => Some DQueue
      | RRaised => Some DRaise
      | _ => None                 (* dropped silently, handed AND queued, handed to nothing, ... *)
      end
  | _ => None
  end.

(* ---------------------------------------------------------------- the main thread *)
Inductive mstep := MsLaunch | MsPublish | MsSetRunning | MsAssertRunning | MsSwap | MsReregister
                 | MsAwaitRunners | MsAcloseAll | MsAwaitTasks | MsClearTable | MsClearRunning | MsReraise | MsBad.

Inductive endkind := Graceful | Interrupted | Failed.

Record irs := mkIrs { ir_register : list rstmt; ir_manage : list rstmt; ir_launch : list rstmt;
                      ir_unqueue : list rstmt; ir_aclose : list rstmt }.

Fixpoint flat_simple_f (fuel : nat) (locked : bool) (b : list rstmt) : list mstep :=
  match fuel with O => [MsBad] | S fuel' =>
  let flat_simple := flat_simple_f fuel' in
  match b with
  | [] => []
  | SWithLock b' :: rest => (if locked then [MsBad] else flat_simple true b') ++ flat_simple locked rest
  | SLaunchLocal :: rest => MsLaunch :: flat_simple locked rest
  | SAwaitReady :: rest => flat_simple locked rest           (* folded into MsLaunch: runners "created and ready" *)
  | SPublishLocal :: rest => (if locked then MsPublish else MsBad) :: flat_simple locked rest
  | SReturnTasks :: rest => flat_simple locked rest
  | SAssertRunning :: rest => MsAssertRunning :: flat_simple locked rest
  | SSwapQueues :: rest => (if locked then MsSwap else MsBad) :: flat_simple locked rest
  | SReregisterAll :: rest => (if locked then MsBad else MsReregister) :: flat_simple locked rest
  | SAcloseAll :: rest => MsAcloseAll :: flat_simple locked rest
  | SAwaitTasks :: rest => MsAwaitTasks :: flat_simple locked rest
  | SClearTable :: rest => MsClearTable :: flat_simple locked rest
  | SSetRunning :: rest => MsSetRunning :: flat_simple locked rest
  | SClearRunning :: rest => MsClearRunning :: flat_simple locked rest
  | SReraise :: rest => MsReraise :: flat_simple locked rest
  | _ :: rest => MsBad :: flat_simple locked rest
  end end.
Definition flat_simple := flat_simple_f 64.

(* the launch must be: create + wait until ready (in that order), THEN publish under the lock *)
Definition launch_ok (l : list rstmt) : bool :=
  match l with
  | [SLaunchLocal; SAwaitReady; SWithLock [SPublishLocal]; SReturnTasks] => true
  | _ => false
  end.

Fixpoint upto_gather (b : list rstmt) : list rstmt :=
  match b with
  | [] => []
  | SGatherFlush :: _ => [SGatherFlush]
  | st :: rest => st :: upto_gather rest
  end.

Fixpoint flat_main_f (fuel : nat) (i : irs) (k : endkind) (b : list rstmt) : list mstep :=
  match fuel with O => [MsBad] | S fuel' =>
  let flat_main := flat_main_f fuel' in
  match b with
  | [] => []
  | SAwaitLaunch :: rest => (if launch_ok (ir_launch i) then flat_simple false (ir_launch i) else [MsBad]) ++ flat_main i k rest
  | SGatherFlush :: rest => flat_simple false (ir_unqueue i) ++ [MsAwaitRunners] ++ flat_main i k rest
  | SShieldAclose :: rest => flat_simple false (ir_aclose i) ++ flat_main i k rest
  | STryRun body on_kbd on_base fin :: rest =>
      (* an interrupt / a failure surfaces AT the wait for the runners: what follows it in the try block is skipped *)
      flat_main i k (match k with Graceful => body | _ => upto_gather body end)
      ++ match k with Graceful => [] | Interrupted => flat_main i k on_kbd | Failed => flat_main i k on_base end
      ++ flat_main i k fin ++ flat_main i k rest
  | SWithLock b' :: rest => flat_simple false [SWithLock b'] ++ flat_main i k rest
  | st :: rest => flat_simple false [st] ++ flat_main i k rest
  end end.
Definition flat_main := flat_main_f 64.

Definition mstep_eqb (a b : mstep) : bool :=
  match a, b with
  | MsLaunch, MsLaunch | MsPublish, MsPublish | MsSetRunning, MsSetRunning | MsAssertRunning, MsAssertRunning
  | MsSwap, MsSwap | MsReregister, MsReregister | MsAwaitRunners, MsAwaitRunners | MsAcloseAll, MsAcloseAll
  | MsAwaitTasks, MsAwaitTasks | MsClearTable, MsClearTable | MsClearRunning, MsClearRunning
  | MsReraise, MsReraise => true
  | _, _ => false
  end.
Fixpoint msteps_eqb (a b : list mstep) : bool :=
  match a, b with
  | [], [] => true
  | x :: a', y :: b' => mstep_eqb x y && msteps_eqb a' b'
  | _, _ => false
  end.

(* the life cycle model/Registry.v walks through, as a step sequence per way of ending *)
Definition ref_steps (lc : lifecycle) (k : endkind) : list mstep :=
  [MsLaunch; MsPublish; MsSetRunning; MsAssertRunning; MsSwap; MsReregister; MsAwaitRunners]
  ++ match k with
     | Graceful => if lc_graceful_closes lc
                   then [MsAcloseAll; MsAwaitTasks] ++ (if lc_aclose_clears lc then [MsClearTable] else []) else []
     | Interrupted => [MsAcloseAll; MsAwaitTasks] ++ (if lc_aclose_clears lc then [MsClearTable] else [])
     | Failed => [MsAcloseAll; MsAwaitTasks] ++ (if lc_aclose_clears lc then [MsClearTable] else []) ++ [MsReraise]
     end
  ++ [MsClearRunning] ++ (if lc_end_clears lc then [MsClearTable] else []).

Definition matches (i : irs) (lc : lifecycle) : bool :=
  msteps_eqb (flat_main i Graceful (ir_manage i)) (ref_steps lc Graceful)
  && msteps_eqb (flat_main i Interrupted (ir_manage i)) (ref_steps lc Interrupted)
  && msteps_eqb (flat_main i Failed (ir_manage i)) (ref_steps lc Failed).

Definition lifecycle_of (i : irs) : option lifecycle :=
  let try lc := if matches i lc then Some lc else None in
  let fix first (l : list lifecycle) : option lifecycle :=
    match l with [] => None | lc :: r => match try lc with Some x => Some x | None => first r end end in
  first [mkLC false true true; mkLC false true false; mkLC true true false; mkLC true false false;
         mkLC true true true; mkLC true false true; mkLC false false true; mkLC false false false].
