(* A tiny deep-embedded fragment for ONE kernel: the body of `exclusive_call` in
   src/cobald/daemon/runners/guard.py.  py2coq/units.py prints the python AST of that function as a
   `list gstmt`; `exec` is its semantics over a lock and an opaque guarded call.

     lock      true = held (by whoever), false = free
     bout      how the guarded function ends when it is called: returns / raises
   Observable: the sequence of lock operations and calls, the final lock state, the outcome. *)
From Coq Require Import List Bool.
Import ListNotations.

Inductive gstmt :=
| GIfAcquire (t e : list gstmt)        (* if fnc_guard.acquire(blocking=False): t else: e *)
| GIfLocked (t e : list gstmt)         (* if fnc_guard.locked(): t else: e *)
| GTryFinally (b f : list gstmt)       (* try: b finally: f *)
| GReturnCall                          (* return fnc(...) *)
| GCall                                (* fnc(...) as a statement *)
| GRelease                             (* fnc_guard.release() *)
| GRaiseRuntime                        (* raise RuntimeError(...) *)
| GReturnNone.

Inductive bout := BReturns | BRaises.
Inductive eff := EAcquired | EAcquireRefused | EReleased | ECalled | EReleaseUnheld.

(* control outcome of a block *)
Inductive ctl := CNext | CReturnBody | CReturnNone | CRaiseBody | CRaiseRuntime | CRaiseLockError.

Record gstate := mkG { g_lock : bool; g_mine : bool; g_log : list eff }.
(* g_mine: this very call holds the lock (python's Lock does not track owners: release() of a lock held by
   another call succeeds and frees it -- which is exactly the defect such code can have) *)

Definition log (s : gstate) (e : eff) : gstate := mkG (g_lock s) (g_mine s) (g_log s ++ [e]).

Fixpoint exec (fuel : nat) (body : bout) (p : list gstmt) (s : gstate) : ctl * gstate :=
  match fuel with
  | O => (CRaiseLockError, s)
  | S fuel' =>
      match p with
      | [] => (CNext, s)
      | st :: rest =>
          let continue (r : ctl * gstate) :=
            match r with (CNext, s') => exec fuel' body rest s' | other => other end in
          match st with
          | GIfAcquire t e =>
              if g_lock s then continue (exec fuel' body e (log s EAcquireRefused))
              else continue (exec fuel' body t (mkG true true (g_log s ++ [EAcquired])))
          | GIfLocked t e =>
              if g_lock s then continue (exec fuel' body t s) else continue (exec fuel' body e s)
          | GTryFinally b f =>
              match exec fuel' body b s with
              | (c, s1) =>
                  match exec fuel' body f s1 with
                  | (CNext, s2) => continue (c, s2)       (* the finally block ran through: keep the try block's outcome *)
                  | other => other                         (* the finally block itself returned / raised *)
                  end
              end
          | GReturnCall =>
              let s1 := log s ECalled in
              (match body with BReturns => CReturnBody | BRaises => CRaiseBody end, s1)
          | GCall =>
              let s1 := log s ECalled in
              match body with BReturns => continue (CNext, s1) | BRaises => (CRaiseBody, s1) end
          | GRelease =>
              if g_lock s then continue (CNext, mkG false false (g_log s ++ [if g_mine s then EReleased else EReleaseUnheld]))
              else (CRaiseLockError, s)
          | GRaiseRuntime => (CRaiseRuntime, s)
          | GReturnNone => (CReturnNone, s)
          end
      end
  end.

Definition run_guarded (p : list gstmt) (held : bool) (body : bout) : ctl * gstate :=
  exec 64 body p (mkG held false []).
