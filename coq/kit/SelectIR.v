(* SelectIR — the selection conditions of RangeSelector.get_rule (stepwise.py) and DemandSwitch.regulate (switch.py) as
   the source translator transcribes them: a python comparison chain  a0 op1 a1 op2 a2 ...  over the loop variables
   (the bounds of a range / the threshold of a slave), the method's argument (supply / the target's demand) and
   float("inf").  Values are extended rationals: None stands for +infinity. *)
From Coq Require Import ZArith QArith List Bool.
From Cobald Require Import kit.QKit model.Controllers.
Import ListNotations.
Open Scope Q_scope.

Inductive sval := SBound1 | SBound2 | SInput.
Inductive srel := RLt | RLe | RGt | RGe.
Definition schain := (sval * list (srel * sval))%type.

Record senv := mkSenv { s_b1 : option Q; s_b2 : option Q; s_in : option Q }.

Definition sget (e : senv) (v : sval) : option Q :=
  match v with SBound1 => s_b1 e | SBound2 => s_b2 e | SInput => s_in e end.

Definition xlt (a b : option Q) : bool :=
  match a, b with Some x, Some y => Qltb x y | Some _, None => true | None, _ => false end.
Definition xle (a b : option Q) : bool :=
  match a, b with Some x, Some y => Qle_bool x y | _, None => true | None, Some _ => false end.

Definition srel_ev (r : srel) (a b : option Q) : bool :=
  match r with RLt => xlt a b | RLe => xle a b | RGt => xlt b a | RGe => xle b a end.

(* python: a op1 b op2 c  ==  (a op1 b) and (b op2 c) *)
Fixpoint links_ev (e : senv) (a : sval) (l : list (srel * sval)) : bool :=
  match l with
  | [] => true
  | (r, b) :: rest => srel_ev r (sget e a) (sget e b) && links_ev e b rest
  end.
Definition chain_ev (e : senv) (c : schain) : bool := links_ev e (fst c) (snd c).

(* stepwise.py get_rule:  for (low, high), rule in self._lookup.items(): if <chain>: return rule   (else: falls off, None) *)
Fixpoint get_rule_p (c : schain) (lk : list range) (s : Q) : option nat :=
  match lk with
  | [] => None
  | (lo, hi, r) :: rest => if chain_ev (mkSenv (Some lo) hi (Some s)) c then Some r else get_rule_p c rest s
  end.

(* switch.py regulate:  chosen = self._default; for demand, slave in self._slaves: if <chain>: chosen = slave *)
Definition choose_p (c : schain) (default : nat) (slaves : list entry) (d : Q) : nat :=
  fold_left (fun ch e => if chain_ev (mkSenv (Some (fst e)) None (Some d)) c then snd e else ch) slaves default.

Definition ref_get_rule_chain : schain := (SBound1, [(RLe, SInput); (RLt, SBound2)]).    (* low <= supply < high *)
Definition ref_choose_chain : schain := (SBound1, [(RLe, SInput)]).                        (* demand <= self.target.demand *)
