(* Combinators targeted by the source translator py2coq (shallow embedding of the python fragment used
   by the numeric kernels, over kit/PyNum).  An expression denotes a `res num`: `Err ENaN` stands for a
   NaN VALUE (python raises nothing for inf - inf), other errors are exceptions.
     arithmetic propagates NaN and exceptions (as python does);
     a comparison with a NaN operand is False (True for !=);
     a NaN argument of a call to another translated function is propagated as the call's result
     (the hand models do the same: inputs producing NaN are outside every theorem's domain). *)
From Coq Require Import ZArith QArith Bool.
From Cobald Require Import kit.QKit kit.PyNum.

Definition rbin (op : num -> num -> res num) (a b : res num) : res num :=
  bind a (fun x => bind b (fun y => op x y)).

Definition rcmp (op : num -> num -> bool) (nan_result : bool) (a b : res num) : res bool :=
  match a, b with
  | Ok x, Ok y => Ok (op x y)
  | Err ENaN, Ok _ | Ok _, Err ENaN | Err ENaN, Err ENaN => Ok nan_result
  | Err e, _ => Err e
  | _, Err e => Err e
  end.

Definition rlt := rcmp nlt false.
Definition rgt := rcmp ngt false.
Definition rle := rcmp nle false.
Definition rge := rcmp nge false.
Definition req := rcmp neq false.
Definition rne := rcmp nne true.

Definition rabs (a : res num) : res num := bind a (fun x => Ok (nabs x)).
Definition rneg (a : res num) : res num := bind a (fun x => nsub (PInt 0) x).

Definition rif {A} (c : res bool) (t e : res A) : res A :=
  match c with Ok true => t | Ok false => e | Err x => Err x end.

Definition rnot (c : res bool) : res bool := bind c (fun b => Ok (negb b)).
Definition rand (a b : res bool) : res bool := rif a b (Ok false).
Definition ror (a b : res bool) : res bool := rif a (Ok true) b.
