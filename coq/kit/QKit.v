(* Rational-number helpers shared by the numeric models (exact, ideal arithmetic). *)
From Coq Require Import ZArith QArith Qabs Qminmax Qround List Lia Lqa Bool.
Import ListNotations.
Open Scope Q_scope.

(* python `sum(xs)`: left fold from int 0; over Q addition is associative/commutative up to == *)
Fixpoint qsum (l : list Q) : Q :=
  match l with [] => 0 | x :: r => x + qsum r end.

Definition qsum_left (l : list Q) : Q := fold_left Qplus l 0.

Lemma fold_left_Qplus_acc : forall l a, fold_left Qplus l a == a + qsum l.
Proof.
  induction l as [|x r IH]; intros a; cbn [fold_left qsum].
  - lra.
  - rewrite IH. lra.
Qed.

Lemma qsum_left_eq : forall l, qsum_left l == qsum l.
Proof. intros l. unfold qsum_left. rewrite fold_left_Qplus_acc. lra. Qed.

Lemma qsum_app : forall a b, qsum (a ++ b) == qsum a + qsum b.
Proof. induction a as [|x r IH]; intros b; cbn [app qsum]; [lra|]. rewrite IH. lra. Qed.

Lemma qsum_map_scale : forall {A} (f : A -> Q) k l,
  qsum (map (fun x => k * f x) l) == k * qsum (map f l).
Proof. induction l as [|x r IH]; cbn [map qsum]; [ring|]. rewrite IH. ring. Qed.

Lemma qsum_map_const : forall {A} (k : Q) (l : list A),
  qsum (map (fun _ => k) l) == inject_Z (Z.of_nat (length l)) * k.
Proof.
  induction l as [|x r IH]; [unfold Qeq; cbn; lia|].
  cbn [map qsum length]. rewrite IH.
  rewrite Nat2Z.inj_succ. unfold Z.succ. rewrite inject_Z_plus. change (inject_Z 1) with 1. ring.
Qed.

Lemma qsum_nonneg : forall l, (forall x, In x l -> 0 <= x) -> 0 <= qsum l.
Proof.
  induction l as [|x r IH]; intros H; cbn [map qsum]; [lra|].
  assert (0 <= x) by (apply H; left; reflexivity).
  assert (0 <= qsum r) by (apply IH; intros y Hy; apply H; right; exact Hy). lra.
Qed.

Lemma qsum_ge_elem : forall l x, (forall y, In y l -> 0 <= y) -> In x l -> x <= qsum l.
Proof.
  induction l as [|a r IH]; intros x H Hin; [destruct Hin|].
  cbn [qsum]. destruct Hin as [->|Hin].
  - assert (0 <= qsum r) by (apply qsum_nonneg; intros y Hy; apply H; right; exact Hy). lra.
  - assert (0 <= a) by (apply H; left; reflexivity).
    assert (x <= qsum r) by (apply IH; [intros y Hy; apply H; right; exact Hy|exact Hin]). lra.
Qed.

Lemma qsum_map_ext_eq : forall {A} (f g : A -> Q) l,
  (forall x, In x l -> f x == g x) -> qsum (map f l) == qsum (map g l).
Proof.
  induction l as [|x r IH]; intros H; cbn [map qsum]; [lra|].
  rewrite (H x) by (left; reflexivity). rewrite IH; [lra|].
  intros y Hy. apply H. right. exact Hy.
Qed.

Lemma qsum_map_le : forall {A} (f g : A -> Q) l,
  (forall x, In x l -> f x <= g x) -> qsum (map f l) <= qsum (map g l).
Proof.
  induction l as [|x r IH]; intros H; cbn [map qsum]; [lra|].
  assert (f x <= g x) by (apply H; left; reflexivity).
  assert (qsum (map f r) <= qsum (map g r)) by (apply IH; intros y Hy; apply H; right; exact Hy). lra.
Qed.

Definition qlen {A} (l : list A) : Q := inject_Z (Z.of_nat (length l)).

Lemma qlen_pos : forall {A} (l : list A), l <> [] -> 0 < qlen l.
Proof.
  intros A l H. destruct l as [|x r]; [congruence|]. unfold qlen.
  cbn [length]. rewrite Nat2Z.inj_succ. unfold Z.succ. rewrite inject_Z_plus.
  assert (0 <= inject_Z (Z.of_nat (length r))).
  { change 0 with (inject_Z 0). rewrite <- Zle_Qle. lia. }
  change (inject_Z 1) with 1. lra.
Qed.

Lemma qlen_nonneg : forall {A} (l : list A), 0 <= qlen l.
Proof. intros. unfold qlen. change 0 with (inject_Z 0). rewrite <- Zle_Qle. lia. Qed.

(* boolean comparisons, reflecting *)
Definition Qltb (a b : Q) : bool := negb (Qle_bool b a).
Lemma Qltb_lt : forall a b, Qltb a b = true <-> a < b.
Proof.
  intros a b. unfold Qltb. rewrite negb_true_iff. split; intros H.
  - destruct (Qlt_le_dec a b) as [L|L]; [exact L|]. apply Qle_bool_iff in L. congruence.
  - destruct (Qle_bool b a) eqn:E; [|reflexivity]. apply Qle_bool_iff in E. lra.
Qed.
Lemma Qltb_ge : forall a b, Qltb a b = false <-> b <= a.
Proof.
  intros a b. unfold Qltb. rewrite negb_false_iff. apply Qle_bool_iff.
Qed.

Definition Qeqb (a b : Q) : bool := Qeq_bool a b.
Lemma Qeqb_eq : forall a b, Qeqb a b = true <-> a == b.
Proof. intros. apply Qeq_bool_iff. Qed.
Lemma Qeqb_neq : forall a b, Qeqb a b = false <-> ~ a == b.
Proof.
  intros a b. split; intros H.
  - intro E. apply Qeq_bool_iff in E. unfold Qeqb in H. congruence.
  - destruct (Qeqb a b) eqn:E; [|reflexivity]. apply Qeqb_eq in E. contradiction.
Qed.

Fixpoint list_Qeqb (a b : list Q) : bool :=
  match a, b with
  | [], [] => true
  | x :: r, y :: s => Qeqb x y && list_Qeqb r s
  | _, _ => false
  end.

(* floor of a rational, as an integer *)
Definition Qfloor_Z (q : Q) : Z := Qfloor q.
