(* FactoryIR — what the source translator (py2coq/units.py: gen_factory) extracts from
   src/cobald/composite/factory.py, and what it means.

   The translator matches the statement skeleton of FactoryPool.run / _shrink / _grow / _reap_children /
   _release_child exactly (anything else fails closed) and transcribes every expression and condition
   of that skeleton into the small expression language below.  `adjust_p` gives the skeleton its
   meaning for ANY such expressions, by evaluating them in an environment (state, the function's
   argument, its accumulator, the child at hand, the hit list); proofs/FactoryTie.v proves that with the
   reference expressions it is the hand-written model `Factory.adjust` the C15 theorems are about, and
   props/C15_tie.v that the expressions generated from the current source ARE the reference ones. *)
From Coq Require Import ZArith QArith List Bool Arith.
From Cobald Require Import kit.QKit kit.SetKit model.Factory.
Import ListNotations.
Open Scope Q_scope.

Inductive coll := CHit | CChildren | CHatchery.           (* hit_list / self.children / self._hatchery *)

Inductive fexpr :=
| FAcc                                   (* the accumulator: excess_demand / missing_demand *)
| FTarget                                (* the argument `target` *)
| FConst (z : Z)
| FSelfSupply | FSelfDemand              (* the locals of run(): supply, demand = self.supply, self.demand *)
| FChild (a : attr)                      (* child.<a> / new_child.<a> *)
| FSum (a : attr) (c : coll)             (* sum(child.<a> for child in <c>) *)
| FSub (x y : fexpr) | FMul (x y : fexpr).

Inductive cmp := CLt | CLe | CGt | CGe.
Inductive fcond := FCmp (op : cmp) (x y : fexpr).

Record env := mkEnv { e_st : pool; e_target : Q; e_acc : Q; e_child : nat; e_hit : list nat }.

Definition cattr (a : attr) (c : child) : Q :=
  match a with ASupply => c_supply c | AUtil => c_util c | AAlloc => c_alloc c | ADemand => c_demand c end.

Definition coll_of (e : env) (c : coll) : list nat :=
  match c with CHit => e_hit e | CChildren => children (e_st e) | CHatchery => hatchery (e_st e) end.

Fixpoint ev (e : env) (x : fexpr) : Q :=
  match x with
  | FAcc => e_acc e
  | FTarget => e_target e
  | FConst z => inject_Z z
  | FSelfSupply => supply (e_st e)
  | FSelfDemand => demand (e_st e)
  | FChild a => cattr a (get (e_st e) (e_child e))
  | FSum a c => qsum (map (fun i => cattr a (get (e_st e) i)) (coll_of e c))
  | FSub a b => ev e a - ev e b
  | FMul a b => ev e a * ev e b
  end.

Definition evc (e : env) (c : fcond) : bool :=
  match c with
  | FCmp CLt a b => Qltb (ev e a) (ev e b)
  | FCmp CLe a b => Qle_bool (ev e a) (ev e b)
  | FCmp CGt a b => Qltb (ev e b) (ev e a)
  | FCmp CGe a b => Qle_bool (ev e b) (ev e a)
  end.

Record fparams := mkParams {
  p_run_cond : fcond;            (* run:  if <cond>: self._shrink(target=<t>) else: self._grow(target=<t>) *)
  p_run_target : fexpr;
  p_sort_key : fexpr;            (* _shrink: sorted(self._hatchery, key=lambda child: <key>) *)
  p_excess_init : fexpr;         (*          excess_demand = <init> *)
  p_break_if : fcond;            (*          for child in hit_list: if <cond>: break *)
  p_release_if : fcond;          (*              if <cond>: *)
  p_excess_step : fexpr;         (*                  excess_demand = <step>; self._release_child(child) *)
  p_missing_init : fexpr;        (* _grow:   missing_demand = <init> *)
  p_grow_while : fcond;          (*          while <cond>: new_child = self.factory(); self._hatchery.add(new_child) *)
  p_assert : fcond;              (*              assert <cond> *)
  p_missing_step : fexpr;        (*              missing_demand = <step> *)
  p_reap_if : fcond;             (* _reap_children: for child in list(self._hatchery): if <cond>: release *)
  p_release_demand : fexpr       (* _release_child: child.demand = <e>; hatchery.discard(child); mortuary.add(child) *)
}.

Section WithParams.
Variable p : fparams.

Definition env0 (st : pool) : env := mkEnv st 0 0 O [].

(* _release_child *)
Definition release_p (st : pool) (i : nat) : pool :=
  mkPool (upd (store st) i (fun c => set_cdemand c (ev (mkEnv st 0 0 i []) (p_release_demand p))))
         (set_discard i (hatchery st)) (set_add i (mortuary st)) (demand st) (ncalls st).
Definition release_all_p (l : list nat) (st : pool) : pool := fold_left release_p l st.

(* _reap_children: the conditions are read on the snapshot; releasing one child does not change another's attributes *)
Definition reapable_p (st : pool) : list nat :=
  filter (fun i => evc (mkEnv st 0 0 i []) (p_reap_if p)) (hatchery st).
Definition reap_p (st : pool) : pool := release_all_p (reapable_p st) st.

(* _shrink *)
Definition hit_list_p (ord : list nat) (st : pool) : list nat :=
  stable_sort (fun i => ev (mkEnv st 0 0 i []) (p_sort_key p)) (iter_order ord (hatchery st)).

Fixpoint pick_release_p (st : pool) (target : Q) (hitl : list nat) (excess : Q) (rest : list nat) : list nat :=
  match rest with
  | [] => []
  | c :: r =>
      let e := mkEnv st target excess c hitl in
      if evc e (p_break_if p) then []
      else if evc e (p_release_if p) then c :: pick_release_p st target hitl (ev e (p_excess_step p)) r
      else pick_release_p st target hitl excess r
  end.

Definition shrink_p (ord : list nat) (st : pool) (target : Q) : pool :=
  let hitl := hit_list_p ord st in
  let excess := ev (mkEnv st target 0 O hitl) (p_excess_init p) in
  reap_p (release_all_p (pick_release_p st target hitl excess hitl) st).

(* _grow *)
Fixpoint grow_loop_p (factory : nat -> child) (fuel : nat) (st : pool) (target missing : Q) : outcome :=
  if evc (mkEnv st target missing O []) (p_grow_while p) then
    match fuel with
    | O => OutOfFuel
    | S f =>
        let st' := spawn factory st in
        let e := mkEnv st' target missing (length (store st)) [] in
        if evc e (p_assert p) then grow_loop_p factory f st' target (ev e (p_missing_step p))
        else AssertionFailed st'
    end
  else Done st.

Definition grow_p (factory : nat -> child) (fuel : nat) (st : pool) (target : Q) : outcome :=
  match grow_loop_p factory fuel st target (ev (mkEnv st target 0 O []) (p_missing_init p)) with
  | Done st' => Done (reap_p st')
  | o => o
  end.

(* one iteration of run() after the sleep *)
Definition adjust_p (factory : nat -> child) (fuel : nat) (ord : list nat) (st : pool) : outcome :=
  let target := ev (env0 st) (p_run_target p) in
  if evc (env0 st) (p_run_cond p) then Done (shrink_p ord st target)
  else grow_p factory fuel st target.
End WithParams.

(* the expressions of the source the model/Factory.v was written from *)
Definition ref_params : fparams := mkParams
  (FCmp CGt FSelfSupply FSelfDemand) FSelfDemand
  (FMul (FChild ASupply) (FChild AUtil))
  (FSub (FSum ADemand CHit) FTarget)
  (FCmp CLe FAcc (FConst 0))
  (FCmp CLe (FChild ADemand) FAcc)
  (FSub FAcc (FChild ADemand))
  (FSub FTarget (FSum ADemand CChildren))
  (FCmp CGt FAcc (FConst 0))
  (FCmp CGt (FChild ADemand) (FConst 0))
  (FSub FAcc (FChild ADemand))
  (FCmp CLe (FChild ADemand) (FConst 0))
  (FConst 0).

(* ---- the readers and the constructor ---- *)
Record rparams := mkRParams {
  r_supply : fexpr;               (* supply:       return <e> *)
  r_util_if : fcond;              (* utilisation:  active_children = [child for child in self.children if <cond>] *)
  r_util_attr : attr;             (*               try: return sum(child.<a> for child in active_children) / len(active_children) *)
  r_util_fallback : Z;            (*               except ZeroDivisionError: return <z> *)
  r_alloc_if : fcond;             (* allocation:   the same three *)
  r_alloc_attr : attr;
  r_alloc_fallback : Z;
  r_init_attr : attr              (* __init__:     self._demand = sum(child.<a> for child in children); hatchery = set(children) *)
}.

Definition supply_p (r : rparams) (st : pool) : Q := ev (env0 st) (r_supply r).

Definition mean_p (cond : fcond) (a : attr) (z : Z) (st : pool) : Q :=
  match filter (fun i => evc (mkEnv st 0 0 i []) cond) (children st) with
  | [] => inject_Z z
  | l => qsum (map (fun i => cattr a (get st i)) l) / qlen l
  end.
Definition utilisation_p (r : rparams) := mean_p (r_util_if r) (r_util_attr r) (r_util_fallback r).
Definition allocation_p (r : rparams) := mean_p (r_alloc_if r) (r_alloc_attr r) (r_alloc_fallback r).

Definition init_p (r : rparams) (cs : list child) : pool :=
  mkPool cs (seq 0 (length cs)) [] (qsum (map (cattr (r_init_attr r)) cs)) 0.

Definition ref_rparams : rparams := mkRParams
  (FSum ASupply CChildren)
  (FCmp CGt (FChild ASupply) (FConst 0)) AUtil 1
  (FCmp CGt (FChild ASupply) (FConst 0)) AAlloc 1
  ADemand.
