(* DecoIR — what the source translator (py2coq/units.py: gen_decorators) extracts from interfaces/_proxy.py (the five
   accessors of PoolDecorator) and decorator/logger.py (Logger.demand getter and setter), and what it means for ONE level of
   a decorator stack whose target's four attributes are given by `t`. *)
From Coq Require Import ZArith QArith List Bool String.
From Cobald Require Import kit.QKit model.Decorators.
Import ListNotations.
Open Scope Q_scope.

Inductive pattr := PDemand | PSupply | PUtil | PAlloc.

(* ---- PoolDecorator: `return self.target.<a>` for each property, `self.target.<a> = value` for the setter ---- *)
Record proxy_tbl := mkProxy { px_supply : pattr; px_demand : pattr; px_util : pattr; px_alloc : pattr; px_set : pattr }.

Definition proxy_read (tb : proxy_tbl) (which : pattr) (t : pattr -> Q) : Q :=
  t (match which with PSupply => px_supply tb | PDemand => px_demand tb | PUtil => px_util tb | PAlloc => px_alloc tb end).

(* the target after `decorator.demand = v` *)
Definition proxy_write (tb : proxy_tbl) (v : Q) (t : pattr -> Q) : pattr -> Q :=
  fun a => match a, px_set tb with
           | PDemand, PDemand | PSupply, PSupply | PUtil, PUtil | PAlloc, PAlloc => v
           | _, _ => t a
           end.

Definition ref_proxy : proxy_tbl := mkProxy PSupply PDemand PUtil PAlloc PDemand.

(* ---- Logger.demand ---- *)
Inductive lsrc := LValue | LTarget (a : pattr) | LTargetObj.      (* value / self.target.<a> / self.target *)
Definition ltable := list (string * lsrc).
Inductive lstep := LLog | LWrite.                                  (* self._logger.log(self.level, self.message, {...}) / self.target.demand = value *)

Fixpoint lookup (k : string) (tb : ltable) : option lsrc :=
  match tb with
  | [] => None
  | (k', s) :: r => if String.eqb k k' then Some s else lookup k r
  end.

Definition lq (v : Q) (t : pattr -> Q) (s : option lsrc) : option Q :=
  match s with Some LValue => Some v | Some (LTarget a) => Some (t a) | _ => None end.

(* the args mapping of the record (Decorators.fields): exactly the seven documented keys, `target` the target itself *)
Definition fields_p (tb : ltable) (v : Q) (t : pattr -> Q) (below : nat) : option fields :=
  match lq v t (lookup "value" tb), lq v t (lookup "demand" tb), lq v t (lookup "supply" tb),
        lq v t (lookup "utilisation" tb), lq v t (lookup "allocation" tb), lq v t (lookup "consumption" tb),
        lookup "target" tb, Nat.eqb (List.length tb) 7 with
  | Some a, Some b, Some c, Some d, Some e, Some f, Some LTargetObj, true => Some (mkFields a b c d e f below)
  | _, _, _, _, _, _, _, _ => None
  end.

(* the effects of one demand write arriving at a Logger, given the record and the effects of writing its target *)
Definition setter_effects (steps : list lstep) (rec_ : effect) (wr_effects : list effect) : list effect :=
  flat_map (fun s => match s with LLog => [rec_] | LWrite => wr_effects end) steps.

Definition ref_logger_fields : ltable :=
  [("value", LValue); ("demand", LTarget PDemand); ("supply", LTarget PSupply); ("utilisation", LTarget PUtil);
   ("allocation", LTarget PAlloc); ("consumption", LTarget PAlloc); ("target", LTargetObj)]%string.
Definition ref_logger_steps : list lstep := [LLog; LWrite].
Definition ref_logger_getter : lsrc := LTarget PDemand.
