(* SectionsIR — what the source translator (py2coq/units.py: gen_sections) extracts from load_section_plugins
   (src/cobald/daemon/core/config.py): which constraint set seeds a plugin's dependencies, which one is inverted, and which
   way round the inversion stores it.  `dependencies_p` is the meaning of the (exactly matched) statement skeleton

       dependencies = {plugin.section: set(plugin.<init>) for plugin in plugins.values()}
       for plugin in plugins.values():
           for other in plugin.<invert>:
               dependencies.setdefault(<key>, set()).add(<value>)      # {<key>, <value>} = {other, plugin.section}

   for any such choice. *)
From Coq Require Import List Arith Bool.
From Cobald Require Import model.Toposort model.Sections.
Import ListNotations.

Inductive cset := SAfter | SBefore.
Definition cset_of (s : cset) (p : plugin) : list name := match s with SAfter => after p | SBefore => before p end.

Record dparams := mkDparams {
  d_init : cset;             (* the set a plugin's own entry starts with *)
  d_invert : cset;           (* the set that is folded into OTHER plugins' entries *)
  d_key_is_other : bool      (* setdefault(other, set()).add(plugin.section)  vs  setdefault(plugin.section, set()).add(other) *)
}.

Definition dependencies_p (dp : dparams) (ps : list plugin) : dict :=
  fold_left (fun d p => fold_left (fun d o => if d_key_is_other dp then add_dep d o (section p) else add_dep d (section p) o)
                                  (cset_of (d_invert dp) p) d) ps
            (map (fun p => (section p, cset_of (d_init dp) p)) ps).

Definition load_section_plugins_p (dp : dparams) (perm : list name -> list name) (es : list plugin) : res lerr (list plugin) :=
  if existsb extras es then Err EValueError
  else
    let plugins := mk_plugins es in
    match toposort_flatten perm (dependencies_p dp (map snd plugins)) with
    | Err Circular => Err ECircular
    | Err OutOfFuel => Err EOutOfFuel
    | Ok names => Ok (flat_map (pick plugins) names)
    end.

Definition ref_dparams : dparams := mkDparams SAfter SBefore true.

(* ---- load_configuration (src/cobald/daemon/config/mapping.py): the order of its three phases and the two tests inside the
        digest loop, as extracted by the translator ---- *)
Inductive phase :=
| PLogging        (* try: m = config_data.pop("logging") except KeyError: pass else: configure_logging(m) *)
| PValidate       (* unmatched = config_data.keys() - {sections}; if unmatched: raise ConfigurationError *)
| PDigest.        (* content = {}; for plugin in plugins: ...; (the result is content) *)

Inductive missing_rule := MRequired | MAlways | MNever.     (* on a missing section: `if plugin.required: raise` / raise / ignore *)
Inductive store_rule := SNotNone | STruthy | SAlways.        (* `if plugin_content is not None:` / `if plugin_content:` / always *)

Record lparams := mkLparams { l_phases : list phase; l_missing : missing_rule; l_store : store_rule }.

(* which result tokens stand for falsy python values (0, "", [], False): the correspondence harness' numbering *)
Definition falsy_token (v : nat) : bool := Nat.ltb v 4.

Definition missing_raises (m : missing_rule) (p : plugin) : bool :=
  match m with MRequired => required p | MAlways => true | MNever => false end.

Definition stored (lp : lparams) (p : plugin) : option (nat * nat) :=
  match ret p, l_store lp with
  | Some v, SNotNone => Some (pid p, v)
  | Some v, STruthy => if falsy_token v then None else Some (pid p, v)
  | Some v, SAlways => Some (pid p, v)
  | None, _ => None              (* SAlways would store None itself: not expressible in `outcome`, never generated *)
  end.

Fixpoint digest_loop_p (lp : lparams) (cfg : config) (ps : list plugin) : outcome * list event :=
  match ps with
  | [] => (Ok [], [])
  | p :: r =>
      match cfg_get cfg (section p) with
      | None =>
          if missing_raises (l_missing lp) p then (Err (MissingSection (section p)), [])
          else digest_loop_p lp cfg r
      | Some data =>
          let '(out, log) := digest_loop_p lp cfg r in
          (match out with
           | Ok c => Ok (match stored lp p with Some e => e :: c | None => c end)
           | Err e => Err e
           end, EvDigest (pid p) data :: log)
      end
  end.

(* run the phases in order; the first error ends the call; the result is what the digest phase collected *)
Fixpoint phases_p (lp : lparams) (phs : list phase) (ps : list plugin) (cfg : config) (log : list event) (acc : list (nat * nat))
  : outcome * list event :=
  match phs with
  | [] => (Ok acc, log)
  | PLogging :: r =>
      match cfg_get cfg logging_name with
      | Some m => phases_p lp r ps (cfg_pop logging_name cfg) (log ++ [EvLogging m]) acc
      | None => phases_p lp r ps cfg log acc
      end
  | PValidate :: r =>
      match unmatched cfg ps with
      | (_ :: _) as ks => (Err (UnknownSections ks), log)
      | [] => phases_p lp r ps cfg log acc
      end
  | PDigest :: r =>
      match digest_loop_p lp cfg ps with
      | (Ok c, l) => phases_p lp r ps cfg (log ++ l) c
      | (Err e, l) => (Err e, log ++ l)
      end
  end.

Definition load_configuration_p (lp : lparams) (cfg : config) (ps : list plugin) : outcome * list event :=
  phases_p lp (l_phases lp) ps cfg [] [].

Definition ref_lparams : lparams := mkLparams [PLogging; PValidate; PDigest] MRequired SNotNone.
