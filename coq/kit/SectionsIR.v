(* SectionsIR — what the source translator (py2coq/units.py: gen_sections) extracts from load_section_plugins
   (src/cobald/daemon/core/config.py): which constraint set seeds a plugin's dependencies, which one is inverted, and which
   way round the inversion stores it.  `dependencies_p` is the meaning of the (exactly matched) statement skeleton

       dependencies = {plugin.section: set(plugin.<init>) for plugin in plugins.values()}
       for plugin in plugins.values():
           for other in plugin.<invert>:
               dependencies.setdefault(<key>, set()).add(<value>)      # {<key>, <value>} = {other, plugin.section}

   for any such choice. *)
From Coq Require Import List Arith Bool.
From Cobald Require Import model.Toposort model.Sections.
Import ListNotations.

Inductive cset := SAfter | SBefore.
Definition cset_of (s : cset) (p : plugin) : list name := match s with SAfter => after p | SBefore => before p end.

Record dparams := mkDparams {
  d_init : cset;             (* the set a plugin's own entry starts with *)
  d_invert : cset;           (* the set that is folded into OTHER plugins' entries *)
  d_key_is_other : bool      (* setdefault(other, set()).add(plugin.section)  vs  setdefault(plugin.section, set()).add(other) *)
}.

Definition dependencies_p (dp : dparams) (ps : list plugin) : dict :=
  fold_left (fun d p => fold_left (fun d o => if d_key_is_other dp then add_dep d o (section p) else add_dep d (section p) o)
                                  (cset_of (d_invert dp) p) d) ps
            (map (fun p => (section p, cset_of (d_init dp) p)) ps).

Definition load_section_plugins_p (dp : dparams) (perm : list name -> list name) (es : list plugin) : res lerr (list plugin) :=
  if existsb extras es then Err EValueError
  else
    let plugins := mk_plugins es in
    match toposort_flatten perm (dependencies_p dp (map snd plugins)) with
    | Err Circular => Err ECircular
    | Err OutOfFuel => Err EOutOfFuel
    | Ok names => Ok (flat_map (pick plugins) names)
    end.

Definition ref_dparams : dparams := mkDparams SAfter SBefore true.
