(* Correspondence glue: indices of the cases on which a boolean check fails. *)
From Coq Require Import List Arith.
Import ListNotations.

Fixpoint failing_from {A : Type} (chk : A -> bool) (i : nat) (l : list A) : list nat :=
  match l with
  | [] => []
  | x :: r => if chk x then failing_from chk (S i) r else i :: failing_from chk (S i) r
  end.

Definition failing {A : Type} (chk : A -> bool) (l : list A) : list nat := failing_from chk 0 l.

Lemma failing_from_nil : forall A (chk : A -> bool) l i,
  failing_from chk i l = [] <-> forallb chk l = true.
Proof.
  induction l as [|x r IH]; intros i; cbn; [tauto|].
  destruct (chk x); cbn; [apply IH|]. split; discriminate.
Qed.
