(* Python numbers as the code of cobald sees them: `int` and `float`, with the type tag kept.

     num := PInt z | PFlt (Fin q | PInf | NInf)

   * `int` is unbounded (Z).  A finite `float` is an exact rational: binary64 ROUNDING IS NOT MODELLED
     (ideal arithmetic); the correspondence run feeds the real code dyadic floats of small magnitude on
     which every operation used here is exact.  -0.0 is identified with 0.0 (python `==` does too).
   * There is NO NaN constructor.  An operation whose IEEE result is NaN (inf - inf, 0 * inf,
     inf // x) returns the explicit outcome `Err ENaN`: such inputs are OUT OF DOMAIN of every theorem
     stated over this kit, and the models stop there.  Python raises nothing in these situations; the
     one place where cobald compares a possible NaN (`abs(a - b) >= g`) is modelled at the use site.
   * Python exceptions are explicit outcomes too: `EZeroDiv` (ZeroDivisionError of // by 0),
     `EValue` (ValueError raised by validation code).  int -> float conversion never overflows here.
   * typing rules: int (+,-,*,//) int : int;  any float operand makes the result float;
     abs keeps the type; comparisons between int and float are exact (as in CPython). *)
From Coq Require Import ZArith QArith Qabs Qround Bool Lia Lqa.
From Cobald Require Import kit.QKit.
Open Scope Q_scope.

(* ------------------------------------------------------------------ outcomes *)
Inductive err := ENaN | EZeroDiv | EValue.
Inductive res (A : Type) := Ok (a : A) | Err (e : err).
Arguments Ok {A} a.
Arguments Err {A} e.

Definition bind {A B} (r : res A) (f : A -> res B) : res B :=
  match r with Ok a => f a | Err e => Err e end.

Definition err_eqb (a b : err) : bool :=
  match a, b with ENaN, ENaN | EZeroDiv, EZeroDiv | EValue, EValue => true | _, _ => false end.

(* ------------------------------------------------------------------ extended rationals (float values) *)
Inductive flt := Fin (q : Q) | PInf | NInf.

Definition finite (a : flt) : Prop := match a with Fin _ => True | _ => False end.

(* a < b *)
Definition fltb (a b : flt) : bool :=
  match a, b with
  | NInf, NInf => false
  | NInf, _ => true
  | _, NInf => false
  | PInf, _ => false
  | Fin _, PInf => true
  | Fin x, Fin y => Qltb x y
  end.
Definition fleb (a b : flt) : bool := negb (fltb b a).
Definition feqb (a b : flt) : bool := fleb a b && fleb b a.

Definition flt_lt (a b : flt) : Prop :=
  match a, b with
  | NInf, NInf => False
  | NInf, _ => True
  | _, NInf => False
  | PInf, _ => False
  | Fin _, PInf => True
  | Fin x, Fin y => x < y
  end.
Definition fle (a b : flt) : Prop :=
  match a, b with
  | NInf, _ => True
  | _, PInf => True
  | Fin x, Fin y => x <= y
  | _, _ => False
  end.
(* same value *)
Definition feq (a b : flt) : Prop :=
  match a, b with
  | Fin x, Fin y => x == y
  | PInf, PInf | NInf, NInf => True
  | _, _ => False
  end.

Lemma fltb_lt a b : fltb a b = true <-> flt_lt a b.
Proof.
  destruct a, b; cbn; try (split; (discriminate || tauto || reflexivity)).
  apply Qltb_lt.
Qed.
Lemma fltb_ge a b : fltb a b = false <-> fle b a.
Proof.
  destruct a, b; cbn; try (split; (discriminate || tauto || reflexivity)).
  apply Qltb_ge.
Qed.
Lemma fleb_le a b : fleb a b = true <-> fle a b.
Proof. unfold fleb. rewrite negb_true_iff. apply fltb_ge. Qed.
Lemma fleb_gt a b : fleb a b = false <-> flt_lt b a.
Proof. unfold fleb. rewrite negb_false_iff. apply fltb_lt. Qed.

(* destruct every float value in sight, turn boolean comparisons into Q facts *)
Ltac flt_split :=
  repeat match goal with
  | x : flt |- _ => destruct x
  end.
Ltac q_reflect :=
  repeat match goal with
  | H : Qltb _ _ = true |- _ => apply Qltb_lt in H
  | H : Qltb _ _ = false |- _ => apply Qltb_ge in H
  | H : Qeqb _ _ = true |- _ => apply Qeqb_eq in H
  | H : Qeqb _ _ = false |- _ => apply Qeqb_neq in H
  | |- Qltb _ _ = true => apply Qltb_lt
  | |- Qltb _ _ = false => apply Qltb_ge
  | |- Qeqb _ _ = true => apply Qeqb_eq
  | |- Qeqb _ _ = false => apply Qeqb_neq
  end.

Lemma fle_refl a : fle a a.
Proof. destruct a; cbn; try exact I. lra. Qed.
Lemma fle_trans a b c : fle a b -> fle b c -> fle a c.
Proof. destruct a, b, c; cbn; try tauto. lra. Qed.
Lemma flt_le a b : flt_lt a b -> fle a b.
Proof. destruct a, b; cbn; try tauto. lra. Qed.
Lemma flt_le_trans a b c : flt_lt a b -> fle b c -> flt_lt a c.
Proof. destruct a, b, c; cbn; try tauto. lra. Qed.
Lemma fle_lt_trans a b c : fle a b -> flt_lt b c -> flt_lt a c.
Proof. destruct a, b, c; cbn; try tauto. lra. Qed.
Lemma fle_total a b : fle a b \/ fle b a.
Proof. destruct a, b; cbn; try tauto. destruct (Qlt_le_dec q q0); [left|right]; lra. Qed.
Lemma flt_irrefl a : ~ flt_lt a a.
Proof. destruct a; cbn; try tauto. lra. Qed.
Lemma fle_not_lt a b : fle a b -> ~ flt_lt b a.
Proof. destruct a, b; cbn; try tauto. lra. Qed.
Lemma fle_antisym a b : fle a b -> fle b a -> feq a b.
Proof. destruct a, b; cbn; try tauto. lra. Qed.

Lemma feq_refl a : feq a a.
Proof. destruct a; cbn; try exact I. reflexivity. Qed.
Lemma feq_sym a b : feq a b -> feq b a.
Proof. destruct a, b; cbn; try tauto. intros H. symmetry. exact H. Qed.
Lemma feq_trans a b c : feq a b -> feq b c -> feq a c.
Proof. destruct a, b, c; cbn; try tauto. intros H1 H2. rewrite H1. exact H2. Qed.
Lemma feq_fle a b : feq a b -> fle a b.
Proof. destruct a, b; cbn; try tauto. lra. Qed.
Lemma fle_feq_l a a' b : feq a a' -> fle a b -> fle a' b.
Proof. destruct a, a', b; cbn; try tauto. lra. Qed.
Lemma fle_feq_r a b b' : feq b b' -> fle a b -> fle a b'.
Proof. destruct a, b, b'; cbn; try tauto. lra. Qed.
Lemma fltb_feq a a' b b' : feq a a' -> feq b b' -> fltb a b = fltb a' b'.
Proof.
  destruct a, a', b, b'; cbn; try tauto; try reflexivity. intros H1 H2.
  destruct (Qltb q q1) eqn:E1, (Qltb q0 q2) eqn:E2; try reflexivity; q_reflect; lra.
Qed.

(* ------------------------------------------------------------------ float arithmetic (ideal) *)
Definition fneg (a : flt) : flt :=
  match a with Fin x => Fin (- x) | PInf => NInf | NInf => PInf end.

Definition fadd (a b : flt) : res flt :=
  match a, b with
  | Fin x, Fin y => Ok (Fin (x + y))
  | PInf, NInf | NInf, PInf => Err ENaN              (* inf - inf *)
  | PInf, _ | _, PInf => Ok PInf
  | NInf, _ | _, NInf => Ok NInf
  end.

Definition fsub (a b : flt) : res flt :=
  match a, b with
  | Fin x, Fin y => Ok (Fin (x - y))
  | _, _ => fadd a (fneg b)
  end.

(* finite x times an infinity of the given sign *)
Definition inf_times (x : Q) (positive : bool) : res flt :=
  if Qeqb x 0 then Err ENaN                          (* 0 * inf *)
  else Ok (if Bool.eqb (Qltb 0 x) positive then PInf else NInf).

Definition fmul (a b : flt) : res flt :=
  match a, b with
  | Fin x, Fin y => Ok (Fin (x * y))
  | Fin x, PInf | PInf, Fin x => inf_times x true
  | Fin x, NInf | NInf, Fin x => inf_times x false
  | PInf, PInf | NInf, NInf => Ok PInf
  | PInf, NInf | NInf, PInf => Ok NInf
  end.

(* CPython float_floor_div: ZeroDivisionError for a zero divisor (checked first); the floor of the
   exact quotient of the two values otherwise; finite // +-inf is 0.0 or -1.0; inf // y is NaN *)
Definition ffloordiv (a b : flt) : res flt :=
  match b with
  | Fin y =>
      if Qeqb y 0 then Err EZeroDiv
      else match a with
           | Fin x => Ok (Fin (inject_Z (Qfloor (x / y))))
           | _ => Err ENaN
           end
  | PInf => match a with Fin x => Ok (Fin (if Qltb x 0 then -1 else 0)) | _ => Err ENaN end
  | NInf => match a with Fin x => Ok (Fin (if Qltb 0 x then -1 else 0)) | _ => Err ENaN end
  end.

Definition fabs (a : flt) : flt :=
  match a with Fin x => Fin (Qabs x) | _ => PInf end.

(* ------------------------------------------------------------------ python numbers *)
Inductive num := PInt (z : Z) | PFlt (f : flt).

Definition val (a : num) : flt :=
  match a with PInt z => Fin (inject_Z z) | PFlt f => f end.

Definition is_int (a : num) : bool := match a with PInt _ => true | PFlt _ => false end.

Definition lift2 (f : flt -> flt -> res flt) (a b : num) : res num :=
  match f (val a) (val b) with Ok r => Ok (PFlt r) | Err e => Err e end.

Definition nadd (a b : num) : res num :=
  match a, b with PInt x, PInt y => Ok (PInt (x + y)) | _, _ => lift2 fadd a b end.
Definition nsub (a b : num) : res num :=
  match a, b with PInt x, PInt y => Ok (PInt (x - y)) | _, _ => lift2 fsub a b end.
Definition nmul (a b : num) : res num :=
  match a, b with PInt x, PInt y => Ok (PInt (x * y)) | _, _ => lift2 fmul a b end.
(* int // int: floor division (Z.div rounds towards -infinity for every sign combination, as python) *)
Definition nfloordiv (a b : num) : res num :=
  match a, b with
  | PInt x, PInt y => if Z.eqb y 0 then Err EZeroDiv else Ok (PInt (x / y))
  | _, _ => lift2 ffloordiv a b
  end.
Definition nabs (a : num) : num :=
  match a with PInt z => PInt (Z.abs z) | PFlt f => PFlt (fabs f) end.

(* comparisons (exact, also between int and float) *)
Definition nlt (a b : num) : bool := fltb (val a) (val b).
Definition ngt (a b : num) : bool := fltb (val b) (val a).
Definition nle (a b : num) : bool := fleb (val a) (val b).
Definition nge (a b : num) : bool := fleb (val b) (val a).
Definition neq (a b : num) : bool := feqb (val a) (val b).
Definition nne (a b : num) : bool := negb (neq a b).

(* same python object up to the representation of the rational: same type, same value *)
Definition num_eqb (a b : num) : bool :=
  match a, b with
  | PInt x, PInt y => Z.eqb x y
  | PFlt (Fin x), PFlt (Fin y) => Qeqb x y
  | PFlt PInf, PFlt PInf | PFlt NInf, PFlt NInf => true
  | _, _ => false
  end.

(* ------------------------------------------------------------------ value-level specifications *)
(* value of a sum / difference, up to feq *)
Lemma nadd_feq a b c r : nadd a b = Ok c -> fadd (val a) (val b) = Ok r -> feq (val c) r.
Proof.
  destruct a as [x|fa], b as [y|fb]; cbn [nadd]; unfold lift2.
  - intros H1 H2. inversion H1. cbn in H2. inversion H2. cbn. rewrite inject_Z_plus. reflexivity.
  - intros H1 H2. rewrite H2 in H1. inversion H1. apply feq_refl.
  - intros H1 H2. rewrite H2 in H1. inversion H1. apply feq_refl.
  - intros H1 H2. rewrite H2 in H1. inversion H1. apply feq_refl.
Qed.
Lemma nsub_feq a b c r : nsub a b = Ok c -> fsub (val a) (val b) = Ok r -> feq (val c) r.
Proof.
  destruct a as [x|fa], b as [y|fb]; cbn [nsub]; unfold lift2.
  - intros H1 H2. inversion H1. cbn in H2. inversion H2. cbn. unfold Z.sub.
    rewrite inject_Z_plus, inject_Z_opp. lra.
  - intros H1 H2. rewrite H2 in H1. inversion H1. apply feq_refl.
  - intros H1 H2. rewrite H2 in H1. inversion H1. apply feq_refl.
  - intros H1 H2. rewrite H2 in H1. inversion H1. apply feq_refl.
Qed.

(* totality on the domain: finite operands never produce an error in + and - *)
Lemma fadd_finite_l x b : exists r, fadd (Fin x) b = Ok r.
Proof. destruct b; cbn; eauto. Qed.
Lemma fsub_finite_l x b : exists r, fsub (Fin x) b = Ok r.
Proof. destruct b; cbn; eauto. Qed.
Lemma nadd_total_l a b : finite (val a) -> exists c, nadd a b = Ok c.
Proof.
  intros Hf. destruct a as [x|fa], b as [y|fb]; cbn [nadd]; unfold lift2; eauto.
  - cbn [val]. destruct (fadd_finite_l (inject_Z x) fb) as [r ->]. eauto.
  - cbn [val] in *. destruct fa; try contradiction. cbn. eauto.
  - cbn [val] in *. destruct fa; try contradiction.
    destruct (fadd_finite_l q fb) as [r ->]. eauto.
Qed.
Lemma nsub_total_l a b : finite (val a) -> exists c, nsub a b = Ok c.
Proof.
  intros Hf. destruct a as [x|fa], b as [y|fb]; cbn [nsub]; unfold lift2; eauto.
  - cbn [val]. destruct (fsub_finite_l (inject_Z x) fb) as [r ->]. eauto.
  - cbn [val] in *. destruct fa; try contradiction. cbn. eauto.
  - cbn [val] in *. destruct fa; try contradiction.
    destruct (fsub_finite_l q fb) as [r ->]. eauto.
Qed.

(* the only error of + and - is the NaN outcome *)
Lemma fadd_err a b e : fadd a b = Err e -> e = ENaN.
Proof. destruct a, b; cbn; intros H; inversion H; reflexivity. Qed.
Lemma fsub_err a b e : fsub a b = Err e -> e = ENaN.
Proof. destruct a, b; cbn; intros H; inversion H; reflexivity. Qed.
Lemma nsub_err a b e : nsub a b = Err e -> e = ENaN.
Proof.
  destruct a, b; cbn [nsub]; unfold lift2; try discriminate;
    destruct (fsub _ _) eqn:E; intros H; inversion H; subst; eapply fsub_err; exact E.
Qed.

Lemma nabs_val a : feq (val (nabs a)) (fabs (val a)).
Proof.
  destruct a as [z|f]; cbn; [|apply feq_refl].
  unfold inject_Z, Qabs. reflexivity.
Qed.

(* floor division of finite values by a finite positive value: the floor of the quotient *)
Lemma Qfloor_int_div x y : (0 < y)%Z -> Qfloor (inject_Z x / inject_Z y) = (x / y)%Z.
Proof.
  intros Hy. destruct y as [|p|p]; try lia.
  unfold Qdiv, Qinv, inject_Z. cbn [Qnum Qden]. unfold Qmult. cbn [Qnum Qden Qfloor].
  rewrite Z.mul_1_r. reflexivity.
Qed.

Lemma nfloordiv_val a b x g : val a = Fin x -> val b = Fin g -> 0 < g ->
  exists c, nfloordiv a b = Ok c /\ val c = Fin (inject_Z (Qfloor (x / g))) .
Proof.
  intros Ha Hb Hg.
  assert (Eg : Qeqb g 0 = false) by (q_reflect; lra).
  destruct a as [xa|fa], b as [yb|fb]; cbn [val] in *; subst.
  - inversion Ha; inversion Hb; subst. cbn [nfloordiv].
    assert (0 < yb)%Z.
    { change 0 with (inject_Z 0) in Hg. rewrite <- Zlt_Qlt in Hg. exact Hg. }
    destruct (Z.eqb_spec yb 0); [lia|]. eexists; split; [reflexivity|].
    cbn [val]. rewrite Qfloor_int_div by assumption. reflexivity.
  - inversion Ha; subst. cbn [nfloordiv]. unfold lift2. cbn [val ffloordiv]. rewrite Eg. eauto.
  - inversion Hb; subst. cbn [nfloordiv]. unfold lift2. cbn [val ffloordiv]. rewrite Eg. eauto.
  - cbn [nfloordiv]. unfold lift2. cbn [val ffloordiv]. rewrite Eg. eauto.
Qed.

Lemma nmul_val_fin a b x y : val a = Fin x -> val b = Fin y ->
  exists c, nmul a b = Ok c /\ feq (val c) (Fin (x * y)).
Proof.
  intros Ha Hb. destruct a as [xa|fa], b as [yb|fb]; cbn [val] in *; subst.
  - inversion Ha; inversion Hb; subst. cbn [nmul]. eexists; split; [reflexivity|].
    cbn. rewrite inject_Z_mult. reflexivity.
  - inversion Ha; subst. cbn [nmul]. unfold lift2. cbn. eexists; split; [reflexivity|]. cbn. reflexivity.
  - inversion Hb; subst. cbn [nmul]. unfold lift2. cbn. eexists; split; [reflexivity|]. cbn. reflexivity.
  - cbn [nmul]. unfold lift2. cbn. eexists; split; [reflexivity|]. cbn. reflexivity.
Qed.
