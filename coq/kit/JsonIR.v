(* JsonIR — the merge performed by JsonFormatter.format (src/cobald/monitor/format_json.py) as the source translator
   (py2coq/units.py: gen_monitor) extracts it: the ORDER in which the dictionary handed to json.dumps is assembled, and the
   condition under which the time is part of it. *)
From Coq Require Import ZArith List Bool.
From Cobald Require Import model.LineProtocol.
Import ListNotations.

Inductive jstep :=
| JCopyDefaults      (* data = self._defaults.copy() *)
| JSetTime           (* if self._add_time: data["time"] = self.formatTime(record, self.datefmt) *)
| JSetMessage        (* data["message"] = record.getMessage() if args else record.msg *)
| JUpdateArgs.       (* data.update(args) *)

Definition json_data_p {V} (steps : list jstep) (defaults : list (str * V)) (time : option V) (message : V)
           (data : list (str * V)) : list (str * V) :=
  fold_left (fun d s => match s with
                        | JCopyDefaults => defaults
                        | JSetTime => match time with Some t => dict_set k_time t d | None => d end
                        | JSetMessage => dict_set k_message message d
                        | JUpdateArgs => dict_update d data
                        end) steps [].

(* self._add_time = <condition over self.datefmt> *)
Inductive jcond := JTruthy | JIsNone | JOr (a b : jcond) | JAnd (a b : jcond) | JNot (a : jcond).

Fixpoint jcond_ev (c : jcond) (datefmt : option str) : bool :=
  match c with
  | JTruthy => match datefmt with None => false | Some s => nonempty s end
  | JIsNone => match datefmt with None => true | Some _ => false end
  | JOr a b => jcond_ev a datefmt || jcond_ev b datefmt
  | JAnd a b => jcond_ev a datefmt && jcond_ev b datefmt
  | JNot a => negb (jcond_ev a datefmt)
  end.

Definition ref_json_steps : list jstep := [JCopyDefaults; JSetTime; JSetMessage; JUpdateArgs].
Definition ref_add_time : jcond := JOr JTruthy JIsNone.          (* self.datefmt or self.datefmt is None *)
