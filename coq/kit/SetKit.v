(* python sets / dicts of small identifiers as duplicate-free lists of nat: membership test and
   the list facts shared by the Toposort/Sections (C14) and Factory (C15) developments. *)
From Coq Require Import List Arith Bool Permutation Lia.
Import ListNotations.

Definition mem (x : nat) (l : list nat) : bool := existsb (Nat.eqb x) l.

Lemma mem_In : forall x l, mem x l = true <-> In x l.
Proof.
  unfold mem. intros x l. rewrite existsb_exists. split.
  - intros [y [Hy E]]. apply Nat.eqb_eq in E. subst y. exact Hy.
  - intros H. exists x. split; [exact H|apply Nat.eqb_refl].
Qed.

Lemma mem_nIn : forall x l, mem x l = false <-> ~ In x l.
Proof.
  intros x l. split; intros H.
  - intros Hin. apply mem_In in Hin. congruence.
  - destruct (mem x l) eqn:E; [|reflexivity]. apply mem_In in E. contradiction.
Qed.

Lemma NoDup_app_intro : forall {A} (a b : list A),
  NoDup a -> NoDup b -> (forall x, In x a -> ~ In x b) -> NoDup (a ++ b).
Proof.
  induction a as [|x r IH]; intros b Ha Hb Hd; cbn [app]; [exact Hb|].
  inversion Ha as [|? ? Hx Hr]; subst. constructor.
  - intros Hin. apply in_app_or in Hin. destruct Hin as [Hin|Hin]; [contradiction|].
    apply (Hd x); [left; reflexivity|exact Hin].
  - apply IH; [exact Hr|exact Hb|]. intros y Hy. apply Hd. right. exact Hy.
Qed.

Lemma NoDup_app_l : forall {A} (a b : list A), NoDup (a ++ b) -> NoDup a.
Proof.
  induction a as [|x r IH]; intros b H; [constructor|]. cbn [app] in H.
  inversion H as [|? ? Hx Hr]; subst. constructor; [|eapply IH; exact Hr].
  intros Hin. apply Hx. apply in_or_app. left. exact Hin.
Qed.

Lemma NoDup_app_r : forall {A} (a b : list A), NoDup (a ++ b) -> NoDup b.
Proof.
  induction a as [|x r IH]; intros b H; [exact H|]. cbn [app] in H.
  inversion H as [|? ? Hx Hr]; subst. apply IH. exact Hr.
Qed.

Lemma NoDup_app_disj : forall {A} (a b : list A) x, NoDup (a ++ b) -> In x a -> ~ In x b.
Proof.
  induction a as [|y r IH]; intros b x H Hin; [destruct Hin|]. cbn [app] in H.
  inversion H as [|? ? Hy Hr]; subst. destruct Hin as [->|Hin].
  - intros Hb. apply Hy. apply in_or_app. right. exact Hb.
  - apply IH; assumption.
Qed.

Lemma NoDup_filter' : forall {A} (f : A -> bool) l, NoDup l -> NoDup (filter f l).
Proof.
  induction l as [|x r IH]; intros H; cbn [filter]; [constructor|].
  inversion H as [|? ? Hx Hr]; subst. destruct (f x).
  - constructor; [|apply IH; exact Hr]. intros Hin. apply filter_In in Hin. tauto.
  - apply IH; exact Hr.
Qed.

(* a NoDup list is a permutation of a NoDup sublist followed by the rest *)
Lemma partition_perm : forall (l o : list nat),
  NoDup l -> NoDup o -> incl o l ->
  Permutation l (o ++ filter (fun k => negb (mem k o)) l).
Proof.
  intros l o Hl Ho Hincl. apply NoDup_Permutation.
  - exact Hl.
  - apply NoDup_app_intro; [exact Ho|apply NoDup_filter'; exact Hl|].
    intros x Hx Hin. apply filter_In in Hin. destruct Hin as [_ Hn].
    apply negb_true_iff in Hn. apply mem_nIn in Hn. contradiction.
  - intros x. split; intros H.
    + apply in_or_app. destruct (mem x o) eqn:E.
      * left. apply mem_In. exact E.
      * right. apply filter_In. split; [exact H|]. rewrite E. reflexivity.
    + apply in_app_or in H. destruct H as [H|H]; [apply Hincl; exact H|].
      apply filter_In in H. tauto.
Qed.

Lemma filter_length_le' : forall {A} (f : A -> bool) l, length (filter f l) <= length l.
Proof.
  induction l as [|y r IH]; cbn [filter length]; [lia|]. destruct (f y); cbn [length]; lia.
Qed.

Lemma filter_length_lt : forall {A} (f : A -> bool) l x,
  In x l -> f x = false -> length (filter f l) < length l.
Proof.
  induction l as [|y r IH]; intros x Hin Hf; [destruct Hin|].
  cbn [filter length]. destruct Hin as [->|Hin].
  - rewrite Hf. pose proof (filter_length_le' f r). lia.
  - specialize (IH x Hin Hf). destruct (f y); cbn [length]; lia.
Qed.
