(* LoopIR — the shape of the six shipped run() loops as the source translator (py2coq/units.py: gen_services) extracts it:
   where the one `await trio.sleep(..)` stands in the loop body, what it sleeps for, and what the rest of the body does.
   The meaning is given in terms of model/Services.v's timeline: a loop that sleeps first does nothing at its first wake. *)
From Coq Require Import ZArith QArith List Bool.
From Cobald Require Import kit.QKit model.Controllers model.Services.
Import ListNotations.
Open Scope Q_scope.

Inductive aexpr := AInterval | AWindow | AConst (z : Z).        (* self.interval / self.window / a literal *)

Inductive body :=
| BRegulate (arg : aexpr)       (* self.regulate(<arg>) *)
| BStepwise                     (* rule = self._selector.get_rule(target.supply); d = rule(target, interval); write unless None *)
| BBufferFlush (neq : bool)     (* if self.demand != self.target.demand: self.target.demand = self.demand   (neq = false: `==`) *)
| BFactoryAdjust.               (* supply, demand = self.supply, self.demand; if ..: self._shrink(..) else: self._grow(..) *)

Record loop := mkLoop { lp_sleep_first : bool; lp_period : aexpr; lp_body : body }.

Definition skip_first {W E : Type} (lp : loop) (act : W -> res (W * option (list E))) (first : bool) (w : W)
  : res (W * option (list E)) :=
  if lp_sleep_first lp && first then Ok (w, None) else act w.

(* ---- controllers ---- *)
Definition aval (interval : Q) (a : aexpr) : Q :=
  match a with AInterval => interval | AWindow => 0 (* controllers have no window; never generated for them *) | AConst z => inject_Z z end.

Definition ctrl_body (sem : nat -> pool -> Q -> option Q) (lp : loop) (c : ctrl) (p : pool) : res (pool * option (list effect)) :=
  let itv := match lp_body lp with BRegulate a => aval (ctrl_interval c) a | _ => ctrl_interval c end in
  match regulate sem c p itv with
  | Ok (p', ef) => Ok (p', Some ef)
  | Err x => Err x
  end.

Definition ctrl_act_p sem (lp : loop) (c : ctrl) : bool -> pool -> res (pool * option (list effect)) :=
  skip_first lp (ctrl_body sem lp c).

Definition ctrl_timeline_p sem (lp : loop) (c : ctrl) (t0 : Q) (before : nat -> bool) (T : Q) (p : pool) (env : list (@eact penv)) :=
  timeline penv_apply (ctrl_act_p sem lp c) t0 (aval (ctrl_interval c) (lp_period lp)) before T p env.

(* ---- Buffer ---- *)
Definition buffer_body (lp : loop) (w : bworld) : res (bworld * option (list effect)) :=
  let differs := negb (Qeqb (b_demand w) (p_demand (b_target w))) in
  let go := match lp_body lp with BBufferFlush true => differs | BBufferFlush false => negb differs | _ => false end in
  if go then Ok (mkBworld (b_demand w) (set_demand (b_target w) (b_demand w)), Some [EWrite (b_demand w)])
  else Ok (w, Some []).

Definition buffer_timeline_p (lp : loop) (window t0 : Q) before T (p : pool) (env : list (@eact benv)) :=
  timeline benv_apply (skip_first lp (buffer_body lp)) t0
           (match lp_period lp with AWindow => window | AInterval => 0 | AConst z => inject_Z z end) before T (buffer_init p) env.

(* ---- FactoryPool (grow-only regime of model/Services.v) ---- *)
Definition factory_body (q : Q) (w : fworld) : res (fworld * option (list fef)) :=
  let n := spawn_count q (f_demand w - f_have w) in
  Ok (mkFworld (f_demand w) (f_have w + inject_Z (Z.of_nat n) * q), Some (repeat FSpawn n)).

Definition factory_timeline_p (lp : loop) (q interval t0 : Q) before T (w : fworld) (env : list (@eact fenv)) :=
  timeline fenv_apply (skip_first lp (factory_body q)) t0 (aval interval (lp_period lp)) before T w env.

(* the shapes of the source the models were written from *)
Definition ref_loop_regulate : loop := mkLoop false AInterval (BRegulate AInterval).      (* Linear / RelativeSupply / DemandSwitch *)
Definition ref_loop_stepwise : loop := mkLoop false AInterval BStepwise.
Definition ref_loop_buffer : loop := mkLoop false AWindow (BBufferFlush true).
Definition ref_loop_factory : loop := mkLoop true AInterval BFactoryAdjust.
