(* C17 — translator tie for the JSON half: gen/Gen_monitor.v is regenerated from src/cobald/monitor/format_json.py on every
   run (py2coq/units.py: gen_monitor: the statements of JsonFormatter.format between the normalisation of record.args and
   `return json.dumps(data)` must each be one of four known forms; their ORDER is extracted, and so is the condition that
   __init__ stores as self._add_time).  With the order and the condition of the current source, kit/JsonIR.v's meaning is
   the model's json_data / add_time (model/LineProtocol.v) that the JSON theorems of props/C17.v are about. *)
From Coq Require Import ZArith List Bool.
From Cobald Require Import model.LineProtocol kit.JsonIR gen.Gen_monitor.
Import ListNotations.

Theorem C17_tie_json_order : gen_json_steps = ref_json_steps /\ gen_add_time = ref_add_time.
Proof. split; reflexivity. Qed.
Print Assumptions C17_tie_json_order.

Theorem C17_tie_json_data : forall V (defaults : list (str * V)) time message data,
  json_data_p gen_json_steps defaults time message data = json_data defaults time message data.
Proof. intros. destruct C17_tie_json_order as [E _]. rewrite E. reflexivity. Qed.
Print Assumptions C17_tie_json_data.

Theorem C17_tie_add_time : forall datefmt, jcond_ev gen_add_time datefmt = add_time datefmt.
Proof.
  intros datefmt. destruct C17_tie_json_order as [_ E]. rewrite E.
  destruct datefmt as [s|]; cbn; [rewrite orb_false_r|]; reflexivity.
Qed.
Print Assumptions C17_tie_add_time.

(* not vacuous: adding the time last lets it override a "time" key of the record's data *)
Example C17_tie_sensitive :
  lookup k_time (json_data [] (Some 1%nat) 2%nat [(k_time, 3%nat)]) = Some 3%nat
  /\ lookup k_time (json_data_p [JCopyDefaults; JSetMessage; JUpdateArgs; JSetTime] [] (Some 1%nat) 2%nat [(k_time, 3%nat)]) = Some 1%nat.
Proof. split; vm_compute; reflexivity. Qed.
