(* C01 — Background failures always stop the daemon (fail-stop, never silent).
   Theorems about the runtime model RT (model/RT.v); `run init tr = Some s` ranges over EVERY event
   sequence the runtime contract admits (no bound on length, payloads, runners).  The model is tied
   to the code by trace correspondence (harness/rt.py, corr/RTCorr.v). *)
From Coq Require Import List Arith Bool.
From Cobald Require Import model.RT proofs.RTBase proofs.RTProofs.
Import ListNotations.

(* once a background payload of an Up runner has failed, the blocking run call of that runner
   can only end by raising (never the exclusivity error, never a normal return) unless a SIGINT occurs *)
Theorem C01_no_silent_return :
  forall tr1 tr2 s1 p o s r a,
    run init tr1 = Some s1 ->
    failing o = true -> background s1 p -> r = p_owner (pay s1 p) -> r_phase (run_ s1 r) = Up ->
    run s1 (Finish p o :: tr2) = Some s ->
    r_phase (run_ s r) = Ended a ->
    a <> AExclusive /\ (a = AReturned -> In Sigint (tr1 ++ Finish p o :: tr2)).
Proof. exact C01_no_silent_return. Qed.
Print Assumptions C01_no_silent_return.

Theorem C01_failure_closes :
  forall s p o s',
    step s (Finish p o) = Some s' -> failing o = true -> background s p ->
    r_phase (run_ s (p_owner (pay s p))) = Up ->
    r_phase (run_ s' (p_owner (pay s p))) = Closing CFail /\ r_failed_up (run_ s' (p_owner (pay s p))) = true.
Proof. exact C01_failure_closes. Qed.
Print Assumptions C01_failure_closes.

(* RuntimeError("background task failed"): every cause leaf is the very exception / orphaned return
   of a background payload of this runner that finished that way *)
Theorem C01_cause_is_original :
  forall tr s r cs,
    run init tr = Some s -> r_phase (run_ s r) = Ended (ARuntime cs) ->
    cs <> [] /\ forall c, In c cs -> cause_ok s r c.
Proof. exact C01_cause_is_original. Qed.
Print Assumptions C01_cause_is_original.

(* only an interrupt (SIGINT / KeyboardInterrupt payload) or an explicit shutdown ends a run silently *)
Theorem C01_only_interrupt_is_silent :
  forall tr s r,
    run init tr = Some s -> r_phase (run_ s r) = Ended AReturned ->
    exists e, In e tr /\ stop_trigger r e.
Proof. exact C01_only_interrupt_is_silent. Qed.
Print Assumptions C01_only_interrupt_is_silent.

(* progress in the form a model can carry: with a failure recorded and nothing owed by the runtime
   any more, the run HAS ended by raising *)
Theorem C01_failure_forces_end :
  forall tr s r,
    run init tr = Some s -> quiescent s = true -> r_failed_up (run_ s r) = true ->
    exists a, r_phase (run_ s r) = Ended a /\ a <> AExclusive /\ (a = AReturned -> In Sigint tr).
Proof. exact C01_failure_forces_end. Qed.
Print Assumptions C01_failure_forces_end.

(* non-vacuity: two payloads of different flavours, one failing, one bystander cancelled + cleaned up *)
Definition ex_fail : list event :=
  [AdoptCall Outside 0 0 Aio; AdoptEnd 0 true; AdoptCall Outside 0 2 Trio; AdoptEnd 2 true;
   AcceptCall 0; Start 0 Aio 1 1 0 true; Start 2 Trio 2 2 0 true; RunningSet 0; Step 0 1; Quiesce;
   Finish 2 (ORaiseExc 0); Cancelled 0; CleanStep 0; CleanupDone 0; AcceptEnd 0 (ARuntime [CExc 2]); Quiesce].

Example C01_example_accepted :
  match run init ex_fail with
  | Some s => r_phase (run_ s 0) = Ended (ARuntime [CExc 2]) /\ r_failed_up (run_ s 0) = true /\ quiescent s = true
  | None => False
  end.
Proof. vm_compute. repeat split; reflexivity. Qed.

Example C01_example_silent_return_rejected :
  run init (firstn 14 ex_fail ++ [AcceptEnd 0 AReturned]) = None.
Proof. vm_compute. reflexivity. Qed.
