(* C16 -- Decorators are transparent except for what they are meant to change.
   Property theorems only; every one is closed by `exact` of a lemma in proofs/DecoratorsProofs.v and
   followed by Print Assumptions.  Model: model/Decorators.v (exact rationals; stacks of any depth and
   order of PoolDecorator / Logger / Standardiser / Buffer; CPython's `%` parser for a mapping operand). *)
From Coq Require Import ZArith QArith List Bool NArith String.
From Cobald Require Import kit.QKit model.Decorators proofs.DecoratorsProofs.
Import ListNotations.
Close Scope Q_scope.
Close Scope string_scope.

(* supply, utilisation, allocation read through ANY stack (any depth, any order, any stored state) are
   the pool's *)
Theorem C16_reads_transparent : forall (st : stack) (p : pool) (a : attr), read_through st p a = attr_of a p.
Proof. exact reads_transparent. Qed.
Print Assumptions C16_reads_transparent.

(* a demand write through any stack leaves the pool's supply / utilisation / allocation alone and never
   changes the stack's composition (kinds, logger configuration, standardiser parameters) *)
Theorem C16_write_changes_nothing_else : forall st p v,
  let '(e, st', p') := write st p v in same_attrs p p' /\ shape st' = shape st.
Proof. exact write_preserves. Qed.
Print Assumptions C16_write_changes_nothing_else.

(* after ANY history of reads, writes and changes of the underlying pool: what the stack reports is the
   pool's current value, and only PoolState operations ever change it *)
Theorem C16_reads_transparent_after_any_history : forall ops st p,
  let '(obs, st', p') := run st p ops in
  shape st' = shape st
  /\ ((forall o, In o ops -> forall s u a, o <> PoolState s u a) -> same_attrs p p')
  /\ forall a, read_through st' p' a = attr_of a p'.
Proof. exact run_attrs. Qed.
Print Assumptions C16_reads_transparent_after_any_history.

(* through plain decorators and Loggers (any number, any order): the demand read is the pool's, the
   stack is unchanged by reading and writing, the pool receives exactly v (one PoolWrite, last), and
   every Logger emitted one record carrying v and the pool's values from before the write *)
Theorem C16_plain_and_logger_pass_demand : forall st p v, pl_only st = true ->
  read_demand st p = (p_demand p, st)
  /\ write st p v = (pl_records st p v ++ [PoolWrite v], st, set_demand p v).
Proof. exact plain_and_logger_pass_demand. Qed.
Print Assumptions C16_plain_and_logger_pass_demand.

(* a Logger over ANY target stack: its record is the first effect of the write -- on its logger name and
   level, with its template, the new value, and demand / supply / utilisation / allocation as read from
   the target before the write; then the write goes on through the target *)
Theorem C16_one_record_per_write : forall n l m r p v,
  write (LoggerD n l m :: r) p v =
    let target_after_read := snd (read_demand r p) in
    let '(e, r', p') := write target_after_read p v in
    (Log n l m (mkFields v (fst (read_demand r p)) (p_supply p) (p_util p) (p_alloc p) (p_alloc p) (List.length r)) :: e,
     LoggerD n l m :: r', p').
Proof. exact logger_write. Qed.
Print Assumptions C16_one_record_per_write.

(* the effects of one write through any stack: exactly one record per Logger above the first Buffer, in
   order from the outside in, all before the pool is written; the pool is written unless a Buffer holds
   the value *)
Theorem C16_write_effects : forall st p v, write_shape (shape st) (fst (fst (write st p v))).
Proof. exact write_records. Qed.
Print Assumptions C16_write_effects.

(* over any history: number of records = number of writes x number of Loggers a write reaches *)
Theorem C16_records_through_stacks : forall ops st p,
  total_logs (fst (fst (run st p ops))) = List.length (filter is_write ops) * List.length (reached (shape st)).
Proof. exact records_through_stacks. Qed.
Print Assumptions C16_records_through_stacks.

(* a template in which the % operator reaches a lookup of an unknown field is rejected, and only such *)
Theorem C16_unknown_field_rejected : forall msg k,
  reaches_key (pct_scan test_fields msg) k -> known_field k = false -> logger_init msg = Rejected.
Proof. exact unknown_field_rejected. Qed.
Print Assumptions C16_unknown_field_rejected.

Theorem C16_rejected_only_for_unknown_field : forall msg, logger_init msg = Rejected ->
  exists k, reaches_key (pct_scan test_fields msg) k /\ known_field k = false.
Proof. exact rejected_only_for_unknown_field. Qed.
Print Assumptions C16_rejected_only_for_unknown_field.

Theorem C16_logger_not_constructed : forall name level msg inner p k,
  reaches_key (pct_scan test_fields msg) k -> known_field k = false ->
  fst (construct (SLogger name level msg) inner p) = inl CRuntime.
Proof. exact construct_rejects. Qed.
Print Assumptions C16_logger_not_constructed.

(* non-vacuity *)
Example C16_hypotheses_satisfiable :
  let st := [LoggerD 100 20 (s2n "%(value)s"%string); Plain; LoggerD 0 30 (s2n "%(demand).2f %(consumption)s"%string)] in
  let p := mkPool 3%Q 5%Q (1#2)%Q (3#4)%Q in
  pl_only st = true
  /\ reached (shape (LoggerD 7 10 [] :: StandardiserD (mkSP None None 1%Q None None) 0%Q :: BufferD 0%Q :: st)) = [(7%N, 10%N, [])]
  /\ reaches_key (pct_scan test_fields (s2n "%(value)s [%(supplY)s]"%string)) (s2n "supplY"%string)
  /\ known_field (s2n "supplY"%string) = false
  /\ logger_init (s2n "%(value)s %(nope"%string) = RaisesValue
  /\ logger_init (s2n "%(target)d"%string) = RaisesType
  /\ logger_init (s2n "%(consumption)s%%"%string) = Accepted
  /\ warnings_of (s2n "%(consumption)s%%"%string) = 1%nat.
Proof. cbv zeta. repeat split; vm_compute; auto. Qed.
