(* C16 -- Decorators are transparent except for what they are meant to change.
   Property theorems only; every one is closed by `exact` of a lemma in proofs/DecoratorsProofs.v and
   followed by Print Assumptions.  Model: model/Decorators.v -- stacks of any depth and order of
   PoolDecorator (Plain), Logger, and OPAQUE levels (Standardiser, Buffer, anything that only re-defines
   `demand`): what an opaque level does with demand is an arbitrary script, so every theorem below holds
   whatever Standardiser and Buffer do to demand; exact rationals; CPython's `%` parser for a mapping. *)
From Coq Require Import ZArith QArith List Bool NArith String.
From Cobald Require Import kit.QKit model.Decorators proofs.DecoratorsProofs.
Import ListNotations.
Close Scope Q_scope.
Close Scope string_scope.

(* supply, utilisation, allocation read through ANY stack (any depth, any order, any scripts) are the pool's *)
Theorem C16_reads_transparent : forall (st : stack) (p : pool) (a : attr), read_through st p a = attr_of a p.
Proof. exact reads_transparent. Qed.
Print Assumptions C16_reads_transparent.

(* a demand write through any stack leaves the pool's supply / utilisation / allocation alone and never
   changes the stack's composition (kinds, logger names / levels / templates) *)
Theorem C16_write_changes_nothing_else : forall st p v e st' p', write st p v = Some (e, st', p') ->
  same_attrs p p' /\ shape st' = shape st.
Proof. exact write_preserves. Qed.
Print Assumptions C16_write_changes_nothing_else.

(* after ANY history of reads, writes and changes of the underlying pool: what the stack reports is the
   pool's current value, and only PoolState operations ever change it *)
Theorem C16_reads_transparent_after_any_history : forall ops st p,
  let '(obs, st', p') := run st p ops in
  shape st' = shape st
  /\ ((forall o, In o ops -> forall s u a, o <> PoolState s u a) -> same_attrs p p')
  /\ forall a, read_through st' p' a = attr_of a p'.
Proof. exact run_attrs. Qed.
Print Assumptions C16_reads_transparent_after_any_history.

(* through plain decorators and Loggers (any number, any order): the demand read is the pool's, reading
   and writing leave the stack as it is, the pool receives exactly v as the last effect, and every Logger
   emits, when the write arrives, one record carrying v and the pool's values from before the write *)
Theorem C16_plain_and_logger_pass_demand : forall st p v, pl_only st = true ->
  read_demand st p = Some (p_demand p, st)
  /\ write st p v = Some (pl_effects st p v, st, set_demand p v).
Proof. exact plain_and_logger_pass_demand. Qed.
Print Assumptions C16_plain_and_logger_pass_demand.

(* a Logger over ANY target stack: when a write arrives, its record is emitted first -- on its logger name
   and level, with its template, the new value, and demand / supply / utilisation / allocation as read
   from the target before the write -- and then the same value is written to the target *)
Theorem C16_one_record_per_write : forall n l m r p v,
  write (LoggerD n l m :: r) p v =
    match read_demand r p with
    | Some (dm, target_after_read) =>
        match write target_after_read p v with
        | Some (e, r', p') =>
            Some (Arrive (List.length r) v
                  :: Log n l m (mkFields v dm (p_supply p) (p_util p) (p_alloc p) (p_alloc p) (List.length r))
                  :: e, LoggerD n l m :: r', p')
        | None => None
        end
    | None => None
    end.
Proof. exact logger_write. Qed.
Print Assumptions C16_one_record_per_write.

(* one write through any stack, whatever the opaque levels do (block, transform, repeat): for the level
   with j levels under it, records with that target = writes arriving there if it is a Logger, else 0 *)
Theorem C16_records_match_arrivals : forall st p v e st' p', write st p v = Some (e, st', p') ->
  forall j, count (is_log_at j) e = if logger_at (shape st) j then count (is_arrive j) e else 0.
Proof. exact records_match_arrivals. Qed.
Print Assumptions C16_records_match_arrivals.

(* the same over any history of operations *)
Theorem C16_records_through_stacks : forall ops st p j,
  run_count (is_log_at j) (fst (fst (run st p ops)))
  = if logger_at (shape st) j then run_count (is_arrive j) (fst (fst (run st p ops))) else 0.
Proof. exact records_through_stacks. Qed.
Print Assumptions C16_records_through_stacks.

(* a template in which the % operator reaches a lookup of an unknown field is rejected, and only such *)
Theorem C16_unknown_field_rejected : forall msg k,
  reaches_key (pct_scan test_fields msg) k -> known_field k = false -> logger_init msg = Rejected.
Proof. exact unknown_field_rejected. Qed.
Print Assumptions C16_unknown_field_rejected.

Theorem C16_rejected_only_for_unknown_field : forall msg, logger_init msg = Rejected ->
  exists k, reaches_key (pct_scan test_fields msg) k /\ known_field k = false.
Proof. exact rejected_only_for_unknown_field. Qed.
Print Assumptions C16_rejected_only_for_unknown_field.

Theorem C16_logger_not_constructed : forall name level msg inner p k,
  reaches_key (pct_scan test_fields msg) k -> known_field k = false ->
  fst (construct (SLogger name level msg) inner p) = BErr CRuntime.
Proof. exact construct_rejects. Qed.
Print Assumptions C16_logger_not_constructed.

(* non-vacuity: a Logger over a Standardiser-like level (clamps 9 to 5, reads its target once on get)
   over a Logger over the pool; the hypotheses of the template theorems; outcome classes *)
Example C16_hypotheses_satisfiable :
  let p := mkPool 3%Q 5%Q (1#2)%Q (3#4)%Q in
  let st := [LoggerD 100 20 (s2n "%(value)s"%string);
             OpaqueD 3 [EGet 1 3%Q; ESet 9%Q [ASet 5%Q]];
             LoggerD 0 30 (s2n "%(demand).2f %(consumption)s"%string)] in
  pl_only [Plain; LoggerD 0 30 []; Plain] = true
  /\ (exists e st' p', write st p 9%Q = Some (e, st', p')
        /\ p_demand p' = 5%Q /\ count (is_log_at 2) e = 1%nat /\ count (is_log_at 0) e = 1%nat
        /\ count (is_arrive 1) e = 1%nat /\ count (is_log_at 1) e = 0%nat)
  /\ reaches_key (pct_scan test_fields (s2n "%(value)s [%(supplY)s]"%string)) (s2n "supplY"%string)
  /\ known_field (s2n "supplY"%string) = false
  /\ logger_init (s2n "%(value)s %(nope"%string) = RaisesValue
  /\ logger_init (s2n "%(target)d"%string) = RaisesType
  /\ logger_init (s2n "%(consumption)s%%"%string) = Accepted
  /\ warnings_of (s2n "%(consumption)s%%"%string) = 1%nat.
Proof.
  cbv zeta. split; [reflexivity|]. split.
  - eexists _, _, _. split; [vm_compute; reflexivity|]. repeat split.
  - repeat split; vm_compute; auto.
Qed.
