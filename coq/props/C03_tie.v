(* C03 / C01 — translator tie for the payload registry of MetaRunner.  gen/Gen_registry.v is the python AST of
   register_payload, _manage_runners, _launch_runners, _unqueue_payloads and _aclose_runners, regenerated from
   src/cobald/daemon/runners/meta_runner.py on every run; kit/RegistryIR.v gives it a meaning in terms of the
   registry model (model/Registry.v), whose theorems (proofs/RegistryProofs.v) hold for ALL interleavings of
   registering threads, the main thread and the environment, over any number of runs of one runtime object. *)
From Coq Require Import List Bool.
Import ListNotations.
From Cobald Require Import model.Registry kit.RegistryIR proofs.RegistryProofs gen.Gen_registry.

(* the lock region of the current register_payload takes exactly the model's decision, in every registry state *)
Theorem C03_register_decision_tie :
  forall r, decision_of_ir ir_register r = Some (decide r).
Proof. intros [t q ru g l]. destruct t as [g0|], ru; vm_compute; reflexivity. Qed.
Print Assumptions C03_register_decision_tie.

(* the four life-cycle methods of the current source flatten, for each way a run can end, to the step sequence
   the model walks through, with the runner table dropped at the very end of every run and NOT by the
   failure path *)
Theorem C03_lifecycle_tie : lifecycle_of registry_irs = Some lc_fixed.
Proof. vm_compute. reflexivity. Qed.
Print Assumptions C03_lifecycle_tie.

(* hence, for the life cycle of the current source (whatever `lifecycle_of` reads off it): *)

(* a payload registered between two runs, or while the next run's runners are not yet published, is queued *)
Theorem C03_registered_between_runs_is_queued :
  forall lc ls s, lifecycle_of registry_irs = Some lc -> grun lc sys0 ls = Some s ->
    (s_pc s = Idle \/ s_pc s = Launched) -> decide (s_reg s) = DQueue.
Proof.
  intros lc ls s E. rewrite C03_lifecycle_tie in E. injection E as <-.
  apply R_idle_queues. reflexivity.
Qed.
Print Assumptions C03_registered_between_runs_is_queued.

(* the flush of a run hands every queued payload to the runners of that very run *)
Theorem C03_flush_hands_to_current_run :
  forall lc ls s, lifecycle_of registry_irs = Some lc -> grun lc sys0 ls = Some s ->
    s_pc s = Flushing -> decide (s_reg s) = DHand (gen (s_reg s)).
Proof. intros lc ls s _. apply R_flush_hands. Qed.
Print Assumptions C03_flush_hands_to_current_run.

(* registering never raises "unknown runner", at any moment of any number of runs *)
Theorem C03_register_never_raises :
  forall lc ls s, lifecycle_of registry_irs = Some lc -> grun lc sys0 ls = Some s -> s_raised s = [].
Proof.
  intros lc ls s E. rewrite C03_lifecycle_tie in E. injection E as <-.
  apply R_never_raises; reflexivity.
Qed.
Print Assumptions C03_register_never_raises.

(* a payload is never handed to runners that were already dead when the decision was taken, unless the
   runtime is shutting down (a run is in progress or on its way out) *)
Theorem C03_no_handoff_to_dead_runners_between_runs :
  forall lc ls s p g pc, lifecycle_of registry_irs = Some lc -> grun lc sys0 ls = Some s ->
    In (p, g, pc) (s_stale s) -> pc <> Idle /\ pc <> Launched.
Proof.
  intros lc ls s p g pc E H. rewrite C03_lifecycle_tie in E. injection E as <-.
  exact (R_no_stale_between_runs lc_fixed ls s eq_refl H p g pc).
Qed.
Print Assumptions C03_no_handoff_to_dead_runners_between_runs.

(* nothing is lost and nothing is duplicated: at every moment every registration of a payload is accounted for
   exactly once - queued, being flushed, decided for hand-over, handed over, or (never, see above) raised *)
Theorem C03_registrations_conserved :
  forall lc p ls s, lifecycle_of registry_irs = Some lc -> grun lc sys0 ls = Some s -> tracked p s = nreg p ls.
Proof. intros lc p ls s _. apply R_conservation. Qed.
Print Assumptions C03_registrations_conserved.

(* the same statements are FALSE of the earlier life cycles (kept as the record of two repaired defects):
   the pinned snapshot handed payloads to dead runners after a graceful stop (fixed: 23740f1) ... *)
Theorem C03_snapshot_handoff_to_dead_runners_refuted :
  exists ls s p g, grun lc_snapshot sys0 ls = Some s /\ In (p, g, Idle) (s_stale s) /\ s_pc s = Idle /\ queue (s_reg s) = [].
Proof. exact R_no_stale_between_runs_refuted_snapshot. Qed.
Print Assumptions C03_snapshot_handoff_to_dead_runners_refuted.

(* ... and while a failed run was on its way out, registering raised (fixed: 37b254a) *)
Theorem C03_interim_register_raises_refuted :
  exists ls s, grun lc_interim sys0 ls = Some s /\ s_raised s <> [].
Proof. exact R_never_raises_refuted_interim. Qed.
Print Assumptions C03_interim_register_raises_refuted.

(* non-vacuity: two runs of one object, a payload registered in between reaches the second run's runners *)
Example registry_example :
  match grun lc_fixed sys0 [LMain false; LMain false; LMain false; LMain false; LMain false; LStop;
                            LMain false; LMain false; LMain false; LMain false; LRegister 7;
                            LMain false; LMain false; LMain false; LMain false; LMain false; LHand 7 2] with
  | Some s => s_handed s = [(7, 2, true)] /\ s_stale s = [] /\ s_raised s = []
  | None => False
  end.
Proof. vm_compute. repeat split. Qed.
