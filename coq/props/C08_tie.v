(* C08 — translator tie for the two regulate kernels (see props/C06_tie.v for the idea). *)
From Coq Require Import ZArith QArith Bool.
From Cobald Require Import kit.QKit model.Controllers gen.Gen_controllers proofs.ControllersTie.
Open Scope Q_scope.

Theorem C08_tie_linear : forall c p itv,
  gen_linear_regulate c p itv = fst (apply_write p (linear_write c p itv)).
Proof. exact gen_linear_ok. Qed.
Print Assumptions C08_tie_linear.

Theorem C08_tie_relative : forall c p itv,
  pool_eq (gen_relative_regulate c p itv) (fst (apply_write p (relative_write c p))).
Proof. exact gen_relative_ok. Qed.
Print Assumptions C08_tie_relative.

(* The selection kernels of Stepwise and DemandSwitch: the loops of RangeSelector.get_rule and DemandSwitch.regulate are
   matched exactly by the translator and their conditions transcribed as comparison chains (kit/SelectIR.v, over rationals
   extended by +infinity); with the chains of the current source, the loops' meaning is the model's get_rule / choose -
   for every lookup table, slave table, supply and demand. *)
From Coq Require Import List.
From Cobald Require Import kit.SelectIR.
Import ListNotations.

Theorem C08_tie_selection_conditions :
  gen_get_rule_chain = ref_get_rule_chain /\ gen_choose_chain = ref_choose_chain.
Proof. split; reflexivity. Qed.
Print Assumptions C08_tie_selection_conditions.

Theorem C08_tie_get_rule : forall lk s, get_rule_p gen_get_rule_chain lk s = get_rule lk s.
Proof. intros. replace gen_get_rule_chain with ref_get_rule_chain by (symmetry; apply C08_tie_selection_conditions). apply get_rule_p_ref. Qed.
Print Assumptions C08_tie_get_rule.

Theorem C08_tie_choose : forall slaves default d, choose_p gen_choose_chain default slaves d = choose default slaves d.
Proof. intros. replace gen_choose_chain with ref_choose_chain by (symmetry; apply C08_tie_selection_conditions). apply choose_p_ref. Qed.
Print Assumptions C08_tie_choose.

(* not vacuous: with `<` the slave whose threshold equals the demand is not chosen *)
Example C08_tie_selection_sensitive :
  choose 0%nat [(10, 1%nat)] 10 = 1%nat /\ choose_p (SBound1, [(RLt, SInput)]) 0%nat [(10, 1%nat)] 10 = 0%nat.
Proof. split; vm_compute; reflexivity. Qed.
