(* C08 — translator tie for the two regulate kernels (see props/C06_tie.v for the idea). *)
From Coq Require Import ZArith QArith Bool.
From Cobald Require Import kit.QKit model.Controllers gen.Gen_controllers proofs.ControllersTie.
Open Scope Q_scope.

Theorem C08_tie_linear : forall c p itv,
  gen_linear_regulate c p itv = fst (apply_write p (linear_write c p itv)).
Proof. exact gen_linear_ok. Qed.
Print Assumptions C08_tie_linear.

Theorem C08_tie_relative : forall c p itv,
  pool_eq (gen_relative_regulate c p itv) (fst (apply_write p (relative_write c p))).
Proof. exact gen_relative_ok. Qed.
Print Assumptions C08_tie_relative.
