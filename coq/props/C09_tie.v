(* C09 — translator tie: gen/Gen_services.v is regenerated from the six run() methods on every run (py2coq/units.py:
   gen_services: `prelude; while True:` with exactly one await, a trio.sleep that is the first or the last statement of the
   body; what it sleeps for; what the rest of the body is).  kit/LoopIR.v turns such a shape into a timeline - a loop that
   sleeps first does nothing at its first wake, the period is what it sleeps for, a controller is regulated with the argument
   written in the source - and with the shapes of the current source these are the timelines of model/Services.v that the
   theorems of props/C09.v are about, for every start time, horizon, environment and resolution of simultaneous events. *)
From Coq Require Import ZArith QArith List Bool.
From Cobald Require Import kit.QKit model.Controllers model.Services kit.LoopIR proofs.ServicesTie gen.Gen_services.
Import ListNotations.
Open Scope Q_scope.

Theorem C09_tie_shapes :
  gen_loop_linear = ref_loop_regulate /\ gen_loop_relative = ref_loop_regulate /\ gen_loop_switch = ref_loop_regulate
  /\ gen_loop_stepwise = ref_loop_stepwise /\ gen_loop_buffer = ref_loop_buffer /\ gen_loop_factory = ref_loop_factory.
Proof. repeat split; reflexivity. Qed.
Print Assumptions C09_tie_shapes.

Definition gen_loop_of (c : ctrl) : loop :=
  match c with
  | CLinear _ => gen_loop_linear | CRelative _ => gen_loop_relative
  | CStepwise _ => gen_loop_stepwise | CSwitch _ => gen_loop_switch
  end.

Theorem C09_tie_controllers : forall sem c t0 before T p env,
  ctrl_timeline_p sem (gen_loop_of c) c t0 before T p env = ctrl_timeline sem c t0 before T p env.
Proof.
  intros sem c t0 before T p env. destruct C09_tie_shapes as [E1 [E2 [E3 [E4 _]]]].
  destruct c; cbn [gen_loop_of]; rewrite ?E1, ?E2, ?E3, ?E4;
    [apply ctrl_timeline_regulate_ref | apply ctrl_timeline_regulate_ref
    | apply ctrl_timeline_stepwise_ref | apply ctrl_timeline_regulate_ref].
Qed.
Print Assumptions C09_tie_controllers.

Theorem C09_tie_buffer : forall window t0 before T p env,
  buffer_timeline_p gen_loop_buffer window t0 before T p env = buffer_timeline window t0 before T p env.
Proof. intros. destruct C09_tie_shapes as [_ [_ [_ [_ [E _]]]]]. rewrite E. apply buffer_timeline_ref. Qed.
Print Assumptions C09_tie_buffer.

Theorem C09_tie_factory : forall q interval t0 before T w env,
  factory_timeline_p gen_loop_factory q interval t0 before T w env = factory_timeline q interval t0 before T w env.
Proof. intros. destruct C09_tie_shapes as [_ [_ [_ [_ [_ E]]]]]. rewrite E. apply factory_timeline_ref. Qed.
Print Assumptions C09_tie_factory.

(* not vacuous: a FactoryPool loop that sleeps LAST adjusts at once; one that sleeps first (the shipped one) waits an interval *)
Example C09_tie_sensitive :
  List.length (r_log (factory_timeline 1 10 0 (fun _ => true) 0 (mkFworld 2 0) [])) = 0%nat
  /\ List.length (r_log (factory_timeline_p (mkLoop false AInterval BFactoryAdjust) 1 10 0 (fun _ => true) 0 (mkFworld 2 0) [])) = 1%nat.
Proof. split; vm_compute; reflexivity. Qed.
