(* C14 — Config sections are validated, then digested once each in constraint order.
   Property theorems only; every one is closed by `exact` of a lemma in proofs/SectionsProofs.v /
   proofs/ToposortProofs.v and followed by Print Assumptions.
   Models: model/Toposort.v (the toposort library), model/Sections.v (load_section_plugins,
   SectionPlugin.load, load_configuration).

   Readings (SectionsProofs.v): `acyclic es` = the before/after constraint graph over ALL names
   mentioned by the entry points `es` (installed or not; self constraints do not count, toposort
   drops them) has no cycle; `unique_sections es` = the entry point names are distinct;
   `layer_perms perm` = `perm` is an arbitrary iteration order of python sets (a permutation of
   every duplicate-free list); `must_precede q p` = q's section is in p's `after` or p's section
   is in q's `before`. *)
From Coq Require Import List Arith Bool Permutation Relations.
From Cobald Require Import model.Toposort model.Sections proofs.ToposortProofs proofs.SectionsProofs.
Import ListNotations.

(* load_section_plugins: all installed plugins, each once, every constraint between installed
   plugins respected -- for every iteration order of the layers *)
Theorem C14_order_respects_constraints : forall perm es,
  layer_perms perm -> no_extras es -> unique_sections es -> acyclic es ->
  exists order, load_section_plugins perm es = Ok order
    /\ Permutation order es
    /\ forall p q, In p es -> In q es -> must_precede q p -> before_in q p order.
Proof. exact order_respects_constraints. Qed.
Print Assumptions C14_order_respects_constraints.

(* the same with positions *)
Theorem C14_positions : forall a b (l : list name), NoDup l -> before_in a b l -> pos a l < pos b l.
Proof. exact before_in_pos. Qed.
Print Assumptions C14_positions.

(* constraints naming plugins that are not installed: no failure, same set of plugins loaded as
   without them, and the resulting order is an order for the constraints without them *)
Theorem C14_absent_constraints_ignored : forall perm perm' es,
  layer_perms perm -> layer_perms perm' -> no_extras es -> unique_sections es -> acyclic es ->
  exists order order',
    load_section_plugins perm es = Ok order
    /\ load_section_plugins perm' (strip_absent es) = Ok order'
    /\ Permutation (map pid order) (map pid order')
    /\ Permutation order es
    /\ forall p q, In p (strip_absent es) -> In q (strip_absent es) -> must_precede q p ->
         before_in (section q) (section p) (map section order).
Proof. exact absent_constraints_ignored. Qed.
Print Assumptions C14_absent_constraints_ignored.

(* whatever the graph, a load that succeeds returns exactly the entry points in an order that
   respects the constraints; a cyclic graph never loads; the model's fuel always suffices *)
Theorem C14_load_ok_sound : forall perm es order,
  layer_perms perm -> unique_sections es -> load_section_plugins perm es = Ok order ->
  Permutation order es
  /\ forall p q, In p es -> In q es -> must_precede q p -> before_in q p order.
Proof. exact load_ok_sound. Qed.
Print Assumptions C14_load_ok_sound.

Theorem C14_cyclic_rejected : forall perm es x,
  layer_perms perm -> unique_sections es -> clos_trans name (edge es) x x ->
  forall order, load_section_plugins perm es <> Ok order.
Proof. exact cyclic_rejected. Qed.
Print Assumptions C14_cyclic_rejected.

Theorem C14_fuel_suffices : forall perm es, load_section_plugins perm es <> Err EOutOfFuel.
Proof. exact load_never_out_of_fuel. Qed.
Print Assumptions C14_fuel_suffices.

(* an order accepted by the correspondence checker is an output of the model *)
Theorem C14_admissible_sound : forall es order, admissible_order es order = true ->
  exists perm ps, layer_perms perm /\ load_section_plugins perm es = Ok ps /\ map pid ps = order.
Proof. exact admissible_sound. Qed.
Print Assumptions C14_admissible_sound.

(* load_configuration: a section other than logging that no plugin claims => ConfigurationError
   and no digest has been called *)
Theorem C14_validate_then_digest : forall cfg ps k,
  In k (map fst cfg) -> k <> logging_name -> ~ claimed ps k ->
  is_configuration_error (fst (load_configuration cfg ps))
  /\ digests (snd (load_configuration cfg ps)) = [].
Proof. exact validate_then_digest. Qed.
Print Assumptions C14_validate_then_digest.

(* a required plugin whose section is missing (or is the popped logging section) => ConfigurationError *)
Theorem C14_required_missing : forall cfg ps p,
  In p ps -> required p = true ->
  (~ In (section p) (map fst cfg) \/ section p = logging_name) ->
  is_configuration_error (fst (load_configuration cfg ps)).
Proof. exact required_missing. Qed.
Print Assumptions C14_required_missing.

(* otherwise: exactly the plugins whose section is present are called, once each, with exactly
   that section's content, in plugin order; the non-None results are returned; logging first *)
Theorem C14_once_each_in_order : forall cfg ps,
  (forall k, In k (map fst cfg) -> k <> logging_name -> claimed ps k) ->
  all_required_present (sections_of cfg) ps ->
  fst (load_configuration cfg ps) = Ok (expected_content (sections_of cfg) ps)
  /\ snd (load_configuration cfg ps)
     = logging_events cfg ++ map (fun c => EvDigest (fst c) (snd c)) (expected_calls (sections_of cfg) ps).
Proof. exact once_each_in_order. Qed.
Print Assumptions C14_once_each_in_order.

(* end to end (core/config.py:load): the digest calls are made in constraint order *)
Theorem C14_calls_in_constraint_order : forall perm es cfg,
  layer_perms perm -> no_extras es -> unique_sections es -> acyclic es ->
  (forall k, In k (map fst cfg) -> k <> logging_name -> claimed es k) ->
  all_required_present (sections_of cfg) es ->
  exists order content log,
    load_all perm es cfg = Ok (Ok content, log)
    /\ Permutation order es
    /\ content = expected_content (sections_of cfg) order
    /\ digests log = expected_calls (sections_of cfg) order
    /\ forall p q dp dq, In p es -> In q es -> must_precede q p ->
         cfg_get (sections_of cfg) (section q) = Some dq ->
         cfg_get (sections_of cfg) (section p) = Some dp ->
         before_in (pid q, dq) (pid p, dp) (digests log).
Proof. exact calls_in_constraint_order. Qed.
Print Assumptions C14_calls_in_constraint_order.

(* ---- non-vacuity: concrete states meeting the hypotheses ---- *)
(* four plugins: 3 after 2 after 1 (via before), 2 before absent 9, 4 after absent 9, 1 before absent 8,
   1 with a self constraint; plugin 4 required *)
Definition ex_es : list plugin :=
  [ mkPlugin 0 3 false false [] [2] (Some 7);
    mkPlugin 1 2 false false [9] [] None;
    mkPlugin 2 1 false false [2; 8; 1] [] (Some 0);
    mkPlugin 3 4 false true [] [9] (Some 5) ].
Definition ex_cfg : config := [(4, 40); (0, 99); (1, 10); (3, 30)].

Example C14_ordering_hypotheses_satisfiable :
  layer_perms (fun l => l) /\ no_extras ex_es /\ unique_sections ex_es /\ acyclic ex_es
  /\ (exists p q, In p ex_es /\ In q ex_es /\ must_precede q p)
  /\ (forall k, In k (map fst ex_cfg) -> k <> logging_name -> claimed ex_es k)
  /\ all_required_present (sections_of ex_cfg) ex_es
  /\ (exists p, In p (strip_absent ex_es) /\ before p <> before (nth 1 ex_es p))
  /\ match load_all (fun l => l) ex_es ex_cfg with
     | Ok (Ok content, log) => content = [(2, 0); (0, 7); (3, 5)]
                               /\ log = [EvLogging 99; EvDigest 2 10; EvDigest 0 30; EvDigest 3 40]
     | _ => False
     end.
Proof.
  assert (Hu : unique_sections ex_es) by (apply nodupb_NoDup; reflexivity).
  split; [exact id_layer_perms|]. split.
  { intros p [<-|[<-|[<-|[<-|[]]]]]; reflexivity. }
  split; [exact Hu|]. split.
  { apply (acyclic_of_load (fun l => l) ex_es
             [mkPlugin 2 1 false false [2; 8; 1] [] (Some 0); mkPlugin 1 2 false false [9] [] None;
              mkPlugin 0 3 false false [] [2] (Some 7); mkPlugin 3 4 false true [] [9] (Some 5)]
             id_layer_perms Hu). reflexivity. }
  split.
  { exists (nth 0 ex_es (mkPlugin 0 0 false false [] [] None)), (nth 1 ex_es (mkPlugin 0 0 false false [] [] None)).
    cbn. split; [tauto|]. split; [tauto|]. split; [discriminate|]. left. left. reflexivity. }
  split.
  { intros k [<-|[<-|[<-|[<-|[]]]]] Hk; cbn; try tauto; try (exfalso; apply Hk; reflexivity). }
  split.
  { intros p [<-|[<-|[<-|[<-|[]]]]]; cbn; discriminate. }
  split.
  { exists (mkPlugin 1 2 false false [] [] None). split; [cbn; tauto|cbn; discriminate]. }
  vm_compute. split; reflexivity.
Qed.

(* an unknown section next to valid ones; a required plugin without its section *)
Example C14_error_hypotheses_satisfiable :
  (In 6 (map fst ((6, 60) :: ex_cfg)) /\ 6 <> logging_name /\ ~ claimed ex_es 6
   /\ load_configuration ((6, 60) :: ex_cfg) ex_es = (Err (UnknownSections [6]), [EvLogging 99]))
  /\ (let p := mkPlugin 3 4 false true [] [9] (Some 5) in
      In p ex_es /\ required p = true /\ ~ In (section p) (map fst [(1, 10)])
      /\ exists e, load_configuration [(1, 10)]
                     [mkPlugin 2 1 false false [2; 8; 1] [] (Some 0); p] = (Err e, [EvDigest 2 10])).
Proof.
  split.
  - split; [left; reflexivity|]. split; [discriminate|]. split; [|reflexivity].
    cbn. intros [H|[H|[H|[H|[]]]]]; discriminate.
  - cbn zeta. split; [cbn; tauto|]. split; [reflexivity|]. split.
    + cbn. intros [H|[]]. discriminate.
    + eexists. reflexivity.
Qed.
