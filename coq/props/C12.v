(* C12 — Runtime lifecycle: exclusive accept, shutdown always completes, restart possible. *)
From Coq Require Import List Arith Bool Lia.
From Cobald Require Import model.RT proofs.RTBase proofs.RTProofs.
Import ListNotations.

(* at most one runner is accepting at any time, and it is exactly the holder of the guard *)
Theorem C12_exclusive :
  forall tr s, run init tr = Some s ->
    (forall a b, live s a -> live s b -> a = b) /\ (forall r, guard s = Some r <-> live s r).
Proof. exact C12_exclusive. Qed.
Print Assumptions C12_exclusive.

(* a concurrent accept is refused with the exclusivity error and disturbs nothing *)
Theorem C12_second_accept_undisturbed :
  forall s r1 r2 s',
    guard s = Some r1 -> step s (AcceptCall r2) = Some s' ->
    r_phase (run_ s' r2) = Rejected /\ guard s' = Some r1 /\ pay s' = pay s
    /\ (forall r, r <> r2 -> run_ s' r = run_ s r)
    /\ forall o s'', step s' (AcceptEnd r2 o) = Some s'' -> o = AExclusive.
Proof. exact C12_second_accept_undisturbed. Qed.
Print Assumptions C12_second_accept_undisturbed.

(* the guard is released on EVERY way accept can end; a fresh runner can then accept *)
Theorem C12_restart :
  forall tr s r o s' r',
    run init tr = Some s -> live s r -> step s (AcceptEnd r o) = Some s' ->
    guard s' = None /\
    (r_phase (run_ s' r') = Idle -> exists s'', step s' (AcceptCall r') = Some s'' /\ r_phase (run_ s'' r') = Up).
Proof. exact C12_restart. Qed.
Print Assumptions C12_restart.

(* shutdown completes: with a shutdown requested and nothing owed, accept has ended and every
   shutdown call has returned ("within bounded time" = the harness's quiescence bound, observed) *)
Theorem C12_shutdown_completes :
  forall tr s r,
    run init tr = Some s -> quiescent s = true -> 0 < r_shut_req (run_ s r) ->
    r_shut_ret (run_ s r) >= r_shut_req (run_ s r) /\ exists o, r_phase (run_ s r) = Ended o.
Proof. exact C12_shutdown_completes. Qed.
Print Assumptions C12_shutdown_completes.

(* ... and it ended gracefully unless a payload failed: from C01's record invariant *)
Theorem C12_graceful_unless_failed :
  forall tr s r cs, run init tr = Some s -> r_phase (run_ s r) = Ended (ARuntime cs) ->
    cs <> [] /\ forall c, In c cs -> cause_ok s r c.
Proof. exact C01_cause_is_original. Qed.
Print Assumptions C12_graceful_unless_failed.

Definition ex_life : list event :=
  [AcceptCall 0; RunningSet 0; AcceptCall 7; AcceptEnd 7 AExclusive; ShutdownCall Outside 0; ShutdownEnd 0 true;
   AcceptEnd 0 AReturned; AdoptCall Outside 1 0 Aio; AdoptEnd 0 true; AcceptCall 1; Start 0 Aio 1 1 0 true;
   RunningSet 1; Finish 0 (ORetVal 0); AcceptEnd 1 (ARuntime [COrphan 0]); AcceptCall 2; RunningSet 2; Sigint;
   AcceptEnd 2 AReturned; Quiesce].

Example C12_example_accepted :
  match run init ex_life with Some s => guard s = None /\ quiescent s = true | None => False end.
Proof. vm_compute. split; reflexivity. Qed.

Example C12_example_rejected :
  run init (firstn 3 ex_life ++ [AcceptEnd 7 AReturned]) = None        (* the refused accept cannot "succeed" *)
  /\ run init (firstn 6 ex_life ++ [Quiesce]) = None.                   (* shutdown returned but accept never ended *)
Proof. vm_compute. split; reflexivity. Qed.
