(* C15 — translator tie: gen/Gen_factory.v is regenerated from src/cobald/composite/factory.py on every run (py2coq/units.py:
   gen_factory matches the statement skeleton of run / _shrink / _grow / _reap_children / _release_child exactly and transcribes
   every expression and condition in it).  The skeleton's meaning for arbitrary expressions is kit/FactoryIR.v's `adjust_p`;
   with the expressions of the current source it is the reference model `Factory.adjust` that the theorems of props/C15.v are
   about - for every state, factory, fuel and set iteration order.  The same is done for supply / utilisation / allocation
   and the constructor; the demand property and its setter are matched as "return self._demand" / "self._demand = value". *)
From Coq Require Import ZArith QArith List Bool Arith.
From Cobald Require Import kit.QKit model.Factory kit.FactoryIR proofs.FactoryTie gen.Gen_factory.
Import ListNotations.
Open Scope Q_scope.

Theorem C15_tie_expressions : gen_factory_params = ref_params.
Proof. reflexivity. Qed.
Print Assumptions C15_tie_expressions.

Theorem C15_tie_adjust : forall factory fuel ord st,
  adjust_p gen_factory_params factory fuel ord st = adjust factory fuel ord st.
Proof. intros. rewrite C15_tie_expressions. apply adjust_p_ref. Qed.
Print Assumptions C15_tie_adjust.

(* the readers (supply, utilisation, allocation) and the constructor: the same, for the expressions in THEIR skeleton *)
Theorem C15_tie_reader_expressions : gen_factory_rparams = ref_rparams.
Proof. reflexivity. Qed.
Print Assumptions C15_tie_reader_expressions.

Theorem C15_tie_readers : forall st cs,
  supply_p gen_factory_rparams st = supply st
  /\ utilisation_p gen_factory_rparams st = utilisation st
  /\ allocation_p gen_factory_rparams st = allocation st
  /\ init_p gen_factory_rparams cs = init cs.
Proof.
  intros st cs. rewrite C15_tie_reader_expressions.
  split; [apply supply_p_ref|split; [apply utilisation_p_ref|split; [apply allocation_p_ref|apply init_p_ref]]].
Qed.
Print Assumptions C15_tie_readers.

(* the parametric skeleton is not vacuous: other expressions give other behaviour.  With `<` in place of `<=` in the
   release test of _shrink a child whose demand equals the excess is kept, and the pool stays above its demand. *)
Definition strict_release : fparams :=
  mkParams (p_run_cond ref_params) (p_run_target ref_params) (p_sort_key ref_params) (p_excess_init ref_params)
           (p_break_if ref_params) (FCmp CLt (FChild ADemand) FAcc) (p_excess_step ref_params) (p_missing_init ref_params)
           (p_grow_while ref_params) (p_assert ref_params) (p_missing_step ref_params) (p_reap_if ref_params)
           (p_release_demand ref_params).

Definition two_children : pool :=
  mkPool [mkChild 2 1 1 2; mkChild 2 1 1 2] [0%nat; 1%nat] [] 2 0.

Example C15_tie_sensitive :
  (match adjust (fun _ => no_child) 8 [] two_children with Done st => length (hatchery st) | _ => 99%nat end) = 1%nat
  /\ (match adjust_p strict_release (fun _ => no_child) 8 [] two_children with Done st => length (hatchery st) | _ => 99%nat end) = 2%nat.
Proof. split; vm_compute; reflexivity. Qed.
