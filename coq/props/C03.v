(* C03 — Every adopted payload and every service is started exactly once. *)
From Coq Require Import List Arith Bool.
From Cobald Require Import model.RT proofs.RTBase proofs.RTProofs.
Import ListNotations.

Theorem C03_at_most_once : forall tr s p, run init tr = Some s -> nstarts p tr <= 1.
Proof. exact C03_at_most_once. Qed.
Print Assumptions C03_at_most_once.

Theorem C03_started_where_asked :
  forall s p f tid loop other ok s',
    step s (Start p f tid loop other ok) = Some s' ->
    f = p_flav (pay s p) /\ ok = true /\
    (coroutine f = true -> loop <> 0 /\ other = 0) /\
    (coroutine f = false -> background s p -> loop = 0).
Proof. exact C03_started_where_asked. Qed.
Print Assumptions C03_started_where_asked.

Theorem C03_exactly_once_at_quiescence :
  forall tr s r p,
    run init tr = Some s -> quiescent s = true -> r_phase (run_ s r) = Up ->
    p_st (pay s p) <> PUnknown -> p_origin (pay s p) = OrAdopt -> p_owner (pay s p) = r ->
    nstarts p tr = 1 /\ p_adopting (pay s p) = false.
Proof. exact C03_exactly_once_at_quiescence. Qed.
Print Assumptions C03_exactly_once_at_quiescence.

Theorem C03_services_started :
  forall tr s r sv,
    run init tr = Some s -> quiescent s = true -> guard s = Some r -> r_phase (run_ s r) = Up ->
    r_running (run_ s r) = true -> p_st (pay s sv) <> PUnit.
Proof. exact C03_services_started. Qed.
Print Assumptions C03_services_started.

(* adopt returns None without raising in every phase before the run call has ended *)
Theorem C03_adopt_never_raises :
  forall s p s',
    step s (AdoptEnd p false) = Some s' -> phase_ended (r_phase (run_ s (p_owner (pay s p)))) = true.
Proof. exact C03_adopt_never_raises. Qed.
Print Assumptions C03_adopt_never_raises.

Definition ex_adopt : list event :=
  [AdoptCall Outside 0 0 Aio; AdoptEnd 0 true; NewService Outside 1 Trio; AcceptCall 0;
   Start 0 Aio 1 1 0 true; Start 1 Trio 2 2 0 true; RunningSet 0;
   AdoptCall (InPayload 0) 0 2 Thr; Start 2 Thr 3 0 0 true; AdoptEnd 2 true;
   NewService (InPayload 2) 3 Aio; Start 3 Aio 1 1 0 true; Quiesce].

Example C03_example_accepted :
  match run init ex_adopt with
  | Some s => quiescent s = true /\ r_phase (run_ s 0) = Up /\ nstarts 2 ex_adopt = 1 /\ nstarts 3 ex_adopt = 1
  | None => False
  end.
Proof. vm_compute. repeat split; reflexivity. Qed.

Example C03_example_duplicate_and_lost_rejected :
  run init (ex_adopt ++ [Start 2 Thr 4 0 0 true]) = None            (* a second start *)
  /\ run init (firstn 8 ex_adopt ++ [AdoptEnd 2 true; Quiesce]) = None.   (* adopted, never started, yet "quiet" *)
Proof. vm_compute. split; reflexivity. Qed.
