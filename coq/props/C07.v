(* C07 — Composite pools conserve demand and aggregate their children faithfully.
   Property theorems only; every one is closed by `exact` of a lemma in proofs/CompositeProofs.v
   and followed by Print Assumptions.  Model: model/Composite.v (exact rationals). *)
From Coq Require Import ZArith QArith List.
From Cobald Require Import kit.QKit model.Composite proofs.CompositeProofs.
Import ListNotations.
Open Scope Q_scope.

(* writing D to a composite with >= 1 child: children's demands sum to D, read-back is D;
   for every history of operations before the write *)
Theorem C07_conservation_after_any_history :
  forall (st : comp) (ops : list op) (D : Q),
    cchildren (run st ops) <> [] ->
    let st' := step (run st ops) (SetDemand D) in
    qsum (map c_demand (cchildren st')) == D /\ cdemand st' = D
    /\ length (cchildren st') = length (cchildren (run st ops)).
Proof. exact after_any_history. Qed.
Print Assumptions C07_conservation_after_any_history.

Theorem C07_conservation : forall k cs D, cs <> [] -> qsum (shares k cs D) == D.
Proof. exact conservation. Qed.
Print Assumptions C07_conservation.

Theorem C07_proportional : forall w cs D c, ~ total w cs == 0 ->
  share (Weighted w) cs D c == D * weight w c / total w cs.
Proof. exact proportional. Qed.
Print Assumptions C07_proportional.

Theorem C07_uniform_on_zero_total : forall w cs D c, total w cs == 0 ->
  share (Weighted w) cs D c == D / qlen cs.
Proof. exact uniform_on_zero_total. Qed.
Print Assumptions C07_uniform_on_zero_total.

Theorem C07_uniform_share : forall cs D c, share Uniform cs D c == D / qlen cs.
Proof. exact uniform_share. Qed.
Print Assumptions C07_uniform_share.

Theorem C07_share_bounds : forall k cs D c,
  0 <= D -> In c cs -> (forall w, k = Weighted w -> nonneg_weights w cs) ->
  0 <= share k cs D c /\ share k cs D c <= D.
Proof. exact share_bounds. Qed.
Print Assumptions C07_share_bounds.

Theorem C07_supply_is_sum : forall st, o_supply (observe st) = qsum (map c_supply (cchildren st)).
Proof. exact supply_is_sum. Qed.
Print Assumptions C07_supply_is_sum.

Theorem C07_fitness_convex_weighted : forall w f cs lo hi,
  nonneg_weights w cs -> 0 < total w cs ->
  (forall c, In c cs -> lo <= f c /\ f c <= hi) ->
  lo <= fitness (Weighted w) f cs /\ fitness (Weighted w) f cs <= hi.
Proof. exact fitness_convex_weighted. Qed.
Print Assumptions C07_fitness_convex_weighted.

Theorem C07_fitness_convex_uniform : forall f cs lo hi,
  cs <> [] -> (forall c, In c cs -> lo <= f c /\ f c <= hi) ->
  lo <= fitness Uniform f cs /\ fitness Uniform f cs <= hi.
Proof. exact fitness_convex_uniform. Qed.
Print Assumptions C07_fitness_convex_uniform.

Theorem C07_fallback_no_children : forall k f, fitness k f [] == 1.
Proof. exact fallback_no_children. Qed.
Print Assumptions C07_fallback_no_children.

Theorem C07_fallback_zero_weight : forall w f cs, total w cs == 0 ->
  fitness (Weighted w) f cs == (if Qltb 0 (supply cs) then 0 else 1).
Proof. exact fallback_zero_weight. Qed.
Print Assumptions C07_fallback_zero_weight.

Theorem C07_demand_only_changed_by_write : forall st o,
  (forall D, o <> SetDemand D) -> cdemand (step st o) = cdemand st.
Proof. exact demand_only_changed_by_write. Qed.
Print Assumptions C07_demand_only_changed_by_write.

(* non-vacuity: a concrete composite meeting the hypotheses (3 children, mixed weights) *)
Example C07_hypotheses_satisfiable :
  let cs := [mkChild 2 (1#2) (3#4) 0; mkChild 0 1 1 5; mkChild 6 (1#4) (1#2) 1] in
  cs <> [] /\ nonneg_weights WSupply cs /\ 0 < total WSupply cs
  /\ Qeqb (qsum (shares (Weighted WSupply) cs 12)) 12 = true
  /\ shares (Weighted WSupply) (map (fun c => mkChild 0 (c_util c) (c_alloc c) 0) cs) 9 = [9/3; 9/3; 9/3].
Proof.
  cbv zeta. split; [discriminate|]. split.
  - intros c [<-|[<-|[<-|[]]]]; cbn; discriminate.
  - split; [reflexivity|]. split; reflexivity.
Qed.
