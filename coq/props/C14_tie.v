(* C14 — translator tie: gen/Gen_sections.v is regenerated from src/cobald/daemon/core/config.py on every run
   (py2coq/units.py: gen_sections matches the four statements of load_section_plugins exactly and extracts which constraint
   set seeds a plugin's dependencies, which is inverted, and which way round).  kit/SectionsIR.v gives that skeleton its
   meaning for any such choice; with the choice of the current source it is the model's `dependencies` and
   `load_section_plugins` - the functions the ordering theorems of props/C14.v are about - for every set of plugins and
   every tie-breaking of the topological sort. *)
From Coq Require Import List Arith Bool.
From Cobald Require Import model.Toposort model.Sections kit.SectionsIR proofs.SectionsTie gen.Gen_sections.
Import ListNotations.

Theorem C14_tie_choice : gen_dparams = ref_dparams.
Proof. reflexivity. Qed.
Print Assumptions C14_tie_choice.

Theorem C14_tie_dependencies : forall ps, dependencies_p gen_dparams ps = dependencies ps.
Proof. intros ps. rewrite C14_tie_choice. reflexivity. Qed.
Print Assumptions C14_tie_dependencies.

Theorem C14_tie_load_section_plugins : forall perm es,
  load_section_plugins_p gen_dparams perm es = load_section_plugins perm es.
Proof. intros perm es. rewrite C14_tie_choice. reflexivity. Qed.
Print Assumptions C14_tie_load_section_plugins.

(* not vacuous: with `after` and `before` exchanged a plugin that must come after another is placed before it *)
Definition two_plugins : list plugin :=
  [mkPlugin 0 1 false false [] [2%nat] None; mkPlugin 1 2 false false [] [] None].     (* 1 after 2 *)

Example C14_tie_sensitive :
  (match load_section_plugins (fun l => l) two_plugins with Ok l => map section l | Err _ => [] end) = [2%nat; 1%nat]
  /\ (match load_section_plugins_p (mkDparams SBefore SAfter true) (fun l => l) two_plugins with Ok l => map section l | Err _ => [] end)
     = [1%nat; 2%nat].
Proof. split; vm_compute; reflexivity. Qed.

(* load_configuration (config/mapping.py): the order of its phases - logging, validation, digests - and the two tests inside
   the digest loop (a missing section raises iff the plugin is required; a result is kept iff it is not None) are extracted
   the same way; with those of the current source, the phases' meaning is the model's load_configuration, for every
   configuration and every tuple of plugins. *)
Theorem C14_tie_phases : gen_lparams = ref_lparams.
Proof. reflexivity. Qed.
Print Assumptions C14_tie_phases.

Theorem C14_tie_load_configuration : forall cfg ps, load_configuration_p gen_lparams cfg ps = load_configuration cfg ps.
Proof. intros cfg ps. rewrite C14_tie_phases. apply load_configuration_p_ref. Qed.
Print Assumptions C14_tie_load_configuration.

(* not vacuous: validating AFTER the digests lets a plugin run although an unknown section is present *)
Example C14_tie_phases_sensitive :
  snd (load_configuration [(1%nat, 10%nat); (9%nat, 11%nat)] [mkPlugin 0 1 false false [] [] None]) = []
  /\ snd (load_configuration_p (mkLparams [PLogging; PDigest; PValidate] MRequired SNotNone)
                               [(1%nat, 10%nat); (9%nat, 11%nat)] [mkPlugin 0 1 false false [] [] None]) = [EvDigest 0 10].
Proof. split; vm_compute; reflexivity. Qed.
