(* C06 — translator tie.  gen/Gen_standardiser.v is REGENERATED from src/cobald/decorator/standardiser.py on
   every run by py2coq; these theorems say that the five generated kernels ARE the reference model of
   model/Standardiser.v (about which props/C06.v states the property theorems).  If a source edit changes
   the meaning of a kernel, this file stops compiling and the check escalates its search for a failing
   input; if it preserves the meaning the file (usually) still compiles. *)
From Coq Require Import ZArith QArith Bool.
From Cobald Require Import kit.QKit kit.PyNum kit.PyShallow model.Standardiser gen.Gen_standardiser proofs.StandardiserTie.

Theorem C06_tie_clamp : forall l v h, gen__clamp l v h = Ok (clamp l v h).
Proof. exact gen_clamp_ok. Qed.
Print Assumptions C06_tie_clamp.

Theorem C06_tie_floor : forall n b, gen__floor n b = floor_to n b.
Proof. exact gen_floor_ok. Qed.
Print Assumptions C06_tie_floor.

Theorem C06_tie_clamp_demand : forall st v, gen_clamp_demand st v = clamp_demand (s_par st) (s_tgt st) v.
Proof. exact gen_clamp_demand_ok. Qed.
Print Assumptions C06_tie_clamp_demand.

Theorem C06_tie_setter : forall st v, gen_demand_set st v = set_demand st v.
Proof. exact gen_demand_set_ok. Qed.
Print Assumptions C06_tie_setter.

Theorem C06_tie_getter : forall st, gen_demand_get st = Ok (get_demand st).
Proof. exact gen_demand_get_ok. Qed.
Print Assumptions C06_tie_getter.
