(* C17 - Monitoring output is well-formed and lossless.
   Property theorems only; every one is closed by `exact` of a lemma in proofs/LineProtocolProofs.v
   and followed by Print Assumptions.  Model + reference decoder: model/LineProtocol.v.

   Strings are lists of code points and the theorems hold for ALL lists over N (a superset of the
   unicode code points): commas, equals signs, spaces, single and double quotes, backslashes and
   non-ASCII characters are not special-cased anywhere.  The domain `wf` (model/LineProtocol.v
   `wfb`) excludes only what the line protocol cannot express:
     line breaks; a trailing backslash in the measurement, a key or a tag value; a percent sign
     in the measurement (python would %-format it); record keys that collide with LogRecord
     attribute names without being whitelisted (format drops them); empty measurement / key /
     tag value; a measurement starting with a hash sign (comment line); a record without any
     field; None values and non-finite floats; a resolution that is not positive.
   The Examples at the end show, on the model (which the correspondence run ties to the code),
   that the exclusions are needed and that a backslash followed by a special character inside a
   key does round-trip. *)
From Coq Require Import ZArith NArith QArith Qround List Bool String Sorted.
From Cobald Require Import model.LineProtocol proofs.LineProtocolProofs.
Import ListNotations.
Open Scope N_scope.

(* --- the round trip: the formatter's output is exactly one newline-terminated line, and the
       reference decoder reads back the measurement, the tags, the fields with values and types,
       and the downsampled time in nanoseconds *)
Theorem C17_roundtrip : forall cfg r, wf cfg r ->
  exists body,
    format cfg r = Ok (body ++ [10]) /\ ~ In 10 body
    /\ lp_parse (body ++ [10])
       = Some (r_name r, expected_tags cfg r, expected_fields cfg r, expected_time cfg r).
Proof. exact roundtrip_full. Qed.
Print Assumptions C17_roundtrip.

(* --- the escape / unescape lemmas it rests on, stated on the code's own functions --- *)
Theorem C17_unescape_escape_key : forall s rest, ok_key s = true -> starts_stop sp_key rest ->
  scan sp_key (escape_key s ++ rest) = (s, rest).
Proof. exact unescape_escape_key. Qed.
Print Assumptions C17_unescape_escape_key.

Theorem C17_unescape_escape_measurement : forall s rest, ok_key s = true -> starts_stop sp_name rest ->
  scan sp_name (escape_name s ++ rest) = (s, rest).
Proof. exact unescape_escape_name. Qed.
Print Assumptions C17_unescape_escape_measurement.

Theorem C17_unescape_escape_string : forall s rest, no_newline s = true ->
  exists body, escape_string s = 34 :: body /\ scan_string (body ++ rest) = Some (s, rest).
Proof. exact unescape_escape_string. Qed.
Print Assumptions C17_unescape_escape_string.

Theorem C17_field_value_roundtrip : forall v rest, ok_value v = true -> starts_value_end rest ->
  parse_value (escape_field v ++ rest) = Some (fvalue_of v, rest).
Proof. exact parse_value_ok. Qed.
Print Assumptions C17_field_value_roundtrip.

(* python's three chained str.replace calls are a one-pass character map (no replacement output is
   touched by a later replace) *)
Theorem C17_escape_key_one_pass : forall s, escape_key s = encode sp_key s.
Proof. exact escape_key_encode. Qed.
Print Assumptions C17_escape_key_one_pass.

Theorem C17_escape_string_one_pass : forall s, escape_string s = 34 :: encode sp_str s ++ [34].
Proof. exact escape_string_encode. Qed.
Print Assumptions C17_escape_string_one_pass.

(* integers (field values, the timestamp) are read back with their exact value *)
Theorem C17_int_numeral_value : forall z, is_numeral (print_Z z) = true /\ numeral_int (print_Z z) = Some z.
Proof. exact (fun z => conj (is_numeral_print_Z z) (numeral_int_print_Z z)). Qed.
Print Assumptions C17_int_numeral_value.

(* --- time: rounded DOWN to a multiple of the resolution, in nanoseconds --- *)
Theorem C17_time_floor : forall (created : Q) (res : Z), (0 < res)%Z ->
  let t := (Qfloor (created / inject_Z res) * res)%Z in
  (exists k, t = (k * res)%Z) /\ (inject_Z t <= created)%Q /\ (created < inject_Z (t + res))%Q.
Proof. exact time_floor. Qed.
Print Assumptions C17_time_floor.

Theorem C17_expected_time : forall cfg r,
  expected_time cfg r = match c_res cfg with
                        | Some res => Some (Qfloor (r_created r / inject_Z res) * res * 10 ^ 9)%Z
                        | None => None
                        end.
Proof. exact expected_time_spec. Qed.
Print Assumptions C17_expected_time.

(* --- tags and fields: what the decoded maps contain, key by key --- *)
Theorem C17_tags_lookup : forall cfg r k,
  nodup_keys (r_data r) = true -> nodup_keys (default_tags (c_tags cfg)) = true ->
  lookup k (expected_tags cfg r)
  = if mem k (whitelist (c_tags cfg))
    then match lookup k (r_data r) with
         | Some v => Some (text_of v)
         | None => option_map text_of (lookup k (default_tags (c_tags cfg)))
         end
    else None.
Proof. exact tags_lookup. Qed.
Print Assumptions C17_tags_lookup.

Theorem C17_fields_lookup : forall cfg r k, nodup_keys (r_data r) = true ->
  lookup k (expected_fields cfg r)
  = if blacklisted (c_tags cfg) k then None else option_map fvalue_of (lookup k (r_data r)).
Proof. exact fields_lookup. Qed.
Print Assumptions C17_fields_lookup.

Theorem C17_tags_and_fields_partition : forall cfg r k v,
  nodup_keys (r_data r) = true -> nodup_keys (default_tags (c_tags cfg)) = true ->
  lookup k (r_data r) = Some v ->
  (mem k (whitelist (c_tags cfg)) = true ->
     lookup k (expected_tags cfg r) = Some (text_of v) /\ lookup k (expected_fields cfg r) = None)
  /\ (mem k (whitelist (c_tags cfg)) = false -> mem k RECORD_ATTRIBUTES = false ->
     lookup k (expected_tags cfg r) = None /\ lookup k (expected_fields cfg r) = Some (fvalue_of v))
  /\ (mem k (whitelist (c_tags cfg)) = false -> mem k RECORD_ATTRIBUTES = true ->
     lookup k (expected_tags cfg r) = None /\ lookup k (expected_fields cfg r) = None).
Proof. exact partition. Qed.
Print Assumptions C17_tags_and_fields_partition.

Theorem C17_absent_keys : forall cfg r k,
  nodup_keys (r_data r) = true -> nodup_keys (default_tags (c_tags cfg)) = true ->
  lookup k (r_data r) = None ->
  lookup k (expected_tags cfg r) = option_map text_of (lookup k (default_tags (c_tags cfg)))
  /\ lookup k (expected_fields cfg r) = None.
Proof. exact partition_absent. Qed.
Print Assumptions C17_absent_keys.

Theorem C17_decoded_maps_canonical : forall cfg r,
  nodup_keys (r_data r) = true -> nodup_keys (default_tags (c_tags cfg)) = true ->
  Sorted key_le (expected_tags cfg r) /\ nodup_keys (expected_tags cfg r) = true
  /\ Sorted key_le (expected_fields cfg r) /\ nodup_keys (expected_fields cfg r) = true.
Proof. exact expected_canonical. Qed.
Print Assumptions C17_decoded_maps_canonical.

(* --- JSON: the emitted object is defaults < time (unless disabled) < message < data --- *)
Theorem C17_json_merge : forall {V} (defaults : list (str * V)) time message data k,
  nodup_keys data = true ->
  lookup k (json_data defaults time message data)
  = match lookup k data with
    | Some v => Some v
    | None =>
        if str_eqb k k_message then Some message
        else match (if str_eqb k k_time then time else None) with
             | Some t => Some t
             | None => lookup k defaults
             end
    end.
Proof. exact @json_merge. Qed.
Print Assumptions C17_json_merge.

Theorem C17_json_keys : forall {V} (defaults : list (str * V)) time message data x,
  In x (map fst (json_data defaults time message data)) <->
  In x (map fst data) \/ x = k_message \/ (time <> None /\ x = k_time) \/ In x (map fst defaults).
Proof. exact @json_keys. Qed.
Print Assumptions C17_json_keys.

Theorem C17_json_single_object : forall {V} (defaults : list (str * V)) time message data,
  nodup_keys defaults = true -> nodup_keys (json_data defaults time message data) = true.
Proof. exact @json_nodup. Qed.
Print Assumptions C17_json_single_object.

(* ------------------------------------------------------------------------------------------ *)
(* non-vacuity and the edge cases, decided by computation on concrete records                  *)
(* ------------------------------------------------------------------------------------------ *)
Definition s := of_string.

(* the domain is inhabited by a record using every special character, a backslash followed by a
   special character inside a key and inside the measurement, default tags (string and numeric),
   a record value overriding a default, a non-string record value used as a tag, all value types *)
Definition ex_cfg : config :=
  mkCfg (TagsMap [(s "lat", VInt 49); (s "s p", VStr (s "x y,z=")); (s "b", VFloat (s "0.5"))]) (Some 10%Z).
Definition ex_rec : record :=
  mkRec (s "m e\,a=s'""") [(s "a\,b", VStr (s "v\")); (s "k=", VFloat (s "1.5e-07")); (s "b", VBool true);
                           (s "lat", VStr (s "q=")); (s "i'", VInt (-3)); (s "q""", VStr (s "it's ""x\"""))] (2469 # 2).

Example C17_hypotheses_satisfiable :
  wf ex_cfg ex_rec
  /\ nodup_keys (r_data ex_rec) = true /\ nodup_keys (default_tags (c_tags ex_cfg)) = true
  /\ ok_key (s "a\,b") = true /\ starts_stop sp_key [61] /\ starts_stop sp_name [44] /\ starts_value_end [32]
  /\ List.length (expected_tags ex_cfg ex_rec) = 3%nat /\ List.length (expected_fields ex_cfg ex_rec) = 4%nat
  /\ expected_time ex_cfg ex_rec = Some 1230000000000%Z.
Proof. vm_compute. repeat split; auto. Qed.

(* a key containing a backslash FOLLOWED BY a special character round-trips:  a\,b  is emitted as
   a\\,b  =  a, literal backslash (the next character is a backslash, not special), escaped comma *)
Example C17_backslash_before_special_roundtrips :
  escape_key (s "a\,b") = s "a\\,b"
  /\ scan sp_key (escape_key (s "a\,b") ++ [61]) = (s "a\,b", [61]).
Proof. vm_compute. split; reflexivity. Qed.

(* the exclusions are needed (the protocol cannot express these; the model, tied to the code by the
   correspondence run, shows what is emitted and how a reference decoder reads it) *)
Example C17_trailing_backslash_not_expressible :
  (* tag value  v\  : the backslash swallows the delimiter that follows *)
  let cfg := mkCfg (TagsIter [s "t"]) None in
  let r := mkRec (s "m") [(s "t", VStr (s "v\")); (s "f", VInt 1)] 0 in
  wfb cfg r = false
  /\ format cfg r = Ok (s "m,t=v\ f=1" ++ [10])
  /\ lp_parse (s "m,t=v\ f=1" ++ [10]) = None.
Proof. vm_compute. repeat split; reflexivity. Qed.

Example C17_no_fields_not_a_point :
  (* logger.info("m", {}) : the line has no field section and is not a point *)
  let cfg := mkCfg TagsNone None in
  let r := mkRec (s "m") [] 0 in
  wfb cfg r = false /\ format cfg r = Ok (s "m " ++ [10]) /\ lp_parse (s "m " ++ [10]) = None.
Proof. vm_compute. repeat split; reflexivity. Qed.

Example C17_nonfinite_float_not_expressible :
  (* float("inf") is printed as  inf , which is neither a numeral nor a boolean *)
  let cfg := mkCfg TagsNone None in
  let r := mkRec (s "m") [(s "a", VFloat (s "inf"))] 0 in
  wfb cfg r = false /\ format cfg r = Ok (s "m a=inf" ++ [10]) /\ lp_parse (s "m a=inf" ++ [10]) = None.
Proof. vm_compute. repeat split; reflexivity. Qed.

Example C17_empty_tag_value_and_comment_not_expressible :
  let cfg := mkCfg (TagsIter [s "t"]) None in
  let r := mkRec (s "m") [(s "t", VStr []); (s "f", VInt 1)] 0 in
  wfb cfg r = false /\ format cfg r = Ok (s "m,t= f=1" ++ [10]) /\ lp_parse (s "m,t= f=1" ++ [10]) = None
  /\ wfb (mkCfg TagsNone None) (mkRec (s "#m") [(s "f", VInt 1)] 0) = false
  /\ lp_parse (s "#m f=1" ++ [10]) = None.
Proof. vm_compute. repeat split; reflexivity. Qed.

Example C17_colliding_key_is_dropped :
  (* a record key named like a LogRecord attribute is neither a tag nor a field *)
  let cfg := mkCfg TagsNone None in
  let r := mkRec (s "m") [(s "name", VInt 5); (s "f", VInt 1)] 0 in
  wfb cfg r = false /\ format cfg r = Ok (s "m f=1" ++ [10]).
Proof. vm_compute. split; reflexivity. Qed.

Example C17_error_outcomes_explicit :
  format (mkCfg TagsNone None) (mkRec (s "m") [(s "a", VNone)] 0) = Raised AssertNoneValue
  /\ format (mkCfg TagsNone (Some 0%Z)) (mkRec (s "m") [(s "a", VInt 1)] 0) = Raised ZeroDivision.
Proof. vm_compute. split; reflexivity. Qed.

Example C17_json_merge_example :
  let d := json_data [(s "message", 1%nat); (s "time", 2%nat); (s "z", 3%nat)] (Some 4%nat) 5%nat
                     [(s "z", 6%nat); (s "a", 7%nat)] in
  lookup (s "message") d = Some 5%nat /\ lookup (s "time") d = Some 4%nat
  /\ lookup (s "z") d = Some 6%nat /\ lookup (s "a") d = Some 7%nat /\ List.length d = 4%nat.
Proof. vm_compute. repeat split; reflexivity. Qed.
