(* C17 - placeholder while the proofs are being built *)
From Cobald Require Import model.LineProtocol.
