(* C05 - A YAML pipeline section builds the chain it describes.
   Property theorems only; each is closed by `exact` of a lemma of proofs/PipelineProofs.v and
   followed by Print Assumptions.  Model and specification: model/Pipeline.v.  All theorems hold
   for every pipeline length, every registration table `reg`, every outcome `resolve` of
   load_name, and all classes (`leaf` = pool, `fails` = constructor raises).

   FULL statement (for all argument values expressible in YAML): as C05_builds_the_chain_partial
   with the guard `no_nested_type` (only nested legacy constructors excluded, they are C19) instead
   of `plain`.  It does NOT hold on the current sources: C05_builds_the_chain_refuted (finding
   C05-nested-pipeline-key).  `plain` = `no_nested_type` + no nested key named "pipeline"; it only
   constrains the keyword values of legacy __type__ elements - values of !Tag elements are free. *)
From Coq Require Import ZArith NArith List Bool.
From Cobald Require Import model.Mapping model.Pipeline proofs.PipelineProofs proofs.PipelineExamples.
Import ListNotations.

(* the three !Tag forms: mapping -> keyword arguments, sequence -> positional, bare -> none;
   lazy or eager registration makes no difference *)
Theorem C05_tag_forms :
  forall reg t c eager args kw a k,
  reg t = Some (KTemplate, c, eager) ->
  yload_list (fun x => yload reg x) args = Ok a ->
  yload_items (fun x => yload reg x) kw = Ok k ->
  has_key s_target k = false ->
  yload reg (YT t FMap args kw) = Ok (PTag KTemplate c [] k)
  /\ yload reg (YT t FSeq args kw) = Ok (PTag KTemplate c a [])
  /\ yload reg (YT t FScalar args kw) = Ok (PTag KTemplate c [] []).
Proof. exact tag_forms. Qed.
Print Assumptions C05_tag_forms.

(* n elements of the four forms in any mixture, owners then a pool, no failing constructor:
   the section content is n objects in configuration order, the construction log is exactly
   `expected_log` (see C05_log_entry_of_element), and the python `>>` chain of the same templates
   produces the same head object and the same log *)
Theorem C05_builds_the_chain_partial :
  forall reg resolve leaf fails content items specs,
  yload reg content = Ok (PL items) ->
  map (elem_spec resolve plain) items = map Some specs -> shape leaf specs = true ->
  (forall s, In s specs -> fails (sp_cls s) = false) ->
  let n := length items in
  load_doc reg resolve leaf fails content = (Ok (PL (expected_refs n)), mkSt n (expected_log specs))
  /\ chain_build leaf fails (map tmpl_of specs) st0 = (Ok (PRef (n - 1)), mkSt n (expected_log specs)).
Proof. exact doc_builds_the_chain. Qed.
Print Assumptions C05_builds_the_chain_partial.

(* reading of expected_log / expected_refs: element i (of n) is object n-1-i, constructed once as
   number n-1-i (so: last to first) with exactly its configured arguments; its target is object
   n-2-i, which is element i+1 of the result, by identity; the last element has no target *)
Theorem C05_log_entry_of_element :
  forall specs i s, nth_error specs i = Some s ->
  let n := length specs in
  nth_error (expected_log specs) (n - 1 - i)
  = Some (mkEv (n - 1 - i) (sp_cls s)
               (if Nat.eqb (S i) n then None else Some (PRef (n - 2 - i)))
               (sp_args s) (sp_kw s))
  /\ nth_error (expected_refs n) i = Some (PRef (n - 1 - i))
  /\ (S i < n -> nth_error (expected_refs n) (S i) = Some (PRef (n - 2 - i))).
Proof. exact log_entry_of_element. Qed.
Print Assumptions C05_log_entry_of_element.

(* the constructor of element k = length pre fails (k is the last failing position): loading
   raises - the raw exception for a !Tag element, ConfigurationError located at [k] for a legacy
   element -, no section content is returned, and the only constructors entered are those of the
   elements n-1 down to k: nothing before k is built *)
Theorem C05_failure_is_total_partial :
  forall reg resolve leaf fails content pre x post s specs_post,
  yload reg content = Ok (PL (pre ++ x :: post)) ->
  elem_spec resolve plain x = Some s -> fails (sp_cls s) = true ->
  map (elem_spec resolve plain) post = map Some specs_post -> shape leaf (s :: specs_post) = true ->
  (forall s', In s' specs_post -> fails (sp_cls s') = false) ->
  load_doc reg resolve leaf fails content
  = (Err (elem_err (length pre) x (sp_cls s)),
     mkSt (S (length post)) (chain_events 0 None (rev (s :: specs_post)))).
Proof. exact doc_failure_is_total. Qed.
Print Assumptions C05_failure_is_total_partial.

(* the full statement fails: a nested mapping with a key "pipeline" below a legacy element *)
Theorem C05_builds_the_chain_refuted :
  exists reg resolve leaf fails content items specs,
  yload reg content = Ok (PL items)
  /\ map (elem_spec resolve no_nested_type) items = map Some specs /\ shape leaf specs = true
  /\ (forall s, In s specs -> fails (sp_cls s) = false)
  /\ load_doc reg resolve leaf fails content
     <> (Ok (PL (expected_refs (length items))), mkSt (length items) (expected_log specs))
  /\ plog (snd (load_doc reg resolve leaf fails content))
     = [ mkEv 0 4%N None [] [];
         mkEv 1 1%N (Some (PRef 0)) [] [(k_opts, PL [PS (SInt 0); PS (SInt 2)])] ]
  /\ expected_log specs
     = [ mkEv 0 4%N None [] [];
         mkEv 1 1%N (Some (PRef 0)) [] [(k_opts, PM [(s_pipeline, PL [PS (SInt 1); PS (SInt 2)])])] ].
Proof. exact builds_the_chain_refuted. Qed.
Print Assumptions C05_builds_the_chain_refuted.

(* ---- non-vacuity: concrete documents meeting the hypotheses ---- *)
(* five elements, all four forms, nested list / mapping / plain-factory tag values *)
Example C05_chain_hypotheses_satisfiable :
  exists items specs,
  yload ex_reg ex_doc = Ok (PL items) /\ length items = 5
  /\ map (elem_spec ex_resolve plain) items = map Some specs /\ shape ex_leaf specs = true
  /\ (forall s, In s specs -> ex_fails (sp_cls s) = false)
  /\ map sp_cls specs = [0; 0; 1; 0; 4]%N.
Proof. exact chain_example. Qed.

Example C05_failure_hypotheses_satisfiable :
  exists pre x post s specs_post,
  yload ex_reg ex_doc_fail = Ok (PL (pre ++ x :: post)) /\ length pre = 2 /\ length post = 2
  /\ elem_spec ex_resolve plain x = Some s /\ ex_fails (sp_cls s) = true
  /\ map (elem_spec ex_resolve plain) post = map Some specs_post
  /\ shape ex_leaf (s :: specs_post) = true
  /\ (forall s', In s' specs_post -> ex_fails (sp_cls s') = false).
Proof. exact failure_example. Qed.
