(* C11 — Coroutine payloads of one flavour never run in parallel. *)
From Coq Require Import List Arith Bool.
From Cobald Require Import model.RT proofs.RTBase proofs.RTProofs.
Import ListNotations.

(* all started coroutine payloads of one flavour (adopted, service, executed) of one runner share one
   (thread, event loop / trio run) *)
Theorem C11_single_home :
  forall tr s p q,
    run init tr = Some s ->
    started (p_st (pay s p)) = true -> started (p_st (pay s q)) = true ->
    coroutine (p_flav (pay s p)) = true -> p_flav (pay s q) = p_flav (pay s p) ->
    p_owner (pay s q) = p_owner (pay s p) ->
    p_tid (pay s q) = p_tid (pay s p) /\ p_loop (pay s q) = p_loop (pay s p).
Proof. exact C11_single_home. Qed.
Print Assumptions C11_single_home.

(* at no instant are two of them inside a synchronous section.  NOTE: the rule that rejects an
   overlapping `Enter` IS the assumption that one event loop / one trio run executes one callback at a
   time (DESIGN.md section 6); what is proved is that routing to a single home makes that assumption
   applicable to every pair of same-flavour payloads, in every reachable state *)
Theorem C11_no_overlap :
  forall tr s p q,
    run init tr = Some s -> In p (inside s) -> In q (inside s) ->
    coroutine (p_flav (pay s p)) = true -> p_owner (pay s q) = p_owner (pay s p) ->
    p_flav (pay s q) = p_flav (pay s p) -> p = q.
Proof. exact C11_no_overlap. Qed.
Print Assumptions C11_no_overlap.

(* thread payloads get a thread of their own, different from both coroutine homes of their runner *)
Theorem C11_threads_elsewhere :
  forall s p tid loop other ok s',
    step s (Start p Thr tid loop other ok) = Some s' -> background s p ->
    loop = 0 /\ ~ In tid (thr_tids s) /\ In tid (thr_tids s')
    /\ forall r, (p_st (pay s p) = PUnit -> guard s = Some r) -> (p_st (pay s p) <> PUnit -> r = p_owner (pay s p)) ->
         home_tid (r_home_aio (run_ s r)) tid = false /\ home_tid (r_home_trio (run_ s r)) tid = false.
Proof. exact C11_threads_elsewhere. Qed.
Print Assumptions C11_threads_elsewhere.

(* ... and stay outside them for good: invariant over every admitted history *)
Theorem C11_threads_outside_homes :
  forall tr s p,
    run init tr = Some s -> started (p_st (pay s p)) = true -> p_flav (pay s p) = Thr -> background s p ->
    home_tid (r_home_aio (run_ s (p_owner (pay s p)))) (p_tid (pay s p)) = false
    /\ home_tid (r_home_trio (run_ s (p_owner (pay s p)))) (p_tid (pay s p)) = false.
Proof. exact C11_threads_outside_homes. Qed.
Print Assumptions C11_threads_outside_homes.

Theorem C11_home_not_a_payload_thread :
  forall s p f tid loop other ok s',
    step s (Start p f tid loop other ok) = Some s' -> coroutine f = true ->
    ~ In tid (thr_tids s) /\ loop <> 0 /\ other = 0.
Proof. exact C11_home_not_a_payload_thread. Qed.
Print Assumptions C11_home_not_a_payload_thread.

Definition ex_overlap : list event :=
  [AdoptCall Outside 0 0 Trio; AdoptEnd 0 true; AdoptCall Outside 0 2 Trio; AdoptEnd 2 true;
   AdoptCall Outside 0 4 Thr; AdoptEnd 4 true; AcceptCall 0;
   Start 0 Trio 2 1 0 true; Start 2 Trio 2 1 0 true; Start 4 Thr 3 0 0 true; RunningSet 0;
   Enter 0; Enter 4; Exit 0; Enter 2; Exit 4; Exit 2; Quiesce].

Example C11_example_accepted :
  match run init ex_overlap with Some s => inside s = [] /\ quiescent s = true | None => False end.
Proof. vm_compute. split; reflexivity. Qed.

(* a second trio run for payload 2, or an overlapping section, is rejected *)
Example C11_example_rejected :
  run init (firstn 8 ex_overlap ++ [Start 2 Trio 9 5 0 true]) = None
  /\ run init (firstn 12 ex_overlap ++ [Enter 2]) = None.
Proof. vm_compute. split; reflexivity. Qed.
