(* C06 -- Standardiser always keeps the forwarded demand within its limits.
   Property theorems only; every one is closed by `exact` of a lemma in proofs/Standardiser*.v and
   followed by Print Assumptions.  Model: model/Standardiser.v over kit/PyNum.v (python int/float
   with type tag; ideal floats; no NaN: inf-inf, 0*inf, inf//x are the explicit outcome ENaN).

   Vocabulary (proofs/StandardiserProofs.v):
     valid P                 minimum <= maximum, surplus > 0, backlog > 0, granularity > 0
     wlo st / whi st         supply - backlog / supply + surplus as the code computes them
     in_limits P x           minimum <= x <= maximum          in_window lo hi x      lo <= x <= hi
     window_compatible       [lo, hi] and [minimum, maximum] intersect ("unless minimum/maximum force otherwise")
     fclose g a b            |a - b| < g, or a and b are the same infinity
     tdemand st              the target's demand; s_demand st: the private `_demand`
   Domain of the totality statements: finite supply, finite written value, finite granularity
   (limits may be infinite).  The safety statements hold for every outcome `Ok`. *)
From Coq Require Import ZArith QArith Qabs Qround List Bool Lia.
From Cobald Require Import kit.QKit kit.PyNum model.Standardiser
  proofs.StandardiserProofs proofs.StandardiserHistory.
Import ListNotations.
Open Scope Q_scope.

(* the constructor accepts exactly the valid parameter combinations (ValueError otherwise) and
   starts with `_demand = target.demand` *)
Theorem C06_constructor_validates : forall P t,
  (valid P -> construct P t = Ok (mkStd P (p_demand t) t)) /\ (~ valid P -> construct P t = Err EValue).
Proof. exact constructor_validates. Qed.
Print Assumptions C06_constructor_validates.

(* one write, any state, any value for which the code produces a result:
   - the value reaching the target lies in [minimum, maximum];
   - and in [supply - backlog, supply + surplus] when that window is compatible with minimum/maximum;
   - when no limit interferes with the rounded value, exactly the rounded value (the same object) is
     forwarded; at granularity 1 the code does not round, the written value itself is forwarded
     (for an int that is the rounded value: C06_rounding_at_granularity_one);
   - nothing else changes (parameters, supply, utilisation, allocation). *)
Theorem C06_forwarded_within_limits : forall st v st' lo hi,
  valid (s_par st) -> set_demand st v = Ok st' -> wlo st = Ok lo -> whi st = Ok hi ->
  in_limits (s_par st) (tdemand st')
  /\ (window_compatible (s_par st) lo hi -> in_window lo hi (tdemand st'))
  /\ (forall fl, nne (granularity (s_par st)) (PInt 1) = true ->
        floor_to v (granularity (s_par st)) = Ok fl ->
        in_window lo hi fl -> in_limits (s_par st) fl -> tdemand st' = fl)
  /\ (nne (granularity (s_par st)) (PInt 1) = false ->
        in_window lo hi v -> in_limits (s_par st) v -> tdemand st' = v)
  /\ s_par st' = s_par st /\ p_supply (s_tgt st') = p_supply (s_tgt st)
  /\ p_util (s_tgt st') = p_util (s_tgt st) /\ p_alloc (s_tgt st') = p_alloc (s_tgt st).
Proof. exact forwarded_within_limits. Qed.
Print Assumptions C06_forwarded_within_limits.

(* inside the domain a write always has a result, and the window straddles the supply *)
Theorem C06_write_defined : forall st v x g, valid (s_par st) ->
  val (p_supply (s_tgt st)) = Fin x -> finite (val v) -> val (granularity (s_par st)) = Fin g ->
  exists st' lo hi, set_demand st v = Ok st' /\ wlo st = Ok lo /\ whi st = Ok hi
    /\ fle (val lo) (Fin x) /\ fle (Fin x) (val hi).
Proof. exact write_defined. Qed.
Print Assumptions C06_write_defined.

(* `_floor(v, g)` is v rounded down to a multiple of g: k * g <= v < k * g + g with k = floor(v / g) *)
Theorem C06_floor_rounds_down : forall v gn x g, val v = Fin x -> val gn = Fin g -> 0 < g ->
  exists fl, floor_to v gn = Ok fl /\ feq (val fl) (Fin (inject_Z (Qfloor (x / g)) * g))
    /\ inject_Z (Qfloor (x / g)) * g <= x /\ x < inject_Z (Qfloor (x / g)) * g + g.
Proof. exact floor_is_floor. Qed.
Print Assumptions C06_floor_rounds_down.

Theorem C06_rounding_at_granularity_one : forall z g fl,
  feq (val g) (Fin 1) -> floor_to (PInt z) g = Ok fl -> feq (val fl) (Fin (inject_Z z)).
Proof. exact floor_of_int_at_one. Qed.
Print Assumptions C06_rounding_at_granularity_one.

(* reading back right after a write: the state is unchanged, the value is the limited but unrounded
   one (`_clamp_demand(v)`), it obeys the same limits, it is v itself when no limit interferes, and it
   is less than one granule away from (and not below) the target's demand *)
Theorem C06_readback : forall st v st' x g lo hi, valid (s_par st) -> set_demand st v = Ok st' ->
  finite (val (p_supply (s_tgt st))) -> val v = Fin x -> val (granularity (s_par st)) = Fin g ->
  wlo st = Ok lo -> whi st = Ok hi ->
  let r := fst (get_demand st') in
  snd (get_demand st') = st'
  /\ clamp_demand (s_par st) (s_tgt st) v = Ok r
  /\ in_limits (s_par st) r
  /\ (window_compatible (s_par st) lo hi -> in_window lo hi r)
  /\ (in_window lo hi v -> in_limits (s_par st) v -> r = v)
  /\ fclose g (val r) (val (tdemand st'))
  /\ fle (val (tdemand st')) (val r).
Proof. exact readback. Qed.
Print Assumptions C06_readback.

(* any read, any state: never touches the target; what it returns is less than a granule from the
   target's demand; it is the stored value when that is within a granule of the target, and the
   target's demand (resynchronisation) otherwise *)
Theorem C06_read_rule : forall st g, val (granularity (s_par st)) = Fin g -> 0 < g ->
  let r := fst (get_demand st) in let st' := snd (get_demand st) in
  s_tgt st' = s_tgt st /\ s_par st' = s_par st /\ s_demand st' = r
  /\ fclose g (val r) (val (tdemand st))
  /\ (fclose g (val (s_demand st)) (val (tdemand st)) -> r = s_demand st /\ st' = st)
  /\ (~ fclose g (val (s_demand st)) (val (tdemand st)) -> r = tdemand st).
Proof. exact read_rule. Qed.
Print Assumptions C06_read_rule.

(* n >= 1 increments of 1 (`s.demand = s.demand + 1`) and one increment of n have the same effect on
   the target and on what is read back, when no limit interferes with the values from d to d + n
   (convexity: only the two ends are asked for).  The result is spelled out as well. *)
Theorem C06_increments_add_up : forall P sup lo hi g,
  valid P -> finite (val sup) -> val (granularity P) = Fin g ->
  nsub sup (backlog P) = Ok lo -> nadd sup (surplus P) = Ok hi ->
  forall st d (n : nat), (1 <= n)%nat -> ready P sup g st d ->
    free P lo hi d -> free P lo hi (d + inject_Z (Z.of_nat n)) ->
    exists sa sb, iter_incr n st = Ok sa /\ incr (Z.of_nat n) st = Ok sb
      /\ feq (val (tdemand sa)) (val (tdemand sb))
      /\ feq (val (fst (get_demand sa))) (val (fst (get_demand sb)))
      /\ feq (val (fst (get_demand sb))) (Fin (d + inject_Z (Z.of_nat n)))
      /\ feq (val (tdemand sb)) (fwd_spec P lo hi g (d + inject_Z (Z.of_nat n))).
Proof. exact increments_add_up. Qed.
Print Assumptions C06_increments_add_up.

(* every history (fold_left over ANY list of writes, reads, supply changes, outside writes with finite
   written values and supplies) on an accepted standardiser runs to completion, and afterwards:
   the target's demand is within [minimum, maximum] unless it was last written from outside; the stored
   demand is within [minimum, maximum] if it stems from a write; stored and target demand are less than a
   granule apart unless the target was written from outside since the last read or write.
   The bookkeeping (`ghost`) lives next to the model state and does not influence it (`run` is the plain run). *)
Theorem C06_history_invariant : forall P t st0 g ops,
  construct P t = Ok st0 -> finite (val (p_supply t)) -> val (granularity P) = Fin g ->
  Forall op_finite ops ->
  exists gh st, grun ghost0 st0 ops = Ok (gh, st) /\ run st0 ops = Ok st /\ Inv P g gh st.
Proof. exact history_invariant. Qed.
Print Assumptions C06_history_invariant.

(* the [minimum, maximum] part needs no finiteness at all: it holds after every history that does not
   end in a NaN outcome *)
Theorem C06_history_limits : forall P t st0 ops gh st,
  construct P t = Ok st0 -> grun ghost0 st0 ops = Ok (gh, st) -> InvL P gh st.
Proof. exact history_limits. Qed.
Print Assumptions C06_history_limits.

Theorem C06_ghost_is_bookkeeping : forall gh st ops,
  run st ops = bind (grun gh st ops) (fun p => Ok (snd p)).
Proof. exact run_grun. Qed.
Print Assumptions C06_ghost_is_bookkeeping.

(* supply, utilisation and allocation observed through the decorator are the target's, and no
   operation of the standardiser changes them (only SetSupply, the target's own change, does) *)
Theorem C06_passthrough : forall st o st' ob, step st o = Ok (st', ob) ->
  o_supply ob = p_supply (s_tgt st') /\ o_util ob = p_util (s_tgt st') /\ o_alloc ob = p_alloc (s_tgt st')
  /\ o_tdemand ob = tdemand st'
  /\ p_util (s_tgt st') = p_util (s_tgt st) /\ p_alloc (s_tgt st') = p_alloc (s_tgt st)
  /\ p_supply (s_tgt st') = match o with SetSupply s => s | _ => p_supply (s_tgt st) end
  /\ s_par st' = s_par st.
Proof. exact passthrough_step. Qed.
Print Assumptions C06_passthrough.

Theorem C06_passthrough_history : forall ops st st', run st ops = Ok st' ->
  p_util (s_tgt st') = p_util (s_tgt st) /\ p_alloc (s_tgt st') = p_alloc (s_tgt st) /\ s_par st' = s_par st.
Proof. exact passthrough_run. Qed.
Print Assumptions C06_passthrough_history.

(* ---- non-vacuity: concrete states meeting the hypotheses ---- *)
Definition exP : params :=      (* all five limits active, a fractional one among them *)
  mkParams (PInt 2) (PInt 12) (PInt 5) (PInt 4) (PFlt (Fin (7 # 2))).
Definition exT : pool := mkPool (PInt 0) (PInt 5) (PFlt (Fin (1 # 2))) (PFlt (Fin (3 # 4))).
Definition exS : std := mkStd exP (PInt 0) exT.

Example C06_valid_satisfiable : valid exP /\ construct exP exT = Ok exS.
Proof.
  split; [|reflexivity]. constructor; cbn; unfold Qle, Qlt; cbn; lia.
Qed.

(* write 9 at supply 5: window [1, 8.5], limits [2, 12]; floor 5 is free, so 5 is forwarded;
   read-back is 8.5 (float, the window edge), 3.5 < 5 above the target *)
Example C06_write_satisfiable :
  exists st', set_demand exS (PInt 9) = Ok st' /\ wlo exS = Ok (PInt 1) /\ whi exS = Ok (PFlt (Fin (5 + (7 # 2))))
    /\ window_compatible exP (PInt 1) (PFlt (Fin (5 + (7 # 2))))
    /\ nne (granularity exP) (PInt 1) = true /\ floor_to (PInt 9) (granularity exP) = Ok (PInt 5)
    /\ in_window (PInt 1) (PFlt (Fin (5 + (7 # 2)))) (PInt 5) /\ in_limits exP (PInt 5)
    /\ tdemand st' = PInt 5 /\ num_eqb (fst (get_demand st')) (PFlt (Fin (17 # 2))) = true.
Proof.
  eexists. split; [reflexivity|]. split; [reflexivity|]. split; [reflexivity|].
  split; [split; cbn; unfold Qle; cbn; lia|]. split; [reflexivity|]. split; [reflexivity|].
  split; [split; cbn; unfold Qle; cbn; lia|]. split; [split; cbn; unfold Qle; cbn; lia|].
  split; reflexivity.
Qed.

(* increments from a written 3 at granularity 5 with maximum 100: ready and free hold, 7 steps *)
Definition exP2 : params := mkParams (PFlt NInf) (PInt 100) (PInt 5) (PFlt PInf) (PInt 50).
Definition exS2 : std := mkStd exP2 (PInt 3) (mkPool (PInt 0) (PInt 0) (PInt 0) (PInt 0)).

Example C06_increment_hypotheses_satisfiable :
  valid exP2 /\ nsub (PInt 0) (backlog exP2) = Ok (PFlt NInf) /\ nadd (PInt 0) (surplus exP2) = Ok (PInt 50)
  /\ ready exP2 (PInt 0) 5 exS2 3 /\ free exP2 (PFlt NInf) (PInt 50) 3
  /\ free exP2 (PFlt NInf) (PInt 50) (3 + inject_Z (Z.of_nat 7))
  /\ match iter_incr 7 exS2 with Ok sa => num_eqb (tdemand sa) (PInt 10) | Err _ => false end = true.
Proof.
  split; [constructor; cbn; try exact I; unfold Qle, Qlt; cbn; lia|].
  split; [reflexivity|]. split; [reflexivity|].
  split; [constructor; try reflexivity; cbn; unfold Qlt; cbn; lia|].
  split; [repeat split; cbn; try exact I; unfold Qle; cbn; lia|].
  split; [repeat split; cbn; try exact I; unfold Qle; cbn; lia|].
  vm_compute. reflexivity.
Qed.

(* a history with every kind of operation on exS: the hypotheses of the history theorems hold *)
Example C06_history_hypotheses_satisfiable :
  let ops := [Write (PInt 9); Read; OutsideSetDemand (PFlt (Fin (21 # 2))); Read; SetSupply (PInt 11);
              Write (PFlt (Fin (29 # 2))); Read] in
  construct exP exT = Ok exS /\ finite (val (p_supply exT)) /\ val (granularity exP) = Fin (inject_Z 5)
  /\ Forall op_finite ops
  /\ match run exS ops with Ok st => num_eqb (tdemand st) (PFlt (Fin 10)) | Err _ => false end = true.
Proof.
  cbv zeta. split; [reflexivity|]. split; [exact I|]. split; [reflexivity|].
  split; [repeat constructor|]. vm_compute. reflexivity.
Qed.
