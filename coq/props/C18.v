(* C18 -- YAML loading never instantiates anything that is not a registered plugin.
   Property theorems only; every one is closed by `exact` of a lemma in proofs/Yaml*.v and followed by
   Print Assumptions.  Model: model/YamlDispatch.v (PyYAML's construct_object dispatch, generator
   protocol, SafeConstructor's flatten_mapping / construct_scalar, cobald's yaml_constructor closure).
   gen/Gen_yaml_tables.v is regenerated on every run from the loader class that
   cobald.daemon.core.config.load actually instantiates.

   FULL claim of the property's second sentence (FALSE for the code as it is, finding C18-ignored-tag):
     forall conv_ok fac T doc m, safe_tables T = true -> subnode m doc ->
       python_tag (tag_of m) = true \/ assoc (tag_of m) (t_exact T) = None ->
       is_err (fst (construct_document conv_ok fac T doc)).
   It is proved below with `subnode` replaced by `visits T` (the node is at a position PyYAML
   dispatches), and refuted as stated by a document whose python/* node is the value of a merge key. *)
From Coq Require Import List NArith Bool.
From Cobald Require Import model.YamlDispatch proofs.YamlDispatchProofs proofs.YamlWitness
  gen.Gen_yaml_tables proofs.YamlTablesProofs.
Import ListNotations.

(* For EVERY table satisfying the table condition, EVERY document tree, every scalar-conversion and
   factory behaviour: whatever the outcome, the only things called besides SafeConstructor's own
   methods are factories of Plugin entries of the table. *)
Theorem C18_only_plugins_run : forall conv_ok fac T doc, safe_tables T = true ->
  forall c, In c (calls (snd (construct_document conv_ok fac T doc))) ->
  exists f, c = Call f /\ registered T f.
Proof. exact only_plugins_run. Qed.
Print Assumptions C18_only_plugins_run.

(* A python/* tag or a tag without table entry at any DISPATCHED position (any depth, key or value,
   inside lazily or eagerly evaluated plugin arguments) makes the load fail, and nothing unsafe ran. *)
Theorem C18_foreign_tag_rejected_partial : forall conv_ok fac T doc m, safe_tables T = true ->
  visits T doc m ->
  python_tag (tag_of m) = true \/ assoc (tag_of m) (t_exact T) = None ->
  is_err (fst (construct_document conv_ok fac T doc))
  /\ forall nm, ~ In (UnsafeCall nm) (snd (construct_document conv_ok fac T doc)).
Proof. exact foreign_tag_rejected_partial. Qed.
Print Assumptions C18_foreign_tag_rejected_partial.

(* finding C18-ignored-tag: a python/object/apply node as the value of a merge key is ignored *)
Theorem C18_foreign_tag_rejected_refuted :
  safe_tables demo_tables = true /\ subnode ignored_node ignored_doc
  /\ python_tag (tag_of ignored_node) = true
  /\ construct_document all_ok fac_ok demo_tables ignored_doc
     = (Ok VHash, [EvB (BScalar 6); EvB (BScalar 6); EvB (BScalar 6); EvB (BScalar 6); Call 0%N]).
Proof. exact ignored_tag_witness. Qed.
Print Assumptions C18_foreign_tag_rejected_refuted.

(* the model's recursion budget is never the reason for an outcome *)
Theorem C18_budget_suffices : forall conv_ok fac T doc, fst (construct_document conv_ok fac T doc) <> Fuel.
Proof. exact document_no_fuel. Qed.
Print Assumptions C18_budget_suffices.

(* the loader that load() instantiates on THIS run: SafeConstructor methods, construct_undefined for
   unknown tags, yaml_constructor closures exactly for the entry points of the plugin group; no
   multi-constructor, no python/* key, PyYAML's own core methods *)
Theorem C18_cobald_tables_safe :
  safe_tables cobald_tables = true /\ plugins_match cobald_tables cobald_tables_entrypoints = true.
Proof. exact cobald_tables_safe. Qed.
Print Assumptions C18_cobald_tables_safe.

Theorem C18_cobald_test_tables_safe :
  safe_tables cobald_tables_test = true /\ plugins_match cobald_tables_test cobald_tables_test_entrypoints = true.
Proof. exact cobald_tables_test_safe. Qed.
Print Assumptions C18_cobald_test_tables_safe.

Theorem C18_cobald_only_entrypoint_plugins_run : forall conv_ok fac doc c,
  In c (calls (snd (construct_document conv_ok fac cobald_tables doc))) ->
  exists f, c = Call f /\ In f (map snd cobald_tables_entrypoints).
Proof. exact cobald_only_entrypoint_plugins_run. Qed.
Print Assumptions C18_cobald_only_entrypoint_plugins_run.

Theorem C18_cobald_foreign_tag_rejected_partial : forall conv_ok fac doc m,
  visits cobald_tables doc m ->
  python_tag (tag_of m) = true \/ assoc (tag_of m) (t_exact cobald_tables) = None ->
  is_err (fst (construct_document conv_ok fac cobald_tables doc))
  /\ forall nm, ~ In (UnsafeCall nm) (snd (construct_document conv_ok fac cobald_tables doc)).
Proof. exact cobald_foreign_tag_rejected_partial. Qed.
Print Assumptions C18_cobald_foreign_tag_rejected_partial.

(* non-vacuity: a safe table with a plugin, a document whose foreign node is dispatched two levels
   below a lazy plugin; the plugin IS called (it is registered) before the load fails *)
Example C18_hypotheses_satisfiable :
  safe_tables demo_tables = true /\ visits demo_tables lazy_doc foreign_leaf
  /\ python_tag (tag_of foreign_leaf) = true
  /\ construct_document all_ok fac_ok demo_tables lazy_doc
     = (Err EUndef, [EvB (BScalar 6); EvB BSeq; Call 0%N]).
Proof. exact lazy_doc_instance. Qed.
