(* C12 — translator tie for the exclusivity guard: gen/Gen_guard.v is the python AST of
   guard.py::exclusive_call, regenerated on every run; kit/GuardIR.v gives it a semantics.  The theorems
   are proved for ALL lock states and ALL ways the guarded function can end (a finite space, enumerated by
   the kernel, not sampled). *)
From Coq Require Import List Bool.
Import ListNotations.
From Cobald Require Import kit.GuardIR gen.Gen_guard.

(* free lock: acquired, the function is called exactly once, the lock is released on EVERY exit path
   (return and exception), and the caller gets the function's own outcome *)
Theorem C12_guard_released_on_every_path :
  forall body,
    run_guarded exclusive_call_ir false body =
    ((match body with BReturns => CReturnBody | BRaises => CRaiseBody end),
     mkG false false [EAcquired; ECalled; EReleased]).
Proof. intros []; vm_compute; reflexivity. Qed.
Print Assumptions C12_guard_released_on_every_path.

(* lock held by an accept in progress: RuntimeError, the function is NOT entered, and the holder's lock is
   left untouched *)
Theorem C12_guard_rejects_without_entering :
  forall body,
    run_guarded exclusive_call_ir true body = (CRaiseRuntime, mkG true false [EAcquireRefused]).
Proof. intros []; vm_compute; reflexivity. Qed.
Print Assumptions C12_guard_rejects_without_entering.
