(* C19 - Nested __type__ mappings translate bottom-up with exact error locations.
   Property theorems only; each is closed by `exact` of a lemma of proofs/MappingProofs.v or
   proofs/MappingOrder.v and followed by Print Assumptions.  Model and specification:
   model/Mapping.v.  All theorems hold for every finite tree, every outcome `resolve` of
   load_name and every behaviour `apply` of the factories. *)
From Coq Require Import ZArith NArith List Bool.
From Cobald Require Import model.Mapping proofs.MappingProofs proofs.MappingOrder proofs.MappingExamples.
Import ListNotations.

(* plain data is returned unchanged and no factory is called *)
Theorem C19_plain_data_unchanged :
  forall resolve apply t, no_type_node t = true ->
  forall w, translate resolve apply w t = (Ok (embed t), []).
Proof. exact plain_data_unchanged. Qed.
Print Assumptions C19_plain_data_unchanged.

(* when every factory resolves and succeeds: the result is the denotation eval_spec (every
   __type__ mapping replaced by its factory's result, __args__ positional, other items keyword)
   and the global call log is exactly the calls of the __type__ nodes in evaluation order *)
Theorem C19_refines_spec :
  forall resolve apply t v w, wf t = true -> eval_spec resolve apply t = Some v ->
  translate resolve apply w t = (Ok v, post_order_calls resolve apply t).
Proof. exact refines_spec. Qed.
Print Assumptions C19_refines_spec.

(* ... and every __type__ node made exactly one call *)
Theorem C19_exactly_once :
  forall resolve apply t v, wf t = true -> eval_spec resolve apply t = Some v ->
  map (call_of resolve apply t) (eval_order t) = map Some (post_order_calls resolve apply t)
  /\ length (post_order_calls resolve apply t) = length (eval_order t)
  /\ first_failure resolve apply t = None.
Proof. exact exactly_once. Qed.
Print Assumptions C19_exactly_once.

(* a failure is reported as a configuration error located at the exact path of the FIRST failing
   node in evaluation order; the calls made are those of the nodes up to and including it *)
Theorem C19_error_location :
  forall resolve apply t p e w, wf t = true -> first_failure resolve apply t = Some (p, e) ->
  translate resolve apply w t
  = (Err (report e (w ++ path_of p)),
     filter_map (call_of resolve apply t) (reached resolve apply t))
  /\ eval_spec resolve apply t = None /\ failure_at resolve apply t p = Some e.
Proof. exact error_location. Qed.
Print Assumptions C19_error_location.

(* the two cases are exhaustive *)
Theorem C19_success_or_located_failure :
  forall resolve apply t, wf t = true ->
  (exists v, eval_spec resolve apply t = Some v /\ first_failure resolve apply t = None)
  \/ (eval_spec resolve apply t = None /\ exists p e, first_failure resolve apply t = Some (p, e)).
Proof. exact success_or_located_failure. Qed.
Print Assumptions C19_success_or_located_failure.

(* what the evaluation order is: exactly the __type__ mappings, each once ... *)
Theorem C19_eval_order_sound :
  forall t, wf t = true -> forall p, In p (eval_order t) ->
  exists m, subtree t p = Some (TMap m) /\ has_key s_type m = true.
Proof. exact eval_order_sound. Qed.
Print Assumptions C19_eval_order_sound.

Theorem C19_eval_order_complete :
  forall t p m, subtree t p = Some (TMap m) -> has_key s_type m = true -> In p (eval_order t).
Proof. exact eval_order_complete. Qed.
Print Assumptions C19_eval_order_complete.

Theorem C19_eval_order_nodup : forall t, wf t = true -> NoDup (eval_order t).
Proof. exact eval_order_nodup. Qed.
Print Assumptions C19_eval_order_nodup.

(* ... children before parents ... *)
Theorem C19_children_first :
  forall t, wf t = true -> forall p s r,
  In p (eval_order t) -> In (p ++ s :: r) (eval_order t) ->
  before (eval_order t) (p ++ s :: r) p.
Proof. exact children_first. Qed.
Print Assumptions C19_children_first.

(* ... and within a list, later items before earlier ones *)
Theorem C19_list_right_to_left :
  forall t, wf t = true -> forall p i j r1 r2, i < j ->
  In (p ++ SIdx i :: r1) (eval_order t) -> In (p ++ SIdx j :: r2) (eval_order t) ->
  before (eval_order t) (p ++ SIdx j :: r2) (p ++ SIdx i :: r1).
Proof. exact list_right_to_left. Qed.
Print Assumptions C19_list_right_to_left.

(* ---- non-vacuity: concrete trees meeting the hypotheses ---- *)
Example C19_plain_hypothesis_satisfiable : no_type_node ex_plain = true /\ wf ex_plain = true.
Proof. vm_compute. split; reflexivity. Qed.

(* four __type__ nodes, nested through __args__ and through keyword items *)
Example C19_success_hypotheses_satisfiable :
  wf (ex_tree n_R) = true
  /\ (exists v, eval_spec ex_resolve ex_apply (ex_tree n_R) = Some v)
  /\ eval_order (ex_tree n_R)
     = [[SKey k_a; SIdx 1; SKey s_args; SIdx 0]; [SKey k_a; SIdx 1]; [SKey k_a; SIdx 0];
        [SKey k_b; SKey k_x]; [SKey k_b]]
  /\ length (post_order_calls ex_resolve ex_apply (ex_tree n_R)) = 5.
Proof. vm_compute. repeat split; try reflexivity. eexists. reflexivity. Qed.

(* the innermost node below "b" fails (raising factory / unresolvable / not callable) *)
Example C19_failure_hypotheses_satisfiable :
  wf (ex_tree n_S) = true
  /\ first_failure ex_resolve ex_apply (ex_tree n_S) = Some ([SKey k_b; SKey k_x], PExc (ExUser 1))
  /\ first_failure ex_resolve ex_apply (ex_tree [90]%N) = Some ([SKey k_b; SKey k_x], PConf (WNoSuch [90]%N) None)
  /\ first_failure ex_resolve ex_apply (ex_tree n_M) = Some ([SKey k_b; SKey k_x], PExc ExType)
  /\ path_of [SKey k_b; SKey k_x] = [46; 98; 46; 120]%N
  /\ length (filter_map (call_of ex_resolve ex_apply (ex_tree n_S)) (reached ex_resolve ex_apply (ex_tree n_S))) = 4.
Proof. vm_compute. repeat split; reflexivity. Qed.
