(* C13 — The daemon runs its configured pipeline until stopped; failures set exit status.
   Theorems about the daemon model (model/Daemon.v over model/RT.v).  `gen/Gen_daemon.v` is REGENERATED
   from src/cobald/daemon/core/{main,config}.py and config/mapping.py on every run: it holds the structure
   fact that the loading payload keeps the configuration referenced while it sleeps. *)
From Coq Require Import List Arith Bool.
From Cobald Require Import model.RT model.Daemon model.DaemonCtor proofs.RTBase proofs.RTProofs proofs.DaemonProofs
  proofs.DaemonCtorProofs gen.Gen_daemon.
Import ListNotations.

(* the current source keeps the configuration alive: `with load(path): await sleep(...)`, load() yields
   the bound result, load_configuration keeps every plugin's output, adopt precedes accept *)
Theorem C13_loader_holds_config : Gen_daemon.loader_holds_config = true.
Proof. reflexivity. Qed.
Print Assumptions C13_loader_holds_config.

(* hence: every service constructed by the loading payload is started exactly once and never collected
   while the loader runs — for every admitted history, once nothing is owed *)
Theorem C13_services_started_and_kept :
  forall tr d sv q,
    drun Gen_daemon.loader_holds_config dinit tr = Some d -> quiescent (d_rt d) = true ->
    guard (d_rt d) = Some 0 -> r_phase (run_ (d_rt d) 0) = Up -> r_running (run_ (d_rt d) 0) = true ->
    d_creator d sv = Some q -> p_st (pay (d_rt d) q) = PRun ->
    nstarts sv tr = 1 /\ p_st (pay (d_rt d) sv) <> PDropped.
Proof. rewrite C13_loader_holds_config. exact C13_services_started_and_kept. Qed.
Print Assumptions C13_services_started_and_kept.

(* the reference is necessary: without it a daemon can sit idle with a collected, never started service *)
Theorem C13_reference_is_necessary :
  exists tr d, drun false dinit tr = Some d /\ quiescent (d_rt d) = true
    /\ r_phase (run_ (d_rt d) 0) = Up /\ d_creator d 3 = Some 0 /\ p_st (pay (d_rt d) 0) = PRun
    /\ nstarts 3 tr = 0.
Proof. exact C13_reference_is_necessary. Qed.
Print Assumptions C13_reference_is_necessary.

Theorem C13_exit_status :
  forall holds tr d, drun holds dinit tr = Some d ->
    (exit_status d = 0 <-> r_phase (run_ (d_rt d) 0) = Ended AReturned) /\
    (exit_status d = 0 -> exists e, In e tr /\ stop_trigger 0 e).
Proof. exact C13_exit_status. Qed.
Print Assumptions C13_exit_status.

(* an invalid configuration / unknown extension (the loader fails) or a failing service: non-zero exit *)
Theorem C13_failure_sets_exit_status :
  forall holds tr1 tr2 d1 d p o,
    drun holds dinit tr1 = Some d1 -> failing o = true -> background (d_rt d1) p ->
    p_owner (pay (d_rt d1) p) = 0 -> r_phase (run_ (d_rt d1) 0) = Up ->
    drun holds d1 (Finish p o :: tr2) = Some d -> quiescent (d_rt d) = true ->
    ~ In Sigint (tr1 ++ Finish p o :: tr2) -> exit_status d <> 0.
Proof. exact C13_failure_sets_exit_status. Qed.
Print Assumptions C13_failure_sets_exit_status.

(* graceful stop: coroutine services are cancelled and cleaned up before the run ends (C02, lifted) *)
Theorem C13_graceful_stop :
  forall holds tr d o d',
    drun holds dinit tr = Some d -> dstep holds d (AcceptEnd 0 o) = Some d' -> o <> AExclusive ->
    r_loopkill (run_ (d_rt d) 0) = false ->
    forall p, p_owner (pay (d_rt d) p) = 0 -> coroutine (p_flav (pay (d_rt d) p)) = true -> background (d_rt d) p ->
      p_st (pay (d_rt d) p) <> PRun /\ p_st (pay (d_rt d) p) <> PCanc.
Proof.
  intros holds tr d o d' H E. apply (C02_settled_at_end tr (d_rt d) 0 o (d_rt d')).
  - exact (drun_run _ _ _ _ H).
  - exact (dstep_step _ _ _ _ E).
Qed.
Print Assumptions C13_graceful_stop.

(* Constructors take time (model/DaemonCtor.v refines the daemon model: every history it admits is a daemon
   history, so everything above holds of it). *)
Theorem C13_ctor_layer_refines_daemon :
  forall holds tr c, crun holds cinit tr = Some c -> drun holds dinit tr = Some (c_d c).
Proof. intros holds tr c H. exact (crun_drun holds tr cinit c H). Qed.
Print Assumptions C13_ctor_layer_refines_daemon.

(* "every service is started only once it has been constructed" — the part that holds: a coroutine service
   made by a coroutine payload is never started on its creator's loop while the constructor runs (the asyncio
   services of a configuration, constructed inside the asyncio loop) *)
Theorem C13_started_only_when_constructed_partial :
  forall holds tr1 c1 sv f tid loop other ok c2 q,
    crun holds cinit tr1 = Some c1 -> cstep holds c1 (Start sv f tid loop other ok) = Some c2 ->
    c_ctor c1 sv = true -> d_creator (c_d c1) sv = Some q ->
    coroutine f = true -> coroutine (p_flav (pay (d_rt (c_d c1)) q)) = true ->
    p_loop (pay (d_rt (c_d c1)) q) <> loop /\ c_half c2 sv = Some (loop, p_loop (pay (d_rt (c_d c1)) q)).
Proof. exact C13_same_loop_start_waits_for_constructor. Qed.
Print Assumptions C13_started_only_when_constructed_partial.

(* ... the full statement is false of the faithful model and of the code (known finding
   C13-service-started-before-constructed): a trio / thread service can be started half-built *)
Theorem C13_started_only_when_constructed_refuted :
  exists tr c sv, crun true cinit tr = Some c /\ c_half c sv <> None /\ p_st (pay (d_rt (c_d c)) sv) = PRun.
Proof. exact C13_started_only_when_constructed_refuted. Qed.
Print Assumptions C13_started_only_when_constructed_refuted.

Definition ex_daemon : list event :=
  [AdoptCall Outside 0 0 Aio; AdoptEnd 0 true; AcceptCall 0; Start 0 Aio 1 1 0 true;
   NewService (InPayload 0) 3 Trio; NewService (InPayload 0) 5 Thr; RunningSet 0;
   Start 3 Trio 2 2 0 true; Start 5 Thr 3 0 0 true; Quiesce; Sigint; Cancelled 3; CleanupDone 3;
   Cancelled 0; CleanupDone 0; AcceptEnd 0 AReturned; Quiesce].

Example C13_example_accepted :
  match drun true dinit ex_daemon with
  | Some d => exit_status d = 0 /\ nstarts 3 ex_daemon = 1 /\ nstarts 5 ex_daemon = 1
  | None => False
  end.
Proof. vm_compute. repeat split; reflexivity. Qed.

(* with the reference held, collecting a not-yet-started service of the running loader is rejected *)
Example C13_example_drop_rejected :
  drun true dinit (firstn 5 ex_daemon ++ [DropService 3]) = None
  /\ drun false dinit (firstn 5 ex_daemon ++ [DropService 3]) <> None.
Proof. vm_compute. split; [reflexivity|discriminate]. Qed.
