(* C16 — translator tie: gen/Gen_decorators.v is regenerated from src/cobald/interfaces/_proxy.py and
   src/cobald/decorator/logger.py on every run (py2coq/units.py: gen_decorators; every accessor must be the one expected
   statement, the Logger's setter a sequence of "log the record" / "write the target" statements).  kit/DecoIR.v gives the
   extracted tables their meaning for one level of a stack; with the tables of the current source that meaning is what
   model/Decorators.v (the model the theorems of props/C16.v are about) does at a Plain / Logger level. *)
From Coq Require Import ZArith QArith List Bool String.
From Cobald Require Import kit.QKit model.Decorators kit.DecoIR gen.Gen_decorators.
Import ListNotations.
Open Scope Q_scope.

Theorem C16_tie_tables :
  gen_proxy = ref_proxy /\ gen_logger_getter = ref_logger_getter
  /\ gen_logger_fields = ref_logger_fields /\ gen_logger_steps = ref_logger_steps.
Proof. repeat split; reflexivity. Qed.
Print Assumptions C16_tie_tables.

(* a PoolDecorator level is the identity on all four reads, and its setter writes the target's demand and nothing else *)
Theorem C16_tie_proxy : forall (t : pattr -> Q) which v,
  proxy_read gen_proxy which t = t which
  /\ proxy_write gen_proxy v t PDemand = v
  /\ (which <> PDemand -> proxy_write gen_proxy v t which = t which).
Proof.
  intros t which v. destruct C16_tie_tables as [E _]. rewrite E.
  split; [destruct which; reflexivity|]. split; [reflexivity|].
  intros H. destruct which; try reflexivity. contradiction.
Qed.
Print Assumptions C16_tie_proxy.

(* the attributes of the target of a level with the stack `r` below it over the pool `p`, as the model sees them *)
Definition target_view (r : stack) (p : pool) (dm : Q) : pattr -> Q :=
  fun a => match a with
           | PDemand => dm
           | PSupply => read_through r p Supply
           | PUtil => read_through r p Utilisation
           | PAlloc => read_through r p Allocation
           end.

(* the Logger's record carries exactly the fields of the model's Log effect (model/Decorators.v, wr, case LoggerD), it is
   emitted before the target is written, and the getter returns the target's demand *)
Theorem C16_tie_logger : forall r p dm v n l m (e : list effect),
  fields_p gen_logger_fields v (target_view r p dm) (List.length r)
    = Some (mkFields v dm (read_through r p Supply) (read_through r p Utilisation)
                     (read_through r p Allocation) (read_through r p Allocation) (List.length r))
  /\ (forall f, setter_effects gen_logger_steps (Log n l m f) e = Log n l m f :: e)
  /\ lq v (target_view r p dm) (Some gen_logger_getter) = Some dm.
Proof.
  intros r p dm v n l m e. destruct C16_tie_tables as [_ [Eg [Ef Es]]]. rewrite Eg, Ef, Es.
  split; [reflexivity|]. split; [|reflexivity].
  intros f. unfold setter_effects, ref_logger_steps. cbn [flat_map app]. rewrite app_nil_r. reflexivity.
Qed.
Print Assumptions C16_tie_logger.

(* not vacuous: a table that reads the allocation for "utilisation" gives another record *)
Example C16_tie_sensitive :
  fields_p [("value", LValue); ("demand", LTarget PDemand); ("supply", LTarget PSupply); ("utilisation", LTarget PAlloc);
            ("allocation", LTarget PAlloc); ("consumption", LTarget PAlloc); ("target", LTargetObj)]%string
           5 (target_view [] (mkPool 1 2 (1#2) (1#4)) 1) 0
  = Some (mkFields 5 1 2 (1#4) (1#4) (1#4) 0).
Proof. vm_compute. reflexivity. Qed.
