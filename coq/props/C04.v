(* C04 -- A `>>` chain builds exactly the nested pipeline, however grouped or curried.
   Property theorems only; each is closed by `exact` of a lemma in proofs/ and followed by
   Print Assumptions.  Models: model/Partial.v (Partial, PartialBind, `>>`, .s factories, which
   signature inspect reports for a class), model/PyBind.v (python call binding, bind_partial). *)
From Coq Require Import NArith List Bool Arith.
From Cobald Require Import model.PyBind model.Partial
  proofs.PyBindProofs proofs.PartialProofs proofs.PartialCheckProofs.
Import ListNotations.

(* For every chain e1..en (n >= 1, unbounded), e2..en non-leaf templates of pool classes, every
   tail form (instance, Pool.s(...), Pool.s(...)(...)...), and EVERY binary tree t over
   e1, ..., en, tail:  evaluating t with python's `>>` gives the very W-value (result object or
   TypeError, and construction log) of nesting the constructors by hand.  If all constructor calls
   bind: the result is e1(e2(...en(tail))) and the log is: tail first (if a template), then
   en, ..., e1 -- each exactly once, each with (object built just before :: args, kwargs). *)
Theorem C04_any_grouping :
  forall (es : list elem) (tf : tail_form) (tail : obj) (t : tree obj),
    es <> [] -> forallb good (tl es) = true ->
    tail_class_ok tf -> tail_obj tf = Ok tail ->
    leaves t = map Tmpl es ++ [tail] ->
    eval t = hand_nested es tail
    /\ (tail_binds tail = true -> binds_all es (tail_built tail) = true ->
        eval t = (Ok (nest_obj es (tail_built tail)), tail_log tail ++ rev_log es (tail_built tail))).
Proof. exact any_grouping_all_tails. Qed.
Print Assumptions C04_any_grouping.

(* shape of that log: n entries; entry i (time order) constructs element n-1-i, positionals are
   the nest of the later elements followed by the element's own arguments *)
Theorem C04_log_shape : forall es p i d, i < length es ->
  length (rev_log es p) = length es
  /\ nth i (rev_log es p) d
     = mkCall (e_ctor (nth (length es - 1 - i) es (mkElem (k_cls d) [] [] false)))
              (AObj (nest_obj (skipn (length es - i) es) p)
               :: map AVal (e_args (nth (length es - 1 - i) es (mkElem (k_cls d) [] [] false))))
              (e_kwargs (nth (length es - 1 - i) es (mkElem (k_cls d) [] [] false))).
Proof. exact log_shape. Qed.
Print Assumptions C04_log_shape.

(* the same for any tail object that is a pool instance or a leaf template of a pool class *)
Theorem C04_any_grouping_tail_object :
  forall (es : list elem) (tail : obj) (t : tree obj),
    es <> [] -> forallb good (tl es) = true -> tail_ok tail ->
    leaves t = map Tmpl es ++ [tail] -> eval t = hand_nested es tail.
Proof. exact any_grouping. Qed.
Print Assumptions C04_any_grouping_tail_object.

(* .s(a0,k0)(a1,k1)...(am,km), all accepted = one template with a0++a1++...++am and k0++...++km *)
Theorem C04_currying_is_concatenation : forall c a0 k0 splits e0 e',
  dot_s c a0 k0 = Ok e0 -> curry_all e0 splits = Ok e' ->
  e' = mkElem c (a0 ++ concat (map fst splits)) (k0 ++ concat (map snd splits)) (s_leaf c).
Proof. exact dot_s_then_curry. Qed.
Print Assumptions C04_currying_is_concatenation.

Theorem C04_currying_is_concatenation_from_any_template : forall splits e e',
  curry_all e splits = Ok e' ->
  e' = mkElem (e_ctor e) (e_args e ++ concat (map fst splits)) (e_kwargs e ++ concat (map snd splits)) (e_leaf e).
Proof. exact currying_is_concatenation. Qed.
Print Assumptions C04_currying_is_concatenation_from_any_template.

(* FULL-STRENGTH STATEMENT (false for the code as it is, see C04_eager_check_exact_refuted):
     forall c leaf a k, wf_names (init_sig c) -> NoDup (keys_of k) -> passes_target a k = false ->
       posonly_kw_quirk ... = false -> (accepted (new_partial c leaf a k) <-> extendable c leaf a k).
   Proved below under exactly the complement of the defect class: inspect reports the signature
   of the __init__ that runs (effective_sig c = init_sig c; true for every class without the
   service wrapper, C04_unwrapped_classes_are_checked).  Soundness (accepted -> some extension
   binds) and completeness (some extension binds -> accepted) are the two directions. *)
Theorem C04_eager_check_exact : forall c leaf a k,
  effective_sig c = init_sig c ->
  wf_names (init_sig c) -> NoDup (keys_of k) -> passes_target a k = false ->
  posonly_kw_quirk (init_sig c) (target_slots leaf + length a) (keys_of k) = false ->
  (accepted (new_partial c leaf a k) <-> extendable c leaf a k).
Proof. exact eager_check_exact. Qed.
Print Assumptions C04_eager_check_exact.

Theorem C04_eager_check_exact_curry : forall e a k,
  effective_sig (e_ctor e) = init_sig (e_ctor e) -> wf_names (init_sig (e_ctor e)) ->
  NoDup (keys_of (e_kwargs e)) -> NoDup (keys_of k) ->
  passes_target (e_args e ++ a) (e_kwargs e ++ k) = false ->
  posonly_kw_quirk (init_sig (e_ctor e)) (target_slots (e_leaf e) + length (e_args e ++ a))
                   (keys_of (e_kwargs e ++ k)) = false ->
  (accepted (curry e a k) <-> extendable (e_ctor e) (e_leaf e) (e_args e ++ a) (e_kwargs e ++ k)).
Proof. exact eager_curry_exact. Qed.
Print Assumptions C04_eager_check_exact_curry.

Theorem C04_unwrapped_classes_are_checked : forall c,
  service_wrapped c = false -> effective_sig c = init_sig c.
Proof. exact unwrapped_effective_sig. Qed.
Print Assumptions C04_unwrapped_classes_are_checked.

(* the binding facts underneath, about inspect's algorithm itself *)
Theorem C04_bind_partial_exact : forall s n keys,
  wf_names s -> NoDup keys -> posonly_kw_quirk s n keys = false ->
  (bind_partial s n keys = true
   <-> exists n' keys', NoDup (keys ++ keys') /\ bind_full s (n + n') (keys ++ keys') = true).
Proof. exact bind_partial_exact. Qed.
Print Assumptions C04_bind_partial_exact.

Theorem C04_bind_partial_closed_form : forall s n keys,
  bind_partial s n keys
  = negb (existsb (fun p => mem (fst p) keys) (unfilled_posonly s n)) && can_bind s n keys.
Proof. exact bind_partial_spec. Qed.
Print Assumptions C04_bind_partial_closed_form.

(* target= or a Pool as first positional: refused at once, for every class and in every call *)
Theorem C04_target_always_rejected : forall c leaf a k,
  passes_target a k = true -> new_partial c leaf a k = Err ETypeError.
Proof. exact target_always_rejected. Qed.
Print Assumptions C04_target_always_rejected.

Theorem C04_target_always_rejected_curry : forall e a k,
  passes_target (e_args e ++ a) (e_kwargs e ++ k) = true -> curry e a k = Err ETypeError.
Proof. exact target_always_rejected_curry. Qed.
Print Assumptions C04_target_always_rejected_curry.

(* KNOWN DEFECT (C04-service-signature-vacuous): for a class wrapped by @service the check is
   vacuous: LinearController.s(foo=0) is accepted, no extension of it can ever bind *)
Theorem C04_eager_check_exact_refuted :
  exists c a k,
    service_wrapped c = true /\ wf_names (init_sig c) /\ NoDup (keys_of k) /\ passes_target a k = false
    /\ posonly_kw_quirk (init_sig c) (target_slots (s_leaf c) + length a) (keys_of k) = false
    /\ accepted (dot_s c a k)
    /\ ~ extendable c (s_leaf c) a k.
Proof. exact eager_check_exact_refuted. Qed.
Print Assumptions C04_eager_check_exact_refuted.

(* KNOWN DEFECT (C04-unbound-stepwise-leaf), masked by the previous one on the unchanged tree *)
Theorem C04_unbound_stepwise_leaf_refuted :
  let c := stepwise_unshadowed in
  let a := [VAtom 900] in
  let k := [(3%N, VAtom 5)] in
  effective_sig c = init_sig c /\ passes_target a k = false
  /\ accepted (new_partial c true a k)
  /\ forall n' keys', call_binds c (1 + length a + n') (keys_of k ++ keys') = false.
Proof. exact unbound_stepwise_leaf_refuted. Qed.
Print Assumptions C04_unbound_stepwise_leaf_refuted.

(* ---- non-vacuity: concrete states meeting the hypotheses ------------------------------------- *)
Definition ex_target : pent := (0%N, false).
(* class D(PoolDecorator): def __init__(self, target, a, b=.., *, c, **kwargs) *)
Definition ex_dec : cls :=
  mkCls 1%N KDecorator [mkLayer false (Some (mkSig [] [ex_target; (3%N, false); (4%N, true)] None [(5%N, false)] (Some 2%N)));
                        mkLayer false (Some (mkSig [] [ex_target] None [] None)); mkLayer false None].
(* class C(Controller): def __init__(self, target, /, rate=.., *rest) *)
Definition ex_ctl : cls :=
  mkCls 2%N KController [mkLayer false (Some (mkSig [ex_target] [(6%N, true)] (Some 1%N) [] None));
                         mkLayer false (Some (mkSig [] [ex_target] None [] None))].
(* class P(Pool): def __init__(self, size) *)
Definition ex_pool : cls := mkCls 3%N KPool [mkLayer false (Some (mkSig [] [(7%N, false)] None [] None)); mkLayer false None].

Definition ex_e1 : elem := mkElem ex_ctl [VAtom 10; VAtom 11] [] false.
Definition ex_e2 : elem := mkElem ex_dec [VAtom 12] [(5%N, VAtom 13); (8%N, VAtom 14)] false.
Definition ex_e3 : elem := mkElem ex_dec [] [(3%N, VAtom 15); (5%N, VAtom 16)] false.

(* a 3-element chain with a curried tail template, grouped as (e1 >> e2) >> (e3 >> tail): all
   hypotheses of C04_any_grouping hold, every constructor binds, 4 constructor calls are logged *)
Example C04_any_grouping_hypotheses_satisfiable :
  let es := [ex_e1; ex_e2; ex_e3] in
  let tf := TCurried ex_pool [] [] [([VAtom 17], [])] in
  exists tail t,
    es <> [] /\ forallb good (tl es) = true /\ tail_class_ok tf /\ tail_obj tf = Ok tail
    /\ leaves t = map Tmpl es ++ [tail]
    /\ tail_binds tail = true /\ binds_all es (tail_built tail) = true
    /\ length (snd (eval t)) = 4.
Proof.
  exists (Tmpl (mkElem ex_pool [VAtom 17] [] true)).
  exists (Node (Node (Leaf (Tmpl ex_e1)) (Leaf (Tmpl ex_e2))) (Node (Leaf (Tmpl ex_e3)) (Leaf (Tmpl (mkElem ex_pool [VAtom 17] [] true))))).
  split; [discriminate|]. split; [reflexivity|]. split; [reflexivity|]. split; [vm_compute; reflexivity|].
  split; [reflexivity|]. split; [reflexivity|]. split; reflexivity.
Qed.

Example C04_currying_hypotheses_satisfiable :
  exists e0 e', dot_s ex_dec [VAtom 12] [(5%N, VAtom 13)] = Ok e0
                /\ curry_all e0 [([], [(8%N, VAtom 14)]); ([VAtom 18], [])] = Ok e'.
Proof. eexists. eexists. split; vm_compute; reflexivity. Qed.

(* both sides of the exactness equivalence occur: an accepted and a refused argument list for a
   class that satisfies every hypothesis *)
Example C04_eager_check_hypotheses_satisfiable :
  effective_sig ex_dec = init_sig ex_dec /\ wf_names (init_sig ex_dec)
  /\ (let k := [(5%N, VAtom 13)] in
      NoDup (keys_of k) /\ passes_target [VAtom 12] k = false
      /\ posonly_kw_quirk (init_sig ex_dec) (target_slots false + 1) (keys_of k) = false
      /\ accepted (new_partial ex_dec false [VAtom 12] k))
  /\ (let a := [VAtom 1; VAtom 2; VAtom 3] in
      passes_target a [] = false /\ posonly_kw_quirk (init_sig ex_dec) (target_slots false + 3) [] = false
      /\ new_partial ex_dec false a [] = Err ETypeError).
Proof.
  split; [reflexivity|]. split.
  { unfold wf_names. cbn. repeat constructor; cbn; intuition discriminate. }
  split.
  - cbv zeta. split; [repeat constructor; cbn; tauto|]. split; [reflexivity|]. split; [reflexivity|].
    eexists. vm_compute. reflexivity.
  - cbv zeta. split; [reflexivity|]. split; reflexivity.
Qed.

Example C04_curry_check_hypotheses_satisfiable :
  let e := mkElem ex_dec [VAtom 12] [(5%N, VAtom 13)] false in
  let k := [(8%N, VAtom 14)] in
  effective_sig (e_ctor e) = init_sig (e_ctor e) /\ NoDup (keys_of (e_kwargs e)) /\ NoDup (keys_of k)
  /\ passes_target (e_args e ++ []) (e_kwargs e ++ k) = false
  /\ accepted (curry e [] k) /\ curry e [] [(5%N, VAtom 1)] = Err ETypeError.
Proof.
  cbv zeta. split; [reflexivity|]. split; [repeat constructor; cbn; tauto|].
  split; [repeat constructor; cbn; tauto|]. split; [reflexivity|]. split; [eexists; vm_compute; reflexivity | reflexivity].
Qed.

Example C04_unwrapped_hypothesis_satisfiable : service_wrapped ex_dec = false /\ service_wrapped linear_controller = true.
Proof. split; reflexivity. Qed.

Example C04_bind_partial_hypotheses_satisfiable :
  let s := init_sig ex_dec in
  wf_names s /\ NoDup [5%N; 9%N] /\ posonly_kw_quirk s 2 [5%N; 9%N] = false /\ bind_partial s 2 [5%N; 9%N] = true
  /\ bind_partial s 4 [] = false /\ bind_partial s 2 [3%N] = false.
Proof.
  cbv zeta. split.
  { unfold wf_names. cbn. repeat constructor; cbn; intuition discriminate. }
  split; [repeat constructor; cbn; intuition discriminate|]. repeat split; reflexivity.
Qed.

Example C04_target_hypotheses_satisfiable :
  passes_target [] [(n_target, VAtom 1)] = true /\ passes_target [VPool 0; VAtom 1] [] = true
  /\ passes_target [VAtom 1; VPool 0] [(5%N, VAtom 1)] = false.
Proof. repeat split; reflexivity. Qed.
