(* C02 — Termination cancels every coroutine payload and finishes its cleanup first. *)
From Coq Require Import List Arith Bool.
From Cobald Require Import model.RT proofs.RTBase proofs.RTProofs.
Import ListNotations.

(* FULL statements (what the property asks), for every runner r:
     C02_settled_at_end    : at AcceptEnd r o (o <> AExclusive) no coroutine payload of r is PRun / PCanc
     C02_no_step_after_end : after AcceptEnd r o no coroutine payload of r performs any activity
   Both are FALSE of the faithful model: when an asyncio or thread payload raises SystemExit, asyncio
   re-raises it out of the event loop at once, accept() raises SystemExit while the trio thread is still
   unwinding, and trio payloads finish their cleanup afterwards (known finding
   C02-systemexit-skips-trio-cleanup; flag r_loopkill in the model).  Proved: the _partial versions, guarded
   by exactly the complement of that class (r_loopkill = false), and the _refuted witnesses. *)
Theorem C02_settled_at_end_partial :
  forall tr s r o s',
    run init tr = Some s -> step s (AcceptEnd r o) = Some s' -> o <> AExclusive ->
    r_loopkill (run_ s r) = false ->
    forall p, p_owner (pay s p) = r -> coroutine (p_flav (pay s p)) = true -> background s p ->
      p_st (pay s p) <> PRun /\ p_st (pay s p) <> PCanc.
Proof. exact C02_settled_at_end. Qed.
Print Assumptions C02_settled_at_end_partial.

Definition ex_sysexit : list event :=
  [AdoptCall Outside 0 0 Aio; AdoptEnd 0 true; AdoptCall Outside 0 2 Trio; AdoptEnd 2 true; AcceptCall 0;
   Start 0 Aio 1 1 0 true; Start 2 Trio 2 2 0 true; RunningSet 0;
   Finish 0 (ORaiseBase sysexit_exc); Cancelled 2; AcceptEnd 0 AOther; CleanStep 2; CleanupDone 2].

Theorem C02_settled_at_end_refuted :
  exists tr s o s' p, run init tr = Some s /\ step s (AcceptEnd 0 o) = Some s' /\ o <> AExclusive
    /\ p_owner (pay s p) = 0 /\ coroutine (p_flav (pay s p)) = true /\ background s p /\ p_st (pay s p) = PCanc.
Proof.
  exists (firstn 10 ex_sysexit). eexists. exists AOther. eexists. exists 2.
  split; [vm_compute; reflexivity|]. split; [vm_compute; reflexivity|]. split; [discriminate|].
  vm_compute. repeat split; reflexivity.
Qed.
Print Assumptions C02_settled_at_end_refuted.

Theorem C02_no_step_after_end_refuted :
  exists tr1 o tr2 s, run init (tr1 ++ [AcceptEnd 0 o] ++ tr2) = Some s /\ In (CleanupDone 2) tr2.
Proof.
  exists (firstn 10 ex_sysexit), AOther, [CleanStep 2; CleanupDone 2]. eexists.
  split; [vm_compute; reflexivity|]. cbn. auto.
Qed.
Print Assumptions C02_no_step_after_end_refuted.

(* THE trace-level statement: at the end of the blocking run call of r, every coroutine payload of r that
   had been started has either finished by itself, or was cancelled and LATER completed its cleanup --
   both strictly before the end (outside the finding class) *)
Theorem C02_cancel_cleanup_before_end_partial :
  forall tr1 r o s p f tid loop other ok,
    run init (tr1 ++ [AcceptEnd r o]) = Some s -> o <> AExclusive ->
    In (Start p f tid loop other ok) tr1 ->
    forall s1, run init tr1 = Some s1 ->
    r_loopkill (run_ s1 r) = false ->
    p_owner (pay s1 p) = r -> coroutine (p_flav (pay s1 p)) = true -> background s1 p ->
    (exists o', In (Finish p o') tr1) \/
    (exists a b, tr1 = a ++ Cancelled p :: b /\ In (CleanupDone p) b).
Proof. exact C02_cancel_cleanup_before_end. Qed.
Print Assumptions C02_cancel_cleanup_before_end_partial.

(* cancellation strictly precedes cleanup: per payload, #Cancelled = #CleanupDone (+1 while cleaning) *)
Theorem C02_cancel_before_cleanup :
  forall tr s, run init tr = Some s -> cleanup_ok s.
Proof.
  intros tr s H. exact (run_inv cleanup_ok cleanup_ok_step tr init s cleanup_ok_init H).
Qed.
Print Assumptions C02_cancel_before_cleanup.

(* no coroutine payload of r performs any activity (start, step, section, finish, cancel, cleanup)
   after the run call of r has ended — for every continuation of the trace (outside the finding class) *)
Theorem C02_no_step_after_end_partial :
  forall tr1 r o tr2 e s1 s2 s3 p,
    run init (tr1 ++ [AcceptEnd r o]) = Some s1 -> r_loopkill (run_ s1 r) = false ->
    run s1 tr2 = Some s2 -> step s2 e = Some s3 ->
    activity e = Some p -> coroutine (p_flav (pay s3 p)) = true -> p_owner (pay s3 p) = r -> False.
Proof. exact C02_no_step_after_end. Qed.
Print Assumptions C02_no_step_after_end_partial.

(* the finding class is exactly: an asyncio/thread background payload of a live runner raised SystemExit *)
Theorem C02_loopkill_only_by_systemexit :
  forall s e s' r, step s e = Some s' -> r_loopkill (run_ s r) = false -> r_loopkill (run_ s' r) = true ->
    exists p, e = Finish p (ORaiseBase sysexit_exc) /\ p_flav (pay s p) <> Trio /\ background s p.
Proof. exact loopkill_only_by_systemexit. Qed.
Print Assumptions C02_loopkill_only_by_systemexit.

(* thread payloads never block termination: a closing runner whose coroutine payloads are settled
   can always end, whatever its thread payloads are doing *)
Theorem C02_threads_never_block :
  forall tr s r c,
    run init tr = Some s -> r_phase (run_ s r) = Closing c -> settled s r = true ->
    exists o s', step s (AcceptEnd r o) = Some s'.
Proof. exact C02_threads_never_block. Qed.
Print Assumptions C02_threads_never_block.

Definition ex_stop : list event :=
  [AdoptCall Outside 0 0 Trio; AdoptEnd 0 true; AdoptCall Outside 0 2 Thr; AdoptEnd 2 true; AcceptCall 0;
   Start 0 Trio 2 1 0 true; Start 2 Thr 3 0 0 true; RunningSet 0; Step 2 3; ShutdownCall Outside 0;
   Cancelled 0; CleanStep 0; CleanupDone 0; ShutdownEnd 0 true; AcceptEnd 0 AReturned; Step 2 3; Quiesce].

Example C02_example_accepted :
  match run init ex_stop with Some s => quiescent s = true /\ p_st (pay s 2) = PRun | None => False end.
Proof. vm_compute. split; reflexivity. Qed.

(* ending before the trio payload finished its cleanup is rejected, a late coroutine step too *)
Example C02_example_early_end_rejected :
  run init (firstn 12 ex_stop ++ [AcceptEnd 0 AReturned]) = None
  /\ run init (firstn 15 ex_stop ++ [CleanStep 0]) = None.
Proof. vm_compute. split; reflexivity. Qed.
