(* C09 — Periodic services act once per interval, for as long as they run.
   Property theorems only; every one is closed by `exact` of a lemma in proofs/ServicesProofs.v and
   followed by Print Assumptions.  Model: model/Services.v (timed semantics of the six run() loops
   merged with timed environment actions; exact rational time) on top of model/Controllers.v.
   `before` (the order of an environment action and a wake-up at exactly the same time) and `sem`
   (what rules / slave controllers decide) are universally quantified everywhere. *)
From Coq Require Import ZArith QArith Qabs List.
From Cobald Require Import kit.QKit model.Controllers model.Services proofs.ControllersProofs proofs.ServicesProofs.
Import ListNotations.
Open Scope Q_scope.

(* the wake-ups simulated up to time T (nwakes T = floor((T - t0) / period) + 1 of them for T >= t0)
   are exactly the times t0 + k*period that are <= T *)
Theorem C09_wakes_up_to : forall t0 period, 0 < period ->
  forall T k, (k < nwakes t0 period T)%nat <-> wake_time t0 period k <= T.
Proof. exact nwakes_spec. Qed.
Print Assumptions C09_wakes_up_to.

(* all four controllers, as their constructors build them: run as a service from t0, for any
   duration T and any timed environment, run() does not raise (Stepwise: on supplies >= 0) and
   performs exactly one regulation step at each of t0, t0 + interval, t0 + 2*interval, ... <= T *)
Theorem C09_one_step_per_interval : forall sem c t0 before T p env,
  built c -> 0 < ctrl_interval c -> ctrl_inv c p -> env_all_ok (ctrl_env_ok c) env ->
  let r := ctrl_timeline sem c t0 before T p env in
  r_out r = Running
  /\ map fst (r_log r) = map (wake_time t0 (ctrl_interval c)) (seq 0 (nwakes t0 (ctrl_interval c) T)).
Proof. exact ctrl_periodic. Qed.
Print Assumptions C09_one_step_per_interval.

(* the step at t0 happens immediately: it is regulate(interval) on the pool as the environment left
   it before t0 *)
Theorem C09_first_step_immediately : forall sem c t0 before n p env,
  let rdy := fst (split_while (ready before (wake_time t0 (ctrl_interval c) 0)) env) in
  let p0 := apply_all penv_apply rdy p in
  forall p1 ef, regulate sem c p0 (ctrl_interval c) = Ok (p1, ef) ->
  exists rest, r_log (wakes penv_apply (ctrl_act sem c) t0 (ctrl_interval c) before (S n) 0 p env)
               = (wake_time t0 (ctrl_interval c) 0, ef) :: rest.
Proof. exact ctrl_first_step. Qed.
Print Assumptions C09_first_step_immediately.

(* LinearController: over any time span [a, b] demand changes by at most rate * ((b - a) + interval),
   whatever the pool's utilisation / allocation do meanwhile (nobody else writing the demand) *)
Theorem C09_linear_rate_bound : forall sem low high rate itv c,
  linear_init low high rate itv = Ok c ->
  forall t0 before, 0 < l_interval c ->
  forall a b p env, a <= b -> env_all_ok no_demand_write env ->
  Qabs (demand_at sem c t0 before b p env - demand_at sem c t0 before a p env)
  <= l_rate c * ((b - a) + l_interval c).
Proof. exact linear_rate_bound. Qed.
Print Assumptions C09_linear_rate_bound.

(* Buffer: acts at every window boundary t0 + k*window <= T and never raises ... *)
Theorem C09_buffer_periodic : forall window t0 before T p env,
  let r := buffer_timeline window t0 before T p env in
  r_out r = Running /\ map fst (r_log r) = map (wake_time t0 window) (seq 0 (nwakes t0 window T)).
Proof. exact buffer_periodic. Qed.
Print Assumptions C09_buffer_periodic.

(* ... forwards nothing to its target at any other time ... *)
Theorem C09_buffer_writes_only_at_boundaries : forall window t0 before, 0 < window ->
  forall T p env t ef, In (t, ef) (r_log (buffer_timeline window t0 before T p env)) ->
  exists k, t = wake_time t0 window k /\ wake_time t0 window k <= T.
Proof. exact buffer_log_only_at_boundaries. Qed.
Print Assumptions C09_buffer_writes_only_at_boundaries.

(* ... and right after every boundary k the target's demand is the value most recently written to
   the buffer before the boundary (initial demand if none), for every time-ordered write history *)
Theorem C09_buffer_boundary : forall window t0 before, 0 < window ->
  forall k p env, ordered env ->
  let r := wakes benv_apply buffer_act t0 window before (S k) 0 (buffer_init p) env in
  r_out r = Running
  /\ p_demand (b_target (r_world r)) == last_bwrite (filter (ready before (wake_time t0 window k)) env) (p_demand p)
  /\ b_demand (r_world r) = last_bwrite (filter (ready before (wake_time t0 window k)) env) (p_demand p).
Proof. exact buffer_boundary. Qed.
Print Assumptions C09_buffer_boundary.

(* FactoryPool: adjusts at t0 + (k+1)*interval <= T, once each, not at t0; never raises *)
Theorem C09_factory_period : forall q interval t0 before T w env,
  let r := factory_timeline q interval t0 before T w env in
  r_out r = Running
  /\ map fst (r_log r) = map (wake_time t0 interval) (seq 1 (nwakes t0 interval T - 1)).
Proof. exact factory_periodic. Qed.
Print Assumptions C09_factory_period.

(* one adjustment spawns the least number of children covering the missing demand *)
Theorem C09_factory_spawn_covers : forall q, 0 < q -> forall missing, 0 < missing ->
  let n := inject_Z (Z.of_nat (spawn_count q missing)) in
  missing <= n * q /\ (n - 1) * q < missing.
Proof. exact spawn_count_covers. Qed.
Print Assumptions C09_factory_spawn_covers.

(* ---- non-vacuity ---- *)
Example C09_controllers_satisfiable :
  exists cl cs sw,
    linear_init (1#2) (1#2) 1 (1#8) = Ok cl /\ stepwise_init 0 [(100, 2%nat); (10, 1%nat)] (1#2) = Ok cs
    /\ switch_init [TNone; TSame; TNone] 0 [SNum 20; SCtl 2; SNum 10; SCtl 1] 1 = Ok sw
    /\ built (CLinear cl) /\ built (CStepwise cs) /\ built (CSwitch sw)
    /\ 0 < ctrl_interval (CLinear cl) /\ 0 < ctrl_interval (CStepwise cs)
    /\ ctrl_inv (CStepwise cs) (mkPool 10 3 (1#4) (3#4))
    /\ env_all_ok (ctrl_env_ok (CStepwise cs)) [mkEact (1#2) 0%nat (PState 100 (1#4) (3#4))]
    /\ env_all_ok no_demand_write [mkEact 2 0%nat (PState 10 (1#4) (1#4))].
Proof.
  eexists; eexists; eexists. split; [reflexivity|]. split; [reflexivity|]. split; [reflexivity|].
  split; [apply (built_linear (1#2) (1#2) 1 (1#8)); reflexivity|].
  split; [apply (built_stepwise 0%nat [(100, 2%nat); (10, 1%nat)] (1#2)); reflexivity|].
  split; [apply (built_switch [TNone; TSame; TNone] 0%nat [SNum 20; SCtl 2; SNum 10; SCtl 1] 1); reflexivity|]. split; [reflexivity|]. split; [reflexivity|].
  split; [cbn; unfold nonneg_supply; cbn; discriminate|].
  split; repeat constructor; cbn; discriminate.
Qed.

(* a linear controller over 3 periods with a state change exactly on a boundary: both tie orders *)
Example C09_linear_timeline_example :
  let c := mkLinear (1#2) (1#2) 1 1 in
  let env := [mkEact 2 0%nat (PState 10 (3#4) (3#4))] in
  let run b := r_log (ctrl_timeline (fun _ _ _ => None) (CLinear c) 0 (fun _ => b) (13#4) (mkPool 10 5 (1#4) (3#4)) env) in
  map fst (run true) = [0; 1; 2; 3]
  /\ map snd (run true) = [[EWrite (5 - 1 * 1)]; [EWrite (5 - 1 * 1 - 1 * 1)]; [EWrite (5 - 1 * 1 - 1 * 1 + 1 * 1)]; [EWrite (5 - 1 * 1 - 1 * 1 + 1 * 1 + 1 * 1)]]
  /\ map snd (run false) = [[EWrite (5 - 1 * 1)]; [EWrite (5 - 1 * 1 - 1 * 1)]; [EWrite (5 - 1 * 1 - 1 * 1 - 1 * 1)]; [EWrite (5 - 1 * 1 - 1 * 1 - 1 * 1 + 1 * 1)]].
Proof. cbv zeta. split; [reflexivity|]. split; reflexivity. Qed.

(* a write history for the Buffer: ordered, with two writes inside one window and one on a boundary *)
Example C09_buffer_satisfiable :
  let env := [mkEact 1 0%nat (BWrite 7); mkEact 1 0%nat (BWrite 8); mkEact 10 0%nat (BWrite 11); mkEact 15 0%nat (BWrite 9)] in
  ordered env /\ 0 < 10
  /\ last_bwrite (filter (ready (fun _ => false) (wake_time 0 10 1)) env) 5 = 8
  /\ last_bwrite (filter (ready (fun _ => true) (wake_time 0 10 1)) env) 5 = 11
  /\ map snd (r_log (buffer_timeline 10 0 (fun _ => false) 25 (mkPool 0 5 0 0) env)) = [[]; [EWrite 8]; [EWrite 9]].
Proof.
  cbv zeta. split.
  - repeat constructor; unfold eact_order; cbn; try (left; reflexivity); right; split; reflexivity.
  - split; [reflexivity|]. split; [reflexivity|]. split; reflexivity.
Qed.

Example C09_factory_example :
  map (fun r => (fst r, length (snd r)))
      (r_log (factory_timeline 2 1 0 (fun _ => true) (13#4) (mkFworld 2 2) [mkEact (1#2) 0%nat (FDemand 7); mkEact 2 0%nat (FDemand 12)]))
  = [(1, 3%nat); (2, 2%nat); (3, 0%nat)]
  /\ 0 < 2 /\ 0 < 7 - 2.
Proof. split; [vm_compute; reflexivity|]. split; reflexivity. Qed.
