(* C10 — execute hands the payload's outcome to the caller and leaves the runtime alone. *)
From Coq Require Import List Arith Bool.
From Cobald Require Import model.RT proofs.RTBase proofs.RTProofs.
Import ListNotations.

(* FULL statement (what the property asks): the caller sees the payload's own outcome, the very object:
     step s (ExecEnd p o same) = Some s' -> p_st (pay s p) = PDone o /\ same = true.
   It is false for the faithful model: asyncio re-creates TimeoutError while chaining futures
   (known finding C10-asyncio-timeouterror-copied).  Proved: the _partial below (the only exception is
   exactly that class) and the _refuted witness. *)
Theorem C10_outcome_partial :
  forall s p o same s',
    step s (ExecEnd p o same) = Some s' ->
    p_st (pay s p) = PDone o /\ is_exec (p_origin (pay s p)) = true /\
    (same = true \/ (p_flav (pay s p) = Aio /\ o = ORaiseExc aio_copied_exc)).
Proof. exact C10_outcome. Qed.
Print Assumptions C10_outcome_partial.

Theorem C10_outcome_refuted :
  exists tr s, run init tr = Some s /\ In (ExecEnd 2 (ORaiseExc aio_copied_exc) false) tr.
Proof.
  exists [AcceptCall 0; RunningSet 0; ExecCall Outside 5 0 2 Aio; Start 2 Aio 1 1 0 true;
          Finish 2 (ORaiseExc aio_copied_exc); ExecEnd 2 (ORaiseExc aio_copied_exc) false].
  eexists. split; [vm_compute; reflexivity|]. cbn. auto 10.
Qed.
Print Assumptions C10_outcome_refuted.

(* frame: neither the call, nor the payload's end (whatever it returns or raises), nor handing the
   result back touches any runner record (failure slots, phase), the guard, or any other payload *)
Theorem C10_frame_call :
  forall s c tid r p f s', step s (ExecCall c tid r p f) = Some s' ->
    run_ s' = run_ s /\ guard s' = guard s /\ forall q, q <> p -> pay s' q = pay s q.
Proof. exact C10_frame_call. Qed.
Print Assumptions C10_frame_call.

Theorem C10_frame_finish :
  forall s p o s', step s (Finish p o) = Some s' -> is_exec (p_origin (pay s p)) = true ->
    run_ s' = run_ s /\ guard s' = guard s /\ forall q, q <> p -> pay s' q = pay s q.
Proof. exact C10_frame_finish. Qed.
Print Assumptions C10_frame_finish.

Theorem C10_frame_end :
  forall s p o same s', step s (ExecEnd p o same) = Some s' ->
    run_ s' = run_ s /\ guard s' = guard s /\ forall q, q <> p -> pay s' q = pay s q.
Proof. exact C10_frame_end. Qed.
Print Assumptions C10_frame_end.

(* the executed payload runs exactly once (at most once: C03; it has run: it is PDone at ExecEnd) *)
Theorem C10_runs_once : forall tr s p, run init tr = Some s -> nstarts p tr <= 1.
Proof. exact C03_at_most_once. Qed.
Print Assumptions C10_runs_once.

Definition ex_exec : list event :=
  [AdoptCall Outside 0 0 Trio; AdoptEnd 0 true; AcceptCall 0; Start 0 Trio 2 1 0 true; RunningSet 0;
   ExecCall Outside 5 0 2 Aio; Start 2 Aio 1 2 0 true; Finish 2 (ORaiseExc 3); ExecEnd 2 (ORaiseExc 3) true;
   ExecCall (InPayload 0) 2 0 4 Thr; Start 4 Thr 2 1 0 true; Finish 4 (ORetVal 0); ExecEnd 4 (ORetVal 0) true;
   Step 0 2; Quiesce].

Example C10_example_accepted :
  match run init ex_exec with
  | Some s => r_phase (run_ s 0) = Up /\ r_failures (run_ s 0) = [] /\ p_st (pay s 0) = PRun /\ quiescent s = true
  | None => False
  end.
Proof. vm_compute. repeat split; reflexivity. Qed.
