(* C10 — execute hands the payload's outcome to the caller and leaves the runtime alone. *)
From Coq Require Import List Arith Bool.
From Cobald Require Import model.RT proofs.RTBase proofs.RTProofs.
Import ListNotations.

(* the caller sees the payload's own outcome, the very object, in every flavour (full strength since /repo hands
   exceptions over as plain results in AsyncioRunner.run_payload; before that asyncio re-created TimeoutError while
   chaining futures and the stdlib future treated a falsy exception as "no exception": fixed findings
   C10-asyncio-timeouterror-copied and C10-asyncio-falsy-exception-swallowed) *)
Theorem C10_outcome :
  forall s p o same s',
    step s (ExecEnd p o same) = Some s' ->
    p_st (pay s p) = PDone o /\ is_exec (p_origin (pay s p)) = true /\ same = true.
Proof. exact C10_outcome. Qed.
Print Assumptions C10_outcome.

(* a look-alike is rejected: the model no longer admits the copy it once had to *)
Example C10_copy_rejected :
  run init [AcceptCall 0; RunningSet 0; ExecCall Outside 5 0 2 Aio; Start 2 Aio 1 1 0 true;
            Finish 2 (ORaiseExc 11); ExecEnd 2 (ORaiseExc 11) false] = None
  /\ run init [AcceptCall 0; RunningSet 0; ExecCall Outside 5 0 2 Aio; Start 2 Aio 1 1 0 true;
               Finish 2 (ORaiseExc 11); ExecEnd 2 (ORaiseExc 11) true] <> None.
Proof. vm_compute. split; [reflexivity|discriminate]. Qed.

(* frame: neither the call, nor the payload's end (whatever it returns or raises), nor handing the
   result back touches any runner record (failure slots, phase), the guard, or any other payload *)
Theorem C10_frame_call :
  forall s c tid r p f s', step s (ExecCall c tid r p f) = Some s' ->
    run_ s' = run_ s /\ guard s' = guard s /\ forall q, q <> p -> pay s' q = pay s q.
Proof. exact C10_frame_call. Qed.
Print Assumptions C10_frame_call.

Theorem C10_frame_finish :
  forall s p o s', step s (Finish p o) = Some s' -> is_exec (p_origin (pay s p)) = true ->
    run_ s' = run_ s /\ guard s' = guard s /\ forall q, q <> p -> pay s' q = pay s q.
Proof. exact C10_frame_finish. Qed.
Print Assumptions C10_frame_finish.

Theorem C10_frame_end :
  forall s p o same s', step s (ExecEnd p o same) = Some s' ->
    run_ s' = run_ s /\ guard s' = guard s /\ forall q, q <> p -> pay s' q = pay s q.
Proof. exact C10_frame_end. Qed.
Print Assumptions C10_frame_end.

(* the executed payload runs exactly once (at most once: C03; it has run: it is PDone at ExecEnd) *)
Theorem C10_runs_once : forall tr s p, run init tr = Some s -> nstarts p tr <= 1.
Proof. exact C03_at_most_once. Qed.
Print Assumptions C10_runs_once.

Definition ex_exec : list event :=
  [AdoptCall Outside 0 0 Trio; AdoptEnd 0 true; AcceptCall 0; Start 0 Trio 2 1 0 true; RunningSet 0;
   ExecCall Outside 5 0 2 Aio; Start 2 Aio 1 2 0 true; Finish 2 (ORaiseExc 3); ExecEnd 2 (ORaiseExc 3) true;
   ExecCall (InPayload 0) 2 0 4 Thr; Start 4 Thr 2 1 0 true; Finish 4 (ORetVal 0); ExecEnd 4 (ORetVal 0) true;
   Step 0 2; Quiesce].

Example C10_example_accepted :
  match run init ex_exec with
  | Some s => r_phase (run_ s 0) = Up /\ r_failures (run_ s 0) = [] /\ p_st (pay s 0) = PRun /\ quiescent s = true
  | None => False
  end.
Proof. vm_compute. repeat split; reflexivity. Qed.
