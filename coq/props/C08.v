(* C08 — Controllers move demand only in the documented direction and amount.
   Property theorems only; every one is closed by `exact` of a lemma in proofs/ControllersProofs.v
   and followed by Print Assumptions.  Model: model/Controllers.v (exact rationals).
   `sem` (what rule / slave controller number i decides) is universally quantified everywhere. *)
From Coq Require Import ZArith QArith Qabs List Permutation.
From Cobald Require Import kit.QKit model.Controllers proofs.ControllersProofs.
Import ListNotations.
Open Scope Q_scope.

(* ---- LinearController ---- *)
(* constructor: accepted exactly for rate > 0 and low_utilisation <= high_allocation *)
Theorem C08_linear_constructor : forall low high rate itv c,
  linear_init low high rate itv = Ok c <-> (0 < rate /\ low <= high /\ c = mkLinear low high rate itv).
Proof. exact linear_init_ok. Qed.
Print Assumptions C08_linear_constructor.

Theorem C08_linear_constructor_rejects : forall low high rate itv,
  linear_init low high rate itv = Err ERejected <-> (rate <= 0 \/ high < low).
Proof. exact linear_init_rejects. Qed.
Print Assumptions C08_linear_constructor_rejects.

(* one step, any pool state, any interval >= 0: |change| <= rate*interval; down only below
   low_utilisation; up only above high_allocation; exact amounts; nothing written (and the pool
   untouched) when neither holds; supply / utilisation / allocation never touched *)
Theorem C08_linear : forall sem low high rate itv0 c p itv,
  linear_init low high rate itv0 = Ok c -> 0 <= itv ->
  exists p' ef, regulate sem (CLinear c) p itv = Ok (p', ef) /\
    let d := p_demand p in let d' := p_demand p' in
    Qabs (d' - d) <= l_rate c * itv
    /\ (d' < d -> p_util p < l_low c)
    /\ (d < d' -> l_high c < p_alloc p)
    /\ (p_util p < l_low c -> d' == d - l_rate c * itv /\ ef = [EWrite (p_demand p')])
    /\ (~ p_util p < l_low c -> l_high c < p_alloc p -> d' == d + l_rate c * itv /\ ef = [EWrite (p_demand p')])
    /\ (~ p_util p < l_low c -> ~ l_high c < p_alloc p -> p' = p /\ ef = [])
    /\ p_supply p' = p_supply p /\ p_util p' = p_util p /\ p_alloc p' = p_alloc p.
Proof. exact linear_step. Qed.
Print Assumptions C08_linear.

(* ---- RelativeSupplyController ---- *)
Theorem C08_relative_constructor : forall low high ls hs itv c,
  relative_init low high ls hs itv = Ok c <->
  (low <= high /\ ls < 1 /\ 1 < hs /\ c = mkRelative low high ls hs itv).
Proof. exact relative_init_ok. Qed.
Print Assumptions C08_relative_constructor.

Theorem C08_relative_constructor_rejects : forall low high ls hs itv,
  relative_init low high ls hs itv = Err ERejected <-> (high < low \/ 1 <= ls \/ hs <= 1).
Proof. exact relative_init_rejects. Qed.
Print Assumptions C08_relative_constructor_rejects.

Theorem C08_relative : forall sem c p itv,
  exists p' ef, regulate sem (CRelative c) p itv = Ok (p', ef) /\
    ef = [EWrite (p_demand p')]
    /\ (p_util p < r_low c -> p_demand p' == p_supply p * r_low_scale c)
    /\ (~ p_util p < r_low c -> r_high c < p_alloc p -> p_demand p' == p_supply p * r_high_scale c)
    /\ (~ p_util p < r_low c -> ~ r_high c < p_alloc p -> p_demand p' == p_supply p)
    /\ p_supply p' = p_supply p /\ p_util p' = p_util p /\ p_alloc p' = p_alloc p.
Proof. exact relative_step. Qed.
Print Assumptions C08_relative.

Theorem C08_relative_direction : forall low high ls hs itv c sem p i p' ef,
  relative_init low high ls hs itv = Ok c -> 0 <= p_supply p ->
  regulate sem (CRelative c) p i = Ok (p', ef) ->
  (p_util p < r_low c -> p_demand p' <= p_supply p)
  /\ (~ p_util p < r_low c -> p_supply p <= p_demand p').
Proof. exact relative_direction. Qed.
Print Assumptions C08_relative_direction.

(* ---- the independent selection spec ---- *)
(* greatest_le is characterised declaratively: r is attached to a threshold t <= s that is
   >= every other threshold <= s (when equal thresholds carry equal objects) ... *)
Theorem C08_greatest_le_spec : forall l s r, consistent l ->
  (greatest_le l s = Some r <->
   exists t, In (t, r) l /\ t <= s /\ forall t' r', In (t', r') l -> t' <= s -> t' <= t).
Proof. exact greatest_le_iff. Qed.
Print Assumptions C08_greatest_le_spec.

Theorem C08_greatest_le_none : forall l s,
  greatest_le l s = None <-> (forall t r, In (t, r) l -> s < t).
Proof. exact greatest_le_none. Qed.
Print Assumptions C08_greatest_le_none.

(* ... and does not depend on the declaration order *)
Theorem C08_greatest_le_any_order : forall l l' s,
  consistent l -> Permutation l l' -> greatest_le l s = greatest_le l' s.
Proof. exact greatest_le_perm. Qed.
Print Assumptions C08_greatest_le_any_order.

(* ---- Stepwise / RangeSelector ---- *)
(* the code's range scan over the sorted table = greatest threshold <= supply, else base;
   rules given in any declaration order *)
Theorem C08_stepwise_selects : forall base rules lk s,
  compile_lookup base rules = Ok lk -> 0 <= s ->
  get_rule lk s = Some (match greatest_le rules s with Some r => r | None => base end).
Proof. exact stepwise_selects. Qed.
Print Assumptions C08_stepwise_selects.

(* every finite supply, negative ones included: below 0 and below every threshold there is no rule *)
Theorem C08_stepwise_selects_any_supply : forall base rules lk s,
  compile_lookup base rules = Ok lk ->
  get_rule lk s =
  match greatest_le rules s with Some r => Some r | None => if Qle_bool 0 s then Some base else None end.
Proof. exact get_rule_compiled. Qed.
Print Assumptions C08_stepwise_selects_any_supply.

Theorem C08_stepwise_constructor_accepts : forall base rules,
  (forall e, In e rules -> 0 < fst e) -> distinct_thresholds rules ->
  exists lk, compile_lookup base rules = Ok lk.
Proof. exact compile_accepts. Qed.
Print Assumptions C08_stepwise_constructor_accepts.

Theorem C08_stepwise_constructor_rejects_duplicates : forall base rules lk,
  compile_lookup base rules = Ok lk -> distinct_thresholds rules.
Proof. exact compile_rejects_duplicates. Qed.
Print Assumptions C08_stepwise_constructor_rejects_duplicates.

Theorem C08_stepwise_constructor_total : forall base rules,
  (exists lk, compile_lookup base rules = Ok lk) \/ compile_lookup base rules = Err ERejected.
Proof. exact compile_lookup_total. Qed.
Print Assumptions C08_stepwise_constructor_total.

(* one loop body: exactly one rule call — the selected rule, on the target, with the controller's
   interval — then one demand write iff the rule returned a value; on None the pool is unchanged *)
Theorem C08_stepwise_one_call : forall sem base rules itv c p i,
  stepwise_init base rules itv = Ok c -> 0 <= p_supply p ->
  let sel := match greatest_le rules (p_supply p) with Some r => r | None => base end in
  regulate sem (CStepwise c) p i =
    Ok (match sem sel p itv with Some d => set_demand p d | None => p end,
        ECallRule sel true itv :: match sem sel p itv with Some d => [EWrite d] | None => [] end).
Proof. exact stepwise_step. Qed.
Print Assumptions C08_stepwise_one_call.

(* outside the domain (supply < 0 and below every threshold) the body raises; nothing is written *)
Theorem C08_stepwise_no_range : forall sem base rules itv c p,
  stepwise_init base rules itv = Ok c -> p_supply p < 0 -> none_le rules (p_supply p) ->
  stepwise_body sem c p = Err ENoRule.
Proof. exact stepwise_body_no_rule. Qed.
Print Assumptions C08_stepwise_no_range.

(* ---- DemandSwitch ---- *)
Theorem C08_switch_constructor : forall tags default items itv,
  (exists sw, switch_init tags default items itv = Ok sw) <->
  (exists es, slave_table items = Some es /\ consistent es
     /\ forall c, In c (default :: map snd es) -> tag_of tags c <> TOther).
Proof. exact switch_constructor. Qed.
Print Assumptions C08_switch_constructor.

Theorem C08_switch_constructor_total : forall tags default items itv,
  (exists sw, switch_init tags default items itv = Ok sw) \/ switch_init tags default items itv = Err ERejected.
Proof. exact switch_init_total. Qed.
Print Assumptions C08_switch_constructor_total.

(* after construction the default and every slave act on the switch's target (other controllers
   are not touched); every step delegates to exactly one controller: the one with the greatest
   threshold <= the current demand among the declared pairs (any order), else the default; it is
   called once with the step's interval and acts on the switch's target *)
Theorem C08_switch_delegates : forall sem tags default items itv0 sw,
  switch_init tags default items itv0 = Ok sw ->
  exists es, slave_table items = Some es
    /\ (forall c, In c (default :: map snd es) -> tag_of (s_tags sw) c = TSame)
    /\ (forall c, ~ In c (default :: map snd es) -> tag_of (s_tags sw) c = tag_of tags c)
    /\ forall p itv,
         let sel := match greatest_le es (p_demand p) with Some c => c | None => default end in
         regulate sem (CSwitch sw) p itv =
           Ok (match sem sel p itv with Some d => set_demand p d | None => p end,
               ECallReg sel true itv :: match sem sel p itv with Some d => [EWrite d] | None => [] end).
Proof. exact switch_step. Qed.
Print Assumptions C08_switch_delegates.

(* ---- sequences ---- *)
(* any history of regulation steps (intervals >= 0) and pool state changes: the total change of
   demand is bounded by rate * (sum of the intervals) *)
Theorem C08_sequences : forall sem low high rate itv0 c ops p,
  linear_init low high rate itv0 = Ok c -> nonneg_itvs ops -> no_outside_write ops ->
  exists p' ef, run sem (CLinear c) p ops = Ok (p', ef)
    /\ Qabs (p_demand p' - p_demand p) <= l_rate c * sum_itv ops.
Proof. exact linear_sequence. Qed.
Print Assumptions C08_sequences.

(* any history, any controller: rule / slave calls = one per regulation step for Stepwise and
   DemandSwitch (none for the other two); at most one demand write per regulation step *)
Theorem C08_one_call_per_step_in_histories : forall sem c ops p p' ef,
  run sem c p ops = Ok (p', ef) ->
  length (filter is_call ef) = (calls_per_step c * count_regs ops)%nat
  /\ (length (filter is_write ef) <= count_regs ops)%nat.
Proof. exact history_counts. Qed.
Print Assumptions C08_one_call_per_step_in_histories.

Theorem C08_idle_between_steps : forall sem c p o p' ef,
  (forall i, o <> OReg i) -> step sem c p o = Ok (p', ef) -> ef = [].
Proof. exact env_steps_silent. Qed.
Print Assumptions C08_idle_between_steps.

(* ---- non-vacuity: concrete states meeting the hypotheses ---- *)
Example C08_linear_satisfiable :
  exists c, linear_init (1#2) (1#2) (7#3) 1 = Ok c
  /\ 0 <= 10 /\ p_util (mkPool 10 5 (1#4) (3#4)) < l_low c
  /\ regulate (fun _ _ _ => None) (CLinear c) (mkPool 10 5 (1#4) (3#4)) 10
     = Ok (mkPool 10 (5 - 10 * (7#3)) (1#4) (3#4), [EWrite (5 - 10 * (7#3))])
  /\ nonneg_itvs [OReg 1; OState 1 1 1; OReg 3] /\ no_outside_write [OReg 1; OState 1 1 1; OReg 3].
Proof.
  eexists. split; [reflexivity|]. cbn [l_low p_util]. split; [discriminate|]. split; [reflexivity|].
  split; [reflexivity|]. split.
  - intros i [H|[H|[H|[]]]]; inversion H; discriminate.
  - intros d [H|[H|[H|[]]]]; discriminate.
Qed.

Example C08_relative_satisfiable :
  exists c, relative_init (1#2) (1#2) (9#10) (11#10) 1 = Ok c /\ 0 <= p_supply (mkPool 10 5 (1#4) (3#4)).
Proof. eexists. split; [reflexivity|]. discriminate. Qed.

(* documented example: base, supply=10, supply=100 — declared in reverse order *)
Example C08_stepwise_satisfiable :
  let rules := [(100, 2%nat); (10, 1%nat)] in
  (forall e, In e rules -> 0 < fst e) /\ distinct_thresholds rules /\ consistent rules
  /\ exists c, stepwise_init 0 rules 1 = Ok c
     /\ map (get_rule (sw_lookup c)) [0; 10 - (1#1024); 10; 99; 100; 5000]
        = [Some 0; Some 0; Some 1; Some 1; Some 2; Some 2]%nat
     /\ greatest_le rules 10 = Some 1%nat /\ greatest_le rules 9 = None
     /\ none_le rules (-1) /\ stepwise_body (fun _ _ _ => None) c (mkPool (-1) 0 0 0) = Err ENoRule.
Proof.
  cbv zeta. split; [intros e [<-|[<-|[]]]; reflexivity|].
  assert (D : distinct_thresholds [(100, 2%nat); (10, 1%nat)]).
  { repeat constructor; intros H; inversion H as [? ? E|? ? E]; subst; try inversion E; try discriminate. }
  split; [exact D|]. split; [apply nodup_consistent; exact D|].
  eexists. split; [reflexivity|]. split; [reflexivity|]. split; [reflexivity|]. split; [reflexivity|].
  split; [intros t r [H|[H|[]]]; injection H as <- <-; reflexivity|reflexivity].
Qed.

(* documented example: DemandSwitch(pool, linear_control, 10, supply_control), plus a second pair
   declared out of order; controller 3 is not part of the switch *)
Example C08_switch_satisfiable :
  let items := [SNum 20; SCtl 2; SNum 10; SCtl 1] in
  let tags := [TNone; TSame; TNone; TNone] in
  slave_table items = Some [(20, 2%nat); (10, 1%nat)]
  /\ consistent [(20, 2%nat); (10, 1%nat)]
  /\ exists sw, switch_init tags 0 items 1 = Ok sw
     /\ s_tags sw = [TSame; TSame; TSame; TNone]
     /\ map (fun d => choose (s_default sw) (s_slaves sw) d) [0; 10 - (1#1024); 10; 20; 21] = [0; 0; 1; 2; 2]%nat.
Proof.
  cbv zeta. split; [reflexivity|]. split.
  - apply has_conflict_iff. reflexivity.
  - eexists. split; [reflexivity|]. split; reflexivity.
Qed.
