(* C07 — translator tie: gen/Gen_composite.v is regenerated from src/cobald/composite/{weighted,uniform}.py
   on every run; the generated kernels are the reference model the property theorems (props/C07.v) are about. *)
From Coq Require Import ZArith QArith List Bool.
From Cobald Require Import kit.QKit model.Composite gen.Gen_composite proofs.CompositeTie.
Open Scope Q_scope.

Theorem C07_tie_weighted_setter : forall w st D,
  ckind st = Weighted w -> gen_w_demand_set w st D = step st (SetDemand D).
Proof. exact gen_w_demand_set_ok. Qed.
Print Assumptions C07_tie_weighted_setter.

Theorem C07_tie_uniform_setter : forall st D,
  ckind st = Uniform -> gen_u_demand_set st D = step st (SetDemand D).
Proof. exact gen_u_demand_set_ok. Qed.
Print Assumptions C07_tie_uniform_setter.

Theorem C07_tie_weighted_readers : forall w st,
  gen_w_demand_get w st = cdemand st /\ gen_w_supply w st = supply (cchildren st)
  /\ gen_w_utilisation w st = utilisation (Weighted w) (cchildren st)
  /\ gen_w_allocation w st = allocation (Weighted w) (cchildren st)
  /\ gen_w_total_weight w st = total w (cchildren st)
  /\ gen_w_undefined_fitness w st = undefined_fitness (cchildren st).
Proof. exact gen_w_readers_ok. Qed.
Print Assumptions C07_tie_weighted_readers.

Theorem C07_tie_uniform_readers : forall st,
  gen_u_demand_get st = cdemand st /\ gen_u_supply st = supply (cchildren st)
  /\ gen_u_utilisation st = utilisation Uniform (cchildren st)
  /\ gen_u_allocation st = allocation Uniform (cchildren st).
Proof. exact gen_u_readers_ok. Qed.
Print Assumptions C07_tie_uniform_readers.
