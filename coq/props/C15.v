(* C15 — FactoryPool spawns and releases just enough children.
   Property theorems only; every one is closed by `exact` of a lemma in proofs/FactoryProofs.v and
   followed by Print Assumptions.  Model: model/Factory.v (exact rationals).

   Vocabulary (FactoryProofs.v): `hdem st` = sum of the active (hatchery) children's demands,
   `mdem st` the same over the mortuary, `cdem st` over all children; `fdem factory n k` = sum of the
   demands of the factory's products number n .. n+k-1; `Inv st` = hatchery and mortuary are
   duplicate free and disjoint and hold only existing children; `MortZero st` = every released
   child has demand 0; `polite ... ops` = no released child sets its own demand again in `ops`. *)
From Coq Require Import ZArith QArith List Bool Arith Lia Lqa.
From Cobald Require Import kit.QKit kit.SetKit model.Factory proofs.FactoryProofs.
Import ListNotations.
Open Scope Q_scope.

(* when an adjustment grows the pool: the active demand covers the request, and would not
   without the child spawned last *)
Theorem C15_grow_just_enough : forall factory fuel ord st st',
  Inv st -> MortZero st -> (forall x, In x (hatchery st) -> 0 <= dem st x) ->
  adjust factory fuel ord st = Done st' -> (ncalls st < ncalls st')%nat ->
  let last := (length (store st') - 1)%nat in
  demand st <= hdem st'
  /\ In last (hatchery st') /\ dem st' last = c_demand (factory (ncalls st' - 1)%nat)
  /\ hdem st' - dem st' last < demand st.
Proof. exact grow_just_enough. Qed.
Print Assumptions C15_grow_just_enough.

(* _grow without any assumption on signs or on the mortuary: exact accounting of the spawn loop *)
Theorem C15_grow_accounting : forall factory fuel st target st', Inv st ->
  grow factory fuel st target = Done st' ->
  exists k,
    ncalls st' = (ncalls st + k)%nat /\ length (store st') = (length (store st) + k)%nat
    /\ demand st' = demand st
    /\ target - cdem st - fdem factory (ncalls st) k <= 0
    /\ ((0 < k)%nat -> 0 < target - cdem st - fdem factory (ncalls st) (k - 1))
    /\ (forall j, (j < k)%nat -> 0 < c_demand (factory (ncalls st + j)%nat))
    /\ (forall c, In c (hatchery st') -> In c (hatchery st) \/ (length (store st) <= c < length (store st) + k)%nat)
    /\ (forall c, In c (hatchery st') -> (c < length (store st))%nat -> dem st' c = dem st c)
    /\ (mdem st == 0 -> target <= hdem st')
    /\ ((0 < k)%nat -> mdem st == 0 -> (forall x, In x (hatchery st) -> 0 <= dem st x) ->
        let last := (length (store st) + k - 1)%nat in
        In last (hatchery st') /\ dem st' last = c_demand (factory (ncalls st + k - 1)%nat)
        /\ hdem st' - dem st' last < target).
Proof. exact grow_spec. Qed.
Print Assumptions C15_grow_accounting.

(* when supply exceeds demand the pool shrinks: whenever a child is released by the excess rule
   the remaining active demand still covers the request (safe); with non-negative demands no
   child that is kept would still fit into the excess (maximal); kept children are untouched *)
Theorem C15_shrink_safe_and_maximal : forall factory fuel ord st,
  Inv st -> demand st < supply st ->
  let st' := shrink ord st (demand st) in
  adjust factory fuel ord st = Done st'
  /\ (shrink_released ord st (demand st) <> [] -> demand st <= hdem st')
  /\ ((forall x, In x (hatchery st) -> 0 <= dem st x) ->
      forall c, In c (hatchery st') -> ~ dem st' c <= hdem st' - demand st)
  /\ (forall c, In c (hatchery st') ->
        In c (hatchery st) /\ ~ In c (shrink_released ord st (demand st))
        /\ dem st' c = dem st c /\ 0 < dem st' c)
  /\ ncalls st' = ncalls st.
Proof. exact shrink_safe_and_maximal. Qed.
Print Assumptions C15_shrink_safe_and_maximal.

(* for every history from any initial child set: active and released children are disjoint and
   duplicate free, every child was given initially or made by the factory (and the store grows
   exactly by the factory calls); in polite histories released children have demand 0 *)
Theorem C15_partition_invariant : forall factory fuel cs ops st,
  run factory fuel (init cs) ops = Done st ->
  NoDup (hatchery st ++ mortuary st)
  /\ length (store st) = (length cs + ncalls st)%nat
  /\ (forall i, In i (hatchery st ++ mortuary st) -> (i < length cs + ncalls st)%nat)
  /\ (polite factory fuel (init cs) ops -> forall i, In i (mortuary st) -> dem st i == 0).
Proof. exact partition_invariant. Qed.
Print Assumptions C15_partition_invariant.

(* a child that is not active at some point of a history is never active later *)
Theorem C15_once_released_never_active : forall factory fuel cs ops1 ops2 st1 st2 c,
  run factory fuel (init cs) ops1 = Done st1 -> run factory fuel st1 ops2 = Done st2 ->
  (c < length (store st1))%nat -> ~ In c (hatchery st1) -> ~ In c (hatchery st2).
Proof. exact once_released_never_active. Qed.
Print Assumptions C15_once_released_never_active.

(* after every adjustment every active child has demand: children with no demand left are released *)
Theorem C15_no_idle_child_after_adjust : forall factory fuel ord st st',
  adjust factory fuel ord st = Done st' -> forall c, In c (hatchery st') -> 0 < dem st' c.
Proof. exact adjust_positive. Qed.
Print Assumptions C15_no_idle_child_after_adjust.

(* what an adjustment does to the children it already had *)
Theorem C15_adjust_old_children : forall factory fuel ord st st', Inv st ->
  adjust factory fuel ord st = Done st' ->
  (forall i, In i (hatchery st) -> ~ In i (hatchery st') -> In i (mortuary st') /\ dem st' i = 0)
  /\ (forall i, In i (hatchery st) -> In i (hatchery st') -> dem st' i = dem st i)
  /\ (forall i, In i (mortuary st) -> In i (mortuary st'))
  /\ (forall i, (i < length (store st))%nat ->
        c_supply (get st' i) = c_supply (get st i) /\ c_util (get st' i) = c_util (get st i)
        /\ c_alloc (get st' i) = c_alloc (get st i)).
Proof. exact adjust_old_children. Qed.
Print Assumptions C15_adjust_old_children.

(* children are created by the factory only, and only during adjustments *)
Theorem C15_created_only_by_factory : forall factory fuel ord st st', Inv st ->
  adjust factory fuel ord st = Done st' ->
  (length (store st') + ncalls st = length (store st) + ncalls st')%nat
  /\ (ncalls st <= ncalls st')%nat
  /\ demand st' = demand st
  /\ forall c, In c (hatchery st') -> In c (hatchery st) \/ (length (store st) <= c < length (store st'))%nat.
Proof. exact adjust_origin. Qed.
Print Assumptions C15_created_only_by_factory.

Theorem C15_membership_changes_only_in_adjust : forall factory fuel st o st',
  (forall ord, o <> Adjust ord) -> step factory fuel st o = Done st' ->
  hatchery st' = hatchery st /\ ncalls st' = ncalls st /\ store st' = store st \/
  hatchery st' = hatchery st /\ ncalls st' = ncalls st /\ length (store st') = length (store st).
Proof. exact membership_changes_only_in_adjust. Qed.
Print Assumptions C15_membership_changes_only_in_adjust.

(* aggregates: supply is the sum over all children; utilisation / allocation the mean over those
   with supply, 1 if there are none *)
Theorem C15_supply_is_sum : forall st,
  supply st = qsum (map (fun i => c_supply (get st i)) (hatchery st ++ mortuary st)).
Proof. exact supply_is_sum. Qed.
Print Assumptions C15_supply_is_sum.

Theorem C15_mean_over_supplying : forall f st, with_supply st <> [] ->
  mean f st = qsum (map (fun i => f (get st i)) (with_supply st)) / qlen (with_supply st).
Proof. exact mean_some. Qed.
Print Assumptions C15_mean_over_supplying.

Theorem C15_supplying_children : forall st i,
  In i (with_supply st) <-> In i (hatchery st ++ mortuary st) /\ 0 < c_supply (get st i).
Proof. exact with_supply_In. Qed.
Print Assumptions C15_supplying_children.

Theorem C15_mean_fallback : forall f st,
  (forall i, In i (hatchery st ++ mortuary st) -> ~ 0 < c_supply (get st i)) -> mean f st = 1.
Proof. exact mean_none. Qed.
Print Assumptions C15_mean_fallback.

(* the model's fuel: a factory whose children's demands are bounded below terminates *)
Theorem C15_grow_terminates : forall factory delta, 0 < delta ->
  (forall n, delta <= c_demand (factory n)) ->
  forall fuel st missing, missing <= delta * inject_Z (Z.of_nat fuel) ->
  grow_loop factory fuel st missing <> OutOfFuel.
Proof. exact grow_loop_terminates. Qed.
Print Assumptions C15_grow_terminates.

(* ---- non-vacuity: concrete states meeting the hypotheses ---- *)
Definition ex_factory (n : nat) : child := mkChild 0 1 1 2.
Definition ex_cs : list child := [mkChild 4 1 1 2; mkChild 4 (1#2) 1 3; mkChild 4 (1#4) 1 5].

(* growing: three children demanding 10, request 13 -> two spawns of 2; without the last: 12 < 13 *)
Example C15_grow_hypotheses_satisfiable :
  let st := mkPool ex_cs [0; 1; 2]%nat [] 13 0 in
  Inv st /\ MortZero st /\ (forall x, In x (hatchery st) -> 0 <= dem st x)
  /\ exists st', adjust ex_factory 10 [] st = Done st' /\ (ncalls st < ncalls st')%nat
       /\ hatchery st' = [0; 1; 2; 3; 4]%nat /\ Qeqb (hdem st') 14 = true.
Proof.
  cbv zeta. split; [|split; [|split]].
  - split; [repeat constructor; cbn; intuition lia|]. intros i Hi. cbn in *. intuition lia.
  - intros i [].
  - intros x [<-|[<-|[<-|[]]]]; cbn; discriminate.
  - eexists. split; [vm_compute; reflexivity|]. split; [cbn; lia|]. split; reflexivity.
Qed.

(* shrinking: the same children, supply 12 > request 5: excess 5 releases child 2 (key 1, demand 5) *)
Example C15_shrink_hypotheses_satisfiable :
  let st := mkPool ex_cs [0; 1; 2]%nat [] 5 0 in
  Inv st /\ demand st < supply st /\ (forall x, In x (hatchery st) -> 0 <= dem st x)
  /\ shrink_released [] st (demand st) = [2%nat]
  /\ hatchery (shrink [] st (demand st)) = [0; 1]%nat /\ mortuary (shrink [] st (demand st)) = [2%nat].
Proof.
  cbv zeta. split; [|split; [|split; [|split; [|split]]]].
  - split; [repeat constructor; cbn; intuition lia|]. intros i Hi. cbn in *. intuition lia.
  - reflexivity.
  - intros x [<-|[<-|[<-|[]]]]; cbn; discriminate.
  - reflexivity.
  - reflexivity.
  - reflexivity.
Qed.

(* a polite history with a child disabling itself, a release, a collection and a re-growth *)
Example C15_history_hypotheses_satisfiable :
  let ops := [SetDemand 5; Adjust []; ChildSet 0 ADemand 0; Collect 2; Adjust [1; 0]%nat; SetDemand 9; Adjust []] in
  polite ex_factory 10 (init ex_cs) ops
  /\ exists st, run ex_factory 10 (init ex_cs) ops = Done st
       /\ hatchery st = [1; 3; 4; 5]%nat /\ mortuary st = [0%nat] /\ ncalls st = 3%nat.
Proof.
  cbv zeta. split.
  - cbn [polite polite_op]. vm_compute. intuition discriminate.
  - eexists. split; [vm_compute; reflexivity|]. repeat split; reflexivity.
Qed.

Example C15_termination_hypotheses_satisfiable :
  0 < 2 /\ (forall n, 2 <= c_demand (ex_factory n)) /\ 13 <= 2 * inject_Z (Z.of_nat 10).
Proof. split; [reflexivity|]. split; [intros n; cbn; discriminate|discriminate]. Qed.
