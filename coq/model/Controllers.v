(* Reference model of cobald's controllers (one regulation step), over exact rationals:
     src/cobald/controller/linear.py            LinearController
     src/cobald/controller/relative_supply.py   RelativeSupplyController
     src/cobald/controller/stepwise.py          RangeSelector, Stepwise (loop body of run())
     src/cobald/controller/switch.py            DemandSwitch
     src/cobald/utility/__init__.py             enforce, pairwise
   Ideal arithmetic (binary64 rounding is not modelled).  The target is a plain pool: reading an
   attribute returns the stored value, writing demand stores it.  Rules and slave controllers are
   identified by numbers; what they compute is a parameter `sem` (id -> pool -> interval -> new
   demand or None).  Observable effects: demand writes on the target, rule calls, slave
   `regulate` calls (with a flag saying whether the callee acted on the controller's own target). *)
From Coq Require Import ZArith QArith List Bool Arith.
From Cobald Require Import kit.QKit.
Import ListNotations.
Open Scope Q_scope.

(* ---- outcomes ---- *)
Inductive err :=
| ERejected        (* the constructor raised (AssertionError / InvariantError / ValueError / TypeError) *)
| ENoRule.         (* stepwise.py:83-84: get_rule returned None and the body called it (TypeError) *)

Inductive res (A : Type) := Ok (a : A) | Err (e : err).
Arguments Ok {A} a.
Arguments Err {A} e.

(* ---- the target pool ---- *)
Record pool := mkPool { p_supply : Q; p_demand : Q; p_util : Q; p_alloc : Q }.

Definition set_demand (p : pool) (d : Q) : pool := mkPool (p_supply p) d (p_util p) (p_alloc p).

Inductive effect :=
| EWrite (d : Q)                                   (* target.demand = d *)
| ECallRule (id : nat) (on_target : bool) (itv : Q)  (* rule_id(pool, interval); pool is the target *)
| ECallReg (id : nat) (on_target : bool) (itv : Q).  (* slave_id.regulate(interval); slave.target is the switch's target *)

(* a controller step either writes one new demand or writes nothing *)
Definition apply_write (p : pool) (w : option Q) : pool * list effect :=
  match w with Some d => (set_demand p d, [EWrite d]) | None => (p, []) end.

(* ---- LinearController ---- *)
Record linear := mkLinear { l_low : Q; l_high : Q; l_rate : Q; l_interval : Q }.

(* linear.py:20-29: assert rate > 0; assert low_utilisation <= high_allocation *)
Definition linear_init (low high rate itv : Q) : res linear :=
  if Qltb 0 rate && Qle_bool low high then Ok (mkLinear low high rate itv) else Err ERejected.

(* linear.py:36-40 *)
Definition linear_write (c : linear) (p : pool) (itv : Q) : option Q :=
  if Qltb (p_util p) (l_low c) then Some (p_demand p - itv * l_rate c)
  else if Qltb (l_high c) (p_alloc p) then Some (p_demand p + itv * l_rate c)
  else None.

(* ---- RelativeSupplyController ---- *)
Record relative := mkRelative {
  r_low : Q; r_high : Q; r_low_scale : Q; r_high_scale : Q; r_interval : Q }.

(* relative_supply.py:21-38 *)
Definition relative_init (low high ls hs itv : Q) : res relative :=
  if Qle_bool low high && Qltb ls 1 && Qltb 1 hs then Ok (mkRelative low high ls hs itv)
  else Err ERejected.

Definition relative_scale (c : relative) (p : pool) : Q :=
  if Qltb (p_util p) (r_low c) then r_low_scale c
  else if Qltb (r_high c) (p_alloc p) then r_high_scale c
  else 1.

(* relative_supply.py:45-51: all three branches write *)
Definition relative_write (c : relative) (p : pool) : option Q :=
  Some (p_supply p * relative_scale c p).

(* ---- sorted(...) of (number, object) pairs ----
   python compares the tuples lexicographically; two entries with equal numbers and different
   objects make `sorted` compare the objects (functions / controllers), which raises TypeError;
   identical entries compare equal.  Any comparison sort must compare two such entries, so the
   outcome does not depend on the algorithm. *)
Definition entry := (Q * nat)%type.

Definition conflicts_with (x : entry) (l : list entry) : bool :=
  existsb (fun y => Qeqb (fst x) (fst y) && negb (Nat.eqb (snd x) (snd y))) l.

Fixpoint has_conflict (l : list entry) : bool :=
  match l with [] => false | x :: r => conflicts_with x r || has_conflict r end.

Fixpoint insert_by (x : entry) (l : list entry) : list entry :=
  match l with
  | [] => [x]
  | y :: r => if Qle_bool (fst x) (fst y) then x :: l else y :: insert_by x r
  end.

Definition isort (l : list entry) : list entry := fold_right insert_by [] l.

Definition py_sorted (l : list entry) : res (list entry) :=
  if has_conflict l then Err ERejected else Ok (isort l).

(* ---- RangeSelector ---- *)
(* one entry of _lookup: (low, high) -> rule; high = None stands for float("inf") *)
Definition range := (Q * option Q * nat)%type.

(* stepwise.py:49-56: zip(chain([0], thresholds), chain(thresholds, [inf]), chain([base], rules)) *)
Fixpoint build (lo : Q) (r : nat) (l : list entry) : list range :=
  match l with
  | [] => [(lo, None, r)]
  | (t, r') :: l' => (lo, Some t, r) :: build t r' l'
  end.

Definition degenerate (x : range) : bool :=
  match x with (lo, Some hi, _) => Qeqb lo hi | (_, None, _) => false end.

(* stepwise.py:43-57 _compile_lookup *)
Definition compile_lookup (base : nat) (rules : list entry) : res (list range) :=
  match rules with
  | [] => Ok [(0, None, base)]
  | _ =>
      match py_sorted rules with
      | Err e => Err e
      | Ok srt =>
          let lk := build 0 base srt in
          if existsb degenerate lk then Err ERejected (* ValueError: Duplicate entries *) else Ok lk
      end
  end.

Definition in_range (x : range) (s : Q) : bool :=
  match x with
  | (lo, Some hi, _) => Qle_bool lo s && Qltb s hi
  | (lo, None, _) => Qle_bool lo s
  end.

(* stepwise.py:38-41 get_rule: first range with low <= supply < high, else (implicitly) None *)
Fixpoint get_rule (lk : list range) (s : Q) : option nat :=
  match lk with
  | [] => None
  | x :: r => if in_range x s then Some (snd x) else get_rule r s
  end.

(* ---- Stepwise ---- *)
Record stepwise := mkStepwise { sw_lookup : list range; sw_interval : Q }.

(* stepwise.py:69-78 *)
Definition stepwise_init (base : nat) (rules : list entry) (itv : Q) : res stepwise :=
  match compile_lookup base rules with
  | Ok lk => Ok (mkStepwise lk itv)
  | Err e => Err e
  end.

(* ---- DemandSwitch ---- *)
Inductive sitem := SNum (q : Q) | SCtl (id : nat) | SJunk.      (* one positional argument *)
Inductive ttag := TNone | TSame | TOther.   (* a controller's target: None / the switch's target / another pool *)

Definition ttag_eqb (a b : ttag) : bool :=
  match a, b with TNone, TNone | TSame, TSame | TOther, TOther => true | _, _ => false end.

(* utility/__init__.py:22-25 pairwise; None when the number of items is odd (switch.py:34-37) *)
Fixpoint pairwise (l : list sitem) : option (list (sitem * sitem)) :=
  match l with
  | [] => Some []
  | [_] => None
  | a :: b :: r => match pairwise r with Some ps => Some ((a, b) :: ps) | None => None end
  end.

(* switch.py:40-46: every pair must be (int|float, Controller); a pair of another shape makes
   either `sorted` or the enforce raise *)
Fixpoint typed_pairs (ps : list (sitem * sitem)) : option (list entry) :=
  match ps with
  | [] => Some []
  | (SNum q, SCtl c) :: r => match typed_pairs r with Some es => Some ((q, c) :: es) | None => None end
  | _ :: _ => None
  end.

Record switch := mkSwitch {
  s_default : nat; s_slaves : list entry; s_tags : list ttag; s_interval : Q }.

Definition tag_of (tags : list ttag) (id : nat) : ttag := nth id tags TOther.
Definition target_ok (tags : list ttag) (id : nat) : bool := negb (ttag_eqb (tag_of tags id) TOther).

Fixpoint set_tag (tags : list ttag) (id : nat) : list ttag :=
  match tags, id with
  | [], _ => []
  | _ :: r, O => TSame :: r
  | t :: r, S j => t :: set_tag r j
  end.

(* switch.py:25-54.  `tags` = targets of all controller objects before construction *)
Definition switch_init (tags : list ttag) (default : nat) (items : list sitem) (itv : Q) : res switch :=
  match pairwise items with
  | None => Err ERejected
  | Some ps =>
      match typed_pairs ps with
      | None => Err ERejected
      | Some es =>
          match py_sorted es with
          | Err e => Err e
          | Ok srt =>
              if target_ok tags default && forallb (fun e => target_ok tags (snd e)) srt
              then Ok (mkSwitch default srt
                                (fold_left set_tag (map snd srt) (set_tag tags default)) itv)
              else Err ERejected
          end
      end
  end.

(* switch.py:62-65: the last slave (in sorted order) whose threshold is <= demand, else default *)
Definition choose (default : nat) (slaves : list entry) (d : Q) : nat :=
  fold_left (fun ch e => if Qle_bool (fst e) d then snd e else ch) slaves default.

(* ---- one step of any controller ---- *)
Inductive ctrl :=
| CLinear (c : linear) | CRelative (c : relative) | CStepwise (c : stepwise) | CSwitch (c : switch).

(* histories: regulation steps interleaved with changes made by the environment *)
Inductive op :=
| OReg (itv : Q)             (* one regulation step *)
| OState (s u a : Q)         (* the pool's supply / utilisation / allocation change *)
| ODemand (d : Q).           (* somebody else writes the pool's demand *)

(* what an observer sees after every operation *)
Inductive step_obs := SOk (demand : Q) (ef : list effect) | SErr (e : err).

Section Step.
  (* behaviour of rule / slave controller number id: the demand it decides on, if any *)
  Variable sem : nat -> pool -> Q -> option Q.

  (* stepwise.py:82-86, the body of one loop iteration up to the sleep *)
  Definition stepwise_body (c : stepwise) (p : pool) : res (pool * list effect) :=
    match get_rule (sw_lookup c) (p_supply p) with
    | None => Err ENoRule
    | Some r =>
        let (p', w) := apply_write p (sem r p (sw_interval c)) in
        Ok (p', ECallRule r true (sw_interval c) :: w)
    end.

  (* switch.py:61-66 *)
  Definition switch_regulate (c : switch) (p : pool) (itv : Q) : pool * list effect :=
    let ch := choose (s_default c) (s_slaves c) (p_demand p) in
    let (p', w) := apply_write p (sem ch p itv) in
    (p', ECallReg ch (ttag_eqb (tag_of (s_tags c) ch) TSame) itv :: w).

  (* regulate(itv) for the three controllers that have it; for Stepwise: one loop body (which
     uses the controller's own interval) *)
  Definition regulate (c : ctrl) (p : pool) (itv : Q) : res (pool * list effect) :=
    match c with
    | CLinear c => Ok (apply_write p (linear_write c p itv))
    | CRelative c => Ok (apply_write p (relative_write c p))
    | CStepwise c => stepwise_body c p
    | CSwitch c => Ok (switch_regulate c p itv)
    end.

  Definition step (c : ctrl) (p : pool) (o : op) : res (pool * list effect) :=
    match o with
    | OReg itv => regulate c p itv
    | OState s u a => Ok (mkPool s (p_demand p) u a, [])
    | ODemand d => Ok (set_demand p d, [])
    end.

  (* pool after a history (first error stops it) and all effects so far *)
  Fixpoint run (c : ctrl) (p : pool) (ops : list op) : res (pool * list effect) :=
    match ops with
    | [] => Ok (p, [])
    | o :: r =>
        match step c p o with
        | Err e => Err e
        | Ok (p', ef) =>
            match run c p' r with
            | Err e => Err e
            | Ok (p'', ef') => Ok (p'', ef ++ ef')
            end
        end
    end.

  Fixpoint trace (c : ctrl) (p : pool) (ops : list op) : list step_obs :=
    match ops with
    | [] => []
    | o :: r =>
        match step c p o with
        | Err e => [SErr e]
        | Ok (p', ef) => SOk (p_demand p') ef :: trace c p' r
        end
    end.
End Step.
