(* Executable model of cobald.decorator.standardiser.Standardiser
   (src/cobald/decorator/standardiser.py; Limiter and Coarser are aliases of the same class),
   over python numbers with their int/float tag (kit/PyNum.v; ideal floats, explicit NaN outcome).

   The target is a plain pool: reading supply/utilisation/allocation/demand returns the stored
   value, writing demand stores it, and nothing else changes as a side effect.
   Inherited from PoolDecorator (interfaces/_proxy.py): supply, utilisation, allocation are read
   through from the target. *)
From Coq Require Import ZArith QArith List Bool.
From Cobald Require Import kit.QKit kit.PyNum.
Import ListNotations.

(* standardiser.py:7-14   _clamp(low, value, high) *)
Definition clamp (low value high : num) : num :=
  if nlt value low then low
  else if ngt value high then high
  else value.

(* standardiser.py:17-19   _floor(n, base) = n // base * base *)
Definition floor_to (n base : num) : res num :=
  bind (nfloordiv n base) (fun q => nmul q base).

Record pool := mkPool { p_demand : num; p_supply : num; p_util : num; p_alloc : num }.

Record params := mkParams {
  minimum : num; maximum : num; granularity : num; backlog : num; surplus : num }.

(* the decorator: parameters, the private `_demand`, the target *)
Record std := mkStd { s_par : params; s_demand : num; s_tgt : pool }.

Definition set_tdemand (t : pool) (d : num) : pool := mkPool d (p_supply t) (p_util t) (p_alloc t).
Definition set_tsupply (t : pool) (s : num) : pool := mkPool (p_demand t) s (p_util t) (p_alloc t).

(* standardiser.py:75-78: the four `enforce(…, ValueError)` checks of __init__ *)
Definition accepted (P : params) : bool :=
  nle (minimum P) (maximum P)
  && ngt (surplus P) (PInt 0)
  && ngt (backlog P) (PInt 0)
  && ngt (granularity P) (PInt 0).

(* standardiser.py:65-86   __init__: validation, then `_demand = target.demand` *)
Definition construct (P : params) (t : pool) : res std :=
  if accepted P then Ok (mkStd P (p_demand t) t) else Err EValue.

(* standardiser.py:58-63   _clamp_demand: supply window first, minimum/maximum last *)
Definition clamp_demand (P : params) (t : pool) (value : num) : res num :=
  let supply := p_supply t in
  bind (nsub supply (backlog P)) (fun lo =>
  bind (nadd supply (surplus P)) (fun hi =>
  let by_supply := clamp lo value hi in
  let by_limits := clamp (minimum P) by_supply (maximum P) in
  Ok by_limits)).

(* standardiser.py:48-56   demand setter *)
Definition set_demand (st : std) (value : num) : res std :=
  let P := s_par st in
  bind (clamp_demand P (s_tgt st) value) (fun d =>
  if nne (granularity P) (PInt 1) then
    bind (floor_to value (granularity P)) (fun fl =>
    bind (clamp_demand P (s_tgt st) fl) (fun t =>
    Ok (mkStd P d (set_tdemand (s_tgt st) t))))
  else
    Ok (mkStd P d (set_tdemand (s_tgt st) d))).

(* standardiser.py:44   `abs(self._demand - self.target.demand) >= self.granularity`.
   The only failure of `-` is inf - inf (lemma PyNum.nsub_err): python computes NaN there without
   raising, abs(NaN) is NaN and `NaN >= g` is False -- so the condition is False in that case. *)
Definition moved (d td g : num) : bool :=
  match nsub d td with
  | Ok x => nge (nabs x) g
  | Err _ => false
  end.

(* standardiser.py:42-46   demand getter: resynchronise when the target moved by a granule or more *)
Definition get_demand (st : std) : num * std :=
  let td := p_demand (s_tgt st) in
  if moved (s_demand st) td (granularity (s_par st))
  then (td, mkStd (s_par st) td (s_tgt st))
  else (s_demand st, st).

(* ---- state machine over histories ---- *)
Inductive op :=
| Write (v : num)                 (* standardiser.demand = v *)
| Read                            (* standardiser.demand *)
| SetSupply (s : num)             (* the target's supply changes *)
| OutsideSetDemand (d : num).     (* somebody else writes target.demand *)

(* what an observer sees after an operation: the value returned by a Read, the target's demand,
   and supply/utilisation/allocation read THROUGH the standardiser *)
Record obs := mkObs {
  o_read : option num; o_tdemand : num; o_supply : num; o_util : num; o_alloc : num }.

Definition std_supply (st : std) : num := p_supply (s_tgt st).
Definition std_util (st : std) : num := p_util (s_tgt st).
Definition std_alloc (st : std) : num := p_alloc (s_tgt st).

Definition observe (r : option num) (st : std) : obs :=
  mkObs r (p_demand (s_tgt st)) (std_supply st) (std_util st) (std_alloc st).

Definition step (st : std) (o : op) : res (std * obs) :=
  match o with
  | Write v => bind (set_demand st v) (fun st' => Ok (st', observe None st'))
  | Read => let (r, st') := get_demand st in Ok (st', observe (Some r) st')
  | SetSupply s =>
      let st' := mkStd (s_par st) (s_demand st) (set_tsupply (s_tgt st) s) in Ok (st', observe None st')
  | OutsideSetDemand d =>
      let st' := mkStd (s_par st) (s_demand st) (set_tdemand (s_tgt st) d) in Ok (st', observe None st')
  end.

Definition step_state (r : res std) (o : op) : res std :=
  bind r (fun st => bind (step st o) (fun p => Ok (fst p))).

(* the state after a whole history (first failing operation ends it) *)
Definition run (st : std) (ops : list op) : res std := fold_left step_state ops (Ok st).

(* observations after every operation, and the outcome that ended the history (if any) *)
Fixpoint trace (st : std) (ops : list op) : list obs * option err :=
  match ops with
  | [] => ([], None)
  | o :: r =>
      match step st o with
      | Ok (st', ob) => let (l, e) := trace st' r in (ob :: l, e)
      | Err e => ([], Some e)
      end
  end.

(* `std.demand = std.demand + k`: one controller-style increment *)
Definition incr (k : Z) (st : std) : res std :=
  let (d, st1) := get_demand st in
  bind (nadd d (PInt k)) (fun v => set_demand st1 v).

Fixpoint iter_incr (n : nat) (st : std) : res std :=
  match n with
  | O => Ok st
  | S m => bind (incr 1 st) (iter_incr m)
  end.
