(* Reference model of cobald.composite.factory.FactoryPool (src/cobald/composite/factory.py),
   over exact rationals (ideal arithmetic; binary64 rounding is not modelled).

   Children are numbered: child objects live in `store` (index = identity; a child keeps its slot
   for ever).  `_hatchery` (a set) and `_mortuary` (a WeakSet) are duplicate-free lists of child
   numbers in arbitrary order; the only place where the iteration order of a set is observable is
   the tie-breaking of `sorted` in `_shrink`, so `Adjust` carries the iteration order of the
   hatchery as an input.  Children are recording pools: they store what is written to them. *)
From Coq Require Import ZArith QArith List Bool Arith.
From Cobald Require Import kit.QKit kit.SetKit.
Import ListNotations.
Open Scope Q_scope.

Record child := mkChild { c_supply : Q; c_util : Q; c_alloc : Q; c_demand : Q }.
Definition no_child := mkChild 0 0 0 0.

Record pool := mkPool {
  store : list child;        (* every child object the pool has ever held *)
  hatchery : list nat;       (* factory.py:82-83  children fulfilling our demand *)
  mortuary : list nat;       (* factory.py:84-85  children shutting down (weakly held) *)
  demand : Q;                (* factory.py:81     self._demand *)
  ncalls : nat               (* number of calls of the factory so far *)
}.

Definition get (st : pool) (i : nat) : child := nth i (store st) no_child.
Definition dem (st : pool) (i : nat) : Q := c_demand (get st i).

(* factory.py:40-42 *)
Definition children (st : pool) : list nat := hatchery st ++ mortuary st.

(* factory.py:54-56 *)
Definition supply (st : pool) : Q := qsum (map (fun i => c_supply (get st i)) (children st)).

(* factory.py:58-76: mean over the children with supply > 0; ZeroDivisionError -> 1.0 *)
Definition with_supply (st : pool) : list nat :=
  filter (fun i => Qltb 0 (c_supply (get st i))) (children st).
Definition mean (f : child -> Q) (st : pool) : Q :=
  match with_supply st with
  | [] => 1
  | l => qsum (map (fun i => f (get st i)) l) / qlen l
  end.
Definition utilisation (st : pool) : Q := mean c_util st.
Definition allocation (st : pool) : Q := mean c_alloc st.

(* factory.py:77-87  __init__ *)
Definition init (cs : list child) : pool :=
  mkPool cs (seq 0 (length cs)) [] (qsum (map c_demand cs)) 0.

(* ---- set operations ---- *)
Definition set_add (x : nat) (l : list nat) : list nat := if mem x l then l else l ++ [x].
Definition set_discard (x : nat) (l : list nat) : list nat := filter (fun y => negb (Nat.eqb y x)) l.

Fixpoint upd (l : list child) (i : nat) (f : child -> child) : list child :=
  match l, i with
  | [], _ => []
  | x :: r, O => f x :: r
  | x :: r, S j => x :: upd r j f
  end.

Definition with_store (st : pool) (s : list child) : pool :=
  mkPool s (hatchery st) (mortuary st) (demand st) (ncalls st).

Definition set_cdemand (c : child) (d : Q) : child := mkChild (c_supply c) (c_util c) (c_alloc c) d.

(* factory.py:131-134  _release_child *)
Definition release (st : pool) (i : nat) : pool :=
  mkPool (upd (store st) i (fun c => set_cdemand c 0))
         (set_discard i (hatchery st)) (set_add i (mortuary st)) (demand st) (ncalls st).

Definition release_all (l : list nat) (st : pool) : pool := fold_left release l st.

(* factory.py:126-129  _reap_children: the demands are read from a snapshot `list(self._hatchery)`;
   releasing one child does not change another child's demand *)
Definition reapable (st : pool) : list nat := filter (fun i => Qle_bool (dem st i) 0) (hatchery st).
Definition reap (st : pool) : pool := release_all (reapable st) st.

(* ---- factory.py:99-113  _shrink ---- *)
Definition sort_key (st : pool) (i : nat) : Q := c_supply (get st i) * c_util (get st i).

(* python's sorted() is stable: x goes before the first element whose key is not smaller *)
Fixpoint insert_sorted (key : nat -> Q) (x : nat) (l : list nat) : list nat :=
  match l with
  | [] => [x]
  | y :: r => if Qltb (key y) (key x) then y :: insert_sorted key x r else x :: l
  end.
Definition stable_sort (key : nat -> Q) (l : list nat) : list nat := fold_right (insert_sorted key) [] l.

(* iteration order of the set `h` given an observed order `ord` (any list: members of `h` in the
   order of `ord`, without repetition, then the members `ord` does not mention) *)
Definition iter_order (ord h : list nat) : list nat :=
  filter (fun x => mem x h) (nodup Nat.eq_dec ord) ++ filter (fun x => negb (mem x ord)) h.

(* factory.py:106-112: which children of the hit list are released by the excess rule.  A child's
   demand is read before that child is released and no other child's release changes it. *)
Fixpoint pick_release (d : nat -> Q) (excess : Q) (hit : list nat) : list nat :=
  match hit with
  | [] => []
  | c :: r =>
      if Qle_bool excess 0 then []                                  (* break *)
      else if Qle_bool (d c) excess then c :: pick_release d (excess - d c) r
      else pick_release d excess r
  end.

Definition hit_list (ord : list nat) (st : pool) : list nat :=
  stable_sort (sort_key st) (iter_order ord (hatchery st)).

Definition shrink_released (ord : list nat) (st : pool) (target : Q) : list nat :=
  let hit := hit_list ord st in
  pick_release (dem st) (qsum (map (dem st) hit) - target) hit.

Definition shrink (ord : list nat) (st : pool) (target : Q) : pool :=
  reap (release_all (shrink_released ord st target) st).

(* ---- factory.py:115-124  _grow ---- *)
Inductive outcome :=
| Done (st : pool)
| AssertionFailed (st : pool)     (* factory.py:120-122: a factory child without demand (already added) *)
| OutOfFuel.                      (* model artefact: the spawn loop did not finish within the fuel *)

Definition spawn (factory : nat -> child) (st : pool) : pool :=
  mkPool (store st ++ [factory (ncalls st)]) (set_add (length (store st)) (hatchery st))
         (mortuary st) (demand st) (S (ncalls st)).

Fixpoint grow_loop (factory : nat -> child) (fuel : nat) (st : pool) (missing : Q) : outcome :=
  if Qltb 0 missing then
    match fuel with
    | O => OutOfFuel
    | S f =>
        let st' := spawn factory st in
        let c := factory (ncalls st) in
        if Qltb 0 (c_demand c) then grow_loop factory f st' (missing - c_demand c)
        else AssertionFailed st'
    end
  else Done st.

Definition cdem (st : pool) : Q := qsum (map (dem st) (children st)).

Definition grow (factory : nat -> child) (fuel : nat) (st : pool) (target : Q) : outcome :=
  match grow_loop factory fuel st (target - cdem st) with
  | Done st' => Done (reap st')
  | o => o
  end.

(* factory.py:89-97  one iteration of run() after the sleep *)
Definition adjust (factory : nat -> child) (fuel : nat) (ord : list nat) (st : pool) : outcome :=
  if Qltb (demand st) (supply st) then Done (shrink ord st (demand st))
  else grow factory fuel st (demand st).

(* ---- histories ---- *)
Inductive attr := ASupply | AUtil | AAlloc | ADemand.

Inductive op :=
| SetDemand (d : Q)                       (* pool.demand = d            factory.py:48-52 *)
| ChildSet (i : nat) (a : attr) (v : Q)   (* child i changes one of its own attributes *)
| Collect (i : nat)                       (* child i of the mortuary is garbage collected *)
| Adjust (ord : list nat).                (* run() wakes up; ord = iteration order of the hatchery *)

Definition set_attr (a : attr) (v : Q) (c : child) : child :=
  match a with
  | ASupply => mkChild v (c_util c) (c_alloc c) (c_demand c)
  | AUtil => mkChild (c_supply c) v (c_alloc c) (c_demand c)
  | AAlloc => mkChild (c_supply c) (c_util c) v (c_demand c)
  | ADemand => mkChild (c_supply c) (c_util c) (c_alloc c) v
  end.

Definition step (factory : nat -> child) (fuel : nat) (st : pool) (o : op) : outcome :=
  match o with
  | SetDemand d => Done (mkPool (store st) (hatchery st) (mortuary st) d (ncalls st))
  | ChildSet i a v => Done (with_store st (upd (store st) i (set_attr a v)))
  | Collect i => Done (mkPool (store st) (hatchery st) (set_discard i (mortuary st)) (demand st) (ncalls st))
  | Adjust ord => adjust factory fuel ord st
  end.

(* a failed adjustment ends the history (run() dies with the exception) *)
Fixpoint run (factory : nat -> child) (fuel : nat) (st : pool) (ops : list op) : outcome :=
  match ops with
  | [] => Done st
  | o :: r =>
      match step factory fuel st o with
      | Done st' => run factory fuel st' r
      | bad => bad
      end
  end.

(* ---- observations ---- *)
Fixpoint insert_nat (x : nat) (l : list nat) : list nat :=
  match l with
  | [] => [x]
  | y :: r => if Nat.leb x y then x :: l else y :: insert_nat x r
  end.
Definition sort_nat (l : list nat) : list nat := fold_right insert_nat [] l.

Record observation := mkObs {
  o_hatchery : list nat;            (* sorted *)
  o_mortuary : list nat;            (* sorted *)
  o_demands : list Q;               (* demands of sorted hatchery ++ sorted mortuary *)
  o_demand : Q; o_supply : Q; o_util : Q; o_alloc : Q;
  o_calls : nat
}.

Definition observe (st : pool) : observation :=
  let h := sort_nat (hatchery st) in
  let m := sort_nat (mortuary st) in
  mkObs h m (map (dem st) (h ++ m)) (demand st) (supply st) (utilisation st) (allocation st) (ncalls st).

Inductive ending := EndOk | EndAssertion | EndOutOfFuel.

(* observations after every completed operation, and how the history ended *)
Fixpoint trace (factory : nat -> child) (fuel : nat) (st : pool) (ops : list op)
  : list observation * ending :=
  match ops with
  | [] => ([], EndOk)
  | o :: r =>
      match step factory fuel st o with
      | Done st' => let '(t, e) := trace factory fuel st' r in (observe st' :: t, e)
      | AssertionFailed st' => ([observe st'], EndAssertion)
      | OutOfFuel => ([], EndOutOfFuel)
      end
  end.
