(* Model of cobald.interfaces._partial (Partial / PartialBind and the `>>` operator), the `.s()`
   factories (_pool.py:47-58, _controller.py:21-32, _proxy.py:20-31, stepwise.py:178-193) and of
   which signature `inspect.signature(cls)` reports for a class (daemon/runners/service.py:89-104
   replaces `__new__`, which shadows `__init__` for inspect).

   Every constructor call is logged (writer monad W) so that "constructed exactly once, last to
   first, target first" is a statement about the value computed by `eval`. *)
From Coq Require Import NArith List Bool Arith.
From Cobald Require Import model.PyBind.
Import ListNotations.

(* ---- values, classes ---------------------------------------------------------------------- *)
Inductive val := VAtom (a : N) | VPool (id : N).      (* VPool: an instance of cobald.interfaces.Pool *)

Definition n_target : N := 0%N.
Definition n_args : N := 1%N.
Definition n_kwargs : N := 2%N.

(* one class of the MRO: does its __dict__ hold the `__new__` installed by @service, and the
   signature (without self) of the `__init__` defined in its __dict__, if any *)
Record layer := mkLayer { l_service : bool; l_init : option sig }.

(* which `.s` factory the class inherits *)
Inductive ckind := KController | KDecorator | KPool.

Record cls := mkCls {
  c_id : N;
  c_kind : ckind;
  c_mro : list layer             (* cls.__mro__ without `object` *)
}.

(* issubclass(cls, Pool): PoolDecorator derives from Pool (_proxy.py:10) *)
Definition c_pool (c : cls) : bool :=
  match c_kind c with KController => false | _ => true end.

(* Pool.s passes __leaf__=True (_pool.py:58); Controller.s and PoolDecorator.s pass False
   (_controller.py:32, _proxy.py:31) *)
Definition s_leaf (c : cls) : bool :=
  match c_kind c with KPool => true | _ => false end.

(* service.py:92  def __new_service__(cls, *args, **kwargs), first argument dropped by inspect *)
Definition service_sig : sig := mkSig [] [] (Some n_args) [] (Some n_kwargs).

(* inspect._signature_from_callable for a class: walk the MRO, the first class that has a
   user-defined __new__ in its __dict__ wins over one that has __init__ (checked in this order
   per class); no such class: signature of `object`, i.e. () *)
Fixpoint effective_sig_mro (m : list layer) : sig :=
  match m with
  | [] => empty_sig
  | l :: r => if l_service l then service_sig
              else match l_init l with Some s => s | None => effective_sig_mro r end
  end.
Definition effective_sig (c : cls) : sig := effective_sig_mro (c_mro c).

(* the `__init__` that type.__call__ really runs: first in the MRO *)
Fixpoint init_sig_mro (m : list layer) : sig :=
  match m with
  | [] => empty_sig
  | l :: r => match l_init l with Some s => s | None => init_sig_mro r end
  end.
Definition init_sig (c : cls) : sig := init_sig_mro (c_mro c).

Definition service_wrapped (c : cls) : bool := existsb l_service (c_mro c).

(* cls( *pos, **kw) binds: the service `__new__` takes anything, `__init__` must bind *)
Definition call_binds (c : cls) (n : nat) (keys : list N) : bool := bind_full (init_sig c) n keys.

(* ---- objects ------------------------------------------------------------------------------ *)
Definition kwargs := list (N * val).

(* Partial.__slots__ = ctor, args, kwargs, leaf   (_partial.py:43-49) *)
Record elem := mkElem { e_ctor : cls; e_args : list val; e_kwargs : kwargs; e_leaf : bool }.

Inductive obj :=
| PoolI (id : N)                               (* a pool instance that exists before the chain *)
| Tmpl (e : elem)                              (* Partial *)
| Bind (parent : elem) (targets : list obj)    (* PartialBind(parent, *targets) *)
| Built (e : elem) (target : option obj).      (* what e.ctor(target?, *e.args, **e.kwargs) returned *)

Inductive arg := AObj (o : obj) | AVal (v : val).
Record call := mkCall { k_cls : cls; k_pos : list arg; k_kw : kwargs }.

Inductive err := ETypeError | EIndexError.
Inductive res (A : Type) := Ok (a : A) | Err (e : err).
Arguments Ok {A}. Arguments Err {A}.

(* writer monad with failure: (result, constructor calls made so far, oldest first) *)
Definition W (A : Type) : Type := (res A * list call)%type.
Definition ret {A} (a : A) : W A := (Ok a, []).
Definition fail {A} (e : err) : W A := (Err e, []).
Definition bind {A B} (m : W A) (f : A -> W B) : W B :=
  match m with
  | (Ok a, l) => let (r, l') := f a in (r, l ++ l')
  | (Err e, l) => (Err e, l)
  end.
Notation "x <- m ;; f" := (bind m (fun x => f)) (at level 61, m at next level, right associativity).

(* ---- template creation and currying -------------------------------------------------------- *)
Definition keys_of (k : kwargs) : list N := map fst k.

Definition first_is_pool (a : list val) : bool :=
  match a with VPool _ :: _ => true | _ => false end.

(* _partial.py:54  "target" in kwargs or (args and isinstance(args[0], Pool)) *)
Definition passes_target (a : list val) (k : kwargs) : bool :=
  mem n_target (keys_of k) || first_is_pool a.

(* _partial.py:59-62: a non-leaf template binds a placeholder for the target first *)
Definition sig_check (c : cls) (leaf : bool) (a : list val) (k : kwargs) : bool :=
  bind_partial (effective_sig c) ((if leaf then 0 else 1) + length a) (keys_of k).

(* Partial.__init__ + _check_signature  (_partial.py:45-67); TypeError otherwise *)
Definition new_partial (c : cls) (leaf : bool) (a : list val) (k : kwargs) : res elem :=
  if passes_target a k then Err ETypeError
  else if sig_check c leaf a k then Ok (mkElem c a k leaf)
  else Err ETypeError.

(* cls.s( *args, **kwargs) *)
Definition dot_s (c : cls) (a : list val) (k : kwargs) : res elem := new_partial c (s_leaf c) a k.

Definition disjoint_keys (k1 k2 : kwargs) : bool :=
  forallb (fun x => negb (mem x (keys_of k1))) (keys_of k2).

(* Partial.__call__ (_partial.py:69-72): Partial(ctor, *self.args, *args, __leaf__=self.leaf,
   **self.kwargs, **kwargs); a repeated keyword is a TypeError of the call itself *)
Definition curry (e : elem) (a : list val) (k : kwargs) : res elem :=
  if disjoint_keys (e_kwargs e) k
  then new_partial (e_ctor e) (e_leaf e) (e_args e ++ a) (e_kwargs e ++ k)
  else Err ETypeError.

Fixpoint curry_all (e : elem) (splits : list (list val * kwargs)) : res elem :=
  match splits with
  | [] => Ok e
  | (a, k) :: r => match curry e a k with Ok e' => curry_all e' r | Err x => Err x end
  end.

(* ---- construction and `>>` ------------------------------------------------------------------ *)
(* Partial.__construct__ (_partial.py:74-75): self.ctor( *args, *self.args, **kwargs, **self.kwargs)
   -- the target comes first *)
Definition call_pos (e : elem) (target : option obj) : list arg :=
  match target with Some t => [AObj t] | None => [] end ++ map AVal (e_args e).

Definition construct (e : elem) (target : option obj) : W obj :=
  let pos := call_pos e target in
  if call_binds (e_ctor e) (length pos) (keys_of (e_kwargs e))
  then (Ok (Built e target), [mkCall (e_ctor e) pos (e_kwargs e)])
  else fail ETypeError.                      (* the constructor call itself does not bind *)

(* isinstance(o, Pool) *)
Definition is_pool (o : obj) : bool :=
  match o with
  | PoolI _ => true
  | Built e _ => c_pool (e_ctor e)
  | _ => false
  end.

(* Partial.__rshift__ (_partial.py:85-93) *)
Definition tmpl_rshift (e : elem) (b : obj) : W obj :=
  match b with
  | Bind p ts => ret (Bind e (Tmpl p :: ts))                         (* :86-87 *)
  | Tmpl e' =>
      if e_leaf e' then p <- construct e' None ;; construct e (Some p)   (* :89-90, then :93 *)
      else ret (Bind e [Tmpl e'])                                    (* :91 *)
  | _ => construct e (Some b)                                        (* :93 *)
  end.

(* a >> b.  PartialBind.__rshift__ (_partial.py:128-137); objects that are neither Partial nor
   PartialBind have no __rshift__ (and nothing here defines __rrshift__): TypeError *)
Fixpoint rshift (a b : obj) : W obj :=
  match a with
  | Tmpl e => tmpl_rshift e b
  | Bind parent ts =>
      let fold_targets :=
        (fix go (l : list obj) (p : obj) : W obj :=          (* :130-132, right to left *)
           match l with
           | [] => ret p
           | t :: r => x <- go r p ;; rshift t x
           end) in
      let on_pool (p : obj) : W obj :=
        match ts with
        | [] => fail EIndexError                              (* self.targets[-1] *)
        | _ :: _ => x <- fold_targets ts p ;; tmpl_rshift parent x   (* :133 *)
        end in
      let on_other (p : obj) : W obj :=
        if is_pool p then on_pool p else ret (Bind parent (ts ++ [p])) in    (* :129 / :137 *)
      match b with
      | Tmpl e' =>
          if e_leaf e' then p <- construct e' None ;; on_other p      (* :134-135 *)
          else ret (Bind parent (ts ++ [b]))                          (* :137 *)
      | _ => on_other b
      end
  | _ => fail ETypeError
  end.

(* an expression built from `>>` with explicit grouping; python evaluates the left operand, then
   the right operand, then applies the operator *)
Inductive tree (A : Type) := Leaf (a : A) | Node (l r : tree A).
Arguments Leaf {A}. Arguments Node {A}.

Fixpoint leaves {A} (t : tree A) : list A :=
  match t with Leaf a => [a] | Node l r => leaves l ++ leaves r end.

Fixpoint eval (t : tree obj) : W obj :=
  match t with
  | Leaf o => ret o
  | Node l r => a <- eval l ;; b <- eval r ;; rshift a b
  end.

(* ---- nesting the constructors by hand ---------------------------------------------------- *)
(* e1(e2(... en(p) ...)) : python evaluates the innermost call first *)
Fixpoint nestW (es : list elem) (p : obj) : W obj :=
  match es with
  | [] => ret p
  | e :: r => x <- nestW r p ;; construct e (Some x)
  end.

(* the tail is used as it is (instance) or constructed without target (template) *)
Definition tail_value (tail : obj) : W obj :=
  match tail with
  | Tmpl e => construct e None
  | _ => ret tail
  end.

Definition hand_nested (es : list elem) (tail : obj) : W obj :=
  p <- tail_value tail ;; nestW es p.
