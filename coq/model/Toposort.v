(* Model of the `toposort` library (toposort.py 1.10, functions `toposort` and
   `toposort_flatten(data, sort=False)`) as used by cobald.daemon.core.config.load_section_plugins.

   Items are names (numbered by the harness).  A python `dict item -> set(item)` is an association
   list with unique keys whose values are lists read as sets (membership is all that is used).
   `sort=False` makes `toposort_flatten` iterate every layer (a python `set`) in hash order: the
   order inside one layer is an INPUT of the model (`perm`), any permutation of the layer. *)
From Coq Require Import List Arith Bool.
From Cobald Require Export kit.SetKit.
Import ListNotations.

Definition name := nat.

Inductive res (E A : Type) : Type := Ok (a : A) | Err (e : E).
Arguments Ok {E A} a.
Arguments Err {E A} e.

Definition dict := list (name * list name).
Definition keys (d : dict) : list name := map fst d.

Definition isnil {A} (l : list A) : bool := match l with [] => true | _ => false end.

(* toposort.py:60  data = {item: set(e for e in dep if e != item) for item, dep in data.items()} *)
Definition drop_self (d : dict) : dict :=
  map (fun kv => (fst kv, filter (fun e => negb (Nat.eqb e (fst kv))) (snd kv))) d.

(* toposort.py:63-65  {value for values in data.values() for value in values} - set(data.keys()) *)
Definition extra_items (d : dict) : list name :=
  nodup Nat.eq_dec (filter (fun e => negb (mem e (keys d))) (concat (map snd d))).

(* toposort.py:72  data.update({item: set() for item in extra_items_in_deps}) *)
Definition prep (d : dict) : dict :=
  let d1 := drop_self d in d1 ++ map (fun e => (e, [])) (extra_items d1).

(* toposort.py:74  ordered = set(item for item, dep in data.items() if len(dep) == 0) *)
Definition free (d : dict) : list name := keys (filter (fun kv => isnil (snd kv)) d).

(* toposort.py:78-80  data = {item: (dep - ordered) for item, dep in data.items() if item not in ordered} *)
Definition strip (ordered : list name) (d : dict) : dict :=
  map (fun kv => (fst kv, filter (fun e => negb (mem e ordered)) (snd kv)))
      (filter (fun kv => negb (mem (fst kv) ordered)) d).

Inductive terr := Circular | OutOfFuel.

(* toposort.py:73-82  the `while True` loop; `Circular` is CircularDependencyError (a non-empty
   remainder without a free item).  Every round with a non-empty `ordered` removes at least one
   item, so `length d` rounds suffice: OutOfFuel is unreachable (ToposortProofs.peel_fuel). *)
Fixpoint peel (fuel : nat) (d : dict) : res terr (list (list name)) :=
  match free d with
  | [] => match d with [] => Ok [] | _ => Err Circular end
  | _ =>
      match fuel with
      | O => Err OutOfFuel
      | S f =>
          match peel f (strip (free d) d) with
          | Ok ls => Ok (free d :: ls)
          | Err e => Err e
          end
      end
  end.

(* the generator `toposort(data)`: list of layers (each a set) *)
Definition toposort (d : dict) : res terr (list (list name)) :=
  let d' := prep d in peel (length d') d'.

(* toposort.py:92-95  result.extend(list(d)) for every layer d; `perm` is the iteration order of a set *)
Definition toposort_flatten (perm : list name -> list name) (d : dict) : res terr (list name) :=
  match toposort d with
  | Ok ls => Ok (concat (map perm ls))
  | Err e => Err e
  end.

(* `a` occurs strictly before `b` in `l` *)
Definition before_in {A} (a b : A) (l : list A) : Prop :=
  exists l1 l2 l3, l = l1 ++ a :: l2 ++ b :: l3.

(* position of the first occurrence (length l when absent) *)
Fixpoint pos (x : name) (l : list name) : nat :=
  match l with
  | [] => O
  | y :: r => if Nat.eqb x y then O else S (pos x r)
  end.
