(* Reference model of cobald.monitor.format_line (src/cobald/monitor/format_line.py) and of the
   merge performed by cobald.monitor.format_json.JsonFormatter.format (format_json.py:55-67),
   together with an INDEPENDENT reference decoder `lp_parse` of the InfluxDB line protocol.

   Reading decisions
   - text = python `str` = list of unicode code points (`list N`).  Every character special to
     the line protocol is ASCII, `str.replace` with a one-character needle works code point by
     code point, and python compares / sorts `str` by code point, so nothing below depends on an
     encoding.  The theorems quantify over ALL N, a superset of the code points.
   - values: `VStr s`, `VBool b`, `VInt z` (printed by `print_Z`, python's `str(int)`),
     `VFloat tok` where `tok` is the text python prints for the float (`repr`, supplied by the
     harness; that `float(repr x) = x` is CPython's contract and trusted), `VNone` (python None).
   - the decoder keeps an unquoted numeral as its exact decimal text (`FNum tok`); `numeral_int`
     gives the integer value of integer numerals.  Types are judged on {string, boolean, number}:
     cobald never emits the `i` suffix, so python ints and floats are both line-protocol numbers.
   - time: `created` is an exact rational, the resolution an integer; ideal arithmetic.  The real
     code computes `created // res * res * 1e9` in binary64: exact whenever
     |floor(created/res)*res| < 2^32 (then n * 5^9 < 2^53), rounded beyond that (not modelled). *)
From Coq Require Import ZArith NArith QArith Qround List Bool String Ascii Decimal DecimalZ.
Import ListNotations.
Open Scope N_scope.

Definition str := list N.

Definition of_string (s : string) : str := map N_of_ascii (list_ascii_of_string s).

(* ------------------------------------------------------------------------------------------ *)
(* generic text helpers                                                                        *)
(* ------------------------------------------------------------------------------------------ *)
Fixpoint str_eqb (a b : str) : bool :=
  match a, b with
  | [], [] => true
  | x :: a', y :: b' => (x =? y) && str_eqb a' b'
  | _, _ => false
  end.

(* python `a <= b` on str: lexicographic by code point *)
Fixpoint str_leb (a b : str) : bool :=
  match a, b with
  | [], _ => true
  | _ :: _, [] => false
  | x :: a', y :: b' => if x <? y then true else if y <? x then false else str_leb a' b'
  end.

Definition mem (k : str) (l : list str) : bool := existsb (str_eqb k) l.

Definition nonempty {A} (l : list A) : bool := match l with [] => false | _ => true end.

(* python `s.replace(c, rep)` for a one-character needle c *)
Definition replace1 (c : N) (rep : str) (s : str) : str :=
  flat_map (fun x => if x =? c then rep else [x]) s.

(* python `sep.join(l)` *)
Fixpoint join (sep : str) (l : list str) : str :=
  match l with
  | [] => []
  | x :: r => match r with [] => x | _ => x ++ sep ++ join sep r end
  end.

(* ------------------------------------------------------------------------------------------ *)
(* python dicts as association lists (insertion ordered, unique keys)                          *)
(* ------------------------------------------------------------------------------------------ *)
Section Dict.
  Context {V : Type}.
  Fixpoint lookup (k : str) (d : list (str * V)) : option V :=
    match d with
    | [] => None
    | (k', v) :: t => if str_eqb k k' then Some v else lookup k t
    end.

  (* d[k] = v : replace in place or append *)
  Fixpoint dict_set (k : str) (v : V) (d : list (str * V)) : list (str * V) :=
    match d with
    | [] => [(k, v)]
    | (k', v') :: t => if str_eqb k k' then (k, v) :: t else (k', v') :: dict_set k v t
    end.

  (* d.update(items) *)
  Definition dict_update (d items : list (str * V)) : list (str * V) :=
    fold_left (fun acc kv => dict_set (fst kv) (snd kv) acc) items d.

  (* sorted(d.items()) : keys are unique, so the order is decided by the keys alone *)
  Fixpoint insert (kv : str * V) (l : list (str * V)) : list (str * V) :=
    match l with
    | [] => [kv]
    | h :: t => if str_leb (fst kv) (fst h) then kv :: l else h :: insert kv t
    end.
  Definition sort_items (l : list (str * V)) : list (str * V) := fold_right insert [] l.
End Dict.

(* ------------------------------------------------------------------------------------------ *)
(* values and how python prints them                                                           *)
(* ------------------------------------------------------------------------------------------ *)
Inductive value := VStr (s : str) | VBool (b : bool) | VInt (z : Z) | VFloat (tok : str) | VNone.

Fixpoint uint_str (u : Decimal.uint) : str :=
  match u with
  | Nil => []
  | D0 u => 48 :: uint_str u | D1 u => 49 :: uint_str u | D2 u => 50 :: uint_str u
  | D3 u => 51 :: uint_str u | D4 u => 52 :: uint_str u | D5 u => 53 :: uint_str u
  | D6 u => 54 :: uint_str u | D7 u => 55 :: uint_str u | D8 u => 56 :: uint_str u
  | D9 u => 57 :: uint_str u
  end.

(* python `str(z)` / `"%d" % z` for an int z *)
Definition print_Z (z : Z) : str :=
  match Z.to_int z with
  | Decimal.Pos u => uint_str u
  | Decimal.Neg u => 45 :: uint_str u
  end.

Definition s_True : str := [84; 114; 117; 101].
Definition s_False : str := [70; 97; 108; 115; 101].
Definition s_None : str := [78; 111; 110; 101].

(* python `str(value)` *)
Definition text_of (v : value) : str :=
  match v with
  | VStr s => s
  | VBool true => s_True
  | VBool false => s_False
  | VInt z => print_Z z
  | VFloat tok => tok
  | VNone => s_None
  end.

(* ------------------------------------------------------------------------------------------ *)
(* format_line.py:11-19  escape_key / escape_field, :36 the measurement                       *)
(* ------------------------------------------------------------------------------------------ *)
(* key.replace(",", "\,").replace("=", "\=").replace(" ", "\ ") *)
Definition escape_key (s : str) : str :=
  replace1 32 [92; 32] (replace1 61 [92; 61] (replace1 44 [92; 44] s)).

(* name.replace(",", "\,").replace(" ", "\ ") *)
Definition escape_name (s : str) : str :=
  replace1 32 [92; 32] (replace1 44 [92; 44] s).

(* DQ + field.replace(BS, BS BS).replace(DQ, BS DQ) + DQ     (DQ = double quote 34, BS = backslash 92) *)
Definition escape_string (s : str) : str :=
  [34] ++ replace1 34 [92; 34] (replace1 92 [92; 92] s) ++ [34].

(* escape_field: strings quoted, anything else returned unchanged and printed by "%s" *)
Definition escape_field (v : value) : str :=
  match v with VStr s => escape_string s | _ => text_of v end.

(* "%s=%s" % (_escape_key(key), _escape_key(str(value))) *)
Definition item_tag (kv : str * value) : str :=
  escape_key (fst kv) ++ [61] ++ escape_key (text_of (snd kv)).
(* "%s=%s" % (_escape_key(key), _escape_field(value)) *)
Definition item_field (kv : str * value) : str :=
  escape_key (fst kv) ++ [61] ++ escape_field (snd kv).

(* python `int(x)` for a (here: rational) number: truncation towards zero, as "%d" does *)
Definition Qtrunc (q : Q) : Z := if Qle_bool 0 q then Qfloor q else Qceiling q.

(* format_line.py:22-51  line_protocol(name, tags, fields, timestamp) *)
Definition line_protocol (name : str) (tags fields : list (str * value)) (ts : option Q) : str :=
  escape_name name
  ++ (match tags with
      | [] => []                                      (* `if tags:` *)
      | _ => [44] ++ join [44] (map item_tag (sort_items tags))
      end)
  ++ [32]
  ++ join [44] (map item_field (sort_items fields))
  ++ (match ts with
      | Some t => 32 :: print_Z (Qtrunc (t * inject_Z (10 ^ 9)))   (* " %d" % (timestamp * 1e9) *)
      | None => []
      end)
  ++ [10].

(* ------------------------------------------------------------------------------------------ *)
(* format_line.py:54-109  LineProtocolFormatter                                               *)
(* ------------------------------------------------------------------------------------------ *)
(* the `tags` constructor argument: None, an iterable of keys, or a mapping key -> default *)
Inductive tagcfg := TagsNone | TagsIter (ks : list str) | TagsMap (d : list (str * value)).
Record config := mkCfg { c_tags : tagcfg; c_res : option Z }.

(* :78 *) Definition default_tags (t : tagcfg) : list (str * value) :=
  match t with TagsMap d => d | _ => [] end.
(* :79 *) Definition whitelist (t : tagcfg) : list str :=
  match t with TagsNone => [] | TagsIter ks => ks | TagsMap d => map fst d end.

(* format_json.py:8-31 *)
Definition RECORD_ATTRIBUTES : list str :=
  map of_string
    ["args"; "asctime"; "created"; "exc_info"; "exc_text"; "filename"; "funcName"; "levelname";
     "levelno"; "lineno"; "message"; "module"; "msecs"; "msg"; "name"; "pathname"; "process";
     "processName"; "relativeCreated"; "stack_info"; "thread"; "threadName"]%string.

(* :80 *) Definition blacklisted (t : tagcfg) (k : str) : bool :=
  mem k (whitelist t) || mem k RECORD_ATTRIBUTES.

(* a monitor record: logger.info(name, data) created at `created` seconds;  `name` contains no
   '%' (so that `name % data` is `name`) -- see `wfb` *)
Record record := mkRec { r_name : str; r_data : list (str * value); r_created : Q }.

(* :93-96 *)
Definition tags_of (cfg : config) (r : record) : list (str * value) :=
  dict_update (default_tags (c_tags cfg))
              (filter (fun kv => mem (fst kv) (whitelist (c_tags cfg))) (r_data r)).
(* :97-101 *)
Definition fields_of (cfg : config) (r : record) : list (str * value) :=
  filter (fun kv => negb (blacklisted (c_tags cfg) (fst kv))) (r_data r).

(* :102-106  record.created // resolution * resolution *)
Definition downsample (created : Q) (res : Z) : Q :=
  inject_Z (Qfloor (created / inject_Z res) * res).

Inductive error := AssertNoneValue | ZeroDivision.
Inductive outcome := Ok (s : str) | Raised (e : error).

Definition is_none (v : value) : bool := match v with VNone => true | _ => false end.

(* :83-109  format *)
Definition format (cfg : config) (r : record) : outcome :=
  if existsb (fun kv => is_none (snd kv)) (r_data r) then Raised AssertNoneValue      (* :90-92 *)
  else match c_res cfg with
       | Some 0%Z => Raised ZeroDivision                                              (* :103 *)
       | Some res =>
           Ok (line_protocol (r_name r) (tags_of cfg r) (fields_of cfg r)
                             (Some (downsample (r_created r) res)))
       | None => Ok (line_protocol (r_name r) (tags_of cfg r) (fields_of cfg r) None)
       end.

(* ------------------------------------------------------------------------------------------ *)
(* Reference decoder, written from the InfluxDB line protocol reference:
     line      := measurement ("," key "=" tagvalue)* " " key "=" fieldvalue ("," key "=" fieldvalue)*
                  (" " timestamp)? "\n"
   - in the measurement a backslash escapes comma and space; in keys and tag values it escapes
     comma, equals sign and space; inside a quoted string field value it escapes the double quote
     and the backslash; a backslash before any other character is a literal backslash (and that
     other character is read normally);
   - measurement, keys and tag values are non-empty; a point has at least one field; a line
     starting with a hash sign is a comment, not a point;
   - an unquoted field value is a boolean literal or a numeral; the timestamp is an integer. *)
(* ------------------------------------------------------------------------------------------ *)
Inductive fvalue := FStr (s : str) | FBool (b : bool) | FNum (tok : str).

Definition sp_key (c : N) : bool := (c =? 44) || (c =? 61) || (c =? 32).
Definition sp_name (c : N) : bool := (c =? 44) || (c =? 32).

(* read an escaped token up to (not including) the first unescaped special character or line end *)
Fixpoint scan (sp : N -> bool) (l : str) : str * str :=
  match l with
  | [] => ([], [])
  | c :: r =>
      if c =? 92 then
        match r with
        | d :: r' =>
            if sp d then let (a, b) := scan sp r' in (d :: a, b)
            else let (a, b) := scan sp r in (92 :: a, b)
        | [] => ([92], [])
        end
      else if sp c || (c =? 10) then ([], l)
      else let (a, b) := scan sp r in (c :: a, b)
  end.

(* the inside of a quoted string, after the opening quote, up to and excluding the closing quote *)
Fixpoint scan_string (l : str) : option (str * str) :=
  match l with
  | [] => None
  | c :: r =>
      if c =? 92 then
        match r with
        | d :: r' =>
            if (d =? 92) || (d =? 34)
            then match scan_string r' with Some (a, b) => Some (d :: a, b) | None => None end
            else match scan_string r with Some (a, b) => Some (92 :: a, b) | None => None end
        | [] => None
        end
      else if c =? 34 then Some ([], r)
      else if c =? 10 then None
      else match scan_string r with Some (a, b) => Some (c :: a, b) | None => None end
  end.

Fixpoint span (p : N -> bool) (l : str) : str * str :=
  match l with
  | [] => ([], [])
  | c :: r => if p c then let (a, b) := span p r in (c :: a, b) else ([], l)
  end.

Definition is_digit (c : N) : bool := (48 <=? c) && (c <=? 57).
Definition numeral_char (c : N) : bool :=
  is_digit c || (c =? 43) || (c =? 45) || (c =? 46) || (c =? 69) || (c =? 101).

(* -?digits(.digits)?([eE][+-]?digits)? *)
Definition is_numeral (tok : str) : bool :=
  forallb numeral_char tok &&
  (let t1 := match tok with c :: r => if c =? 45 then r else tok | [] => [] end in
   let (ip, t2) := span is_digit t1 in
   nonempty ip &&
   match (match t2 with
          | c :: r => if c =? 46
                      then let (fp, t3) := span is_digit r in if nonempty fp then Some t3 else None
                      else Some t2
          | [] => Some []
          end) with
   | None => false
   | Some [] => true
   | Some (c :: r) =>
       ((c =? 69) || (c =? 101)) &&
       (let r' := match r with s :: r2 => if (s =? 43) || (s =? 45) then r2 else r | [] => [] end in
        let (ep, t4) := span is_digit r' in nonempty ep && negb (nonempty t4))
   end).

Fixpoint digits_uint (l : str) : option Decimal.uint :=
  match l with
  | [] => Some Nil
  | c :: r =>
      match digits_uint r with
      | None => None
      | Some u =>
          if c =? 48 then Some (D0 u) else if c =? 49 then Some (D1 u)
          else if c =? 50 then Some (D2 u) else if c =? 51 then Some (D3 u)
          else if c =? 52 then Some (D4 u) else if c =? 53 then Some (D5 u)
          else if c =? 54 then Some (D6 u) else if c =? 55 then Some (D7 u)
          else if c =? 56 then Some (D8 u) else if c =? 57 then Some (D9 u)
          else None
      end
  end.

(* value of an integer numeral  -?digits+ *)
Definition numeral_int (tok : str) : option Z :=
  match tok with
  | [] => None
  | c :: r =>
      if c =? 45
      then match r with
           | [] => None
           | _ => match digits_uint r with Some u => Some (Z.of_int (Decimal.Neg u)) | None => None end
           end
      else match digits_uint tok with Some u => Some (Z.of_int (Decimal.Pos u)) | None => None end
  end.

Definition bool_literal (tok : str) : option bool :=
  if mem tok (map of_string ["t"; "T"; "true"; "True"; "TRUE"]%string) then Some true
  else if mem tok (map of_string ["f"; "F"; "false"; "False"; "FALSE"]%string) then Some false
  else None.

Definition value_end (c : N) : bool := (c =? 44) || (c =? 32) || (c =? 10).

(* one field value and the rest of the line *)
Definition parse_value (l : str) : option (fvalue * str) :=
  match l with
  | [] => None
  | c :: r =>
      if c =? 34
      then match scan_string r with Some (s, rest) => Some (FStr s, rest) | None => None end
      else let (tok, rest) := span (fun x => negb (value_end x)) l in
           if is_numeral tok then Some (FNum tok, rest)
           else match bool_literal tok with
                | Some b => Some (FBool b, rest)
                | None => None
                end
  end.

(* ("," key "=" value)* " "   -- returns the tags and what follows the space *)
Fixpoint parse_tags (fuel : nat) (l : str) : option (list (str * str) * str) :=
  match fuel with
  | O => None
  | S f =>
      match l with
      | [] => None
      | c :: r =>
          if c =? 32 then Some ([], r)
          else if c =? 44 then
            let (k, r1) := scan sp_key r in
            match r1 with
            | e :: r2 =>
                if (e =? 61) && nonempty k then
                  let (v, r3) := scan sp_key r2 in
                  if nonempty v then
                    match parse_tags f r3 with
                    | Some (ts, r4) => Some ((k, v) :: ts, r4)
                    | None => None
                    end
                  else None
                else None
            | [] => None
            end
          else None
      end
  end.

(* key "=" value ("," key "=" value)*   -- returns the fields and the rest (" ..." or "\n") *)
Fixpoint parse_fields (fuel : nat) (l : str) : option (list (str * fvalue) * str) :=
  match fuel with
  | O => None
  | S f =>
      let (k, r1) := scan sp_key l in
      match r1 with
      | e :: r2 =>
          if (e =? 61) && nonempty k then
            match parse_value r2 with
            | Some (v, r3) =>
                match r3 with
                | d :: r4 =>
                    if d =? 44 then
                      match parse_fields f r4 with
                      | Some (fs, r5) => Some ((k, v) :: fs, r5)
                      | None => None
                      end
                    else Some ([(k, v)], r3)
                | [] => None
                end
            | None => None
            end
          else None
      | [] => None
      end
  end.

(* (" " timestamp)? "\n" and nothing after it *)
Definition parse_end (l : str) : option (option Z) :=
  match l with
  | c :: r =>
      if c =? 10 then match r with [] => Some None | _ => None end
      else if c =? 32 then
        let (tok, rest) := span (fun x => negb (x =? 10)) r in
        match numeral_int tok, rest with
        | Some z, [_] => Some (Some z)
        | _, _ => None
        end
      else None
  | [] => None
  end.

Definition point := (str * list (str * str) * list (str * fvalue) * option Z)%type.

Definition lp_parse (l : str) : option point :=
  match l with
  | [] => None
  | c0 :: _ =>
      if c0 =? 35 then None          (* comment line *)
      else
        let (name, r0) := scan sp_name l in
        if nonempty name then
          match parse_tags (List.length l) r0 with
          | Some (tags, r1) =>
              match parse_fields (List.length l) r1 with
              | Some (fields, r2) =>
                  match parse_end r2 with
                  | Some t => Some (name, tags, fields, t)
                  | None => None
                  end
              | None => None
              end
          | None => None
          end
        else None
  end.

(* ------------------------------------------------------------------------------------------ *)
(* what the decoder is expected to return for a record                                        *)
(* ------------------------------------------------------------------------------------------ *)
Definition fvalue_of (v : value) : fvalue :=
  match v with
  | VStr s => FStr s
  | VBool b => FBool b
  | VInt z => FNum (print_Z z)
  | VFloat tok => FNum tok
  | VNone => FNum []
  end.

(* canonical representation of a finite map: association list sorted by key *)
Definition expected_tags (cfg : config) (r : record) : list (str * str) :=
  map (fun kv => (fst kv, text_of (snd kv))) (sort_items (tags_of cfg r)).
Definition expected_fields (cfg : config) (r : record) : list (str * fvalue) :=
  map (fun kv => (fst kv, fvalue_of (snd kv))) (sort_items (fields_of cfg r)).
(* nanoseconds: the record time rounded down to a multiple of the resolution *)
Definition expected_time (cfg : config) (r : record) : option Z :=
  match c_res cfg with
  | Some res => Some (Qfloor (r_created r / inject_Z res) * res * 10 ^ 9)%Z
  | None => None
  end.

(* ------------------------------------------------------------------------------------------ *)
(* the property's domain (boolean, so that examples are decided by computation)               *)
(* ------------------------------------------------------------------------------------------ *)
Definition no_newline (s : str) : bool := forallb (fun c => negb (c =? 10)) s.
(* non-empty, no line break, no trailing backslash *)
Definition ok_key (s : str) : bool :=
  nonempty s && no_newline s && negb (List.last s 0 =? 92).
(* measurement name: additionally no '%' and not starting with '#' (a comment line) *)
Definition ok_name (s : str) : bool :=
  ok_key s && forallb (fun c => negb (c =? 37)) s && negb (List.hd 0 s =? 35).
Definition ok_value (v : value) : bool :=
  match v with
  | VStr s => no_newline s
  | VBool _ | VInt _ => true
  | VFloat tok => is_numeral tok          (* a finite float, as python prints it *)
  | VNone => false
  end.

Fixpoint nodup_keys {V} (l : list (str * V)) : bool :=
  match l with
  | [] => true
  | (k, _) :: t => negb (mem k (map fst t)) && nodup_keys t
  end.

Definition ok_item (t : tagcfg) (kv : str * value) : bool :=
  ok_key (fst kv) && ok_value (snd kv)
  && (if mem (fst kv) (whitelist t)
      then ok_key (text_of (snd kv))                       (* becomes a tag value *)
      else negb (mem (fst kv) RECORD_ATTRIBUTES)).         (* no collision with LogRecord attributes *)

Definition ok_default (kv : str * value) : bool :=
  ok_key (fst kv) && ok_key (text_of (snd kv)).

Definition wfb (cfg : config) (r : record) : bool :=
  ok_name (r_name r)
  && nodup_keys (r_data r) && forallb (ok_item (c_tags cfg)) (r_data r)
  && nodup_keys (default_tags (c_tags cfg)) && forallb ok_default (default_tags (c_tags cfg))
  && nonempty (fields_of cfg r)                               (* a point has at least one field *)
  && match c_res cfg with Some res => (0 <? res)%Z | None => true end.

Definition wf (cfg : config) (r : record) : Prop := wfb cfg r = true.

(* ------------------------------------------------------------------------------------------ *)
(* format_json.py:55-67  JsonFormatter.format: the dictionary handed to json.dumps.
   Values are opaque (`V`): the merge is shallow.  `time` is Some (formatted time) unless the
   timestamp is disabled (datefmt is a false value other than None, format_json.py:53).        *)
(* ------------------------------------------------------------------------------------------ *)
Definition k_message : str := of_string "message".
Definition k_time : str := of_string "time".

(* :53  self._add_time = self.datefmt or self.datefmt is None *)
Definition add_time (datefmt : option str) : bool :=
  match datefmt with None => true | Some s => nonempty s end.

Definition json_data {V} (defaults : list (str * V)) (time : option V) (message : V)
           (data : list (str * V)) : list (str * V) :=
  let d0 := defaults in                                                  (* :62 *)
  let d1 := match time with Some t => dict_set k_time t d0 | None => d0 end in   (* :63-64 *)
  let d2 := dict_set k_message message d1 in                             (* :65 *)
  dict_update d2 data.                                                   (* :66 *)
