(* Registry — who gets a payload that is handed to MetaRunner.register_payload, at any moment of the life of a
   runtime object that is run, stopped and run again (src/cobald/daemon/runners/meta_runner.py).

   The code:   register_payload   looks the runner of the flavour up in `_runners` UNDER `_register_lock`; a hit
               hands the payloads to that runner (outside the lock), a miss queues them in `_runner_queues` - or
               raises, if the runtime claims to be running;
               _launch_runners    creates the runners of a run, waits until they accept payloads, then publishes
               them in `_runners` under the lock;
               _unqueue_payloads  takes the queue (atomic swap under the lock) and registers its payloads again;
               _aclose_runners    (failure / interrupt path) closes the runners and clears `_runners`;
               _manage_runners    launch; running.set(); wait for the runners and the flush; on the way out:
               running.clear() and `_runners = {}` under the lock.

   The model: the registry state, a main thread walking through the life cycle of run after run, any number of
   registering threads (each registration is one atomic decision under the lock, each hand-off a later atomic
   step), and the environment stopping the runners of the current run at any time.  All interleavings: a
   history is a list of labels, `gstep` is deterministic per label.

   Parameters of the life cycle are the points where the code has been (or could be) different; they are
   computed from the generated IR of the five methods (kit/RegistryIR.v, props/C03_tie.v). *)
From Coq Require Import List Arith Bool.
Import ListNotations.

Record reg := mkReg {
  table : option nat;       (* `_runners`: the generation whose runners are published (None: empty) *)
  queue : list nat;         (* `_runner_queues`: payloads waiting for the next run *)
  running : bool;           (* `running` event *)
  gen : nat;                (* generation of the latest launch *)
  live : list nat           (* generations whose runners accept payloads right now *)
}.

Definition reg0 : reg := mkReg None [] false 0 [].

Inductive decision := DHand (g : nat) | DQueue | DRaise.

(* the lock region of register_payload *)
Definition decide (r : reg) : decision :=
  match table r with
  | Some g => DHand g
  | None => if running r then DRaise else DQueue
  end.

(* main thread: where it is in the life cycle *)
Inductive mpc :=
| Idle          (* no run in progress *)
| Launched      (* runners of generation `gen` created and ready, not yet published *)
| Published
| Up            (* running.set() done *)
| Flushing      (* queue taken; re-registering its payloads *)
| Serving       (* flush done: waiting for the runners *)
| Ended (failed : bool)      (* the runners have ended; on the way out *)
| Closed (failed : bool)     (* failure path: _aclose_runners done *)
| Cleared                    (* running.clear() done *).

(* the points of variation *)
Record lifecycle := mkLC {
  lc_aclose_clears : bool;      (* _aclose_runners empties `_runners` *)
  lc_end_clears : bool;         (* the way out of _manage_runners empties `_runners` (also after a graceful stop) *)
  lc_graceful_closes : bool     (* a gracefully stopped run goes through _aclose_runners as well *)
}.

Record sys := mkSys {
  s_reg : reg;
  s_pc : mpc;
  s_flush : list nat;                       (* payloads taken from the queue, not yet re-registered *)
  s_pend : list (nat * nat);                (* decided hand-offs not yet carried out: (payload, generation) *)
  s_handed : list (nat * nat * bool);       (* (payload, generation, was that generation live at the hand-off) *)
  s_raised : list nat;
  s_stale : list (nat * nat * mpc)          (* ghost: decisions for a generation that was NOT live when decided *)
}.

Definition sys0 : sys := mkSys reg0 Idle [] [] [] [] [].

Inductive label :=
| LRegister (p : nat)            (* some thread: the lock region of register_payload for payload p *)
| LHand (p g : nat)              (* that thread, later: runner.register_payload(p) *)
| LStop                          (* environment: the runners of the current run stop accepting (stop / failure) *)
| LMain (failed : bool).         (* main thread: its next step; `failed` matters when it learns how the run ended *)

Definition mem (x : nat) (l : list nat) : bool := existsb (Nat.eqb x) l.
Fixpoint remove_all (x : nat) (l : list nat) : list nat :=
  match l with [] => [] | y :: r => if y =? x then remove_all x r else y :: remove_all x r end.
Fixpoint remove_pair (p g : nat) (l : list (nat * nat)) : option (list (nat * nat)) :=
  match l with
  | [] => None
  | (p', g') :: r => if (p' =? p) && (g' =? g) then Some r
                     else match remove_pair p g r with Some r' => Some ((p', g') :: r') | None => None end
  end.

Definition with_table (r : reg) (t : option nat) : reg := mkReg t (queue r) (running r) (gen r) (live r).
Definition with_queue (r : reg) (q : list nat) : reg := mkReg (table r) q (running r) (gen r) (live r).
Definition with_running (r : reg) (b : bool) : reg := mkReg (table r) (queue r) b (gen r) (live r).
Definition with_live (r : reg) (l : list nat) : reg := mkReg (table r) (queue r) (running r) (gen r) l.

(* one registration decision, by whoever *)
Definition register (s : sys) (p : nat) : sys :=
  let r := s_reg s in
  match decide r with
  | DHand g =>
      mkSys r (s_pc s) (s_flush s) ((p, g) :: s_pend s) (s_handed s) (s_raised s)
            (if mem g (live r) then s_stale s else (p, g, s_pc s) :: s_stale s)
  | DQueue => mkSys (with_queue r (queue r ++ [p])) (s_pc s) (s_flush s) (s_pend s) (s_handed s) (s_raised s) (s_stale s)
  | DRaise => mkSys r (s_pc s) (s_flush s) (s_pend s) (s_handed s) (p :: s_raised s) (s_stale s)
  end.

Definition set_pc (s : sys) (pc : mpc) : sys :=
  mkSys (s_reg s) pc (s_flush s) (s_pend s) (s_handed s) (s_raised s) (s_stale s).
Definition set_reg (s : sys) (r : reg) : sys :=
  mkSys r (s_pc s) (s_flush s) (s_pend s) (s_handed s) (s_raised s) (s_stale s).

Definition gstep (lc : lifecycle) (s : sys) (l : label) : option sys :=
  let r := s_reg s in
  match l with
  | LRegister p => Some (register s p)
  | LHand p g =>
      match remove_pair p g (s_pend s) with
      | Some pend' => Some (mkSys r (s_pc s) (s_flush s) pend' ((p, g, mem g (live r)) :: s_handed s) (s_raised s) (s_stale s))
      | None => None
      end
  | LStop =>
      match s_pc s with
      | Launched | Published | Up | Flushing | Serving => Some (set_reg s (with_live r (remove_all (gen r) (live r))))
      | _ => None
      end
  | LMain failed =>
      match s_pc s with
      | Idle =>                    (* _launch_runners: runners created and ready *)
          Some (set_pc (set_reg s (mkReg (table r) (queue r) (running r) (S (gen r)) (S (gen r) :: live r))) Launched)
      | Launched =>                (* with lock: self._runners = runners *)
          Some (set_pc (set_reg s (with_table r (Some (gen r)))) Published)
      | Published =>               (* self.running.set() *)
          Some (set_pc (set_reg s (with_running r true)) Up)
      | Up =>                      (* _unqueue_payloads: with lock: swap *)
          Some (mkSys (with_queue r []) Flushing (queue r) (s_pend s) (s_handed s) (s_raised s) (s_stale s))
      | Flushing =>                (* ... re-register every queued payload, one at a time *)
          match s_flush s with
          | p :: rest => Some (register (mkSys r Flushing rest (s_pend s) (s_handed s) (s_raised s) (s_stale s)) p)
          | [] => Some (set_pc s Serving)
          end
      | Serving =>                 (* gather returns / raises: only once the runners have ended *)
          if mem (gen r) (live r) then None else Some (set_pc s (Ended failed))
      | Ended failed' =>           (* _aclose_runners: on the failure / interrupt path, and after a graceful stop if so built *)
          Some (set_pc (if (failed' || lc_graceful_closes lc) && lc_aclose_clears lc
                        then set_reg s (with_table r None) else s) (Closed failed'))
      | Closed _ =>                (* finally: self.running.clear() *)
          Some (set_pc (set_reg s (with_running r false)) Cleared)
      | Cleared =>                 (* finally: with lock: self._runners = {} *)
          Some (set_pc (if lc_end_clears lc then set_reg s (with_table r None) else s) Idle)
      end
  end.

Fixpoint grun (lc : lifecycle) (s : sys) (ls : list label) : option sys :=
  match ls with
  | [] => Some s
  | l :: r => match gstep lc s l with Some s' => grun lc s' r | None => None end
  end.

(* the life cycle of the current source, and the one of the pinned snapshot *)
Definition lc_fixed : lifecycle := mkLC false true true.       (* /repo now *)
Definition lc_snapshot : lifecycle := mkLC true false false.   (* the pinned snapshot f3fbc69 *)
Definition lc_interim : lifecycle := mkLC true true false.     (* /repo at 23740f1 *)

(* "shutting down": from the moment the runners have ended until the tables are consistent again *)
Definition closing (pc : mpc) : bool :=
  match pc with Ended _ | Closed _ | Cleared => true | _ => false end.
