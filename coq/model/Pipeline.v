(* Reference model for property C05: loading the `pipeline` section of a YAML configuration.

   Part 1  data: YAML nodes, python values (with templates = cobald.interfaces.Partial and
           references to constructed pipeline objects), construction events, the
           state-with-failure monad M (object counter + global construction log).
   Part 2  MODEL, transcribing
             config/yaml.py:57-70          yaml_constructor (mapping -> kwargs, sequence -> args,
                                           scalar -> no arguments) applied to a `.s` factory
             interfaces/_partial.py:45-58   Partial.__init__ / _check_signature ("target" refused)
             interfaces/_partial.py:74-93   Partial.__construct__ / __rshift__
             config/mapping.py:41-87        Translator.translate_hierarchy / construct, with
                                            construct_kwargs (target=...)
             core/config.py:105-113         load_pipeline
             core/config.py:134-161         PipelineTranslator.translate_hierarchy
           Class behaviour is an oracle: `leaf c` (a Pool: __init__(self, *args, **kwargs)) or an
           owner (__init__(self, target, *args, **kwargs)), `fails c` (its __init__ raises).
           Named classes of __type__ mappings come from the oracle `resolve` (load_name).
   Part 3  an independent small model of the python `>>` chain (_partial.py:85-93, 128-137),
           used to state "equals the pipeline built in Python with >>".
   Lazy/eager evaluation of YAML tags has no counterpart here: values are immutable, and the
   pipeline is only built after the document is complete (validated by the correspondence). *)
From Coq Require Import ZArith NArith QArith List Bool Arith.
From Cobald Require Import model.Mapping.
Import ListNotations.

(* ------------------------------------------------------------------ Part 1: data *)
Definition cls := N.
Definition tag := N.
Inductive tagk := KTemplate | KAux.   (* registered with a `.s` factory / with a plain factory *)

Inductive pvalue :=
| PS (s : scalar)
| PL (l : list pvalue)
| PM (m : list (str * pvalue))
| PTag (k : tagk) (c : cls) (args : list pvalue) (kw : list (str * pvalue))
   (* KTemplate: Partial(c, *args, **kw); KAux: the object a plain tag factory returned *)
| PRef (id : nat).    (* a constructed pipeline object, by identity *)

Inductive form := FMap | FSeq | FScalar.
Inductive ynode :=
| YS (s : scalar)
| YL (l : list ynode)
| YM (m : list (str * ynode))
| YT (t : tag) (f : form) (args : list ynode) (kw : list (str * ynode)).
   (* !Tag {kw} / !Tag [args] / !Tag ; only the part selected by the form is used *)

Definition s_pipeline : str := [112; 105; 112; 101; 108; 105; 110; 101]%N.   (* "pipeline" *)
Definition s_target : str := [116; 97; 114; 103; 101; 116]%N.               (* "target" *)

(* one entry of the global construction log: __init__ of class e_cls was entered *)
Record event := mkEv {
  e_id : nat; e_cls : cls; e_target : option pvalue;
  e_args : list pvalue; e_kw : list (str * pvalue) }.
Record pstate := mkSt { next : nat; plog : list event }.
Definition st0 : pstate := mkSt 0 [].

Definition M (A : Type) : Type := pstate -> (res A * pstate).
Definition retM {A} (a : A) : M A := fun st => (Ok a, st).
Definition failM {A} (e : pyexc) : M A := fun st => (Err e, st).
Definition bindM {A B} (m : M A) (f : A -> M B) : M B :=
  fun st => match m st with
            | (Ok a, st1) => f a st1
            | (Err e, st1) => (Err e, st1)
            end.
Definition wrapM {A} (w : str) (m : M A) : M A :=
  fun st => let r := m st in (wrap w (fst r), snd r).

Definition is_none (v : pvalue) : bool := match v with PS SNone => true | _ => false end.
Definition is_template (v : pvalue) : bool :=
  match v with PTag KTemplate _ _ _ => true | _ => false end.
Definition int_like (v : pvalue) : option Z :=
  match v with
  | PS (SInt z) => Some z
  | PS (SBool b) => Some (if b then 1%Z else 0%Z)
  | _ => None
  end.
(* hasattr(item, "__rshift__"): Partial and int/bool; not dict, list, str, float, None,
   plain objects or constructed Controllers/Pools *)
Definition has_rshift (v : pvalue) : bool :=
  match v with
  | PTag KTemplate _ _ _ => true
  | _ => match int_like v with Some _ => true | None => false end
  end.

Definition pstar_args (v : pvalue) : option (list pvalue) :=
  match v with
  | PL l => Some l
  | PS (SStr s) => Some (map (fun ch => PS (SStr [ch])) s)
  | PM m => Some (map (fun kv => PS (SStr (fst kv))) m)
  | _ => None
  end.
Definition ptype_name (v : pvalue) : option str :=
  match v with PS (SStr s) => Some s | _ => None end.

(* {**mapping, **kwargs}: existing keys keep their place and get the new value *)
Fixpoint dict_set {A} (k : str) (v : A) (m : list (str * A)) : list (str * A) :=
  match m with
  | [] => [(k, v)]
  | kv :: r => if str_eqb k (fst kv) then (k, v) :: r else kv :: dict_set k v r
  end.
Definition dict_update {A} (m kw : list (str * A)) : list (str * A) :=
  fold_left (fun acc kv => dict_set (fst kv) (snd kv) acc) kw m.

(* ------------------------------------------------------------------ Part 2: the model *)
Section Model.
  Variable reg : tag -> option (tagk * cls * bool).   (* COBalDLoader constructors: kind, class, eager *)
  Variable resolve : str -> rres.                      (* load_name; RCallable c = class c *)
  Variable leaf : cls -> bool.
  Variable fails : cls -> bool.

  (* ---- YAML construction of the document (before any section plugin runs) ---- *)
  Definition rbind {A B} (r : res A) (f : A -> res B) : res B :=
    match r with Ok a => f a | Err e => Err e end.

  Section YChildren.
    Variable yl : ynode -> res pvalue.
    Fixpoint yload_list (l : list ynode) : res (list pvalue) :=
      match l with
      | [] => Ok []
      | x :: r => rbind (yl x) (fun v => rbind (yload_list r) (fun vs => Ok (v :: vs)))
      end.
    Fixpoint yload_items (m : list (str * ynode)) : res (list (str * pvalue)) :=
      match m with
      | [] => Ok []
      | kv :: r => rbind (yl (snd kv)) (fun v => rbind (yload_items r) (fun vs => Ok ((fst kv, v) :: vs)))
      end.
  End YChildren.

  (* Partial.__init__ (_partial.py:45-58): refuses a `target` keyword; the signature check is
     vacuous for classes taking *args, **kwargs *)
  Definition make_partial (c : cls) (args : list pvalue) (kw : list (str * pvalue)) : res pvalue :=
    if has_key s_target kw then Err (PExc ExType) else Ok (PTag KTemplate c args kw).

  Fixpoint yload (y : ynode) : res pvalue :=
    match y with
    | YS s => Ok (PS s)
    | YL l => rbind (yload_list (fun x => yload x) l) (fun vs => Ok (PL vs))
    | YM m => rbind (yload_items (fun x => yload x) m) (fun vs => Ok (PM vs))
    | YT t f args kw =>
        match reg t with
        | None => Err (PExc ExYaml)                         (* no constructor for the tag *)
        | Some (k, c, _) =>
            (* yaml.py:57-70 *)
            rbind (match f with
                   | FMap => rbind (yload_items (fun x => yload x) kw) (fun k' => Ok ([], k'))   (* :58-60 factory( **kwargs ) *)
                   | FSeq => rbind (yload_list (fun x => yload x) args) (fun a => Ok (a, []))    (* :63-65 factory( *args ) *)
                   | FScalar => Ok ([], [])                                                   (* :61-62 factory() *)
                   end)
                  (fun ak =>
                     match k with
                     | KTemplate => make_partial c (fst ak) (snd ak)   (* cls.s(...) = Partial(cls, ...) *)
                     | KAux => Ok (PTag KAux c (fst ak) (snd ak))
                     end)
        end
    end.

  (* ---- calling a class ---- *)
  (* owners: __init__(self, target, *args, **kwargs); pools: __init__(self, *args, **kwargs) *)
  Definition bind_sig (c : cls) (pos : list pvalue) (kw : list (str * pvalue))
    : res (option pvalue * list pvalue * list (str * pvalue)) :=
    if leaf c then Ok (None, pos, kw)
    else match lookup s_target kw with
         | Some t => match pos with
                     | [] => Ok (Some t, [], remove s_target kw)
                     | _ => Err (PExc ExType)          (* multiple values for argument 'target' *)
                     end
         | None => match pos with
                   | t :: r => Ok (Some t, r, kw)
                   | [] => Err (PExc ExType)           (* missing argument 'target' *)
                   end
         end.

  Definition new_obj (c : cls) (pos : list pvalue) (kw : list (str * pvalue)) : M pvalue :=
    fun st =>
      match bind_sig c pos kw with
      | Err e => (Err e, st)
      | Ok (t, a, k) =>
          let st' := mkSt (S (next st)) (plog st ++ [mkEv (next st) c t a k]) in
          if fails c then (Err (PExc (ExUser c)), st') else (Ok (PRef (next st)), st')
      end.

  (* Partial.__construct__( *extra ): ctor( *extra, *self.args, **self.kwargs )  _partial.py:74-75 *)
  Definition tpl_construct (c : cls) (args : list pvalue) (kw : list (str * pvalue))
             (extra : list pvalue) : M pvalue := new_obj c (extra ++ args) kw.

  (* item >> prev_item for an item that has __rshift__ (core/config.py:147) *)
  Definition rshift (x p : pvalue) : M pvalue :=
    match x with
    | PTag KTemplate c args kw =>
        if is_template p then failM (PExc ExAssert)     (* unreachable: prev_item is never a Partial (:159) *)
        else tpl_construct c args kw [p]                (* _partial.py:92-93 *)
    | _ =>
        match int_like x, int_like p with
        | Some a, Some b => if (b <? 0)%Z then failM (PExc ExValue) else retM (PS (SInt (Z.shiftr a b)))
        | _, _ => failM (PExc ExType)
        end
    end.

  (* mapping.py:75-87 with construct_kwargs *)
  Definition pconstruct (m ckw : list (str * pvalue)) : M pvalue :=
    if has_key s_type ckw || has_key s_args ckw then failM (PExc ExAssert) else      (* :82 *)
    let m0 := dict_update m ckw in                                                   (* :83 *)
    match lookup s_type m0 with                                                      (* :84 *)
    | None => failM (PExc ExKey)
    | Some tv =>
      let m1 := remove s_type m0 in
      match ptype_name tv with
      | None => failM (PExc ExAttr)
      | Some name =>
        match resolve name with                                                      (* :85 *)
        | RRaise e => failM (PExc e)
        | RNoSuch => failM (PConf (WNoSuch name) None)
        | r =>
          let argv := match lookup s_args m1 with Some a => a | None => PL [] end in (* :86 *)
          let m2 := remove s_args m1 in
          match pstar_args argv with
          | None => failM (PExc ExType)
          | Some args =>
            match r with
            | RCallable c => new_obj c args m2                                       (* :87 *)
            | _ => failM (PExc ExType)
            end
          end
        end
      end
    end.

  Section Children.
    Variable tr : str -> list (str * pvalue) -> pvalue -> M pvalue.  (* self.translate_hierarchy *)
    Variable w : str.

    (* mapping.py:46-49 *)
    Fixpoint tr_items (m : list (str * pvalue)) : M (list (str * pvalue)) :=
      match m with
      | [] => retM []
      | kv :: r =>
          bindM (tr (where_key w (fst kv)) [] (snd kv)) (fun v' =>
          bindM (tr_items r) (fun r' => retM ((fst kv, v') :: r')))
      end.

    (* mapping.py:58-63 *)
    Fixpoint tr_comp (i : nat) (l : list pvalue) : M (list pvalue) :=
      match l with
      | [] => retM []
      | x :: r =>
          bindM (tr_comp (S i) r) (fun acc =>
          bindM (tr (where_idx w i) [] x) (fun v => retM (acc ++ [v])))
      end.

    (* core/config.py:142-160: the loop over reversed(list(enumerate(pipeline))); the state is
       (prev_item, items), items in the order of the appends (last element first) *)
    Fixpoint tr_pipe (i : nat) (l : list pvalue) : M (pvalue * list pvalue) :=
      match l with
      | [] => retM (PS SNone, [])                                              (* :142 *)
      | x :: r =>
          bindM (tr_pipe (S i) r) (fun st =>
          bindM (if negb (is_none (fst st)) then                              (* :144 *)
                   if has_rshift x then rshift x (fst st)                     (* :145-147 *)
                   else tr (where_idx w i) [(s_target, fst st)] x            (* :150-152 *)
                 else
                   bindM (tr (where_idx w i) [] x) (fun y =>                 (* :154-156 *)
                   match y with
                   | PTag KTemplate c a k => tpl_construct c a k []          (* :157-158 *)
                   | _ => retM y
                   end))
                (fun y =>
                   if is_template y then failM (PExc ExAssert)               (* :159 *)
                   else retM (y, snd st ++ [y])))                            (* :160 *)
      end.
  End Children.

  (* core/config.py:135-136  structure["pipeline"] on a dict: the handler h gets the value *)
  Section FindPipeline.
    Context {A : Type}.
    Variable h : pvalue -> A.
    Fixpoint findp (m0 : list (str * pvalue)) : option A :=
      match m0 with
      | [] => None
      | kv :: r => if str_eqb s_pipeline (fst kv) then Some (h (snd kv)) else findp r
      end.
  End FindPipeline.

  (* PipelineTranslator.translate_hierarchy (core/config.py:134-161); the `except` branch is
     Translator.translate_hierarchy (mapping.py:41-73), whose recursive calls come back here *)
  Fixpoint ptr (w : str) (ckw : list (str * pvalue)) (v : pvalue) {struct v} : M pvalue :=
    match v with
    | PM m =>
        match findp (fun pv =>                                               (* :136 structure["pipeline"] *)
                 match pv with
                 | PL items =>
                     bindM (tr_pipe (fun w1 c x => ptr w1 c x) w 0 items)
                           (fun st => retM (PL (rev (snd st))))                  (* :161 *)
                 | PS (SStr s) =>      (* iterating a str: 1-character strings pass unchanged *)
                     retM (PL (map (fun ch => PS (SStr [ch])) s))
                 | PM keys => retM (PL (map (fun kv => PS (SStr (fst kv))) keys))
                 | _ => failM (PExc ExType)                                       (* enumerate(non-iterable) *)
                 end) m with
        | Some run => run
        | None =>                                                                 (* :137-140 super() *)
            wrapM w (bindM (tr_items (fun w1 c x => ptr w1 c x) w m) (fun m' =>
                     if has_key s_type m' then pconstruct m' ckw else retM (PM m')))
        end
    | PL l =>
        wrapM w (bindM (tr_comp (fun w1 c x => ptr w1 c x) w 0 l) (fun c => retM (PL (rev c))))
    | _ => retM v
    end.

  (* core/config.py:105-113 *)
  Definition load_pipeline (content : pvalue) : M pvalue := ptr [] [] (PM [(s_pipeline, content)]).

  (* the pipeline section of a document: YAML construction, then the section plugin *)
  Definition load_doc (content : ynode) : res pvalue * pstate :=
    match yload content with
    | Err e => (Err e, st0)
    | Ok v => load_pipeline v st0
    end.

  (* ---------------------------------------------------------------- Part 3: python `>>` *)
  Record tmpl := mkT { t_cls : cls; t_args : list pvalue; t_kw : list (str * pvalue) }.
  Inductive chain_val :=
  | CTpl (t : tmpl)                                  (* Partial *)
  | CBind (parent : tmpl) (targets : list tmpl)      (* PartialBind *)
  | CObj (v : pvalue).                               (* a constructed object *)

  Definition t_construct (t : tmpl) (extra : list pvalue) : M pvalue :=
    new_obj (t_cls t) (extra ++ t_args t) (t_kw t).

  (* for owner in reversed(owners): pool = owner >> pool *)
  Fixpoint bind_owners (rev_owners : list tmpl) (pool : pvalue) : M pvalue :=
    match rev_owners with
    | [] => retM pool
    | o :: r => bindM (t_construct o [pool]) (fun p => bind_owners r p)
    end.

  (* a >> b with b a template (Partial.__rshift__ _partial.py:85-93, PartialBind.__rshift__ :128-137) *)
  Definition chain_rshift (a : chain_val) (b : tmpl) : M chain_val :=
    match a with
    | CTpl t =>
        if leaf (t_cls b) then                                              (* :89-90 *)
          bindM (t_construct b []) (fun pool =>
          bindM (t_construct t [pool]) (fun o => retM (CObj o)))            (* :93 *)
        else retM (CBind t [b])                                             (* :91 *)
    | CBind p ts =>
        if leaf (t_cls b) then                                              (* :134-135, then :129-133 *)
          bindM (t_construct b []) (fun pool =>
          bindM (bind_owners (rev ts) pool) (fun pool' =>
          bindM (t_construct p [pool']) (fun o => retM (CObj o))))
        else retM (CBind p (ts ++ [b]))                                     (* :137 *)
    | CObj _ => failM (PExc ExType)                 (* constructed objects have no __rshift__ *)
    end.

  (* t1 >> t2 >> ... >> tn, left associative; a single template is constructed directly *)
  Definition chain_build (ts : list tmpl) : M pvalue :=
    match ts with
    | [] => failM (PExc ExValue)
    | t :: r =>
        bindM (fold_left (fun acc b => bindM acc (fun a => chain_rshift a b)) r (retM (CTpl t)))
              (fun cv => match cv with
                         | CTpl t1 => t_construct t1 []
                         | CObj o => retM o
                         | CBind _ _ => failM (PExc ExType)
                         end)
    end.
End Model.

(* ------------------------------------------------------------------ Part 4: specification *)
(* what a pipeline element describes: class, positional and keyword arguments *)
Record espec := mkSpec { sp_cls : cls; sp_args : list pvalue; sp_kw : list (str * pvalue) }.

(* argument values the full property speaks about: anything YAML can express; the only reserved
   key below a legacy element is __type__ (nested legacy constructors are property C19) *)
Fixpoint no_nested_type (v : pvalue) : bool :=
  match v with
  | PL l => forallb no_nested_type l
  | PM m => negb (has_key s_type m) && forallb (fun kv => no_nested_type (snd kv)) m
  | _ => true
  end.

(* the guard of the _partial theorems: additionally no nested key named "pipeline" *)
Fixpoint plain (v : pvalue) : bool :=
  match v with
  | PL l => forallb plain l
  | PM m => negb (has_key s_pipeline m) && negb (has_key s_type m)
            && forallb (fun kv => plain (snd kv)) m
  | _ => true
  end.

Section Spec.
  Variable resolve : str -> rres.
  Variable leaf : cls -> bool.
  Variable fails : cls -> bool.

  (* a loaded element of one of the four forms; `guard` constrains the keyword values of legacy
     __type__ mappings (values of !Tag elements are never looked at by the translator) *)
  Definition elem_spec (guard : pvalue -> bool) (v : pvalue) : option espec :=
    match v with
    | PTag KTemplate c args kw =>                   (* !Tag {..} / !Tag [..] / !Tag *)
        if has_key s_target kw then None else Some (mkSpec c args kw)
    | PM m =>                                        (* {__type__: name, key: value, ...} *)
        match lookup s_type m with
        | Some (PS (SStr name)) =>
            match resolve name with
            | RCallable c =>
                if nodup_keys (keys m) && negb (has_key s_args m) && negb (has_key s_target m)
                   && negb (has_key s_pipeline m) && forallb (fun kv => guard (snd kv)) m
                then Some (mkSpec c [] (remove s_type m)) else None
            | _ => None
            end
        | _ => None
        end
    | _ => None
    end.

  (* owners ..., then exactly one pool *)
  Fixpoint shape (l : list espec) : bool :=
    match l with
    | [] => false
    | [s] => leaf (sp_cls s)
    | s :: r => negb (leaf (sp_cls s)) && shape r
    end.

  (* the construction log of a chain: rs = elements LAST TO FIRST; each is constructed once, with
     exactly its configured arguments, its target being the object constructed just before *)
  Fixpoint chain_events (id : nat) (prev : option pvalue) (rs : list espec) : list event :=
    match rs with
    | [] => []
    | s :: r => mkEv id (sp_cls s) prev (sp_args s) (sp_kw s)
                :: chain_events (S id) (Some (PRef id)) r
    end.
  Definition expected_log (specs : list espec) : list event := chain_events 0 None (rev specs).
  (* the section content: n objects in configuration order; element i is object n-1-i *)
  Definition expected_refs (n : nat) : list pvalue := map PRef (rev (seq 0 n)).

  Definition tmpl_of (s : espec) : tmpl := mkT (sp_cls s) (sp_args s) (sp_kw s).

  (* how the failure of element x's constructor (class c, position i) surfaces *)
  Definition elem_err (i : nat) (x : pvalue) (c : cls) : pyexc :=
    match x with
    | PTag _ _ _ _ => PExc (ExUser c)                                   (* raw, from `>>` *)
    | _ => PConf (WExc (ExUser c)) (Some (where_idx [] i))               (* via Translator's except *)
    end.
End Spec.
