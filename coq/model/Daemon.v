(* Daemon — process-level model of `python -m cobald.daemon <config>` (src/cobald/daemon/core/main.py,
   core/config.py::load) as a thin layer over RT:
     - runner 0 is the global `runtime`; payload 0 is the asyncio payload `_load_services(path)` adopted
       before accept (main.py:33-34); it constructs the configured objects and then sleeps forever
       inside `with load(path)` (main.py:37-43);
     - every service among the configured objects is a service unit created by payload 0
       (NewService (InPayload 0) ...);
     - a not-yet-started service unit is only weakly referenced by the runtime (service.py:45): it can be
       garbage collected (DropService) unless something else keeps it alive.  `holds` says whether the
       creating payload keeps its creations referenced while it runs — for the daemon this is the
       structure fact extracted from main.py / config.py on every run (gen/Gen_daemon.v).
   The exit status is 0 iff the blocking run call returned normally (cli_run lets every exception
   escape, main.py:46-54). *)
From Coq Require Import List Arith Bool.
From Cobald Require Import model.RT.
Import ListNotations.

Record dstate := mkD { d_rt : rt; d_creator : nat -> option nat }.

Definition dinit : dstate := mkD init (fun _ => None).

Definition is_run (x : pst) : bool := match x with PRun => true | _ => false end.

Definition dstep (holds : bool) (d : dstate) (e : event) : option dstate :=
  match e with
  | NewService (InPayload q) sv f =>
      (* an object can only be constructed by a payload that is running *)
      if is_run (p_st (pay (d_rt d) q)) then
        match step (d_rt d) e with
        | Some s' => Some (mkD s' (upd (d_creator d) sv (Some q)))
        | None => None
        end
      else None
  | DropService sv =>
      match d_creator d sv with
      | Some q =>
          if holds && is_run (p_st (pay (d_rt d) q)) then None       (* still referenced by its creator *)
          else match step (d_rt d) e with Some s' => Some (mkD s' (d_creator d)) | None => None end
      | None => match step (d_rt d) e with Some s' => Some (mkD s' (d_creator d)) | None => None end
      end
  | _ => match step (d_rt d) e with Some s' => Some (mkD s' (d_creator d)) | None => None end
  end.

Fixpoint drun (holds : bool) (d : dstate) (tr : list event) : option dstate :=
  match tr with
  | [] => Some d
  | e :: r => match dstep holds d e with Some d' => drun holds d' r | None => None end
  end.

Definition exit_status (d : dstate) : nat :=
  match r_phase (run_ (d_rt d) 0) with Ended AReturned => 0 | _ => 1 end.

Fixpoint dfirst_reject (holds : bool) (d : dstate) (tr : list event) (i : nat) : option nat :=
  match tr with
  | [] => None
  | e :: r => match dstep holds d e with Some d' => dfirst_reject holds d' r (S i) | None => Some i end
  end.
