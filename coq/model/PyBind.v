(* Python call binding and inspect.Signature.bind_partial, as used by
   cobald.interfaces._partial.Partial._check_signature (src/cobald/interfaces/_partial.py:52-67).

   A signature is kept in the shape that both `def` and inspect.Signature enforce
   (positional-only, positional-or-keyword, *args, keyword-only, **kwargs -- in this order);
   `params` flattens it to the parameter list that inspect iterates over.
   Names are numbered by the harness (N); 0 = "target", 1 = "args", 2 = "kwargs".

   Acceptance of a call depends only on the NUMBER of positional arguments and the keyword
   NAMES, never on values, so the boolean functions take `(n : nat) (keys : list N)`.
   `bind_call` additionally returns which value each parameter receives. *)
From Coq Require Import NArith List Bool Arith.
Import ListNotations.

Inductive pkind := PosOnly | PosOrKw | VarPos | KwOnly | VarKw.

Record param := mkParam { p_name : N; p_kind : pkind; p_default : bool }.

(* one named parameter: (name, has_default) *)
Definition pent := (N * bool)%type.

Record sig := mkSig {
  s_posonly : list pent;
  s_pork : list pent;
  s_varpos : option N;
  s_kwonly : list pent;
  s_varkw : option N
}.

Definition mk_params (k : pkind) (l : list pent) : list param :=
  map (fun e => mkParam (fst e) k (snd e)) l.

Definition opt_param (k : pkind) (o : option N) : list param :=
  match o with Some n => [mkParam n k false] | None => [] end.

(* inspect.Signature.parameters.values() *)
Definition params (s : sig) : list param :=
  mk_params PosOnly (s_posonly s) ++ mk_params PosOrKw (s_pork s) ++ opt_param VarPos (s_varpos s)
  ++ mk_params KwOnly (s_kwonly s) ++ opt_param VarKw (s_varkw s).

Definition names (l : list pent) : list N := map fst l.
Definition mem (k : N) (l : list N) : bool := existsb (N.eqb k) l.
Fixpoint remove_key (k : N) (l : list N) : list N :=
  match l with
  | [] => []
  | x :: r => if N.eqb k x then remove_key k r else x :: remove_key k r
  end.

Definition is_some {A} (o : option A) : bool := match o with Some _ => true | None => false end.

Definition empty_sig : sig := mkSig [] [] None [] None.

(* ------------------------------------------------------------------------------------------
   Python's call binding (language reference 6.3.4 "Calls"): positional arguments fill the
   positional slots in order, the excess goes to *args; every keyword fills the slot of that
   name (positional-or-keyword or keyword-only), a slot filled twice is an error, a keyword
   without slot goes to **kwargs; every slot still unfilled takes its default or is an error.
   ------------------------------------------------------------------------------------------ *)
Section Full.
  Variable s : sig.
  Variable n : nat.              (* number of positional arguments *)
  Variable keys : list N.        (* keyword names (distinct in any real call) *)

  Definition npo : nat := length (s_posonly s).
  Definition filled_pork : list pent := firstn (n - npo) (s_pork s).
  Definition unfilled_pork : list pent := skipn (n - npo) (s_pork s).
  Definition unfilled_posonly : list pent := skipn n (s_posonly s).

  (* enough room for the positional arguments *)
  Definition fits : bool := (n <=? npo + length (s_pork s)) || is_some (s_varpos s).

  (* every keyword finds a free slot or **kwargs *)
  Definition kw_ok : bool :=
    forallb (fun k =>
      if mem k (names filled_pork) then false                       (* multiple values *)
      else if mem k (names unfilled_pork ++ names (s_kwonly s)) then true
      else is_some (s_varkw s))                                     (* unexpected keyword *)
      keys.

  (* every slot is filled or has a default *)
  Definition req_ok : bool :=
    forallb snd unfilled_posonly
    && forallb (fun p => snd p || mem (fst p) keys) unfilled_pork
    && forallb (fun p => snd p || mem (fst p) keys) (s_kwonly s).

  Definition can_bind : bool := fits && kw_ok.          (* no error that more arguments could not repair *)
  Definition bind_full : bool := fits && kw_ok && req_ok.
End Full.

(* what each parameter receives *)
Inductive bound (V : Type) :=
| BVal (v : V) | BDefault | BStar (vs : list V) | BKwd (kvs : list (N * V)).
Arguments BVal {V}. Arguments BDefault {V}. Arguments BStar {V}. Arguments BKwd {V}.

Fixpoint lookup {V} (k : N) (kw : list (N * V)) : option V :=
  match kw with
  | [] => None
  | (k', v) :: r => if N.eqb k k' then Some v else lookup k r
  end.

Definition by_kw {V} (kw : list (N * V)) (p : pent) : (N * bound V) :=
  (fst p, match lookup (fst p) kw with Some v => BVal v | None => BDefault end).

Fixpoint by_pos {V} (ps : list pent) (pos : list V) (kw : list (N * V)) (allow_kw : bool)
  : list (N * bound V) :=
  match ps with
  | [] => []
  | p :: r =>
    match pos with
    | v :: pr => (fst p, BVal v) :: by_pos r pr kw allow_kw
    | [] => (if allow_kw then by_kw kw p else (fst p, BDefault)) :: by_pos r [] kw allow_kw
    end
  end.

Definition bind_vals {V} (s : sig) (pos : list V) (kw : list (N * V)) : list (N * bound V) :=
  let np := length (s_posonly s) in
  by_pos (s_posonly s) pos kw false
  ++ by_pos (s_pork s) (skipn np pos) kw true
  ++ match s_varpos s with Some a => [(a, BStar (skipn (np + length (s_pork s)) pos))] | None => [] end
  ++ map (by_kw kw) (s_kwonly s)
  ++ match s_varkw s with
     | Some k => [(k, BKwd (filter (fun kv => negb (mem (fst kv) (names (s_pork s) ++ names (s_kwonly s)))) kw))]
     | None => [] end.

Definition bind_call {V} (s : sig) (pos : list V) (kw : list (N * V)) : option (list (N * bound V)) :=
  if bind_full s (length pos) (map fst kw) then Some (bind_vals s pos kw) else None.

(* ------------------------------------------------------------------------------------------
   inspect.Signature._bind(args, kwargs, partial=True)   (CPython 3.12 Lib/inspect.py)
   Phase 1 walks parameters and positional arguments together; it returns the parameters
   left for phase 2 (`itertools.chain(parameters_ex, parameters)`), or None for TypeError.
   ------------------------------------------------------------------------------------------ *)
Fixpoint bp_pos (ps : list param) (n : nat) (keys : list N) : option (list param) :=
  match ps with
  | [] => match n with 0 => Some [] | S _ => None end          (* 'too many positional arguments' *)
  | p :: r =>
    match n with
    | 0 =>                                                       (* no more positional arguments *)
      match p_kind p with
      | VarPos => Some r                                         (* empty *args; go on with kwargs *)
      | PosOnly => if mem (p_name p) keys then None              (* 'positional only, but passed as keyword' *)
                   else Some (p :: r)
      | _ => Some (p :: r)                                       (* parameters_ex = (param,) *)
      end
    | S m =>
      match p_kind p with
      | VarKw | KwOnly => None                                   (* 'too many positional arguments' *)
      | VarPos => Some r                                         (* takes all the rest *)
      | PosOnly => bp_pos r m keys
      | PosOrKw => if mem (p_name p) keys then None              (* 'multiple values for argument' *)
                   else bp_pos r m keys
      end
    end
  end.

(* Phase 2: remaining parameters pop their keyword; what is left over needs **kwargs *)
Fixpoint bp_kw (rest : list param) (keys : list N) (vk : bool) : bool :=
  match rest with
  | [] => match keys with [] => true | _ :: _ => vk end          (* 'got an unexpected keyword argument' *)
  | p :: r =>
    match p_kind p with
    | VarKw => bp_kw r keys true
    | VarPos => bp_kw r keys vk
    | PosOnly => if mem (p_name p) keys then false else bp_kw r keys vk
    | _ => if mem (p_name p) keys then bp_kw r (remove_key (p_name p) keys) vk else bp_kw r keys vk
    end
  end.

Definition bind_partial (s : sig) (n : nat) (keys : list N) : bool :=
  match bp_pos (params s) n keys with
  | None => false
  | Some rest => bp_kw rest keys false
  end.

(* The one place where inspect (CPython <= 3.12) and the language disagree on what can bind:
   a keyword naming a positional-only parameter that is not filled positionally is refused by
   inspect even though a **kwargs parameter would take it in a real call. *)
Definition posonly_kw_quirk (s : sig) (n : nat) (keys : list N) : bool :=
  is_some (s_varkw s) && existsb (fun p => mem (fst p) keys) (unfilled_posonly s n).

Definition wf_names (s : sig) : Prop := NoDup (map p_name (params s)).
