(* Reference model of cobald.daemon.config.mapping.Translator
   (src/cobald/daemon/config/mapping.py:36-110) and an independent specification of what
   "translating a configuration hierarchy" must produce (property C19).

   Part 1  data: python strings (code points), scalars, input trees, translated values,
           exceptions, the writer-with-failure monad W (global factory call log).
   Part 2  MODEL: `translate`, `construct`, `wrap` transcribe mapping.py:41-87 line by line.
           `load_name`'s import machinery (mapping.py:89-110) is an oracle `resolve`; the
           behaviour of the factories is an oracle `apply` (any deterministic function).
   Part 3  SPEC: `eval_spec` (denotation), `eval_order` (syntactic evaluation order of the
           __type__ nodes), `node_at`/`call_of`/`failure_at` (what happens at one node),
           `post_order_calls`, `first_failure`, `path_of`.  Nothing in part 3 mentions
           `translate`.
   construct_kwargs of translate_hierarchy is always empty here (only PipelineTranslator passes
   target=..., which is property C05, model/Pipeline.v). *)
From Coq Require Import ZArith NArith QArith List Bool Arith.
From Coq Require Decimal.
Import ListNotations.

(* ------------------------------------------------------------------ Part 1: data *)
Definition str := list N.

Fixpoint str_eqb (a b : str) : bool :=
  match a, b with
  | [], [] => true
  | x :: r, y :: s => N.eqb x y && str_eqb r s
  | _, _ => false
  end.

Definition s_type : str := [95; 95; 116; 121; 112; 101; 95; 95]%N.   (* "__type__" *)
Definition s_args : str := [95; 95; 97; 114; 103; 115; 95; 95]%N.    (* "__args__" *)
Definition c_dot : N := 46%N.
Definition c_lbr : N := 91%N.
Definition c_rbr : N := 93%N.

(* str(index) for a list index *)
Fixpoint uint_codes (u : Decimal.uint) : str :=
  match u with
  | Decimal.Nil => []
  | Decimal.D0 r => 48%N :: uint_codes r
  | Decimal.D1 r => 49%N :: uint_codes r
  | Decimal.D2 r => 50%N :: uint_codes r
  | Decimal.D3 r => 51%N :: uint_codes r
  | Decimal.D4 r => 52%N :: uint_codes r
  | Decimal.D5 r => 53%N :: uint_codes r
  | Decimal.D6 r => 54%N :: uint_codes r
  | Decimal.D7 r => 55%N :: uint_codes r
  | Decimal.D8 r => 56%N :: uint_codes r
  | Decimal.D9 r => 57%N :: uint_codes r
  end.
Definition dec (i : nat) : str := uint_codes (Nat.to_uint i).

(* "%s.%s" % (where, key)   and   "%s[%s]" % (where, index) *)
Definition where_key (w k : str) : str := w ++ c_dot :: k.
Definition where_idx (w : str) (i : nat) : str := w ++ c_lbr :: dec i ++ [c_rbr].

Inductive scalar :=
| SNone
| SBool (b : bool)
| SInt (z : Z)
| SFlt (q : Q)          (* finite float, exact value; never computed with *)
| SStr (s : str).

(* configuration as produced by YAML/JSON: dict keys are strings and distinct (see `wf`) *)
Inductive tree :=
| Leaf (s : scalar)
| TList (l : list tree)
| TMap (m : list (str * tree)).

Definition fid := N.     (* identity of a factory object *)

Inductive value :=
| VLeaf (s : scalar)
| VList (l : list value)
| VMap (m : list (str * value))
| VObj (f : fid) (args : list value) (kwargs : list (str * value)).   (* opaque object made by a recording factory *)

(* exceptions: subclasses of Exception ... *)
Inductive exc := ExImport | ExAttr | ExType | ExValue | ExKey | ExAssert | ExYaml | ExUser (n : N).
Inductive what := WExc (e : exc) | WNoSuch (name : str) | WUser (n : N).
(* ... ConfigurationError(what, where), and BaseExceptions that are not Exceptions *)
Inductive pyexc :=
| PConf (wh : what) (loc : option str)
| PExc (e : exc)
| PBase (n : N).

Inductive res (A : Type) := Ok (a : A) | Err (e : pyexc).
Arguments Ok {A} a.
Arguments Err {A} e.

Record call := mkCall { c_fid : fid; c_args : list value; c_kwargs : list (str * value) }.

(* writer monad with failure: result and the factory invocations made so far, oldest first *)
Definition W (A : Type) : Type := (res A * list call)%type.
Definition ret {A} (a : A) : W A := (Ok a, []).
Definition fail {A} (e : pyexc) : W A := (Err e, []).
Definition bind {A B} (m : W A) (f : A -> W B) : W B :=
  match m with
  | (Ok a, l1) => let (r, l2) := f a in (r, l1 ++ l2)
  | (Err e, l1) => (Err e, l1)
  end.

(* python dict operations on association lists with distinct keys *)
Section Dict.
  Context {A : Type}.
  Fixpoint lookup (k : str) (m : list (str * A)) : option A :=
    match m with
    | [] => None
    | (k', v) :: r => if str_eqb k k' then Some v else lookup k r
    end.
  Definition has_key (k : str) (m : list (str * A)) : bool :=
    existsb (fun kv => str_eqb k (fst kv)) m.
  Definition remove (k : str) (m : list (str * A)) : list (str * A) :=
    filter (fun kv => negb (str_eqb k (fst kv))) m.
  Definition keys (m : list (str * A)) : list str := map fst m.
End Dict.

(* outcome of load_name(name) and of calling a factory *)
Inductive rres :=
| RCallable (f : fid)        (* a class / function / callable attribute *)
| RNotCallable               (* resolves (e.g. to a module) but calling it is a TypeError *)
| RRaise (e : exc)           (* ImportError for an unknown top-level module, ValueError for "", ... *)
| RNoSuch.                   (* mapping.py:105 ConfigurationError("no such object 'name'"), where=None *)
Inductive fres := FRet (v : value) | FRaise (e : pyexc).

(* `*args`: what python makes of the value after the star *)
Definition star_args (v : value) : option (list value) :=
  match v with
  | VList l => Some l
  | VLeaf (SStr s) => Some (map (fun ch => VLeaf (SStr [ch])) s)
  | VMap m => Some (map (fun kv => VLeaf (SStr (fst kv))) m)
  | VLeaf _ => None                 (* int/float/bool/None: TypeError *)
  | VObj _ _ _ => None              (* opaque objects are not iterable *)
  end.

(* `absolute_name.split(".")` needs a str *)
Definition type_name (v : value) : option str :=
  match v with VLeaf (SStr s) => Some s | _ => None end.

(* ------------------------------------------------------------------ Part 2: the model *)
Section Model.
  Variable resolve : str -> rres.
  Variable apply : fid -> list value -> list (str * value) -> fres.

  (* mapping.py:68-73  the two except clauses *)
  Definition wrap {A} (w : str) (r : res A) : res A :=
    match r with
    | Ok _ => r
    | Err (PConf wh None) => Err (PConf wh (Some w))          (* :69-70 *)
    | Err (PConf _ (Some _)) => r                             (* :71 raise *)
    | Err (PExc e) => Err (PConf (WExc e) (Some w))           (* :72-73 *)
    | Err (PBase _) => r                                      (* not an Exception: passes *)
    end.
  Definition wrapW {A} (w : str) (m : W A) : W A := (wrap w (fst m), snd m).

  (* mapping.py:75-87 *)
  Definition construct (m : list (str * value)) : W value :=
    (* :83 mapping = {**mapping, **kwargs} with kwargs = {} *)
    match lookup s_type m with                                   (* :84 mapping.pop("__type__") *)
    | None => fail (PExc ExKey)
    | Some tv =>
      let m1 := remove s_type m in
      match type_name tv with                                    (* :92 absolute_name.split(".") *)
      | None => fail (PExc ExAttr)
      | Some name =>
        match resolve name with                                  (* :85 load_name *)
        | RRaise e => fail (PExc e)
        | RNoSuch => fail (PConf (WNoSuch name) None)            (* :105-107 *)
        | r =>
          let argv := match lookup s_args m1 with Some a => a | None => VList [] end in   (* :86 *)
          let m2 := remove s_args m1 in
          match star_args argv with                              (* :87 factory( *args, **mapping ) *)
          | None => fail (PExc ExType)
          | Some args =>
            match r with
            | RCallable f =>
                (match apply f args m2 with FRet v => Ok v | FRaise e => Err e end,
                 [mkCall f args m2])
            | _ => fail (PExc ExType)
            end
          end
        end
      end
    end.

  Section Children.
    Variable tr : str -> tree -> W value.
    Variable w : str.
    (* :46-49  {key: translate(value, where="%s.%s" % (where, key)) for key, value in items()} *)
    Fixpoint tr_items (m : list (str * tree)) : W (list (str * value)) :=
      match m with
      | [] => ret []
      | kv :: r =>
          bind (tr (where_key w (fst kv)) (snd kv)) (fun v' =>
          bind (tr_items r) (fun r' => ret ((fst kv, v') :: r')))
      end.

    (* :58-63  [translate(item, where="%s[%s]" % (where, index))
                for index, item in reversed(list(enumerate(structure)))]
       the comprehension's result list is in reversed order: last item first *)
    Fixpoint tr_comp (i : nat) (l : list tree) : W (list value) :=
      match l with
      | [] => ret []
      | x :: r =>
          bind (tr_comp (S i) r) (fun acc =>
          bind (tr (where_idx w i) x) (fun v => ret (acc ++ [v])))
      end.
  End Children.

  (* mapping.py:41-73 *)
  Fixpoint translate (w : str) (t : tree) {struct t} : W value :=
    wrapW w
      match t with
      | TMap m =>                                                         (* :45 *)
          bind (tr_items (fun w1 x => translate w1 x) w m) (fun m' =>
          if has_key s_type m' then construct m'                         (* :50-51 *)
          else ret (VMap m'))                                            (* :52 *)
      | TList l =>                                                        (* :53 *)
          bind (tr_comp (fun w1 x => translate w1 x) w 0 l) (fun c => ret (VList (rev c)))   (* :56-57 list(reversed(..)) *)
      | Leaf s => ret (VLeaf s)                                           (* :66-67 *)
      end.
End Model.

(* ------------------------------------------------------------------ Part 3: the specification *)
Inductive seg := SKey (k : str) | SIdx (i : nat).
Notation pos := (list seg).

Definition path_seg (s : seg) : str :=
  match s with
  | SKey k => c_dot :: k
  | SIdx i => c_lbr :: dec i ++ [c_rbr]
  end.
(* the path of keys and list indices leading to a position, as text *)
Definition path_of (p : pos) : str := concat (map path_seg p).

Fixpoint all_some {A} (l : list (option A)) : option (list A) :=
  match l with
  | [] => Some []
  | None :: _ => None
  | Some a :: r => match all_some r with Some r' => Some (a :: r') | None => None end
  end.

Definition sequence_kv {A} (m : list (str * option A)) : option (list (str * A)) :=
  all_some (map (fun kv => match snd kv with Some v => Some (fst kv, v) | None => None end) m).

Definition is_special (k : str) : bool := str_eqb s_type k || str_eqb s_args k.

Fixpoint embed (t : tree) : value :=
  match t with
  | Leaf s => VLeaf s
  | TList l => VList (map embed l)
  | TMap m => VMap (map (fun kv => (fst kv, embed (snd kv))) m)
  end.

Fixpoint no_type_node (t : tree) : bool :=
  match t with
  | Leaf _ => true
  | TList l => forallb no_type_node l
  | TMap m => negb (has_key s_type m) && forallb (fun kv => no_type_node (snd kv)) m
  end.

Fixpoint nodup_keys (ks : list str) : bool :=
  match ks with
  | [] => true
  | k :: r => negb (existsb (str_eqb k) r) && nodup_keys r
  end.

(* python dicts have distinct keys *)
Fixpoint wf (t : tree) : bool :=
  match t with
  | Leaf _ => true
  | TList l => forallb wf l
  | TMap m => nodup_keys (keys m) && forallb (fun kv => wf (snd kv)) m
  end.

(* syntactic: the __type__ nodes of t in the order in which they must be evaluated:
   items of a mapping first to last, then the mapping itself; items of a list LAST to FIRST *)
Section EvalOrder.
  Variable eo : tree -> list pos.
  Fixpoint eo_list (i : nat) (l : list tree) : list pos :=
    match l with
    | [] => []
    | x :: r => eo_list (S i) r ++ map (cons (SIdx i)) (eo x)
    end.
  Fixpoint eo_items (m : list (str * tree)) : list pos :=
    match m with
    | [] => []
    | kv :: r => map (cons (SKey (fst kv))) (eo (snd kv)) ++ eo_items r
    end.
End EvalOrder.
Fixpoint eval_order (t : tree) : list pos :=
  match t with
  | Leaf _ => []
  | TList l => eo_list (fun x => eval_order x) 0 l
  | TMap m => eo_items (fun x => eval_order x) m ++ (if has_key s_type m then [[]] else [])
  end.

Fixpoint subtree (t : tree) (p : pos) : option tree :=
  match p with
  | [] => Some t
  | SKey k :: p' =>
      match t with
      | TMap m => match lookup k m with Some x => subtree x p' | None => None end
      | _ => None
      end
  | SIdx i :: p' =>
      match t with
      | TList l => match nth_error l i with Some x => subtree x p' | None => None end
      | _ => None
      end
  end.

Definition is_type_node (t : tree) : bool :=
  match t with TMap m => has_key s_type m | _ => false end.

Fixpoint filter_map {A B} (f : A -> option B) (l : list A) : list B :=
  match l with
  | [] => []
  | a :: r => match f a with Some b => b :: filter_map f r | None => filter_map f r end
  end.

Fixpoint find_map {A B} (f : A -> option B) (l : list A) : option (A * B) :=
  match l with
  | [] => None
  | a :: r => match f a with Some b => Some (a, b) | None => find_map f r end
  end.

(* the prefix of l up to and including the first element on which f is defined *)
Fixpoint take_until {A B} (f : A -> option B) (l : list A) : list A :=
  match l with
  | [] => []
  | a :: r => match f a with Some _ => [a] | None => a :: take_until f r end
  end.

Section Spec.
  Variable resolve : str -> rres.
  Variable apply : fid -> list value -> list (str * value) -> fres.

  (* one __type__ mapping whose items have been evaluated to m': "calling the named factory
     with its __args__ as positional and its remaining items as keyword arguments" *)
  Inductive node_outcome := NCall (c : call) | NFail (e : pyexc).
  Definition node_spec (m' : list (str * value)) : node_outcome :=
    match lookup s_type m' with
    | None => NFail (PExc ExKey)
    | Some (VLeaf (SStr name)) =>
        match resolve name with
        | RRaise e => NFail (PExc e)
        | RNoSuch => NFail (PConf (WNoSuch name) None)
        | r =>
          match star_args (match lookup s_args m' with Some a => a | None => VList [] end) with
          | None => NFail (PExc ExType)
          | Some args =>
              match r with
              | RCallable f =>
                  NCall (mkCall f args (filter (fun kv => negb (is_special (fst kv))) m'))
              | _ => NFail (PExc ExType)
              end
          end
        end
    | Some _ => NFail (PExc ExAttr)
    end.

  Definition do_call (c : call) : fres := apply (c_fid c) (c_args c) (c_kwargs c).

  (* denotation: defined iff every factory in t can be resolved and called successfully *)
  Fixpoint eval_spec (t : tree) : option value :=
    match t with
    | Leaf s => Some (VLeaf s)
    | TList l => option_map VList (all_some (map eval_spec l))
    | TMap m =>
        match sequence_kv (map (fun kv => (fst kv, eval_spec (snd kv))) m) with
        | None => None
        | Some m' =>
            if has_key s_type m then
              match node_spec m' with
              | NCall c => match do_call c with FRet v => Some v | FRaise _ => None end
              | NFail _ => None
              end
            else Some (VMap m')
        end
    end.

  Definition eval_items (m : list (str * tree)) : option (list (str * value)) :=
    sequence_kv (map (fun kv => (fst kv, eval_spec (snd kv))) m).

  (* what happens at the __type__ node at position p, once all of its items are evaluated *)
  Definition node_at (t : tree) (p : pos) : option node_outcome :=
    match subtree t p with
    | Some (TMap m) =>
        if has_key s_type m then option_map node_spec (eval_items m) else None
    | _ => None
    end.
  Definition call_of (t : tree) (p : pos) : option call :=
    match node_at t p with Some (NCall c) => Some c | _ => None end.
  Definition failure_at (t : tree) (p : pos) : option pyexc :=
    match node_at t p with
    | Some (NFail e) => Some e
    | Some (NCall c) => match do_call c with FRaise e => Some e | FRet _ => None end
    | None => None
    end.

  (* every __type__ node, once, children before parents, later list items before earlier *)
  Definition post_order_calls (t : tree) : list call := filter_map (call_of t) (eval_order t).

  (* first node in evaluation order whose factory cannot be resolved or called *)
  Definition first_failure (t : tree) : option (pos * pyexc) :=
    find_map (failure_at t) (eval_order t).
  (* the nodes reached: everything up to and including the first failing one *)
  Definition reached (t : tree) : list pos := take_until (failure_at t) (eval_order t).

  (* how a failure must be reported: a configuration error located at `path` (an error that
     already is a located configuration error keeps its location; BaseExceptions pass) *)
  Definition report (e : pyexc) (path : str) : pyexc :=
    match e with
    | PConf wh None => PConf wh (Some path)
    | PConf _ (Some _) => e
    | PExc x => PConf (WExc x) (Some path)
    | PBase _ => e
    end.
End Spec.
