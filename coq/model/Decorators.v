(* C16 -- executable model of cobald's pool decorators over exact rationals.

   Sources transcribed:
     src/cobald/interfaces/_proxy.py:33-55     PoolDecorator: all four properties forward to target
     src/cobald/decorator/logger.py:84-103     Logger.demand getter / setter (read target, log, write)
     src/cobald/decorator/logger.py:40-54,115-134  template test against _LOGGER_TEST_FIELDS
     CPython 3.12 Objects/unicodeobject.c unicode_format_arg / unicode_format_arg_parse /
       unicode_format_getnextarg (the `%` operator with a mapping on the right-hand side)
   Standardiser (decorator/standardiser.py) and Buffer (decorator/buffer.py) only re-define `demand`
   and inherit supply / utilisation / allocation from PoolDecorator; C16 claims nothing about their
   demand behaviour (C06 does for Standardiser), so they are OPAQUE levels whose demand behaviour is
   a script (see `entry`).

   A stack of decorators is a list, outermost first, over a plain pool record.  Reads and writes go
   through the stack; a demand write returns the list of effects in order: ghost arrivals, the Logger
   records (with the values read from the target BEFORE the write) and the write(s) to the pool. *)
From Coq Require Import ZArith QArith Qabs Qround List Bool NArith String Ascii.
From Cobald Require Import kit.QKit.
Import ListNotations.
Open Scope Q_scope.

Definition str := list N.
Definition s2n (s : string) : str := map N_of_ascii (list_ascii_of_string s).

Fixpoint str_eqb (a b : str) : bool :=
  match a, b with
  | [], [] => true
  | x :: r, y :: s => N.eqb x y && str_eqb r s
  | _, _ => false
  end.

(* ------------------------------------------------------------------ pools and decorators *)
Record pool := mkPool { p_demand : Q; p_supply : Q; p_util : Q; p_alloc : Q }.

Definition set_demand (p : pool) (v : Q) : pool := mkPool v (p_supply p) (p_util p) (p_alloc p).

Inductive attr := Supply | Utilisation | Allocation.
Definition attr_of (a : attr) (p : pool) : Q :=
  match a with Supply => p_supply p | Utilisation => p_util p | Allocation => p_alloc p end.

(* Standardiser, Buffer (and any other decorator that only re-defines `demand`) are OPAQUE levels:
   C16 claims nothing about what they do to demand, only that supply / utilisation / allocation pass
   (they inherit PoolDecorator's properties).  What an opaque level does with demand is given by a
   script -- in the theorems: ANY script; in the correspondence run: what the real object was observed
   to do.  An entry answers one call arriving at the level. *)
Inductive action := AGet | ASet (v : Q).       (* what the level does to ITS target's demand *)
Inductive entry :=
| EGet (reads : nat) (ret : Q)                 (* demand read: reads its target `reads` times, returns ret *)
| ESet (v : Q) (acts : list action).           (* demand write of v: then these actions on its target *)

Inductive deco :=
| Plain                                          (* PoolDecorator itself *)
| LoggerD (name : N) (level : N) (msg : str)
| OpaqueD (cls : N) (script : list entry).

Definition stack := list deco.       (* outermost first *)

(* supply / utilisation / allocation: _proxy.py:33-55, inherited unchanged by every decorator *)
Fixpoint read_through (st : stack) (p : pool) (a : attr) : Q :=
  match st with
  | [] => attr_of a p
  | _ :: r => read_through r p a
  end.

(* the args mapping of a record; target = how many levels lie below the logger *)
Record fields := mkFields {
  f_value : Q; f_demand : Q; f_supply : Q; f_util : Q; f_alloc : Q; f_consumption : Q; f_target : nat }.

Inductive effect :=
| Arrive (below : nat) (v : Q)      (* ghost: a demand write of v arrives at the level with `below` levels under it *)
| Log (name : N) (level : N) (msg : str) (f : fields)
| PoolWrite (v : Q).

(* what an opaque level does to its target, given how its target reads (R) and writes (W) *)
Section Loops.
  Variable R : stack -> pool -> option (Q * stack).
  Variable W : stack -> pool -> Q -> option (list effect * stack * pool).

  Fixpoint rd_iter (k : nat) (r : stack) (p : pool) : option stack :=
    match k with
    | O => Some r
    | S k' => match R r p with Some (_, r1) => rd_iter k' r1 p | None => None end
    end.

  Fixpoint acts_go (acts : list action) (r : stack) (p : pool) : option (list effect * stack * pool) :=
    match acts with
    | [] => Some ([], r, p)
    | AGet :: rest =>
        match R r p with
        | Some (_, r1) => acts_go rest r1 p
        | None => None
        end
    | ASet w :: rest =>
        match W r p w with
        | Some (e1, r1, p1) =>
            match acts_go rest r1 p1 with
            | Some (e2, r2, p2) => Some (e1 ++ e2, r2, p2)
            | None => None
            end
        | None => None
        end
    end.
End Loops.

(* demand getter through a stack.  A read may change the levels below (scripts are consumed, i.e.
   an opaque level may update itself), so the stack is returned too.  None = a script does not fit
   the call that arrives, or the budget is too small (the budget used is the stack's length, which
   always suffices: reads and writes keep the length). *)
Fixpoint rd (fuel : nat) (st : stack) (p : pool) : option (Q * stack) :=
  match st with
  | [] => Some (p_demand p, [])
  | d :: r =>
      match fuel with
      | O => None
      | S f =>
          match d with
          | Plain =>
              match rd f r p with Some (x, r') => Some (x, Plain :: r') | None => None end
          | LoggerD n l m =>
              (* logger.py:84-86 *)
              match rd f r p with Some (x, r') => Some (x, LoggerD n l m :: r') | None => None end
          | OpaqueD c (EGet k ret :: sc) =>
              match rd_iter (rd f) k r p with
              | Some r' => Some (ret, OpaqueD c sc :: r')
              | None => None
              end
          | OpaqueD _ _ => None
          end
      end
  end.

Definition read_demand (st : stack) (p : pool) : option (Q * stack) := rd (List.length st) st p.

(* demand setter through a stack: effects in order, new stack, new pool *)
Fixpoint wr (fuel : nat) (st : stack) (p : pool) (v : Q) : option (list effect * stack * pool) :=
  match st with
  | [] => Some ([PoolWrite v], [], set_demand p v)
  | d :: r =>
      match fuel with
      | O => None
      | S f =>
          match d with
          | Plain =>
              (* _proxy.py:43-45 *)
              match wr f r p v with
              | Some (e, r', p') => Some (Arrive (List.length r) v :: e, Plain :: r', p')
              | None => None
              end
          | LoggerD n l m =>
              (* logger.py:88-103: read the target, log, then write the target *)
              match rd f r p with
              | Some (dm, r1) =>
                  let rec_ := Log n l m (mkFields v dm (read_through r p Supply) (read_through r p Utilisation)
                                           (read_through r p Allocation) (read_through r p Allocation)
                                           (List.length r)) in
                  match wr f r1 p v with
                  | Some (e, r2, p') => Some (Arrive (List.length r) v :: rec_ :: e, LoggerD n l m :: r2, p')
                  | None => None
                  end
              | None => None
              end
          | OpaqueD c (ESet v0 acts :: sc) =>
              if Qeq_bool v0 v then
                match acts_go (rd f) (wr f) acts r p with
                | Some (e, r', p') => Some (Arrive (List.length r) v :: e, OpaqueD c sc :: r', p')
                | None => None
                end
              else None
          | OpaqueD _ _ => None
          end
      end
  end.

Definition write (st : stack) (p : pool) (v : Q) : option (list effect * stack * pool) :=
  wr (List.length st) st p v.

(* ------------------------------------------------------------------ the `%` operator on a mapping *)
Inductive tv := TFloat | TNone | TMap.       (* test value: a float, None, the mapping itself *)
Inductive fout := FOk | FKey (k : str) | FValue | FType.

Inductive mode :=
| MText
| MSpec0                      (* just after '%' *)
| MKey (pc : nat) (acc : str) (* inside %( ... ; acc reversed *)
| MFlags
| MWidth
| MAfterDot
| MPrec
| MConv.                      (* after a length modifier *)

Record fstate := mkFS { fs_cur : tv; fs_avail : bool; fs_keys : list str (* looked up, newest first *) }.

Section Format.
  Variable lookup : str -> option tv.

  Definition is_digit (c : N) : bool := N.leb 48 c && N.leb c 57.
  Definition is_flag (c : N) : bool :=
    N.eqb c 45 || N.eqb c 43 || N.eqb c 32 || N.eqb c 35 || N.eqb c 48.
  Definition mem (c : N) (l : list N) : bool := existsb (N.eqb c) l.

  (* unicode_format_arg_format: conversion character c applied to the next argument *)
  Definition conv (c : N) (s : fstate) : fout + (mode * fstate) :=
    if negb (fs_avail s) then inl FType            (* not enough arguments for format string *)
    else
      let s' := mkFS (fs_cur s) false (fs_keys s) in
      if mem c [115; 114; 97]%N then inr (MText, s')                                   (* s r a *)
      else if mem c [100; 105; 117]%N then                                              (* d i u *)
        match fs_cur s with TFloat => inr (MText, s') | _ => inl FType end
      else if mem c [111; 120; 88; 99]%N then inl FType                                 (* o x X c *)
      else if mem c [101; 69; 102; 70; 103; 71]%N then                                  (* e E f F g G *)
        match fs_cur s with TFloat => inr (MText, s') | _ => inl FType end
      else inl FValue.                                  (* unsupported format character *)

  Definition len_check (c : N) (s : fstate) : fout + (mode * fstate) :=
    if mem c [104; 108; 76]%N then inr (MConv, s) else conv c s.                        (* h l L *)

  Definition dot_check (c : N) (s : fstate) : fout + (mode * fstate) :=
    if N.eqb c 46 then inr (MAfterDot, s) else len_check c s.

  (* '*' takes the next argument, which is never an int here: "* wants int" / "not enough arguments" *)
  Definition width_start (c : N) (s : fstate) : fout + (mode * fstate) :=
    if N.eqb c 42 then inl FType
    else if is_digit c then inr (MWidth, s)
    else dot_check c s.

  Definition flags_step (c : N) (s : fstate) : fout + (mode * fstate) :=
    if is_flag c then inr (MFlags, s) else width_start c s.

  Definition fstep (m : mode) (c : N) (s : fstate) : fout + (mode * fstate) :=
    match m with
    | MText => if N.eqb c 37 then inr (MSpec0, s) else inr (MText, s)
    | MSpec0 =>
        if N.eqb c 37 then inr (MText, s)
        else if N.eqb c 40 then inr (MKey 1 [], s)
        else flags_step c s
    | MKey pc acc =>
        if N.eqb c 41 then
          match pc with
          | 1%nat =>
              let key := List.rev acc in
              match lookup key with
              | None => inl (FKey key)
              | Some v => inr (MFlags, mkFS v true (key :: fs_keys s))
              end
          | _ => inr (MKey (pred pc) (c :: acc), s)
          end
        else if N.eqb c 40 then inr (MKey (S pc) (c :: acc), s)
        else inr (MKey pc (c :: acc), s)
    | MFlags => flags_step c s
    | MWidth => if is_digit c then inr (MWidth, s) else dot_check c s
    | MAfterDot =>
        if N.eqb c 42 then inl FType
        else if is_digit c then inr (MPrec, s)
        else len_check c s
    | MPrec => if is_digit c then inr (MPrec, s) else len_check c s
    | MConv => conv c s
    end.

  (* result: outcome, keys looked up (oldest first; a failing key is last) *)
  Fixpoint frun (m : mode) (s : fstate) (l : str) : fout * list str :=
    match l with
    | [] =>
        match m with
        | MText => (FOk, List.rev (fs_keys s))
        | _ => (FValue, List.rev (fs_keys s))       (* incomplete format / incomplete format key *)
        end
    | c :: r =>
        match fstep m c s with
        | inl (FKey k) => (FKey k, List.rev (k :: fs_keys s))
        | inl o => (o, List.rev (fs_keys s))
        | inr (m', s') => frun m' s' r
        end
    end.

  Definition pct_scan (msg : str) : fout * list str := frun MText (mkFS TMap true []) msg.
End Format.

(* logger.py:40-54 _LOGGER_TEST_FIELDS *)
Definition k_value := s2n "value"%string.
Definition k_demand := s2n "demand"%string.
Definition k_supply := s2n "supply"%string.
Definition k_utilisation := s2n "utilisation"%string.
Definition k_allocation := s2n "allocation"%string.
Definition k_consumption := s2n "consumption"%string.
Definition k_target := s2n "target"%string.

Definition test_fields (k : str) : option tv :=
  if str_eqb k k_value || str_eqb k k_demand || str_eqb k k_supply || str_eqb k k_utilisation
     || str_eqb k k_allocation || str_eqb k k_consumption then Some TFloat
  else if str_eqb k k_target then Some TNone
  else None.

Definition known_field (k : str) : bool := match test_fields k with Some _ => true | None => false end.

Inductive init_outcome :=
| Accepted
| Rejected         (* RuntimeError "invalid Logger message field" *)
| RaisesValue      (* ValueError of the % operator propagates *)
| RaisesType.      (* TypeError of the % operator propagates *)

Definition logger_init (msg : str) : init_outcome :=
  match fst (pct_scan test_fields msg) with
  | FOk => Accepted
  | FKey _ => Rejected
  | FValue => RaisesValue
  | FType => RaisesType
  end.

Definition reaches_key (r : fout * list str) (k : str) : Prop := In k (snd r).

(* FutureWarnings raised by the test formatting: one per reached lookup of `consumption` *)
Definition warnings_of (msg : str) : nat :=
  List.length (filter (fun k => str_eqb k k_consumption) (snd (pct_scan test_fields msg))).

(* ------------------------------------------------------------------ construction of a stack *)
Inductive cerr := CRuntime | CValue | CType.

Inductive dspec :=
| SPlain
| SLogger (name : option N) (level : N) (msg : str)    (* name None: target.__class__.__qualname__ *)
| SOpaque (cls : N) (init_reads : nat) (fail : option cerr) (script : list entry).
    (* its constructor reads target.demand init_reads times, then fails or not (observed / arbitrary) *)

(* logger names given by class: PoolDecorator 1, Logger 2, opaque classes by their own id
   (Standardiser 3, Buffer 4), the pool 0; explicit names are numbered from 100 *)
Definition class_id (d : deco) : N :=
  match d with Plain => 1 | LoggerD _ _ _ => 2 | OpaqueD c _ => c end%N.
Definition top_class (st : stack) : N := match st with [] => 0%N | d :: _ => class_id d end.

Fixpoint read_n (k : nat) (st : stack) (p : pool) : option stack :=
  match k with
  | O => Some st
  | S k' => match read_demand st p with Some (_, st') => read_n k' st' p | None => None end
  end.

Inductive built := BErr (e : cerr) | BStack (st : stack) | BStuck.

(* one constructor call on top of an already built stack; also the number of FutureWarnings *)
Definition construct (sp : dspec) (inner : stack) (p : pool) : built * nat :=
  match sp with
  | SPlain => (BStack (Plain :: inner), 0%nat)
  | SLogger name level msg =>
      (* logger.py:115-134 *)
      match logger_init msg with
      | Accepted =>
          let n := match name with Some n => n | None => top_class inner end in
          (BStack (LoggerD n level msg :: inner), warnings_of msg)
      | Rejected => (BErr CRuntime, warnings_of msg)
      | RaisesValue => (BErr CValue, warnings_of msg)
      | RaisesType => (BErr CType, warnings_of msg)
      end
  | SOpaque c k fail sc =>
      match read_n k inner p with
      | Some inner' =>
          match fail with
          | Some e => (BErr e, 0%nat)
          | None => (BStack (OpaqueD c sc :: inner'), 0%nat)
          end
      | None => (BStuck, 0%nat)
      end
  end.

(* specs outermost first; built inside out; stops at the first failing constructor *)
Fixpoint build (specs : list dspec) (p : pool) : built * nat :=
  match specs with
  | [] => (BStack [], 0%nat)
  | s :: r =>
      match build r p with
      | (BStack inner, w) => let (res, w') := construct s inner p in (res, (w + w')%nat)
      | other => other
      end
  end.

(* ------------------------------------------------------------------ histories *)
Inductive op :=
| Read                          (* demand, supply, utilisation, allocation through the whole stack *)
| Write (v : Q)                 (* demand write at the top *)
| PoolState (s u a : Q)         (* the underlying pool changes *)
| PoolDemand (d : Q).           (* the underlying pool's demand changes from outside *)

Inductive obs :=
| ORead (d s u a : Q)
| OWrite (e : list effect)
| ONone
| OStuck.

Definition step (st : stack) (p : pool) (o : op) : obs * stack * pool :=
  match o with
  | Read =>
      match read_demand st p with
      | Some (d, st') =>
          (ORead d (read_through st p Supply) (read_through st p Utilisation) (read_through st p Allocation), st', p)
      | None => (OStuck, st, p)
      end
  | Write v =>
      match write st p v with
      | Some (e, st', p') => (OWrite e, st', p')
      | None => (OStuck, st, p)
      end
  | PoolState s u a => (ONone, st, mkPool (p_demand p) s u a)
  | PoolDemand d => (ONone, st, set_demand p d)
  end.

(* observation and pool state after every operation *)
Fixpoint run (st : stack) (p : pool) (ops : list op) : list (obs * pool) * stack * pool :=
  match ops with
  | [] => ([], st, p)
  | o :: r =>
      let '(ob, st1, p1) := step st p o in
      let '(rest, st2, p2) := run st1 p1 r in
      ((ob, p1) :: rest, st2, p2)
  end.
