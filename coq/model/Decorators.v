(* C16 -- executable model of cobald's pool decorators over exact rationals.

   Sources transcribed:
     src/cobald/interfaces/_proxy.py:33-55     PoolDecorator: all four properties forward to target
     src/cobald/decorator/logger.py:84-103     Logger.demand getter / setter (log, then write)
     src/cobald/decorator/logger.py:40-54,115-134  template test against _LOGGER_TEST_FIELDS
     src/cobald/decorator/standardiser.py:42-86    Standardiser (one level, ideal arithmetic)
     src/cobald/decorator/buffer.py:20-25      Buffer: demand is a stored attribute
     CPython 3.12 Objects/unicodeobject.c unicode_format_arg / unicode_format_arg_parse /
       unicode_format_getnextarg (the `%` operator with a mapping on the right-hand side)

   A stack of decorators is a list, outermost first, over a plain pool record.  Standardiser and
   Buffer carry their stored demand.  Reads and writes go through the stack by structural recursion.
   A demand write returns the list of effects in order: the Logger records (with the values read
   from the target BEFORE the write) and the final write to the pool, if it gets there. *)
From Coq Require Import ZArith QArith Qabs Qround List Bool NArith String Ascii.
From Cobald Require Import kit.QKit.
Import ListNotations.
Open Scope Q_scope.

Definition str := list N.
Definition s2n (s : string) : str := map N_of_ascii (list_ascii_of_string s).

Fixpoint str_eqb (a b : str) : bool :=
  match a, b with
  | [], [] => true
  | x :: r, y :: s => N.eqb x y && str_eqb r s
  | _, _ => false
  end.

(* ------------------------------------------------------------------ pools and decorators *)
Record pool := mkPool { p_demand : Q; p_supply : Q; p_util : Q; p_alloc : Q }.

Definition set_demand (p : pool) (v : Q) : pool := mkPool v (p_supply p) (p_util p) (p_alloc p).

Inductive attr := Supply | Utilisation | Allocation.
Definition attr_of (a : attr) (p : pool) : Q :=
  match a with Supply => p_supply p | Utilisation => p_util p | Allocation => p_alloc p end.

(* Standardiser parameters; None = the infinite default on that side *)
Record sparams := mkSP {
  sp_min : option Q; sp_max : option Q; sp_gran : Q; sp_backlog : option Q; sp_surplus : option Q }.

Inductive deco :=
| Plain                                          (* PoolDecorator itself *)
| LoggerD (name : N) (level : N) (msg : str)
| StandardiserD (sp : sparams) (stored : Q)      (* _demand *)
| BufferD (stored : Q).                          (* instance attribute demand *)

Definition stack := list deco.

(* standardiser.py:7-14 with infinite bounds as None *)
Definition clamp (lo : option Q) (v : Q) (hi : option Q) : Q :=
  match lo with
  | Some l => if Qltb v l then l else
      match hi with Some h => if Qltb h v then h else v | None => v end
  | None => match hi with Some h => if Qltb h v then h else v | None => v end
  end.

(* standardiser.py:58-63 *)
Definition clamp_demand (sp : sparams) (supply v : Q) : Q :=
  let lo := match sp_backlog sp with Some b => Some (supply - b) | None => None end in
  let hi := match sp_surplus sp with Some s => Some (supply + s) | None => None end in
  clamp (sp_min sp) (clamp lo v hi) (sp_max sp).

(* standardiser.py:17-19  n // base * base *)
Definition floor_to (v g : Q) : Q := inject_Z (Qfloor (v / g)) * g.

(* supply / utilisation / allocation: _proxy.py:33-55, inherited unchanged by every decorator *)
Fixpoint read_through (st : stack) (p : pool) (a : attr) : Q :=
  match st with
  | [] => attr_of a p
  | _ :: r => read_through r p a
  end.

(* demand getter; the Standardiser's getter refreshes its stored value (standardiser.py:42-46) *)
Fixpoint read_demand (st : stack) (p : pool) : Q * stack :=
  match st with
  | [] => (p_demand p, [])
  | Plain :: r => let (d, r') := read_demand r p in (d, Plain :: r')
  | LoggerD n l m :: r => let (d, r') := read_demand r p in (d, LoggerD n l m :: r')
  | StandardiserD sp s :: r =>
      let (d, r') := read_demand r p in
      let s' := if Qle_bool (sp_gran sp) (Qabs (s - d)) then d else s in
      (s', StandardiserD sp s' :: r')
  | BufferD s :: r => (s, BufferD s :: r)
  end.

(* the args mapping of a record; target = how many decorators lie below the logger *)
Record fields := mkFields {
  f_value : Q; f_demand : Q; f_supply : Q; f_util : Q; f_alloc : Q; f_consumption : Q; f_target : nat }.

Inductive effect :=
| Log (name : N) (level : N) (msg : str) (f : fields)
| PoolWrite (v : Q).

(* demand setter through a stack: effects in order, new stack, new pool.
   A Logger first READS its target (which may refresh Standardisers below it) and then writes through
   the refreshed target, so the recursion is not structural in the stack itself; `spine` is only the
   recursion budget (any list at least as long as the stack, see `write`). *)
Fixpoint write_go (spine : stack) (st : stack) (p : pool) (v : Q) : list effect * stack * pool :=
  match st with
  | [] => ([PoolWrite v], [], set_demand p v)
  | d :: r =>
      match spine with
      | [] => ([], st, p)
      | _ :: sp =>
          match d with
          | Plain => let '(e, r', p') := write_go sp r p v in (e, Plain :: r', p')
          | LoggerD n l m =>
              (* logger.py:90-103 *)
              let (dm, r1) := read_demand r p in
              let rec_ := Log n l m (mkFields v dm (read_through r p Supply) (read_through r p Utilisation)
                                       (read_through r p Allocation) (read_through r p Allocation)
                                       (List.length r)) in
              let '(e, r2, p') := write_go sp r1 p v in
              (rec_ :: e, LoggerD n l m :: r2, p')
          | StandardiserD prm s =>
              (* standardiser.py:48-56 *)
              let sup := read_through r p Supply in
              let s' := clamp_demand prm sup v in
              let fwd := if Qeq_bool (sp_gran prm) 1 then s'
                         else clamp_demand prm sup (floor_to v (sp_gran prm)) in
              let '(e, r', p') := write_go sp r p fwd in
              (e, StandardiserD prm s' :: r', p')
          | BufferD s => ([], BufferD v :: r, p)
          end
      end
  end.

Definition write (st : stack) (p : pool) (v : Q) : list effect * stack * pool := write_go st st p v.

(* ------------------------------------------------------------------ the `%` operator on a mapping *)
Inductive tv := TFloat | TNone | TMap.       (* test value: a float, None, the mapping itself *)
Inductive fout := FOk | FKey (k : str) | FValue | FType.

Inductive mode :=
| MText
| MSpec0                      (* just after '%' *)
| MKey (pc : nat) (acc : str) (* inside %( ... ; acc reversed *)
| MFlags
| MWidth
| MAfterDot
| MPrec
| MConv.                      (* after a length modifier *)

Record fstate := mkFS { fs_cur : tv; fs_avail : bool; fs_keys : list str (* looked up, newest first *) }.

Section Format.
  Variable lookup : str -> option tv.

  Definition is_digit (c : N) : bool := N.leb 48 c && N.leb c 57.
  Definition is_flag (c : N) : bool :=
    N.eqb c 45 || N.eqb c 43 || N.eqb c 32 || N.eqb c 35 || N.eqb c 48.
  Definition mem (c : N) (l : list N) : bool := existsb (N.eqb c) l.

  (* unicode_format_arg_format: conversion character c applied to the next argument *)
  Definition conv (c : N) (s : fstate) : fout + (mode * fstate) :=
    if negb (fs_avail s) then inl FType            (* not enough arguments for format string *)
    else
      let s' := mkFS (fs_cur s) false (fs_keys s) in
      if mem c [115; 114; 97]%N then inr (MText, s')                                   (* s r a *)
      else if mem c [100; 105; 117]%N then                                              (* d i u *)
        match fs_cur s with TFloat => inr (MText, s') | _ => inl FType end
      else if mem c [111; 120; 88; 99]%N then inl FType                                 (* o x X c *)
      else if mem c [101; 69; 102; 70; 103; 71]%N then                                  (* e E f F g G *)
        match fs_cur s with TFloat => inr (MText, s') | _ => inl FType end
      else inl FValue.                                  (* unsupported format character *)

  Definition len_check (c : N) (s : fstate) : fout + (mode * fstate) :=
    if mem c [104; 108; 76]%N then inr (MConv, s) else conv c s.                        (* h l L *)

  Definition dot_check (c : N) (s : fstate) : fout + (mode * fstate) :=
    if N.eqb c 46 then inr (MAfterDot, s) else len_check c s.

  (* '*' takes the next argument, which is never an int here: "* wants int" / "not enough arguments" *)
  Definition width_start (c : N) (s : fstate) : fout + (mode * fstate) :=
    if N.eqb c 42 then inl FType
    else if is_digit c then inr (MWidth, s)
    else dot_check c s.

  Definition flags_step (c : N) (s : fstate) : fout + (mode * fstate) :=
    if is_flag c then inr (MFlags, s) else width_start c s.

  Definition fstep (m : mode) (c : N) (s : fstate) : fout + (mode * fstate) :=
    match m with
    | MText => if N.eqb c 37 then inr (MSpec0, s) else inr (MText, s)
    | MSpec0 =>
        if N.eqb c 37 then inr (MText, s)
        else if N.eqb c 40 then inr (MKey 1 [], s)
        else flags_step c s
    | MKey pc acc =>
        if N.eqb c 41 then
          match pc with
          | 1%nat =>
              let key := List.rev acc in
              match lookup key with
              | None => inl (FKey key)
              | Some v => inr (MFlags, mkFS v true (key :: fs_keys s))
              end
          | _ => inr (MKey (pred pc) (c :: acc), s)
          end
        else if N.eqb c 40 then inr (MKey (S pc) (c :: acc), s)
        else inr (MKey pc (c :: acc), s)
    | MFlags => flags_step c s
    | MWidth => if is_digit c then inr (MWidth, s) else dot_check c s
    | MAfterDot =>
        if N.eqb c 42 then inl FType
        else if is_digit c then inr (MPrec, s)
        else len_check c s
    | MPrec => if is_digit c then inr (MPrec, s) else len_check c s
    | MConv => conv c s
    end.

  (* result: outcome, keys looked up (oldest first; a failing key is last) *)
  Fixpoint frun (m : mode) (s : fstate) (l : str) : fout * list str :=
    match l with
    | [] =>
        match m with
        | MText => (FOk, List.rev (fs_keys s))
        | _ => (FValue, List.rev (fs_keys s))       (* incomplete format / incomplete format key *)
        end
    | c :: r =>
        match fstep m c s with
        | inl (FKey k) => (FKey k, List.rev (k :: fs_keys s))
        | inl o => (o, List.rev (fs_keys s))
        | inr (m', s') => frun m' s' r
        end
    end.

  Definition pct_scan (msg : str) : fout * list str := frun MText (mkFS TMap true []) msg.
End Format.

(* logger.py:40-54 _LOGGER_TEST_FIELDS *)
Definition k_value := s2n "value"%string.
Definition k_demand := s2n "demand"%string.
Definition k_supply := s2n "supply"%string.
Definition k_utilisation := s2n "utilisation"%string.
Definition k_allocation := s2n "allocation"%string.
Definition k_consumption := s2n "consumption"%string.
Definition k_target := s2n "target"%string.

Definition test_fields (k : str) : option tv :=
  if str_eqb k k_value || str_eqb k k_demand || str_eqb k k_supply || str_eqb k k_utilisation
     || str_eqb k k_allocation || str_eqb k k_consumption then Some TFloat
  else if str_eqb k k_target then Some TNone
  else None.

Definition known_field (k : str) : bool := match test_fields k with Some _ => true | None => false end.

Inductive init_outcome :=
| Accepted
| Rejected         (* RuntimeError "invalid Logger message field" *)
| RaisesValue      (* ValueError of the % operator propagates *)
| RaisesType.      (* TypeError of the % operator propagates *)

Definition logger_init (msg : str) : init_outcome :=
  match fst (pct_scan test_fields msg) with
  | FOk => Accepted
  | FKey _ => Rejected
  | FValue => RaisesValue
  | FType => RaisesType
  end.

Definition reaches_key (r : fout * list str) (k : str) : Prop := In k (snd r).

(* FutureWarnings raised by the test formatting: one per reached lookup of `consumption` *)
Definition warnings_of (msg : str) : nat :=
  List.length (filter (fun k => str_eqb k k_consumption) (snd (pct_scan test_fields msg))).

(* ------------------------------------------------------------------ construction of a stack *)
Inductive dspec :=
| SPlain
| SLogger (name : option N) (level : N) (msg : str)    (* name None: target.__class__.__qualname__ *)
| SStandardiser (sp : sparams)
| SBuffer.

Inductive cerr := CRuntime | CValue | CType.

(* logger names given by class: ids of the classes; explicit names are numbered from 100 *)
Definition class_id (d : deco) : N :=
  match d with Plain => 1 | LoggerD _ _ _ => 2 | StandardiserD _ _ => 3 | BufferD _ => 4 end%N.
Definition top_class (st : stack) : N := match st with [] => 0%N | d :: _ => class_id d end.

Definition opt_le (a b : option Q) : bool :=      (* minimum <= maximum with -inf / +inf defaults *)
  match a, b with Some x, Some y => Qle_bool x y | _, _ => true end.
Definition opt_pos (a : option Q) : bool := match a with Some x => Qltb 0 x | None => true end.

(* one constructor call on top of an already built stack; returns the new stack (the inner part may
   change: Standardiser.__init__ and Buffer.__init__ read target.demand) and the number of warnings *)
Definition construct (sp : dspec) (inner : stack) (p : pool) : (cerr + stack) * nat :=
  match sp with
  | SPlain => (inr (Plain :: inner), 0%nat)
  | SLogger name level msg =>
      match logger_init msg with
      | Accepted =>
          let n := match name with Some n => n | None => top_class inner end in
          (inr (LoggerD n level msg :: inner), warnings_of msg)
      | Rejected => (inl CRuntime, warnings_of msg)
      | RaisesValue => (inl CValue, warnings_of msg)
      | RaisesType => (inl CType, warnings_of msg)
      end
  | SStandardiser prm =>
      if opt_le (sp_min prm) (sp_max prm) && opt_pos (sp_surplus prm) && opt_pos (sp_backlog prm)
         && Qltb 0 (sp_gran prm)
      then let (d, inner') := read_demand inner p in (inr (StandardiserD prm d :: inner'), 0%nat)
      else (inl CValue, 0%nat)
  | SBuffer => let (d, inner') := read_demand inner p in (inr (BufferD d :: inner'), 0%nat)
  end.

(* specs outermost first; built inside out; stops at the first failing constructor *)
Fixpoint build (specs : list dspec) (p : pool) : (cerr + stack) * nat :=
  match specs with
  | [] => (inr [], 0%nat)
  | s :: r =>
      match build r p with
      | (inr inner, w) => let (res, w') := construct s inner p in (res, (w + w')%nat)
      | (inl e, w) => (inl e, w)
      end
  end.

(* ------------------------------------------------------------------ histories *)
Inductive op :=
| Read                          (* demand, supply, utilisation, allocation through the whole stack *)
| Write (v : Q)                 (* demand write at the top *)
| PoolState (s u a : Q)         (* the underlying pool changes *)
| PoolDemand (d : Q).           (* the underlying pool's demand changes from outside *)

Inductive obs :=
| ORead (d s u a : Q)
| OWrite (e : list effect)
| ONone.

Definition step (st : stack) (p : pool) (o : op) : obs * stack * pool :=
  match o with
  | Read =>
      let (d, st') := read_demand st p in
      (ORead d (read_through st p Supply) (read_through st p Utilisation) (read_through st p Allocation), st', p)
  | Write v => let '(e, st', p') := write st p v in (OWrite e, st', p')
  | PoolState s u a => (ONone, st, mkPool (p_demand p) s u a)
  | PoolDemand d => (ONone, st, set_demand p d)
  end.

(* observation and pool state after every operation *)
Fixpoint run (st : stack) (p : pool) (ops : list op) : list (obs * pool) * stack * pool :=
  match ops with
  | [] => ([], st, p)
  | o :: r =>
      let '(ob, st1, p1) := step st p o in
      let '(rest, st2, p2) := run st1 p1 r in
      ((ob, p1) :: rest, st2, p2)
  end.
