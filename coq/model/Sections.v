(* Model of section plugins:
     cobald.daemon.core.config.load_section_plugins      (core/config.py:52-74)
     cobald.daemon.config.mapping.SectionPlugin.load     (config/mapping.py:144-166)
     cobald.daemon.config.mapping.load_configuration     (config/mapping.py:177-214)
     cobald.daemon.plugins.constraints / PluginRequirements (plugins.py:11-57)

   Names (section names, constraint targets, configuration keys) are numbered by the harness;
   `logging_name` is the key "logging".  Section contents and digest results are opaque tokens. *)
From Coq Require Import List Arith Bool.
From Cobald Require Import model.Toposort.
Import ListNotations.

(* one entry point of the group, after `entry.load()`: the digest callable with its
   `__requirements__` (plugins.py:35-57; a digest without the attribute has the defaults
   required=False, before=after=frozenset()), the entry point's name and whether it carries
   extras.  `pid` identifies the digest callable; `ret` is what the digest returns (None or a token). *)
Record plugin := mkPlugin {
  pid : nat;
  section : name;
  extras : bool;
  required : bool;
  before : list name;      (* frozenset: read as a set *)
  after : list name;
  ret : option nat
}.

(* ---- python dict name -> plugin, insertion ordered (later value wins, first position kept) ---- *)
Definition pdict := list (name * plugin).

Fixpoint pd_set (d : pdict) (k : name) (v : plugin) : pdict :=
  match d with
  | [] => [(k, v)]
  | (k', v') :: r => if Nat.eqb k k' then (k', v) :: r else (k', v') :: pd_set r k v
  end.

Fixpoint pd_get (d : pdict) (k : name) : option plugin :=
  match d with
  | [] => None
  | (k', v) :: r => if Nat.eqb k k' then Some v else pd_get r k
  end.

(* core/config.py:59-62  plugins = {plugin.section: plugin for plugin in map(SectionPlugin.load, ...)} *)
Definition mk_plugins (es : list plugin) : pdict :=
  fold_left (fun d p => pd_set d (section p) p) es [].

(* core/config.py:68  dependencies.setdefault(before, set()).add(plugin.section) *)
Fixpoint add_dep (d : dict) (k : name) (v : name) : dict :=
  match d with
  | [] => [(k, [v])]
  | (k', s) :: r => if Nat.eqb k k' then (k', v :: s) :: r else (k', s) :: add_dep r k v
  end.

(* core/config.py:63-68 *)
Definition dependencies (ps : list plugin) : dict :=
  fold_left (fun d p => fold_left (fun d b => add_dep d b (section p)) (before p) d) ps
            (map (fun p => (section p, after p)) ps).

Inductive lerr :=
| EValueError        (* mapping.py:161-165: an entry point with extras *)
| ECircular          (* toposort.CircularDependencyError *)
| EOutOfFuel.        (* model artefact, unreachable: SectionsProofs.load_never_out_of_fuel *)

Definition pick (plugins : pdict) (n : name) : list plugin :=
  match pd_get plugins n with Some p => [p] | None => [] end.

(* core/config.py:52-74 *)
Definition load_section_plugins (perm : list name -> list name) (es : list plugin)
  : res lerr (list plugin) :=
  if existsb extras es then Err EValueError
  else
    let plugins := mk_plugins es in
    match toposort_flatten perm (dependencies (map snd plugins)) with
    | Err Circular => Err ECircular
    | Err OutOfFuel => Err EOutOfFuel
    | Ok names => Ok (flat_map (pick plugins) names)   (* ... if plugin_name in plugins *)
    end.

(* ---- load_configuration ---- *)
Definition logging_name : name := 0.

Definition config := list (name * nat).     (* python dict: unique keys, content tokens *)

Fixpoint cfg_get (c : config) (k : name) : option nat :=
  match c with
  | [] => None
  | (k', v) :: r => if Nat.eqb k k' then Some v else cfg_get r k
  end.

Definition cfg_pop (k : name) (c : config) : config :=
  filter (fun kv => negb (Nat.eqb (fst kv) k)) c.

Inductive event :=
| EvLogging (content : nat)                 (* configure_logging(content) *)
| EvDigest (p : nat) (content : nat).       (* plugin p's digest called with content *)

(* both are mapping.ConfigurationError(where="root") *)
Inductive cerr :=
| UnknownSections (ks : list name)          (* mapping.py:195-199 *)
| MissingSection (k : name).                (* mapping.py:205-208 *)

Definition outcome := res cerr (list (nat * nat)).   (* content: plugin -> non-None digest result *)

(* mapping.py:201-213; the plugin objects in the tuple are distinct (content is keyed by plugin) *)
Fixpoint digest_loop (cfg : config) (ps : list plugin) : outcome * list event :=
  match ps with
  | [] => (Ok [], [])
  | p :: r =>
      match cfg_get cfg (section p) with
      | None =>
          if required p then (Err (MissingSection (section p)), [])
          else digest_loop cfg r
      | Some data =>
          let '(out, log) := digest_loop cfg r in
          (match out with
           | Ok c => Ok (match ret p with Some v => (pid p, v) :: c | None => c end)
           | Err e => Err e
           end, EvDigest (pid p) data :: log)
      end
  end.

Definition unmatched (cfg : config) (ps : list plugin) : list name :=
  filter (fun k => negb (mem k (map section ps))) (map fst cfg).

(* mapping.py:177-214: returns the outcome and the log of calls made until then *)
Definition load_configuration (cfg : config) (ps : list plugin) : outcome * list event :=
  let '(pre, cfg') :=
    match cfg_get cfg logging_name with
    | Some m => ([EvLogging m], cfg_pop logging_name cfg)      (* mapping.py:187-192 *)
    | None => ([], cfg)
    end in
  match unmatched cfg' ps with
  | (_ :: _) as ks => (Err (UnknownSections ks), pre)          (* mapping.py:194-199 *)
  | [] => let '(out, log) := digest_loop cfg' ps in (out, pre ++ log)
  end.

Definition digests (log : list event) : list (nat * nat) :=
  flat_map (fun e => match e with EvDigest p c => [(p, c)] | EvLogging _ => [] end) log.

(* ---- the whole start-up path of core/config.py:load for a YAML file ---- *)
Definition load_all (perm : list name -> list name) (es : list plugin) (cfg : config)
  : res lerr (outcome * list event) :=
  match load_section_plugins perm es with
  | Ok ps => Ok (load_configuration cfg ps)
  | Err e => Err e
  end.

(* ---- admissible orders (the implementation's within-layer order is hash dependent) ---- *)
(* iteration order of a layer derived from an observed order: observed items first, in the
   observed order, then the rest (names of plugins that are not installed, filtered out later) *)
Definition perm_from (order : list name) (layer : list name) : list name :=
  filter (fun x => mem x layer) order ++ filter (fun x => negb (mem x order)) layer.

Fixpoint nodupb (l : list name) : bool :=
  match l with [] => true | x :: r => negb (mem x r) && nodupb r end.

Fixpoint list_eqb (a b : list nat) : bool :=
  match a, b with
  | [], [] => true
  | x :: r, y :: s => Nat.eqb x y && list_eqb r s
  | _, _ => false
  end.

(* `order` (pids) is a result of load_section_plugins for SOME iteration order of the layers:
   equivalently the sections' layer indices are non-decreasing along `order` *)
Definition admissible_order (es : list plugin) (order : list nat) : bool :=
  match load_section_plugins (fun l => l) es with
  | Err _ => false
  | Ok ps0 =>
      (* names of the observed order, resolved through the model's own plugin set *)
      let names := flat_map (fun i => map section (filter (fun p => Nat.eqb (pid p) i) ps0)) order in
      nodupb names &&
      match load_section_plugins (perm_from names) es with
      | Ok ps => list_eqb (map pid ps) order
      | Err _ => false
      end
  end.
