(* DaemonCtor — constructors take time.  A layer over model/Daemon.v that tracks which services are still
   under construction when something happens to them.

   The `service` decorator registers a service unit in __new__, i.e. BEFORE __init__ runs
   (src/cobald/daemon/runners/service.py:92-100).  The accept loop polls the registered units from the trio
   thread (service.py:175-200) and starts whatever is not running yet.  The configured objects are constructed
   by the loading payload inside the asyncio loop (core/main.py:37-43); a constructor is a synchronous section
   of that payload:     Enter q ; NewService (InPayload q) sv f ; ... ; Exit q.
   While the section lasts
     - the creator's own loop is busy: nothing else can start ON THAT LOOP (rule `Start` below: rejected);
     - every other thread goes on: a trio / thread flavoured service can be started half-constructed.  The
       layer admits that (it is what the code does) and records it in the ghost map `c_half`.
   Nothing here changes what Daemon / RT accept otherwise: `cstep` is `dstep` plus bookkeeping plus the one
   rejection above (lemma cstep_dstep). *)
From Coq Require Import List Arith Bool.
From Cobald Require Import model.RT model.Daemon.
Import ListNotations.

Record cstate := mkC {
  c_d : dstate;
  c_ctor : nat -> bool;                    (* services whose constructor is still running *)
  c_half : nat -> option (nat * nat)       (* started while under construction: (its loop, the creator's loop) *)
}.

Definition cinit : cstate := mkC dinit (fun _ => false) (fun _ => None).

Definition created_by (d : dstate) (sv q : nat) : bool :=
  match d_creator d sv with Some q' => q' =? q | None => false end.

Definition cstep (holds : bool) (c : cstate) (e : event) : option cstate :=
  match dstep holds (c_d c) e with
  | None => None
  | Some d' =>
      match e with
      | NewService (InPayload q) sv f =>
          Some (mkC d' (upd (c_ctor c) sv (mem q (inside (d_rt (c_d c))))) (c_half c))
      | Exit q =>
          Some (mkC d' (fun sv => c_ctor c sv && negb (created_by (c_d c) sv q)) (c_half c))
      | Start p f tid loop other ok =>
          if c_ctor c p then
            match d_creator (c_d c) p with
            | Some q =>
                let lq := p_loop (pay (d_rt (c_d c)) q) in
                if coroutine f && coroutine (p_flav (pay (d_rt (c_d c)) q)) && (lq =? loop)
                then None                           (* that loop is busy running the constructor *)
                else Some (mkC d' (c_ctor c) (upd (c_half c) p (Some (loop, lq))))
            | None => Some (mkC d' (c_ctor c) (c_half c))
            end
          else Some (mkC d' (c_ctor c) (c_half c))
      | _ => Some (mkC d' (c_ctor c) (c_half c))
      end
  end.

Fixpoint crun (holds : bool) (c : cstate) (tr : list event) : option cstate :=
  match tr with
  | [] => Some c
  | e :: r => match cstep holds c e with Some c' => crun holds c' r | None => None end
  end.

Fixpoint cfirst_reject (holds : bool) (c : cstate) (tr : list event) (i : nat) : option nat :=
  match tr with
  | [] => None
  | e :: r => match cstep holds c e with Some c' => cfirst_reject holds c' r (S i) | None => Some i end
  end.

Fixpoint crun_prefix (holds : bool) (c : cstate) (tr : list event) : cstate :=
  match tr with
  | [] => c
  | e :: r => match cstep holds c e with Some c' => crun_prefix holds c' r | None => c end
  end.
