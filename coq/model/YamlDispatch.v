(* C18 -- executable model of PyYAML's object construction as used by cobald's configuration loader.

   Sources transcribed (PyYAML 6.0.3, /venv/lib/python3.12/site-packages/yaml/constructor.py):
     BaseConstructor.construct_document   l.49-60    (state_generators drained round by round)
     BaseConstructor.construct_object     l.62-110   (the dispatch + generator protocol + deep_construct)
     BaseConstructor.construct_scalar/sequence/mapping/pairs   l.112-157
     SafeConstructor.construct_scalar     l.173-178  (a mapping used as a scalar follows its `=` key)
     SafeConstructor.flatten_mapping      l.180-215  (merge keys `<<`)
     SafeConstructor.construct_yaml_*     l.222-427
   and src/cobald/daemon/config/yaml.py:27-72 (yaml_constructor / factory_constructor closure).

   A document is a node TREE (anchors/aliases are not modelled: a shared node is constructed once and
   then served from `constructed_objects`, so a DAG runs a subset of the tree's dispatches).
   Tags and scalar values are strings = lists of code points.  Every table entry is classified:
     SafeBuiltin k   one of SafeConstructor's own construct_yaml_* methods
     Undefined       SafeConstructor.construct_undefined (raises ConstructorError)
     Plugin f eager  a closure made by cobald's yaml_constructor(factory f, eager=...)
     Unsafe name     anything else (construct_python_*, from_yaml hooks, foreign callables)
   The model logs which table entries run (`EvB`, `UnsafeCall`) and which plugin factories are
   actually called (`Call f`).  Leaf behaviour that the property does not speak about is a
   parameter: `conv_ok` (does the scalar conversion int()/float()/... succeed) and `fac` (does
   plugin factory f return, and is its result a str / hashable / unhashable). *)
From Coq Require Import List NArith Bool Arith Lia String Ascii.
Import ListNotations.

Definition str := list N.

Definition s2n (s : string) : str := map N_of_ascii (list_ascii_of_string s).

Fixpoint str_eqb (a b : str) : bool :=
  match a, b with
  | [], [] => true
  | x :: r, y :: s => N.eqb x y && str_eqb r s
  | _, _ => false
  end.

(* python str.startswith *)
Fixpoint prefixb (p s : str) : bool :=
  match p, s with
  | [], _ => true
  | x :: r, y :: t => N.eqb x y && prefixb r t
  | _ :: _, [] => false
  end.

Inductive node :=
| Scalar (t : str) (v : str)
| Seq (t : str) (l : list node)
| Map (t : str) (l : list (node * node)).

Definition tag_of (n : node) : str :=
  match n with Scalar t _ => t | Seq t _ => t | Map t _ => t end.

Definition retag (t : str) (n : node) : node :=
  match n with Scalar _ v => Scalar t v | Seq _ l => Seq t l | Map _ l => Map t l end.

Definition value_tag : str := s2n "tag:yaml.org,2002:value"%string.
Definition merge_tag : str := s2n "tag:yaml.org,2002:merge"%string.
Definition str_tag : str := s2n "tag:yaml.org,2002:str"%string.
Definition python_prefix : str := s2n "tag:yaml.org,2002:python/"%string.

(* SafeConstructor's table methods.  BScalar c: construct_yaml_{null 0,bool 1,int 2,float 3,binary 4,
   timestamp 5,str 6}: SafeConstructor.construct_scalar, then conversion number c.
   The other four are generator functions (yield an empty container first, fill it later). *)
Inductive sbk :=
| BScalar (c : N)
| BSeq           (* construct_yaml_seq *)
| BMap           (* construct_yaml_map *)
| BSet           (* construct_yaml_set *)
| BPairs.        (* construct_yaml_omap / construct_yaml_pairs (same code) *)

Inductive cls :=
| SafeBuiltin (k : sbk)
| Undefined
| Plugin (f : N) (eager : bool)
| Unsafe (name : N).

(* the class attributes consulted by construct_object, in dict order, plus whether the loader's
   construct_scalar / construct_mapping are SafeConstructor's (true) or BaseConstructor's (false) *)
Record tables := mkTables {
  t_exact : list (str * cls);          (* yaml_constructors, keys other than None *)
  t_none : option cls;                 (* yaml_constructors[None] *)
  t_multi : list (str * N);            (* yaml_multi_constructors, keys other than None, dict order *)
  t_multi_none : option N;             (* yaml_multi_constructors[None] *)
  t_safe_methods : bool
}.

Inductive entry :=
| EBuiltin (k : sbk)
| EUndefined
| EPlugin (f : N) (eager : bool)
| EUnsafe (name : N)
| EDefault.     (* the class's own construct_scalar / construct_sequence / construct_mapping *)

Definition of_cls (c : cls) : entry :=
  match c with
  | SafeBuiltin k => EBuiltin k
  | Undefined => EUndefined
  | Plugin f e => EPlugin f e
  | Unsafe nm => EUnsafe nm
  end.

Fixpoint assoc {A} (t : str) (l : list (str * A)) : option A :=
  match l with
  | [] => None
  | (k, a) :: r => if str_eqb k t then Some a else assoc t r
  end.

Fixpoint find_prefix {A} (t : str) (l : list (str * A)) : option A :=
  match l with
  | [] => None
  | (p, a) :: r => if prefixb p t then Some a else find_prefix t r
  end.

(* construct_object l.75-94 *)
Definition dispatch (T : tables) (t : str) : entry :=
  match assoc t (t_exact T) with
  | Some c => of_cls c
  | None =>
    match find_prefix t (t_multi T) with
    | Some nm => EUnsafe nm
    | None =>
      match t_multi_none T with
      | Some nm => EUnsafe nm
      | None =>
        match t_none T with
        | Some c => of_cls c
        | None => EDefault
        end
      end
    end
  end.

(* ---- outcomes ---- *)
Inductive err :=
| EUndef        (* ConstructorError "could not determine a constructor for the tag" *)
| EStructure    (* any other ConstructorError: wrong node kind, unhashable key, bad merge, ... *)
| EOther.       (* an exception of another class: failed conversion, factory raised, bad keywords *)

Inductive res (A : Type) :=
| Ok (a : A)
| Err (e : err)
| Fuel.         (* the model's recursion budget ran out: never happens for the budget used by
                   construct_document (proofs/YamlDispatchProofs.v, no_fuel) *)
Arguments Ok {A} a.
Arguments Err {A} e.
Arguments Fuel {A}.

(* what the model remembers of a constructed python value *)
Inductive vclass := VStr | VHash | VUnhash.

Inductive event :=
| EvB (k : sbk)            (* a SafeConstructor table method was entered *)
| Call (f : N)             (* plugin factory f was called *)
| UnsafeCall (name : N).   (* a table entry of unknown code was entered *)

(* log (newest first) and state_generators (oldest first): a pending generator is the rest of a
   SafeConstructor generator method, identified by its kind and node *)
Definition st := (list event * list (sbk * node))%type.
Definition M (A : Type) := st -> res A * st.

Definition ret {A} (a : A) : M A := fun s => (Ok a, s).
Definition fail {A} (e : err) : M A := fun s => (Err e, s).
Definition bind {A B} (m : M A) (k : A -> M B) : M B :=
  fun s => match m s with
           | (Ok a, s') => k a s'
           | (Err e, s') => (Err e, s')
           | (Fuel, s') => (Fuel, s')
           end.
Definition emit (e : event) : M unit := fun s => (Ok tt, (e :: fst s, snd s)).
Definition push (p : sbk * node) : M unit := fun s => (Ok tt, (fst s, snd s ++ [p])).
Definition lift {A} (r : res A) : M A := fun s => (r, s).

(* pure helpers fail only with a ConstructorError (EStructure): option *)
Definition obind {A B} (r : option A) (k : A -> option B) : option B :=
  match r with Some a => k a | None => None end.
Definition lift_o {A} (r : option A) : M A :=
  fun s => (match r with Some a => Ok a | None => Err EStructure end, s).

(* ---- pure helpers on trees ---- *)

(* SafeConstructor.construct_scalar l.173-178 + BaseConstructor.construct_scalar l.112-117 *)
Fixpoint safe_scalar (n : node) : option str :=
  match n with
  | Scalar _ v => Some v
  | Seq _ _ => None
  | Map _ l =>
      (fix go (l : list (node * node)) : option str :=
         match l with
         | [] => None
         | (k, v) :: r => if str_eqb (tag_of k) value_tag then safe_scalar v else go r
         end) l
  end.

Definition base_scalar (n : node) : option str :=
  match n with Scalar _ v => Some v | _ => None end.

(* SafeConstructor.flatten_mapping l.180-215, on the pair list of a mapping node: result is
   `merge + kept`.  Nested mappings reached through merge keys are flattened themselves; the TAG
   of a merged mapping (and of a merged sequence and its items) is never looked at. *)
Section FlatLoops.
  Variable F : node -> option (list (node * node)).    (* flatten_mapping of a nested mapping node *)

  (* l.190-199: the items of a merged sequence must be mappings *)
  Fixpoint flat_subs (subs : list node) : option (list (list (node * node))) :=
    match subs with
    | [] => Some []
    | sub :: rs =>
        match sub with
        | Map _ _ => obind (F sub) (fun x => obind (flat_subs rs) (fun xs => Some (x :: xs)))
        | _ => None
        end
    end.

  (* l.183-213: (merge, kept) *)
  Fixpoint flat_go (l : list (node * node)) : option (list (node * node) * list (node * node)) :=
    match l with
    | [] => Some ([], [])
    | (k, v) :: r =>
        if str_eqb (tag_of k) merge_tag then
          match v with
          | Map _ _ =>
              obind (F v) (fun m1 => obind (flat_go r) (fun mk => Some (m1 ++ fst mk, snd mk)))
          | Seq _ subs =>
              obind (flat_subs subs) (fun subm =>
              obind (flat_go r) (fun mk => Some (List.concat (List.rev subm) ++ fst mk, snd mk)))
          | Scalar _ _ => None
          end
        else if str_eqb (tag_of k) value_tag then
          obind (flat_go r) (fun mk => Some (fst mk, (retag str_tag k, v) :: snd mk))
        else
          obind (flat_go r) (fun mk => Some (fst mk, (k, v) :: snd mk))
    end.
End FlatLoops.

Fixpoint flatten_node (n : node) : option (list (node * node)) :=
  match n with
  | Map _ l => obind (flat_go flatten_node l) (fun mk => Some (fst mk ++ snd mk))
  | _ => None
  end.

(* the loader's construct_mapping sees these pairs: flattened for a SafeConstructor, as written for
   a BaseConstructor; a non-mapping node is a ConstructorError *)
Definition mapping_pairs (T : tables) (n : node) : option (list (node * node)) :=
  match n with
  | Map _ l => if t_safe_methods T then flatten_node n else Some l
  | _ => None
  end.

Definition hmax {A} (h : A -> nat) (l : list A) : nat := fold_right (fun c a => Nat.max (h c) a) 0 l.

Fixpoint height (n : node) : nat :=
  match n with
  | Scalar _ _ => 0
  | Seq _ l => S (hmax height l)
  | Map _ l => S (hmax (fun kv => Nat.max (height (fst kv)) (height (snd kv))) l)
  end.

Section Construct.
  Variable conv_ok : N -> str -> bool.        (* does conversion c accept this scalar text *)
  Variable fac : N -> option vclass.          (* does factory f return (and what), or raise *)
  Variable T : tables.

  (* one construct_object call for a child, as seen by the caller: deep flag, node *)
  Definition rec_t := bool -> node -> M vclass.

  (* BaseConstructor.construct_sequence l.119-125 (the list comprehension) *)
  Fixpoint seq_children (rec : rec_t) (d : bool) (l : list node) : M unit :=
    match l with
    | [] => ret tt
    | c :: r => bind (rec d c) (fun _ => seq_children rec d r)
    end.

  (* BaseConstructor.construct_mapping l.133-140: key, hashable check, value; result: are all
     keys str (needed for factory called with keyword arguments) *)
  Fixpoint map_children (rec : rec_t) (d : bool) (l : list (node * node)) : M bool :=
    match l with
    | [] => ret true
    | (k, v) :: r =>
        bind (rec d k) (fun kc =>
        match kc with
        | VUnhash => fail EStructure
        | _ =>
          bind (rec d v) (fun _ =>
          bind (map_children rec d r) (fun all =>
          ret (match kc with VStr => all | _ => false end)))
        end)
    end.

  (* construct_pairs-like loop of construct_yaml_omap/pairs l.357-371: every item must be a
     mapping node with exactly one pair (its tag is not looked at, it is not flattened) *)
  Fixpoint pairs_children (rec : rec_t) (d : bool) (l : list node) : M unit :=
    match l with
    | [] => ret tt
    | Map _ [(k, v)] :: r =>
        bind (rec d k) (fun _ => bind (rec d v) (fun _ => pairs_children rec d r))
    | _ :: _ => fail EStructure
    end.

  (* the rest of a SafeConstructor generator method after its first yield; `d` is the loader's
     deep_construct flag at the time it is resumed *)
  Definition tail (rec : rec_t) (d : bool) (k : sbk) (n : node) : M unit :=
    match k with
    | BSeq =>
        match n with
        | Seq _ l => seq_children rec d l
        | _ => fail EStructure
        end
    | BMap | BSet =>
        bind (lift_o (mapping_pairs T n)) (fun l => bind (map_children rec d l) (fun _ => ret tt))
    | BPairs =>
        match n with
        | Seq _ l => pairs_children rec d l
        | _ => fail EStructure
        end
    | BScalar _ => ret tt
    end.

  Definition call (f : N) : M vclass :=
    bind (emit (Call f)) (fun _ =>
    match fac f with Some v => ret v | None => fail EOther end).

  (* construct_object: `d` is deep_construct as it is while the constructor runs (the caller's
     flag or-ed with the deep argument, l.65-67) *)
  Definition step (rec : rec_t) (d : bool) (n : node) : M vclass :=
    match dispatch T (tag_of n) with
    | EUndefined => fail EUndef
    | EUnsafe nm => bind (emit (UnsafeCall nm)) (fun _ => ret VHash)
    | EPlugin f eager =>
        (* config/yaml.py:58-70 factory_constructor *)
        let d' := d || eager in
        match n with
        | Scalar _ _ => call f
        | Seq _ l => bind (seq_children rec d' l) (fun _ => call f)
        | Map _ _ =>
            bind (lift_o (mapping_pairs T n)) (fun l =>
            bind (map_children rec d' l) (fun allstr =>
            if allstr then call f else fail EOther))
        end
    | EBuiltin (BScalar c) =>
        bind (emit (EvB (BScalar c))) (fun _ =>
        bind (lift_o (if t_safe_methods T then safe_scalar n else base_scalar n)) (fun v =>
        if conv_ok c v then ret (if N.eqb c 6 then VStr else VHash)
        else fail (if N.eqb c 4 then EStructure else EOther)))   (* l.291-305: binary wraps its errors *)
    | EBuiltin k =>
        (* generator method: l.99-106 *)
        bind (emit (EvB k)) (fun _ =>
        bind (if d then tail rec d k n else push (k, n)) (fun _ => ret VUnhash))
    | EDefault =>
        match n with
        | Scalar _ v => ret VStr
        | Seq _ l => bind (seq_children rec d l) (fun _ => ret VUnhash)
        | Map _ _ =>
            bind (lift_o (mapping_pairs T n)) (fun l =>
            bind (map_children rec d l) (fun _ => ret VUnhash))
        end
    end.

  (* recursion budget = nesting depth of construct_object calls *)
  Fixpoint cons (fuel : nat) : rec_t :=
    match fuel with
    | 0 => fun _ _ s => (Fuel, s)
    | S f => step (cons f)
    end.

  Fixpoint run_pending (fuel : nat) (q : list (sbk * node)) : M unit :=
    match q with
    | [] => ret tt
    | (k, n) :: r => bind (tail (cons fuel) false k n) (fun _ => run_pending fuel r)
    end.

  (* construct_document l.51-56: while self.state_generators: ... *)
  Fixpoint drain (rounds fuel : nat) (s : st) : res unit * st :=
    match snd s with
    | [] => (Ok tt, s)
    | q =>
        match rounds with
        | 0 => (Fuel, s)
        | S r =>
            match run_pending fuel q (fst s, []) with
            | (Ok _, s') => drain r fuel s'
            | other => other
            end
        end
    end.

  Definition construct_document (doc : node) : res vclass * list event :=
    let f := S (height doc) in
    match cons f false doc ([], []) with
    | (Ok v, s) =>
        match drain f f s with
        | (Ok _, s') => (Ok v, List.rev (fst s'))
        | (Err e, s') => (Err e, List.rev (fst s'))
        | (Fuel, s') => (Fuel, List.rev (fst s'))
        end
    | (r, s) => (r, List.rev (fst s))
    end.
End Construct.

(* ---- the table condition ---- *)
Definition python_tag (t : str) : bool := prefixb python_prefix t.
Definition bang_tag (t : str) : bool := match t with 33%N :: _ => true | _ => false end.

Definition cls_safe (c : cls) : bool := match c with Unsafe _ => false | _ => true end.

Definition safe_tables (T : tables) : bool :=
  forallb (fun tc => cls_safe (snd tc) && negb (python_tag (fst tc))) (t_exact T)
  && match t_none T with Some Undefined => true | _ => false end
  && match t_multi T with [] => true | _ => false end
  && match t_multi_none T with None => true | _ => false end
  && t_safe_methods T.

Definition registered (T : tables) (f : N) : Prop :=
  exists t e, In (t, Plugin f e) (t_exact T).

(* every Plugin entry of the table is (tag, factory) of the entry-point list and vice versa *)
Definition plugin_entries (T : tables) : list (str * N) :=
  flat_map (fun tc => match snd tc with Plugin f _ => [(fst tc, f)] | _ => [] end) (t_exact T).

Definition pair_eqb (a b : str * N) : bool := str_eqb (fst a) (fst b) && N.eqb (snd a) (snd b).
Definition subset_b (a b : list (str * N)) : bool :=
  forallb (fun x => existsb (pair_eqb x) b) a.
Definition plugins_match (T : tables) (eps : list (str * N)) : bool :=
  subset_b (plugin_entries T) eps && subset_b eps (plugin_entries T).

Definition is_call (e : event) : bool := match e with EvB _ => false | _ => true end.
Definition calls (l : list event) : list event := filter is_call l.

(* ---- which nodes of a document get dispatched (were construct_object is called on them),
        as long as no error stops the construction ---- *)
Definition kv_nodes (l : list (node * node)) : list node := flat_map (fun kv => [fst kv; snd kv]) l.

Definition pairs_nodes (l : list node) : list node :=
  flat_map (fun c => match c with Map _ [(k, v)] => [k; v] | _ => [] end) l.

Definition mapping_nodes (T : tables) (n : node) : list node :=
  match mapping_pairs T n with Some l => kv_nodes l | None => [] end.

Definition tail_children (T : tables) (k : sbk) (n : node) : list node :=
  match k with
  | BScalar _ => []
  | BSeq => match n with Seq _ l => l | _ => [] end
  | BMap | BSet => mapping_nodes T n
  | BPairs => match n with Seq _ l => pairs_nodes l | _ => [] end
  end.

Definition children_of (T : tables) (n : node) : list node :=
  match dispatch T (tag_of n) with
  | EUndefined | EUnsafe _ => []
  | EBuiltin k => tail_children T k n
  | EPlugin _ _ | EDefault =>
      match n with
      | Scalar _ _ => []
      | Seq _ l => l
      | Map _ _ => mapping_nodes T n
      end
  end.

Inductive visits (T : tables) : node -> node -> Prop :=
| visits_self : forall n, visits T n n
| visits_child : forall n c m, In c (children_of T n) -> visits T c m -> visits T n m.

(* plain containment, any position *)
Inductive subnode : node -> node -> Prop :=
| sub_self : forall n, subnode n n
| sub_item : forall m t l c, In c l -> subnode m c -> subnode m (Seq t l)
| sub_key : forall m t l k v, In (k, v) l -> subnode m k -> subnode m (Map t l)
| sub_value : forall m t l k v, In (k, v) l -> subnode m v -> subnode m (Map t l).
