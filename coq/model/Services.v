(* Timed model of the six shipped periodic services (their `run()` coroutines) under a virtual clock:
     src/cobald/controller/linear.py:31-34            LinearController.run
     src/cobald/controller/relative_supply.py:40-43   RelativeSupplyController.run
     src/cobald/controller/stepwise.py:80-87          Stepwise.run
     src/cobald/controller/switch.py:56-59            DemandSwitch.run
     src/cobald/decorator/buffer.py:27-31             Buffer.run
     src/cobald/composite/factory.py:89-97            FactoryPool.run
   Every run() has the shape  `prelude; while True: A; await trio.sleep(period); B`  with exactly one
   sleep per iteration.  A service started at time t0 therefore wakes at t0 + k*period (k = 0, 1, ...);
   at wake 0 it executes `prelude; A`, at wake k > 0 it executes `B; A`, atomically (there is no other
   await).  The environment acts at given times; an environment action at exactly a wake time may
   happen before or after the wake (trio does not order the two tasks): `before g` resolves this for
   environment group g, and all theorems hold for every resolution. *)
From Coq Require Import ZArith QArith Qround List Bool Arith.
From Cobald Require Import kit.QKit model.Controllers.
Import ListNotations.
Open Scope Q_scope.

Section Timeline.
  Context {W A E : Type}.                   (* world, environment action, logged effect *)
  Variable env_apply : A -> W -> W.
  (* the block executed at a wake (argument: is it the first one); None = a block that does nothing
     and touches nothing (FactoryPool's first wake: it only starts to sleep) *)
  Variable act : bool -> W -> res (W * option (list E)).
  Variable t0 period : Q.
  Variable before : nat -> bool.

  Record eact := mkEact { ea_time : Q; ea_group : nat; ea_act : A }.

  Definition wake_time (k : nat) : Q := t0 + inject_Z (Z.of_nat k) * period.

  (* has the environment action happened when the service wakes at time t *)
  Definition ready (t : Q) (x : eact) : bool :=
    Qltb (ea_time x) t || (Qeqb (ea_time x) t && before (ea_group x)).

  Fixpoint split_while (f : eact -> bool) (env : list eact) : list eact * list eact :=
    match env with
    | [] => ([], [])
    | x :: r => if f x then let (a, b) := split_while f r in (x :: a, b) else ([], env)
    end.

  Definition apply_all (l : list eact) (w : W) : W := fold_left (fun w x => env_apply (ea_act x) w) l w.

  Inductive outcome := Running | Raised (er : err) (t : Q).

  Record result := mkResult {
    r_world : W;                           (* world right after the last executed block *)
    r_rest : list eact;                    (* environment actions not yet happened *)
    r_log : list (Q * list E);             (* one record per executed block: time, its effects *)
    r_out : outcome }.

  (* wakes number k, k+1, ..., k+n-1 *)
  Fixpoint wakes (n k : nat) (w : W) (env : list eact) : result :=
    match n with
    | O => mkResult w env [] Running
    | S n' =>
        let t := wake_time k in
        let (rdy, rest) := split_while (ready t) env in
        let w1 := apply_all rdy w in
        match act (Nat.eqb k 0) w1 with
        | Err er => mkResult w1 rest [] (Raised er t)
        | Ok (w2, rec) =>
            let r := wakes n' (S k) w2 rest in
            mkResult (r_world r) (r_rest r)
                     (match rec with Some ef => (t, ef) :: r_log r | None => r_log r end) (r_out r)
        end
    end.

  (* number of wake times <= T *)
  Definition nwakes (T : Q) : nat :=
    if Qltb T t0 then O else (Z.to_nat (Qfloor ((T - t0) / period)) + 1)%nat.

  (* everything up to and including time T *)
  Definition timeline (T : Q) (w : W) (env : list eact) : result :=
    let r := wakes (nwakes T) 0 w env in
    match r_out r with
    | Running =>
        let (rdy, rest) := split_while (fun x => Qle_bool (ea_time x) T) (r_rest r) in
        mkResult (apply_all rdy (r_world r)) rest (r_log r) Running
    | Raised _ _ => r
    end.
End Timeline.

Arguments mkEact {A} _ _ _.
Arguments ea_time {A} _.
Arguments ea_group {A} _.
Arguments ea_act {A} _.

(* ---- the four controllers: world = the target pool ---- *)
Inductive penv := PState (s u a : Q) | PDemand (d : Q).

Definition penv_apply (a : penv) (p : pool) : pool :=
  match a with
  | PState s u a => mkPool s (p_demand p) u a
  | PDemand d => set_demand p d
  end.

(* `self.interval` is both the argument of regulate and the sleep *)
Definition ctrl_interval (c : ctrl) : Q :=
  match c with
  | CLinear c => l_interval c
  | CRelative c => r_interval c
  | CStepwise c => sw_interval c
  | CSwitch c => s_interval c
  end.

Definition ctrl_act (sem : nat -> pool -> Q -> option Q) (c : ctrl) (_ : bool) (p : pool)
  : res (pool * option (list effect)) :=
  match regulate sem c p (ctrl_interval c) with
  | Ok (p', ef) => Ok (p', Some ef)
  | Err x => Err x
  end.

Definition ctrl_timeline sem (c : ctrl) (t0 : Q) (before : nat -> bool) (T : Q) (p : pool) (env : list (@eact penv)) :=
  timeline penv_apply (ctrl_act sem c) t0 (ctrl_interval c) before T p env.

(* ---- Buffer ---- *)
Record bworld := mkBworld { b_demand : Q; b_target : pool }.
Inductive benv := BWrite (v : Q) | BTarget (a : penv).

(* buffer.py:22-25: self.demand = target.demand *)
Definition buffer_init (p : pool) : bworld := mkBworld (p_demand p) p.

Definition benv_apply (a : benv) (w : bworld) : bworld :=
  match a with
  | BWrite v => mkBworld v (b_target w)                          (* buffer.demand = v: stored only *)
  | BTarget a => mkBworld (b_demand w) (penv_apply a (b_target w))
  end.

(* buffer.py:29-30 *)
Definition buffer_act (_ : bool) (w : bworld) : res (bworld * option (list effect)) :=
  if Qeqb (b_demand w) (p_demand (b_target w)) then Ok (w, Some [])
  else Ok (mkBworld (b_demand w) (set_demand (b_target w) (b_demand w)), Some [EWrite (b_demand w)]).

Definition buffer_timeline (window t0 : Q) before T (p : pool) (env : list (@eact benv)) :=
  timeline benv_apply buffer_act t0 window before T (buffer_init p) env.

(* ---- FactoryPool (run loop; children in the grow-only regime: every child has supply 0 and keeps
        the demand q > 0 it was spawned with, the pool's demand stays >= 0) ---- *)
Record fworld := mkFworld { f_demand : Q; f_have : Q }.     (* own demand; sum of the children's demand *)
Inductive fenv := FDemand (d : Q).
Inductive fef := FSpawn.                                     (* one call of factory() *)

Definition fenv_apply (a : fenv) (w : fworld) : fworld :=
  match a with FDemand d => mkFworld d (f_have w) end.

(* factory.py:115-124 with supply = 0 <= demand: _grow spawns while demand is missing *)
Definition spawn_count (q missing : Q) : nat :=
  if Qltb 0 missing then Z.to_nat (Qceiling (missing / q)) else O.

(* factory.py:89-97: the first wake only starts the sleep; every later wake adjusts *)
Definition factory_act (q : Q) (first : bool) (w : fworld) : res (fworld * option (list fef)) :=
  if first then Ok (w, None)
  else
    let n := spawn_count q (f_demand w - f_have w) in
    Ok (mkFworld (f_demand w) (f_have w + inject_Z (Z.of_nat n) * q), Some (repeat FSpawn n)).

Definition factory_timeline (q interval t0 : Q) before T (w : fworld) (env : list (@eact fenv)) :=
  timeline fenv_apply (factory_act q) t0 interval before T w env.
