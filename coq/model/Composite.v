(* Reference model of cobald.composite.weighted.WeightedComposite and
   cobald.composite.uniform.UniformComposite (src/cobald/composite/{weighted,uniform}.py),
   over exact rationals (ideal arithmetic; binary64 rounding is not modelled).

   Children are plain pools: reading supply/utilisation/allocation returns the stored value and
   writing demand stores it; a child's weight attributes do not change when its demand is written. *)
From Coq Require Import ZArith QArith List Bool.
From Cobald Require Import kit.QKit.
Import ListNotations.
Open Scope Q_scope.

Record child := mkChild { c_supply : Q; c_util : Q; c_alloc : Q; c_demand : Q }.

Inductive wattr := WSupply | WUtil | WAlloc.
Inductive kind := Weighted (w : wattr) | Uniform.

Definition weight (w : wattr) (c : child) : Q :=
  match w with WSupply => c_supply c | WUtil => c_util c | WAlloc => c_alloc c end.

Definition set_cdemand (c : child) (d : Q) : child :=
  mkChild (c_supply c) (c_util c) (c_alloc c) d.

(* weighted.py:90-92  _total_weight *)
Definition total (w : wattr) (cs : list child) : Q := qsum (map (weight w) cs).

(* weighted.py:35-43: share of one child; ZeroDivisionError (total == 0) -> value / child_count *)
Definition share_weighted (w : wattr) (cs : list child) (D : Q) (c : child) : Q :=
  if Qeqb (total w cs) 0 then D / qlen cs else D * weight w c / total w cs.

(* uniform.py:15-20 *)
Definition share_uniform (cs : list child) (D : Q) : Q := D / qlen cs.

Definition share (k : kind) (cs : list child) (D : Q) (c : child) : Q :=
  match k with Weighted w => share_weighted w cs D c | Uniform => share_uniform cs D end.

Definition shares (k : kind) (cs : list child) (D : Q) : list Q := map (share k cs D) cs.

Definition distribute (k : kind) (cs : list child) (D : Q) : list child :=
  map (fun c => set_cdemand c (share k cs D c)) cs.

(* weighted.py:45-47, uniform.py:22-24 *)
Definition supply (cs : list child) : Q := qsum (map c_supply cs).

(* weighted.py:75-88 *)
Definition undefined_fitness (cs : list child) : Q := if Qltb 0 (supply cs) then 0 else 1.

(* weighted.py:49-73 / uniform.py:26-40; `f` selects utilisation or allocation *)
Definition fitness (k : kind) (f : child -> Q) (cs : list child) : Q :=
  match k with
  | Weighted w =>
      if Qeqb (total w cs) 0 then undefined_fitness cs
      else qsum (map (fun c => f c * weight w c) cs) / total w cs
  | Uniform =>
      match cs with [] => 1 | _ => qsum (map f cs) / qlen cs end
  end.

Definition utilisation k cs := fitness k c_util cs.
Definition allocation k cs := fitness k c_alloc cs.

(* ---- the composite as a state machine over histories ---- *)
Record comp := mkComp { ckind : kind; cdemand : Q; cchildren : list child }.

(* __init__: _demand = sum(child.demand for child in children) *)
Definition init (k : kind) (cs : list child) : comp := mkComp k (qsum (map c_demand cs)) cs.

Inductive op :=
| SetDemand (D : Q)                                  (* composite.demand = D *)
| ChildState (i : nat) (s u a : Q)                    (* child i changes supply/utilisation/allocation *)
| ChildDemand (i : nat) (d : Q)                       (* child i's demand changed from outside *)
| AddChild (c : child)                                (* composite.children.append(c) *)
| DelChild (i : nat).                                 (* del composite.children[i] *)

Fixpoint update {A} (l : list A) (i : nat) (f : A -> A) : list A :=
  match l, i with
  | [], _ => []
  | x :: r, O => f x :: r
  | x :: r, S j => x :: update r j f
  end.

Fixpoint remove_at {A} (l : list A) (i : nat) : list A :=
  match l, i with
  | [], _ => []
  | _ :: r, O => r
  | x :: r, S j => x :: remove_at r j
  end.

Definition step (st : comp) (o : op) : comp :=
  match o with
  | SetDemand D => mkComp (ckind st) D (distribute (ckind st) (cchildren st) D)
  | ChildState i s u a =>
      mkComp (ckind st) (cdemand st)
             (update (cchildren st) i (fun c => mkChild s u a (c_demand c)))
  | ChildDemand i d =>
      mkComp (ckind st) (cdemand st) (update (cchildren st) i (fun c => set_cdemand c d))
  | AddChild c => mkComp (ckind st) (cdemand st) (cchildren st ++ [c])
  | DelChild i => mkComp (ckind st) (cdemand st) (remove_at (cchildren st) i)
  end.

Definition run (st : comp) (ops : list op) : comp := fold_left step ops st.

(* what an observer reads off the composite and its children *)
Record observation := mkObs {
  o_demand : Q; o_supply : Q; o_util : Q; o_alloc : Q; o_child_demands : list Q }.

Definition observe (st : comp) : observation :=
  mkObs (cdemand st) (supply (cchildren st))
        (utilisation (ckind st) (cchildren st)) (allocation (ckind st) (cchildren st))
        (map c_demand (cchildren st)).

(* observations after every operation *)
Fixpoint trace (st : comp) (ops : list op) : list observation :=
  match ops with
  | [] => []
  | o :: r => let st' := step st o in observe st' :: trace st' r
  end.
