(* RT — model of cobald's payload runtime (ServiceRunner / MetaRunner / the three runners / guard)
   as a deterministic acceptor of observable events:  step : rt -> event -> option rt.
   `None` means "the runtime contract forbids this event here".  Sources paraphrased:
     src/cobald/daemon/runners/service.py, meta_runner.py, base_runner.py, asyncio_runner.py,
     trio_runner.py, thread_runner.py, guard.py   (anchors in comments).
   Real traces logged by scripted payloads are replayed through `run` inside coqc
   (harness/rt.py, corr/RTCorr.v); the theorems in proofs/RTProofs.v quantify over ALL event
   sequences the acceptor admits.  What asyncio/trio guarantee themselves is assumed in the rules
   (DESIGN.md section 6). *)
From Coq Require Import List Arith Bool Lia.
Import ListNotations.

Inductive flavour := Aio | Trio | Thr.
Definition coroutine (f : flavour) : bool := match f with Thr => false | _ => true end.
Definition flav_eqb (a b : flavour) : bool :=
  match a, b with Aio, Aio | Trio, Trio | Thr, Thr => true | _, _ => false end.

(* who performs a call: an outside thread, or a payload / service run method *)
Inductive ctx := Outside | InPayload (p : nat).

(* how a payload's body ended, as logged by the payload itself *)
Inductive outcome :=
| ORetNone | ORetVal (v : nat) | ORaiseExc (e : nat) | ORaiseBase (e : nat) | OKbd.

Definition failing (o : outcome) : bool :=
  match o with ORetVal _ | ORaiseExc _ | ORaiseBase _ => true | _ => false end.

Definition outcome_eqb (a b : outcome) : bool :=
  match a, b with
  | ORetNone, ORetNone | OKbd, OKbd => true
  | ORetVal x, ORetVal y | ORaiseExc x, ORaiseExc y | ORaiseBase x, ORaiseBase y => x =? y
  | _, _ => false
  end.

(* a leaf of RuntimeError.__cause__ (looking through exception groups): the exception object raised
   by payload p, or an OrphanedReturn carrying the object returned by payload p *)
Inductive cause := CExc (p : nat) | COrphan (p : nat) | COther.
Definition cause_eqb (a b : cause) : bool :=
  match a, b with
  | CExc x, CExc y | COrphan x, COrphan y => x =? y
  | COther, COther => true
  | _, _ => false
  end.
Definition mem_cause (c : cause) (l : list cause) : bool := existsb (cause_eqb c) l.

(* how the blocking accept()/run() call ended *)
Inductive aout :=
| AReturned                        (* returned normally *)
| ARuntime (cs : list cause)       (* RuntimeError("background task failed") from cause leaves cs *)
| AExclusive                       (* RuntimeError of the exclusivity guard, guard.py:32 *)
| AOther.                          (* any other exception type (BaseExceptionGroup, SystemExit, ...) *)

Inductive event :=
| AcceptCall (r : nat)
| AcceptEnd (r : nat) (o : aout)
| RunningSet (r : nat)                                   (* runner.running observed set *)
| ShutdownCall (c : ctx) (r : nat)
| ShutdownEnd (r : nat) (ok : bool)
| Sigint
| AdoptCall (c : ctx) (r p : nat) (f : flavour)
| AdoptEnd (p : nat) (ok : bool)                         (* adopt returned None (true) / raised or returned something (false) *)
| NewService (c : ctx) (s : nat) (f : flavour)
| DropService (s : nat)                                  (* last reference to a never-started service vanished *)
| Start (p : nat) (f : flavour) (tid loop other : nat) (args_ok : bool)
| Step (p tid : nat)
| Enter (p : nat)
| Exit (p : nat)
| Finish (p : nat) (o : outcome)
| Cancelled (p : nat)
| CleanStep (p : nat)
| CleanupDone (p : nat)
| ExecCall (c : ctx) (tid r p : nat) (f : flavour)
| ExecEnd (p : nat) (o : outcome) (same : bool)
| ExecAbort (p : nat)                                    (* execute cut short by the termination of the runtime *)
| Quiesce.                                               (* the harness observed a quiet period: nothing may be owed *)

Inductive pst :=
| PUnknown | PQueued | PReg | PUnit | PExecPending | PRun | PCanc | PClean
| PDone (o : outcome) | PDropped.

Inductive origin := OrAdopt | OrService | OrExec (caller_tid : nat).
Definition is_exec (o : origin) : bool := match o with OrExec _ => true | _ => false end.

Record pinfo := mkP {
  p_st : pst; p_flav : flavour; p_owner : nat; p_origin : origin;
  p_tid : nat; p_loop : nat;
  p_starts : nat;            (* ghost: number of Start events seen *)
  p_cancels : nat;           (* ghost: number of Cancelled events seen *)
  p_cleans : nat;            (* ghost: number of CleanupDone events seen *)
  p_adopting : bool;         (* adopt call in flight *)
  p_exec_ret : bool          (* execute has returned to its caller *)
}.
Definition p0 : pinfo := mkP PUnknown Thr 0 OrAdopt 0 0 0 0 0 false false.

Inductive ccause := CFail | CStop | CInt.
Inductive phase := Idle | Up | Closing (c : ccause) | Rejected | Ended (o : aout).

Record rinfo := mkR {
  r_phase : phase;
  r_running : bool;                    (* RunningSet observed *)
  r_shut_req : nat; r_shut_ret : nat;  (* shutdown calls issued / returned *)
  r_failures : list cause;             (* Exception-like failures of background payloads *)
  r_basefail : bool;                   (* a failure that is not an Exception subclass was recorded *)
  r_failed_up : bool;                  (* ghost: a background payload failed while the runner was Up *)
  r_trigger : bool;                    (* ghost: a stop trigger (shutdown / SIGINT / KeyboardInterrupt) occurred *)
  r_sigint : bool;                     (* a SIGINT was delivered while this runner held the guard *)
  r_loopkill : bool;                   (* an asyncio/thread payload raised SystemExit: kills the asyncio loop
                                          (known finding C02-systemexit-skips-trio-cleanup) *)
  r_home_aio : option (nat * nat);     (* (thread, loop) all asyncio payloads run on *)
  r_home_trio : option (nat * nat)
}.
Definition r0 : rinfo := mkR Idle false 0 0 [] false false false false false None None.

Record rt := mkRT {
  guard : option nat;                  (* guard.py: process-wide lock of `accept` *)
  pay : nat -> pinfo;
  pids : list nat;
  run_ : nat -> rinfo;
  rids : list nat;
  thr_tids : list nat;                 (* threads used by (non-executed) thread payloads *)
  inside : list nat                    (* payloads currently between Enter and Exit *)
}.
Definition init : rt := mkRT None (fun _ => p0) [] (fun _ => r0) [] [] [].

Definition upd {A} (f : nat -> A) (k : nat) (v : A) : nat -> A :=
  fun x => if x =? k then v else f x.

Definition add_id (x : nat) (l : list nat) : list nat := if existsb (Nat.eqb x) l then l else x :: l.
Definition set_pay (s : rt) (p : nat) (v : pinfo) : rt :=
  mkRT (guard s) (upd (pay s) p v) (add_id p (pids s)) (run_ s) (rids s) (thr_tids s) (inside s).
Definition set_run (s : rt) (r : nat) (v : rinfo) : rt :=
  mkRT (guard s) (pay s) (pids s) (upd (run_ s) r v) (add_id r (rids s)) (thr_tids s) (inside s).
Definition set_guard (s : rt) (g : option nat) : rt :=
  mkRT g (pay s) (pids s) (run_ s) (rids s) (thr_tids s) (inside s).
Definition set_thr (s : rt) (l : list nat) : rt :=
  mkRT (guard s) (pay s) (pids s) (run_ s) (rids s) l (inside s).
Definition set_inside (s : rt) (l : list nat) : rt :=
  mkRT (guard s) (pay s) (pids s) (run_ s) (rids s) (thr_tids s) l.

Definition with_st (i : pinfo) (x : pst) : pinfo :=
  mkP x (p_flav i) (p_owner i) (p_origin i) (p_tid i) (p_loop i) (p_starts i) (p_cancels i)
      (p_cleans i) (p_adopting i) (p_exec_ret i).
Definition with_phase (i : rinfo) (x : phase) : rinfo :=
  mkR x (r_running i) (r_shut_req i) (r_shut_ret i) (r_failures i) (r_basefail i) (r_failed_up i)
      (r_trigger i) (r_sigint i) (r_loopkill i) (r_home_aio i) (r_home_trio i).
Definition with_running (i : rinfo) : rinfo :=
  mkR (r_phase i) true (r_shut_req i) (r_shut_ret i) (r_failures i) (r_basefail i) (r_failed_up i)
      (r_trigger i) (r_sigint i) (r_loopkill i) (r_home_aio i) (r_home_trio i).
Definition with_shut (i : rinfo) (req ret : nat) : rinfo :=
  mkR (r_phase i) (r_running i) req ret (r_failures i) (r_basefail i) (r_failed_up i)
      (r_trigger i) (r_sigint i) (r_loopkill i) (r_home_aio i) (r_home_trio i).
Definition with_trigger (i : rinfo) : rinfo :=
  mkR (r_phase i) (r_running i) (r_shut_req i) (r_shut_ret i) (r_failures i) (r_basefail i) (r_failed_up i)
      true (r_sigint i) (r_loopkill i) (r_home_aio i) (r_home_trio i).
Definition with_sigint (i : rinfo) : rinfo :=
  mkR (r_phase i) (r_running i) (r_shut_req i) (r_shut_ret i) (r_failures i) (r_basefail i) (r_failed_up i)
      true true (r_loopkill i) (r_home_aio i) (r_home_trio i).
(* record a failure of a background payload: an Exception-like cause, or a non-Exception one *)
Definition with_failure (i : rinfo) (c : option cause) (count_up : bool) : rinfo :=
  mkR (r_phase i) (r_running i) (r_shut_req i) (r_shut_ret i)
      (match c with Some x => x :: r_failures i | None => r_failures i end)
      (match c with Some _ => r_basefail i | None => true end)
      (count_up || r_failed_up i) (r_trigger i) (r_sigint i) (r_loopkill i) (r_home_aio i) (r_home_trio i).
Definition with_loopkill (i : rinfo) : rinfo :=
  mkR (r_phase i) (r_running i) (r_shut_req i) (r_shut_ret i) (r_failures i) (r_basefail i) (r_failed_up i)
      (r_trigger i) (r_sigint i) true (r_home_aio i) (r_home_trio i).
Definition with_home (i : rinfo) (a t : option (nat * nat)) : rinfo :=
  mkR (r_phase i) (r_running i) (r_shut_req i) (r_shut_ret i) (r_failures i) (r_basefail i) (r_failed_up i)
      (r_trigger i) (r_sigint i) (r_loopkill i) a t.

Definition phase_live (ph : phase) : bool := match ph with Up | Closing _ => true | _ => false end.
Definition phase_ended (ph : phase) : bool := match ph with Ended _ => true | _ => false end.
Definition phase_up (ph : phase) : bool := match ph with Up => true | _ => false end.
Definition phase_closing (ph : phase) : bool := match ph with Closing _ => true | _ => false end.

Definition home (i : rinfo) (f : flavour) : option (nat * nat) :=
  match f with Aio => r_home_aio i | Trio => r_home_trio i | Thr => None end.
Definition set_home (i : rinfo) (f : flavour) (h : nat * nat) : rinfo :=
  match f with
  | Aio => with_home i (Some h) (r_home_trio i)
  | Trio => with_home i (r_home_aio i) (Some h)
  | Thr => i
  end.
Definition home_tid (o : option (nat * nat)) (t : nat) : bool :=
  match o with Some (t', _) => t' =? t | None => false end.

(* asyncio.run_coroutine_threadsafe re-creates TimeoutError (exception class 11 of the harness table)
   while chaining futures: the caller of execute sees an equal copy, not the same object.
   Recorded as known finding C10-asyncio-timeouterror-copied. *)
Definition aio_copied_exc : nat := 11.

(* exception class 12 of the harness table is SystemExit *)
Definition sysexit_exc : nat := 12.

Definition mem (x : nat) (l : list nat) : bool := existsb (Nat.eqb x) l.
Fixpoint remove1 (x : nat) (l : list nat) : list nat :=
  match l with [] => [] | y :: r => if y =? x then r else y :: remove1 x r end.

(* is some coroutine payload of runner r and flavour f inside a section? *)
Definition busy (s : rt) (r : nat) (f : flavour) : bool :=
  existsb (fun q => (p_owner (pay s q) =? r) && flav_eqb (p_flav (pay s q)) f) (inside s).

(* all coroutine payloads of runner r are settled: none running or being cancelled (C02) *)
Definition unsettled (i : pinfo) : bool :=
  match p_st i with PRun | PCanc => coroutine (p_flav i) && negb (is_exec (p_origin i)) | _ => false end.
Definition settled (s : rt) (r : nat) : bool :=
  forallb (fun q => negb ((p_owner (pay s q) =? r) && unsettled (pay s q))) (pids s).

(* meta_runner.py:116-125: the flush turns queued payloads of r into registered ones *)
Definition flush_queue (s : rt) (r : nat) : nat -> pinfo :=
  fun q => let i := pay s q in
           match p_st i with
           | PQueued => if p_owner i =? r then with_st i PReg else i
           | _ => i
           end.

Definition accept_end_ok (i : rinfo) (o : aout) : bool :=
  match r_phase i, o with
  | Rejected, AExclusive => true
  | Closing c, AReturned =>
      match c with CFail => r_sigint i | _ => true end
  | Closing _, ARuntime cs =>
      negb (match cs with [] => true | _ => false end) && forallb (fun c => mem_cause c (r_failures i)) cs
  | Closing _, AOther => r_basefail i
  | _, _ => false
  end.

(* may a coroutine payload of flavour f of this runner still act / start / clean up?
   Normally only while the run call has not ended; after a loop-killing SystemExit the trio thread
   keeps unwinding on its own (the known finding). *)
Definition orphaned_trio (ri : rinfo) (f : flavour) : bool :=
  phase_ended (r_phase ri) && r_loopkill ri && flav_eqb f Trio.
Definition may_act (ri : rinfo) (f : flavour) : bool :=
  negb (phase_ended (r_phase ri)) || orphaned_trio ri f.
Definition may_start (ri : rinfo) (f : flavour) : bool :=
  phase_live (r_phase ri) || orphaned_trio ri f
  || (negb (coroutine f) && phase_ended (r_phase ri)).    (* a thread registered while closing may come up late *)
Definition may_clean (ri : rinfo) (f : flavour) : bool :=
  phase_closing (r_phase ri) || orphaned_trio ri f.

(* asyncio_runner.py:37-50, thread_runner.py:36-49, trio_runner.py:76-80: how the end `o` of background
   payload p (of flavour f) changes the record of its live runner *)
Definition finish_rec (ri : rinfo) (p : nat) (f : flavour) (o : outcome) : rinfo :=
  let up := phase_up (r_phase ri) in
  let ph := if up then Closing CFail else r_phase ri in
  match o with
  | ORetNone => ri
  | ORetVal _ => with_failure (with_phase ri ph) (Some (COrphan p)) up
  | ORaiseExc _ => with_failure (with_phase ri ph) (Some (CExc p)) up
  | ORaiseBase e =>
      (* SystemExit from an asyncio/thread payload is re-raised by asyncio out of the event loop at once *)
      let ri' := with_failure (with_phase ri ph) None up in
      if (e =? sysexit_exc) && negb (flav_eqb f Trio) then with_loopkill ri' else ri'
  | OKbd =>
      match f with
      | Trio =>      (* surfaces as a BaseExceptionGroup from trio.run *)
          with_trigger (with_failure (with_phase ri ph) None false)
      | _ =>         (* asyncio_runner.py:40-41 / KeyboardInterrupt kills the loop: silent end *)
          with_trigger (with_phase ri (if up then Closing CInt else r_phase ri))
      end
  end.

(* guard.py:29-30: the lock is released when the guarded call of its holder ends *)
Definition release (g : option nat) (r : nat) : option nat :=
  match g with Some h => if h =? r then None else Some h | None => None end.

Definition step_core (s : rt) (e : event) : option rt :=
  match e with
  | Quiesce => Some s
  | AcceptCall r =>                                   (* service.py:155-166, guard.py:24-32 *)
      let i := run_ s r in
      match r_phase i with
      | Idle =>
          match guard s with
          | None =>
              let s1 := mkRT (Some r) (flush_queue s r) (pids s) (run_ s) (rids s) (thr_tids s)
                             (inside s) in
              Some (set_run s1 r (with_phase i Up))
          | Some _ => Some (set_run s r (with_phase i Rejected))
          end
      | _ => None
      end
  | AcceptEnd r o =>                                  (* meta_runner.py:65-76,84-102 *)
      let i := run_ s r in
      if accept_end_ok i o && (negb (phase_closing (r_phase i)) || settled s r || r_loopkill i) then
        Some (set_guard (set_run s r (with_phase i (Ended o))) (release (guard s) r))
      else None
  | RunningSet r =>                                   (* service.py:176-177 *)
      let i := run_ s r in
      match r_phase i with
      | Idle | Rejected => None
      | _ => Some (set_run s r (with_running i))
      end
  | ShutdownCall c r =>                               (* service.py:168-172; callers: outside threads, thread payloads *)
      let i := run_ s r in
      let caller_ok := match c with
                       | Outside => true
                       | InPayload q => negb (coroutine (p_flav (pay s q)))
                       end in
      if caller_ok && r_running i then
        let ph := match r_phase i with Up => Closing CStop | x => x end in
        Some (set_run s r (with_trigger (with_shut (with_phase i ph) (S (r_shut_req i)) (r_shut_ret i))))
      else None
  | ShutdownEnd r ok =>
      let i := run_ s r in
      if ok && (r_shut_ret i <? r_shut_req i) then
        Some (set_run s r (with_shut i (r_shut_req i) (S (r_shut_ret i))))
      else None
  | Sigint =>                                         (* meta_runner.py:70-71,93-97 *)
      match guard s with
      | Some r =>
          let i := run_ s r in
          let ph := match r_phase i with Up => Closing CInt | x => x end in
          Some (set_run s r (with_sigint (with_phase i ph)))
      | None => Some s
      end
  | AdoptCall c r p f =>                              (* service.py:144-153, meta_runner.py:41-54 *)
      match p_st (pay s p) with
      | PUnknown =>
          let st := match r_phase (run_ s r) with Idle | Rejected => PQueued | _ => PReg end in
          Some (set_pay s p (mkP st f r OrAdopt 0 0 (p_starts (pay s p)) (p_cancels (pay s p)) (p_cleans (pay s p)) true false))
      | _ => None
      end
  | AdoptEnd p ok =>
      let i := pay s p in
      if p_adopting i && (ok || phase_ended (r_phase (run_ s (p_owner i)))) then
        Some (set_pay s p (mkP (p_st i) (p_flav i) (p_owner i) (p_origin i) (p_tid i) (p_loop i)
                               (p_starts i) (p_cancels i) (p_cleans i) false (p_exec_ret i)))
      else None
  | NewService c sv f =>                              (* service.py:38-48,89-104 *)
      match p_st (pay s sv) with
      | PUnknown => Some (set_pay s sv (mkP PUnit f 0 OrService 0 0 (p_starts (pay s sv)) (p_cancels (pay s sv)) (p_cleans (pay s sv)) false false))
      | _ => None
      end
  | DropService sv =>
      match p_st (pay s sv) with
      | PUnit => Some (set_pay s sv (with_st (pay s sv) PDropped))
      | _ => None
      end
  | Start p f tid loop other args_ok =>
      let i := pay s p in
      let owner := match p_st i with
                   | PUnit => match guard s with Some g => Some g | None => None end
                   | PReg | PExecPending => Some (p_owner i)
                   | _ => None
                   end in
      match owner with
      | None => None
      | Some r =>
          let ri := run_ s r in
          if flav_eqb f (p_flav i) && args_ok && may_start ri f then
            let started := mkP PRun f r (p_origin i) tid loop (S (p_starts i)) (p_cancels i) (p_cleans i)
                               (p_adopting i) (p_exec_ret i) in
            if coroutine f then
              (* asyncio_runner.py:26-35, trio_runner.py:30-46,58-72: one loop, one thread per flavour *)
              if (negb (loop =? 0)) && (other =? 0) && negb (mem tid (thr_tids s)) then
                match home ri f with
                | Some (t, l) =>
                    if (t =? tid) && (l =? loop) then Some (set_pay s p started) else None
                | None =>
                    let clash := match f with
                                 | Aio => home_tid (r_home_trio ri) tid
                                 | _ => home_tid (r_home_aio ri) tid
                                 end in
                    if clash then None
                    else Some (set_pay (set_run s r (set_home ri f (tid, loop))) p started)
                end
              else None
            else
              match p_origin i with
              | OrExec caller =>                      (* thread_runner.py:30-34: runs in the caller's thread *)
                  if caller =? tid then Some (set_pay s p started) else None
              | _ =>                                  (* thread_runner.py:24-28: a thread of its own *)
                  if (loop =? 0) && negb (mem tid (thr_tids s))
                     && negb (home_tid (r_home_aio ri) tid) && negb (home_tid (r_home_trio ri) tid)
                  then Some (set_pay (set_thr s (tid :: thr_tids s)) p started)
                  else None
              end
          else None
      end
  | Step p tid =>
      let i := pay s p in
      match p_st i with
      | PRun =>
          if (p_tid i =? tid)
             && (negb (coroutine (p_flav i)) || may_act (run_ s (p_owner i)) (p_flav i))
          then Some s else None
      | _ => None
      end
  | Enter p =>
      let i := pay s p in
      match p_st i with
      | PRun =>
          if mem p (inside s) then None
          else if coroutine (p_flav i)
                  && (busy s (p_owner i) (p_flav i) || negb (may_act (run_ s (p_owner i)) (p_flav i)))
          then None
          else Some (set_inside s (p :: inside s))
      | _ => None
      end
  | Exit p =>
      if mem p (inside s) then Some (set_inside s (remove1 p (inside s))) else None
  | Finish p o =>
      let i := pay s p in
      match p_st i with
      | PRun =>
          let r := p_owner i in
          let ri := run_ s r in
          if (coroutine (p_flav i) && negb (may_act ri (p_flav i))) || mem p (inside s) then None
          else
            let s1 := set_pay s p (with_st i (PDone o)) in
            if is_exec (p_origin i) || negb (phase_live (r_phase ri)) then Some s1
            else
              Some (set_run s1 r (finish_rec ri p (p_flav i) o))
      | _ => None
      end
  | Cancelled p =>                                    (* asyncio_runner.py:55-73, trio_runner.py:70-74 *)
      let i := pay s p in
      match p_st i with
      | PRun =>
          if coroutine (p_flav i) && may_clean (run_ s (p_owner i)) (p_flav i) && negb (mem p (inside s)) then
            Some (set_pay s p (mkP PCanc (p_flav i) (p_owner i) (p_origin i) (p_tid i) (p_loop i)
                                   (p_starts i) (S (p_cancels i)) (p_cleans i) (p_adopting i) (p_exec_ret i)))
          else None
      | _ => None
      end
  | CleanStep p =>
      match p_st (pay s p) with
      | PCanc => if may_clean (run_ s (p_owner (pay s p))) (p_flav (pay s p)) then Some s else None
      | _ => None
      end
  | CleanupDone p =>
      let i := pay s p in
      match p_st i with
      | PCanc =>
          if may_clean (run_ s (p_owner i)) (p_flav i) then
            Some (set_pay s p (mkP PClean (p_flav i) (p_owner i) (p_origin i) (p_tid i) (p_loop i)
                                   (p_starts i) (p_cancels i) (S (p_cleans i)) (p_adopting i) (p_exec_ret i)))
          else None
      | _ => None
      end
  | ExecCall c tid r p f =>                           (* service.py:133-142, meta_runner.py:56-63 *)
      match p_st (pay s p) with
      | PUnknown =>
          (* property domain: the runtime is running; calls issued while it is going down are admitted
             and may be broken off (ExecAbort) *)
          if negb (match r_phase (run_ s r) with Idle | Rejected => true | _ => false end) then
            Some (set_pay s p (mkP PExecPending f r (OrExec tid) 0 0 (p_starts (pay s p)) (p_cancels (pay s p)) (p_cleans (pay s p)) false false))
          else None
      | _ => None
      end
  | ExecAbort p =>                                    (* the runtime is going down: the pending call is broken off *)
      let i := pay s p in
      if is_exec (p_origin i) && negb (p_exec_ret i) && negb (phase_up (r_phase (run_ s (p_owner i)))) then
        Some (set_pay s p (mkP (p_st i) (p_flav i) (p_owner i) (p_origin i) (p_tid i) (p_loop i)
                               (p_starts i) (p_cancels i) (p_cleans i) (p_adopting i) true))
      else None
  | ExecEnd p o same =>
      let i := pay s p in
      match p_st i with
      | PDone o' =>
          if is_exec (p_origin i) && negb (p_exec_ret i) && outcome_eqb o o'
             && same then                            (* asyncio_runner.py:29-43: the very object, all flavours *)
            Some (set_pay s p (mkP (p_st i) (p_flav i) (p_owner i) (p_origin i) (p_tid i) (p_loop i)
                                   (p_starts i) (p_cancels i) (p_cleans i) (p_adopting i) true))
          else None
      | _ => None
      end
  end.

(* ---- what the runtime still owes (liveness, in the form a model can carry) ---- *)
Inductive oblig :=
| OStart (p : nat) | OCancel (p : nat) | OClean (p : nat) | OAcceptEnd (r : nat)
| OShutdownEnd (r : nat) | OAdoptEnd (p : nat) | OExecEnd (p : nat).

Definition owed_pay (s : rt) (q : nat) : list oblig :=
  let i := pay s q in
  let ph := r_phase (run_ s (p_owner i)) in
  (if p_adopting i && negb (phase_ended ph) then [OAdoptEnd q] else []) ++
  match p_st i with
  | PReg => if phase_up ph then [OStart q] else []
  | PExecPending => if phase_up ph then [OStart q] else []
  | PUnit =>
      match guard s with
      | Some g => if phase_up (r_phase (run_ s g)) && r_running (run_ s g) then [OStart q] else []
      | None => []
      end
  | PRun => if unsettled i && phase_closing ph then [OCancel q] else []
  | PCanc => if unsettled i && phase_closing ph then [OClean q] else []
  | PDone _ => if is_exec (p_origin i) && negb (p_exec_ret i) && phase_up ph then [OExecEnd q] else []
  | _ => []
  end.

Definition owed_run (s : rt) (r : nat) : list oblig :=
  let i := run_ s r in
  (match r_phase i with Closing _ | Rejected => [OAcceptEnd r] | _ => [] end) ++
  (if r_shut_ret i <? r_shut_req i then [OShutdownEnd r] else []).

Definition owed (s : rt) : list oblig :=
  flat_map (owed_pay s) (pids s) ++ flat_map (owed_run s) (rids s).

Definition quiescent (s : rt) : bool := match owed s with [] => true | _ => false end.

Definition step (s : rt) (e : event) : option rt :=
  match e with
  | Quiesce => if quiescent s then Some s else None
  | _ => step_core s e
  end.

Fixpoint run (s : rt) (tr : list event) : option rt :=
  match tr with
  | [] => Some s
  | e :: r => match step s e with Some s' => run s' r | None => None end
  end.

(* index of the first rejected event, for diagnostics *)
Fixpoint first_reject (s : rt) (tr : list event) (i : nat) : option nat :=
  match tr with
  | [] => None
  | e :: r => match step s e with Some s' => first_reject s' r (S i) | None => Some i end
  end.

